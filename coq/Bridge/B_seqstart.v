(* Bridge: translated sequence_start.py = Model.SeqStart, for all draw scripts / arguments *)
From EO Require Import Prelude.Py.
Require EO.Gen.G_sequence_start EO.Gen.G_eo_numeric_limits EO.Model.SeqStart EO.Model.Limits.
Module G := EO.Gen.G_sequence_start.
Module M := EO.Model.SeqStart.
Open Scope Z_scope.
Set Default Timeout 60.

Lemma bridge_account_from_value v : G.AccountReplySequenceStart_from_value v = M.account_from_value v.
Proof. reflexivity. Qed.
Lemma bridge_account_generate d : G.AccountReplySequenceStart_generate d = M.account_generate d.
Proof. unfold G.AccountReplySequenceStart_generate, M.account_generate. destruct (randrange 0 240 d) as [[r t]|e]; reflexivity. Qed.
Lemma bridge_init_from_init_values a b : G.InitSequenceStart_from_init_values a b = M.init_from_init_values a b.
Proof. reflexivity. Qed.
Lemma bridge_init_generate d : G.InitSequenceStart_generate d = M.init_generate d.
Proof.
  unfold G.InitSequenceStart_generate, M.init_generate, M.seq1_max, M.seq1_min, rbind.
  destruct (randrange 0 1757 d) as [[v t]|e]; [|reflexivity].
  change EO.Gen.G_eo_numeric_limits.CHAR_MAX with EO.Model.Limits.CHAR_MAX. cbv zeta.
  destruct (randrange _ _ t) as [[r t']|e]; reflexivity.
Qed.
Lemma bridge_ping_from_ping_values a b : G.PingSequenceStart_from_ping_values a b = M.ping_from_ping_values a b.
Proof. reflexivity. Qed.
Lemma bridge_ping_generate d : G.PingSequenceStart_generate d = M.ping_generate d.
Proof.
  unfold G.PingSequenceStart_generate, M.ping_generate, rbind.
  destruct (randrange 0 1757 d) as [[v t]|e]; [|reflexivity].
  change EO.Gen.G_eo_numeric_limits.CHAR_MAX with EO.Model.Limits.CHAR_MAX. cbv zeta.
  destruct (randrange _ _ t) as [[r t']|e]; reflexivity.
Qed.

Require Import EO.Properties.C12.
Theorem C12_init_src : forall draws v s1 s2 rest, G.InitSequenceStart_generate draws = Ok ((v, s1, s2), rest) ->
  0 <= v < 1757 /\ 0 <= s1 <= 252 /\ 0 <= s2 <= 252 /\ G.InitSequenceStart_from_init_values s1 s2 = (v, s1, s2).
Proof. intros draws v s1 s2 rest. rewrite bridge_init_generate, bridge_init_from_init_values. apply C12_init. Qed.
Theorem C12_never_fails_src : forall draws,
  G.AccountReplySequenceStart_generate draws <> Err EValue /\ G.InitSequenceStart_generate draws <> Err EValue /\
  G.PingSequenceStart_generate draws <> Err EValue.
Proof. intros. rewrite bridge_account_generate, bridge_init_generate, bridge_ping_generate. apply C12_never_fails. Qed.
Print Assumptions C12_init_src.
