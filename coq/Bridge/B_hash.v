(* Bridge: translated server_verification_utils.py = Model.Hash, for all integers *)
From EO Require Import Prelude.Py.
Require EO.Gen.G_server_verification_utils EO.Model.Hash.
Module G := EO.Gen.G_server_verification_utils.
Module M := EO.Model.Hash.
Open Scope Z_scope.
Set Default Timeout 60.

Lemma bridge_u_mod a b : G.u_mod a b = M.u_mod a b.
Proof.
  unfold G.u_mod, M.u_mod. cbv zeta.
  destruct (a <? 0); destruct (a mod b =? 0); cbn [andb negb]; reflexivity.
Qed.

Lemma bridge_server_verification_hash c : G.server_verification_hash c = M.server_verification_hash c.
Proof.
  unfold G.server_verification_hash, M.server_verification_hash. cbv zeta.
  rewrite !bridge_u_mod. reflexivity.
Qed.

Require Import EO.Properties.C11.
Theorem C11_equals_client_src : forall c, 0 <= c < 16194277 -> G.server_verification_hash c = M.client_hash c.
Proof. intros c H. rewrite bridge_server_verification_hash. now apply C11_equals_client. Qed.
Theorem C11_range_src : forall c, 0 <= c <= 11092110 -> 0 <= G.server_verification_hash c < 4097152081.
Proof. intros c H. rewrite bridge_server_verification_hash. now apply C11_range. Qed.
Print Assumptions C11_equals_client_src.
