(* Bridge: the translated eo_writer.py (Gen/G_eo_writer.v, class EoWriter) equals the hand-written model
   Model/Writer.v, member by member, for ALL states and arguments (modulo the isomorphism abs/conc between the
   generated record and M.wstate).  No hypotheses.  A member that can raise returns (state, res unit) exactly like
   the model's wres: on Err the state is the state at the raise (always the initial one here).  A member that
   cannot raise returns (state, unit); okW turns it into the model's shape. *)
From EO Require Import Prelude.Py Prelude.PyStr.
Require EO.Gen.G_eo_writer EO.Model.Writer EO.Model.Limits EO.Bridge.B_number EO.Bridge.B_string.
Module G := EO.Gen.G_eo_writer.
Module M := EO.Model.Writer.
Module GL := EO.Gen.G_eo_numeric_limits.
Module ML := EO.Model.Limits.
Module BN := EO.Bridge.B_number.
Module BS := EO.Bridge.B_string.
Open Scope Z_scope.
Set Default Timeout 60.

(* ---- the isomorphism ---- *)
Definition abs (g : G.EoWriter_st) : M.wstate := M.mkW (G.EoWriter_data g) (G.EoWriter__string_sanitization_mode g).
Definition conc (w : M.wstate) : G.EoWriter_st := G.mk_EoWriter_st (M.wdata w) (M.wsan w).
Lemma conc_abs g : conc (abs g) = g.  Proof. destruct g; reflexivity. Qed.
Lemma abs_conc w : abs (conc w) = w.  Proof. destruct w; reflexivity. Qed.

Definition concW (p : M.wres) : G.EoWriter_st * res unit := (conc (fst p), snd p).
Definition absW (p : G.EoWriter_st * res unit) : M.wres := (abs (fst p), snd p).
Definition okW (p : G.EoWriter_st * unit) : G.EoWriter_st * res unit := (fst p, Ok (snd p)).
Lemma absW_concW p : absW (concW p) = p.
Proof. destruct p as [w r]. unfold absW, concW. cbn [fst snd]. now rewrite abs_conc. Qed.

(* ---- proof automation: rewrite with the bridges of the callees, unfold the model, split on every condition and
   result, close by linear arithmetic (independent of the order of tests, the orientation of comparisons, ..) ---- *)
Ltac simp1 :=
  unfold concW, okW, conc, abs, M.w_add_byte, M.w_add_bytes, M.w_add_number, M.w_add_char, M.w_add_short, M.w_add_three,
    M.w_add_int, M.w_add_string, M.w_add_fixed_string, M.w_add_encoded_string, M.w_add_fixed_encoded_string,
    M.w_extend, M.w_set_san, M.initW, G.EoWriter_init, M.check_number_size, M.check_string_length, bytearray_append,
    ML.CHAR_MAX, ML.SHORT_MAX, ML.THREE_MAX, ML.INT_MAX;
  cbn [fst snd M.wdata M.wsan G.EoWriter_data G.EoWriter__string_sanitization_mode];
  cbv beta iota zeta.
Ltac simp := repeat (progress simp1).
Ltac case_if :=
  match goal with
  | |- context [if ?c then _ else _] => destruct c eqn:?
  | |- context [match ?c with Ok _ => _ | Err _ => _ end] => destruct c eqn:?
  end.
Ltac fin :=
  simp; repeat case_if;
  first [reflexivity | exfalso; lia | congruence | repeat (f_equal; simp; try lia); fail].
Ltac go := repeat (autorewrite with wr; simp; try case_if); fin.

#[export] Hint Rewrite BN.bridge_CHAR_MAX BN.bridge_SHORT_MAX BN.bridge_THREE_MAX BN.bridge_INT_MAX
  BN.bridge_encode_number BS.bridge_encode_string : wr.

(* ---- __init__, properties, __len__, to_bytearray ---- *)
Lemma bridge_init : abs G.EoWriter_init = M.initW.
Proof. fin. Qed.

Lemma bridge_get_mode g : G.EoWriter_string_sanitization_mode g = (g, M.wsan (abs g)).
Proof. destruct g as [d s]. unfold G.EoWriter_string_sanitization_mode. go. Qed.
#[export] Hint Rewrite bridge_get_mode : wr.

Lemma bridge_set_mode g b : G.EoWriter_set_string_sanitization_mode g b = (conc (M.w_set_san (abs g) b), tt).
Proof. destruct g as [d s]. unfold G.EoWriter_set_string_sanitization_mode. go. Qed.

Lemma bridge_len g : G.EoWriter___len__ g = (g, zlen (M.wdata (abs g))).
Proof. destruct g as [d s]. unfold G.EoWriter___len__. go. Qed.

Lemma bridge_to_bytearray g : G.EoWriter_to_bytearray g = (g, M.wdata (abs g)).
Proof. destruct g as [d s]. unfold G.EoWriter_to_bytearray. go. Qed.

(* ---- static helpers ---- *)
Lemma bridge_check_number_size n m : G.EoWriter__check_number_size n m = M.check_number_size n m.
Proof. unfold G.EoWriter__check_number_size. go. Qed.
#[export] Hint Rewrite bridge_check_number_size : wr.

Lemma bridge_encode_ansi s : G.EoWriter__encode_ansi s = cp_encode s.
Proof. reflexivity. Qed.
#[export] Hint Rewrite bridge_encode_ansi : wr.

Lemma bridge_check_string_length s len padded :
  G.EoWriter__check_string_length s len padded = M.check_string_length s len padded.
Proof. unfold G.EoWriter__check_string_length. destruct padded; go. Qed.
#[export] Hint Rewrite bridge_check_string_length : wr.

Lemma skipn_all2 {A} n (l : list A) : (length l <= n)%nat -> skipn n l = [].
Proof. revert n; induction l as [|x l IH]; intros [|n] H; cbn [skipn length] in *; try reflexivity; try lia. apply IH. lia. Qed.

Lemma firstn_app_exact {A} (a b : list A) n : n = length a -> firstn n (a ++ b) = a.
Proof. intros ->. rewrite firstn_app, Nat.sub_diag, firstn_all. cbn [firstn]. apply app_nil_r. Qed.

(* _add_padding: bytearray(length), then the two slice assignments; equal to the model for every length *)
Lemma pad_slices (bs : list Z) len :
  let r1 := slice_assign (zrepeat 0 len) 0 (zlen bs) bs in
  slice_assign r1 (zlen bs) (zlen r1) (zrepeat 255 (len - zlen bs)) = bs ++ zrepeat 255 (len - zlen bs).
Proof.
  cbv zeta. set (r0 := zrepeat 0 len).
  assert (E1 : slice_assign r0 0 (zlen bs) bs = bs ++ skipn (length bs) r0).
  { unfold slice_assign. cbn [Z.to_nat firstn app]. do 2 f_equal. pose proof (zlen_nonneg bs). unfold zlen in *. lia. }
  rewrite E1. set (r1 := bs ++ skipn (length bs) r0). unfold slice_assign.
  assert (L1 : (length bs <= length r1)%nat) by (unfold r1; rewrite app_length; lia).
  replace (Z.to_nat (zlen bs)) with (length bs) by (unfold zlen; lia).
  replace (Z.to_nat (Z.max (zlen bs) (zlen r1))) with (length r1) by (unfold zlen; lia).
  rewrite (skipn_all2 (length r1) r1) by lia. rewrite app_nil_r.
  unfold r1. rewrite firstn_app_exact by reflexivity. reflexivity.
Qed.

Lemma bridge_add_padding bs len : G.EoWriter__add_padding bs len = M.add_padding bs len.
Proof.
  unfold G.EoWriter__add_padding, M.add_padding. repeat case_if; try reflexivity; try (exfalso; lia).
  all: cbv beta iota zeta; first [reflexivity | apply pad_slices | repeat (f_equal; try lia); fail].
Qed.
#[export] Hint Rewrite bridge_add_padding : wr.

(* _sanitize_string: the in-place loop is a map *)
Definition san_byte (b : Z) : Z := if b =? 255 then 121 else b.

Lemma san_body_step done c rest :
  G.EoWriter__sanitize_string_body2 (Z.of_nat (length done)) (done ++ c :: rest) = done ++ san_byte c :: rest.
Proof.
  unfold G.EoWriter__sanitize_string_body2, san_byte. cbv beta iota zeta. rewrite zget_app_mid.
  destruct (c =? 255); [rewrite zset_app_mid|]; reflexivity.
Qed.

Lemma san_loop : forall rest done,
  for_loop (length rest) (Z.of_nat (length done)) G.EoWriter__sanitize_string_body2 (done ++ rest)
  = done ++ map san_byte rest.
Proof.
  induction rest as [|c rest IH]; intros done; cbn [length for_loop map]; [reflexivity|].
  rewrite san_body_step.
  replace (Z.of_nat (length done) + 1) with (Z.of_nat (length (done ++ [san_byte c])))
    by (rewrite app_length; cbn [length]; lia).
  replace (done ++ san_byte c :: rest) with ((done ++ [san_byte c]) ++ rest) by (rewrite <- app_assoc; reflexivity).
  rewrite IH, <- app_assoc. reflexivity.
Qed.

Lemma san_range bs : for_range 0 (zlen bs) G.EoWriter__sanitize_string_body2 bs = map san_byte bs.
Proof.
  unfold for_range. replace (Z.to_nat (zlen bs - 0)) with (length bs) by (unfold zlen; lia).
  pose proof (san_loop bs []) as H. cbn [app length] in H. change (Z.of_nat 0) with 0 in H. exact H.
Qed.

Lemma bridge_sanitize_string g bs : G.EoWriter__sanitize_string g bs = (g, M.sanitize (M.wsan (abs g)) bs).
Proof.
  destruct g as [d [|]]; unfold G.EoWriter__sanitize_string, M.sanitize; autorewrite with wr; simp; cbn [negb];
    rewrite ?san_range; try reflexivity;
    repeat case_if; try discriminate; rewrite ?san_range; reflexivity.
Qed.
#[export] Hint Rewrite bridge_sanitize_string : wr.

(* ---- raw bytes ---- *)
Lemma bridge_add_byte g v : G.EoWriter_add_byte g v = concW (M.w_add_byte (abs g) v).
Proof. destruct g as [d s]. unfold G.EoWriter_add_byte. go. Qed.

Lemma bridge_add_bytes g bs : okW (G.EoWriter_add_bytes g bs) = concW (M.w_add_bytes (abs g) bs).
Proof. destruct g as [d s]. unfold G.EoWriter_add_bytes. go. Qed.

Lemma add_bytes_eq g bs : G.EoWriter_add_bytes g bs = (conc (M.w_extend (abs g) bs), tt).
Proof. destruct g as [d s]. unfold G.EoWriter_add_bytes. go. Qed.
#[export] Hint Rewrite add_bytes_eq : wr.

Lemma bridge_add_bytes_with_length g bs k :
  G.EoWriter__add_bytes_with_length g bs k = (conc (M.w_extend (abs g) (slice bs 0 k)), tt).
Proof. destruct g as [d s]. unfold G.EoWriter__add_bytes_with_length. go. Qed.
#[export] Hint Rewrite bridge_add_bytes_with_length : wr.

(* ---- numbers ---- *)
Lemma bridge_add_char g n : G.EoWriter_add_char g n = concW (M.w_add_char (abs g) n).
Proof. destruct g as [d s]. unfold G.EoWriter_add_char. go. Qed.
Lemma bridge_add_short g n : G.EoWriter_add_short g n = concW (M.w_add_short (abs g) n).
Proof. destruct g as [d s]. unfold G.EoWriter_add_short. go. Qed.
Lemma bridge_add_three g n : G.EoWriter_add_three g n = concW (M.w_add_three (abs g) n).
Proof. destruct g as [d s]. unfold G.EoWriter_add_three. go. Qed.
Lemma bridge_add_int g n : G.EoWriter_add_int g n = concW (M.w_add_int (abs g) n).
Proof. destruct g as [d s]. unfold G.EoWriter_add_int. go. Qed.

(* ---- strings ---- *)
Lemma bridge_add_string g s : okW (G.EoWriter_add_string g s) = concW (M.w_add_string (abs g) s).
Proof. destruct g as [d sm]. unfold G.EoWriter_add_string. go. Qed.

Lemma bridge_add_encoded_string g s : okW (G.EoWriter_add_encoded_string g s) = concW (M.w_add_encoded_string (abs g) s).
Proof. destruct g as [d sm]. unfold G.EoWriter_add_encoded_string. go. Qed.

Lemma bridge_add_fixed_string g s len padded :
  G.EoWriter_add_fixed_string g s len padded = concW (M.w_add_fixed_string (abs g) s len padded).
Proof. destruct g as [d sm]. unfold G.EoWriter_add_fixed_string. go. Qed.

Lemma bridge_add_fixed_encoded_string g s len padded :
  G.EoWriter_add_fixed_encoded_string g s len padded = concW (M.w_add_fixed_encoded_string (abs g) s len padded).
Proof. destruct g as [d sm]. unfold G.EoWriter_add_fixed_encoded_string. go. Qed.

(* ---- the translated class run over a history = the model's wrun ---- *)
Definition gstep (g : G.EoWriter_st) (o : M.wop) : G.EoWriter_st * res unit :=
  match o with
  | M.WByte v => G.EoWriter_add_byte g v
  | M.WBytes bs => okW (G.EoWriter_add_bytes g bs)
  | M.WChar n => G.EoWriter_add_char g n
  | M.WShort n => G.EoWriter_add_short g n
  | M.WThree n => G.EoWriter_add_three g n
  | M.WInt n => G.EoWriter_add_int g n
  | M.WString s => okW (G.EoWriter_add_string g s)
  | M.WFixed s len p => G.EoWriter_add_fixed_string g s len p
  | M.WEnc s => okW (G.EoWriter_add_encoded_string g s)
  | M.WFixedEnc s len p => G.EoWriter_add_fixed_encoded_string g s len p
  | M.WSetSan b => okW (G.EoWriter_set_string_sanitization_mode g b)
  end.

Lemma bridge_step g o : gstep g o = concW (M.wstep (abs g) o).
Proof.
  destruct o; cbn [gstep M.wstep].
  - apply bridge_add_byte.
  - apply bridge_add_bytes.
  - apply bridge_add_char.
  - apply bridge_add_short.
  - apply bridge_add_three.
  - apply bridge_add_int.
  - apply bridge_add_string.
  - apply bridge_add_fixed_string.
  - apply bridge_add_encoded_string.
  - apply bridge_add_fixed_encoded_string.
  - rewrite bridge_set_mode. reflexivity.
Qed.

Fixpoint grun (g : G.EoWriter_st) (ops : list M.wop) : G.EoWriter_st * list (res unit) :=
  match ops with
  | [] => (g, [])
  | o :: t => let '(g', r) := gstep g o in let '(g'', rs) := grun g' t in (g'', r :: rs)
  end.

Theorem writer_bridge_run : forall ops g,
  (abs (fst (grun g ops)), snd (grun g ops)) = M.wrun (abs g) ops.
Proof.
  induction ops as [|o ops IH]; intros g; cbn [grun M.wrun]; [reflexivity|].
  rewrite bridge_step. destruct (M.wstep (abs g) o) as [w r]. unfold concW. cbn [fst snd].
  specialize (IH (conc w)). rewrite abs_conc in IH.
  destruct (grun (conc w) ops) as [g'' rs]. destruct (M.wrun w ops) as [w'' rs'].
  cbn [fst snd] in *. congruence.
Qed.

Theorem writer_bridge_output : forall ops,
  snd (G.EoWriter_to_bytearray (fst (grun G.EoWriter_init ops))) = M.wdata (fst (M.wrun M.initW ops)).
Proof.
  intros ops. rewrite bridge_to_bytearray. cbn [snd].
  pose proof (writer_bridge_run ops G.EoWriter_init) as H. rewrite bridge_init in H. rewrite <- H. reflexivity.
Qed.

Print Assumptions writer_bridge_run.
Print Assumptions writer_bridge_output.
Print Assumptions bridge_len.
Print Assumptions bridge_get_mode.
Print Assumptions bridge_add_padding.
