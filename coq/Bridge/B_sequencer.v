(* Bridge: translated packet_sequencer.py simulates Model.Sequencer step for step *)
From EO Require Import Prelude.Py.
Require EO.Gen.G_packet_sequencer EO.Model.Sequencer.
Module G := EO.Gen.G_packet_sequencer.
Module M := EO.Model.Sequencer.
Open Scope Z_scope.
Set Default Timeout 60.

Definition abs (g : G.PacketSequencer_st) : M.seqr := M.mk_seqr (G.PacketSequencer__start g) (G.PacketSequencer__counter g).

Lemma bridge_init v : abs (G.PacketSequencer_init v) = M.seqr_init v.
Proof. reflexivity. Qed.
Lemma bridge_next g : abs (fst (G.PacketSequencer_next_sequence g)) = fst (M.next_sequence (abs g)) /\
  snd (G.PacketSequencer_next_sequence g) = snd (M.next_sequence (abs g)).
Proof. destruct g as [s c]. split; reflexivity. Qed.
Lemma bridge_set g v : abs (fst (G.PacketSequencer_set_sequence_start g v)) = M.set_sequence_start (abs g) v.
Proof. destruct g as [s c]. reflexivity. Qed.

(* the translated class run over a history *)
Fixpoint grun (g : G.PacketSequencer_st) (ops : list M.sop) : list Z :=
  match ops with
  | [] => []
  | M.Next :: t => let '(g', o) := G.PacketSequencer_next_sequence g in o :: grun g' t
  | M.SetStart v :: t => grun (fst (G.PacketSequencer_set_sequence_start g v)) t
  end.
Lemma bridge_run : forall ops g, grun g ops = M.run (abs g) ops.
Proof.
  induction ops as [|o ops IH]; intros g; cbn [grun M.run]; [reflexivity|]. destruct o as [|v].
  - destruct (bridge_next g) as [H1 H2].
    destruct (G.PacketSequencer_next_sequence g) as [g' o] eqn:E. cbn [fst snd] in *.
    destruct (M.next_sequence (abs g)) as [m' o'] eqn:E'. cbn [fst snd] in *. subst. f_equal. apply IH.
  - rewrite IH. now rewrite bridge_set.
Qed.

Require Import EO.Properties.C13.
Theorem C13_stream_src : forall v0 ops, grun (G.PacketSequencer_init v0) ops = M.spec v0 0 ops.
Proof. intros. rewrite bridge_run, bridge_init. apply C13_stream. Qed.
Print Assumptions C13_stream_src.
