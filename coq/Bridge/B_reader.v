(* Bridge: the translated eo_reader.py (Gen/G_eo_reader.v, class EoReader) equals the hand-written model
   Model/Reader.v, member by member, for ALL states and arguments (modulo the isomorphism abs/conc between the
   generated record and M.rstate).  The only hypotheses are
     - 0 <= _chunk_start for _find_next_break_index and the mode setter (needed: see find_break_needs_nonneg),
     - -1 <= _next_break for next_chunk (it makes the new _chunk_start non-negative),
     - 0 <= length for get_bytes (not needed for the equation; it is the side condition under which both sides
       follow CPython, which would otherwise move the position backwards and slice with negative bounds).
   A member that can raise returns (state, res value); the lemmas show that the state is unchanged on Err. *)
From EO Require Import Prelude.Py Prelude.PyStr.
Require EO.Gen.G_eo_reader EO.Model.Reader EO.Bridge.B_number EO.Bridge.B_string.
Module G := EO.Gen.G_eo_reader.
Module M := EO.Model.Reader.
Module MS := EO.Model.StringEnc.
Module MN := EO.Model.Number.
Open Scope Z_scope.
Set Default Timeout 60.

(* ---- the isomorphism between the generated record and the model state ---- *)
Definition abs (g : G.EoReader_st) : M.rstate :=
  M.mkR (G.EoReader__data g) (G.EoReader__position g) (G.EoReader__chunked_reading_mode g)
        (G.EoReader__chunk_start g) (G.EoReader__next_break g).
Definition conc (r : M.rstate) : G.EoReader_st :=
  G.mk_EoReader_st (M.rdata r) (M.rpos r) (M.rchunked r) (M.rcstart r) (M.rbrk r).
Lemma conc_abs g : conc (abs g) = g.  Proof. destruct g; reflexivity. Qed.
Lemma abs_conc r : abs (conc r) = r.  Proof. destruct r; reflexivity. Qed.

(* (state, value) pairs *)
Definition absP {A} (p : G.EoReader_st * A) : M.rstate * A := (abs (fst p), snd p).
Definition concP {A} (p : M.rstate * A) : G.EoReader_st * A := (conc (fst p), snd p).
Lemma absP_concP {A} (p : M.rstate * A) : absP (concP p) = p.
Proof. destruct p as [r a]. unfold absP, concP. cbn [fst snd]. now rewrite abs_conc. Qed.

(* ---- proof automation: rewrite with the bridges of the callees, expose both sides as explicit records, split
   on every condition, close by linear arithmetic.  Nothing here depends on the order of tests, the orientation of
   comparisons or the shape of arithmetic expressions in the source. ---- *)
Ltac simp1 :=
  unfold concP, conc, abs, M.r_read_byte, M.r_read_bytes, M.r_set_pos, M.r_get_byte, M.r_get_bytes, M.r_get_number,
    M.r_get_char, M.r_get_short, M.r_get_three, M.r_get_int, M.r_get_string, M.r_get_encoded_string,
    M.r_get_fixed_string, M.r_get_fixed_encoded_string, M.r_set_chunked, M.r_next_chunk, M.r_slice,
    M.initR, G.EoReader_init;
  cbn [fst snd M.rdata M.rpos M.rchunked M.rcstart M.rbrk G.EoReader__data G.EoReader__position
       G.EoReader__chunked_reading_mode G.EoReader__chunk_start G.EoReader__next_break];
  cbv beta iota zeta.
Ltac simp := repeat (progress simp1).
Ltac case_if :=
  match goal with
  | |- context [if ?c then _ else _] => destruct c eqn:?
  | |- context [match ?c with Some _ => _ | None => _ end] => destruct c eqn:?
  end.
Ltac fin :=
  unfold M.r_remaining; simp; repeat case_if;
  first [reflexivity | exfalso; lia | repeat (f_equal; simp; try lia); fail].
Ltac go := repeat (autorewrite with rd; simp); fin.

(* ---- __init__, properties ---- *)
Lemma bridge_init d : abs (G.EoReader_init d) = M.initR d.
Proof. fin. Qed.

Lemma bridge_position g : G.EoReader_position g = (g, M.rpos (abs g)).
Proof. destruct g as [d p c cs nb]. unfold G.EoReader_position. go. Qed.
#[export] Hint Rewrite bridge_position : rd.

Lemma bridge_get_chunked g : G.EoReader_chunked_reading_mode g = (g, M.rchunked (abs g)).
Proof. destruct g as [d p c cs nb]. unfold G.EoReader_chunked_reading_mode. go. Qed.
#[export] Hint Rewrite bridge_get_chunked : rd.

Lemma bridge_remaining g : G.EoReader_remaining g = (g, M.r_remaining (abs g)).
Proof. destruct g as [d p c cs nb]. unfold G.EoReader_remaining. go. Qed.
#[export] Hint Rewrite bridge_remaining : rd.

(* ---- _read_byte / _read_bytes ---- *)
Lemma bridge_read_byte g : G.EoReader__read_byte g = concP (M.r_read_byte (abs g)).
Proof. destruct g as [d p c cs nb]. unfold G.EoReader__read_byte. go. Qed.
#[export] Hint Rewrite bridge_read_byte : rd.

Lemma bridge_read_bytes g n : G.EoReader__read_bytes g n = concP (M.r_read_bytes (abs g) n).
Proof. destruct g as [d p c cs nb]. unfold G.EoReader__read_bytes. go. Qed.
#[export] Hint Rewrite bridge_read_bytes : rd.

Lemma bridge_get_byte g : G.EoReader_get_byte g = concP (M.r_get_byte (abs g)).
Proof. destruct g as [d p c cs nb]. unfold G.EoReader_get_byte. go. Qed.

Lemma bridge_get_bytes g n : 0 <= n -> G.EoReader_get_bytes g n = concP (M.r_get_bytes (abs g) n).
Proof. intros _. destruct g as [d p c cs nb]. unfold G.EoReader_get_bytes. go. Qed.

(* ---- numbers ---- *)
#[export] Hint Rewrite EO.Bridge.B_number.bridge_decode_number EO.Bridge.B_string.bridge_decode_string : rd.

Lemma bridge_get_char g : G.EoReader_get_char g = concP (M.r_get_char (abs g)).
Proof. destruct g as [d p c cs nb]. unfold G.EoReader_get_char. go. Qed.
Lemma bridge_get_short g : G.EoReader_get_short g = concP (M.r_get_short (abs g)).
Proof. destruct g as [d p c cs nb]. unfold G.EoReader_get_short. go. Qed.
Lemma bridge_get_three g : G.EoReader_get_three g = concP (M.r_get_three (abs g)).
Proof. destruct g as [d p c cs nb]. unfold G.EoReader_get_three. go. Qed.
Lemma bridge_get_int g : G.EoReader_get_int g = concP (M.r_get_int (abs g)).
Proof. destruct g as [d p c cs nb]. unfold G.EoReader_get_int. go. Qed.

(* ---- static helpers ---- *)
Lemma bridge_decode_ansi bs : G.EoReader__decode_ansi bs = cp_decode bs.
Proof. reflexivity. Qed.
#[export] Hint Rewrite bridge_decode_ansi : rd.

Lemma find_from_spec : forall l i, 0 <= i ->
  (find_from l 255 i = -1 /\ M.remove_padding l = l) \/
  (exists k, find_from l 255 i = i + Z.of_nat k /\ M.remove_padding l = firstn k l).
Proof.
  induction l as [|x l IH]; intros i Hi; cbn [find_from M.remove_padding].
  - left. split; reflexivity.
  - destruct (x =? 255).
    + right. exists O. split; [lia | reflexivity].
    + destruct (IH (i + 1)) as [[E R] | [k [E R]]]; [lia | |].
      * left. split; [exact E | now rewrite R].
      * right. exists (S k). split; [lia | cbn [firstn]; now rewrite R].
Qed.

Lemma bridge_remove_padding bs : G.EoReader__remove_padding bs = M.remove_padding bs.
Proof.
  unfold G.EoReader__remove_padding, find_byte.
  destruct (find_from_spec bs 0) as [[E R] | [k [E R]]]; [lia | |]; rewrite E, R; repeat case_if; try reflexivity; try lia.
  all: unfold slice; cbn [Z.to_nat skipn]; f_equal; lia.
Qed.
#[export] Hint Rewrite bridge_remove_padding : rd.

(* ---- strings ---- *)
Lemma bridge_get_string g : G.EoReader_get_string g = concP (M.r_get_string (abs g)).
Proof. destruct g as [d p c cs nb]. unfold G.EoReader_get_string. go. Qed.

Lemma bridge_get_fixed_string g n padded :
  G.EoReader_get_fixed_string g n padded =
  match M.r_get_fixed_string (abs g) n padded with
  | Ok (r', s) => (conc r', Ok s)
  | Err e => (g, Err e)
  end.
Proof. destruct g as [d p c cs nb]. unfold G.EoReader_get_fixed_string. go. Qed.

Lemma bridge_get_encoded_string g : G.EoReader_get_encoded_string g = concP (M.r_get_encoded_string (abs g)).
Proof. destruct g as [d p c cs nb]. unfold G.EoReader_get_encoded_string. go. Qed.

Lemma bridge_get_fixed_encoded_string g n padded :
  G.EoReader_get_fixed_encoded_string g n padded =
  match M.r_get_fixed_encoded_string (abs g) n padded with
  | Ok (r', s) => (conc r', Ok s)
  | Err e => (g, Err e)
  end.
Proof. destruct g as [d p c cs nb]. unfold G.EoReader_get_fixed_encoded_string. go. Qed.

(* ---- _find_next_break_index: the early-return loop ---- *)
Lemma find_ff_bounds : forall l i, i <= M.find_ff l i <= i + zlen l.
Proof.
  induction l as [|x l IH]; intros i; cbn [M.find_ff].
  - unfold zlen; cbn [length]; lia.
  - rewrite zlen_cons. destruct (x =? 255); [pose proof (zlen_nonneg l); lia | specialize (IH (i + 1)); lia].
Qed.

Lemma loop_found : forall n i d r, for_loop n i (G.EoReader__find_next_break_index_body1 d) (Some r) = Some r.
Proof. induction n as [|n IH]; intros; cbn [for_loop]; [reflexivity | apply IH]. Qed.

Lemma loop_search : forall rest done,
  for_loop (length rest) (Z.of_nat (length done)) (G.EoReader__find_next_break_index_body1 (done ++ rest)) None
  = (if M.find_ff rest (zlen done) <? zlen done + zlen rest then Some (M.find_ff rest (zlen done)) else None).
Proof.
  induction rest as [|c rest IH]; intros done; cbn [length for_loop M.find_ff].
  - replace (zlen done <? zlen done + zlen (@nil Z)) with false by (unfold zlen; cbn [length]; lia). reflexivity.
  - unfold G.EoReader__find_next_break_index_body1 at 2. cbv beta iota zeta.
    rewrite zget_app_mid. rewrite zlen_cons. destruct (c =? 255) eqn:E.
    + rewrite loop_found. fold (zlen done). pose proof (zlen_nonneg rest).
      replace (zlen done <? zlen done + (zlen rest + 1)) with true by lia. reflexivity.
    + replace (done ++ c :: rest) with ((done ++ [c]) ++ rest) by (rewrite <- app_assoc; reflexivity).
      replace (Z.of_nat (length done) + 1) with (Z.of_nat (length (done ++ [c])))
        by (rewrite app_length; cbn [length]; lia).
      rewrite IH. rewrite zlen_app. replace (zlen [c]) with 1 by reflexivity.
      replace (zlen done + 1 + zlen rest) with (zlen done + (zlen rest + 1)) by lia. reflexivity.
Qed.

Lemma firstn_skipn_len {A} (l : list A) n : (n <= length l)%nat -> length (firstn n l) = n /\ length (skipn n l) = (length l - n)%nat.
Proof. intros H. split; [apply firstn_length_le; exact H | apply skipn_length]. Qed.

Lemma bridge_find_next_break_index g : 0 <= G.EoReader__chunk_start g ->
  G.EoReader__find_next_break_index g = (g, M.find_break (G.EoReader__data g) (G.EoReader__chunk_start g)).
Proof.
  destruct g as [d p c cs nb]. cbn [G.EoReader__chunk_start G.EoReader__data]. intros Hcs.
  unfold G.EoReader__find_next_break_index, M.find_break, for_range.
  destruct (cs <=? zlen d) eqn:Hle.
  - assert (Hn : (Z.to_nat cs <= length d)%nat) by (unfold zlen in Hle; lia).
    destruct (firstn_skipn_len d (Z.to_nat cs) Hn) as [L1 L2].
    assert (Z1 : zlen (firstn (Z.to_nat cs) d) = cs) by (unfold zlen; rewrite L1; lia).
    assert (Z2 : zlen (skipn (Z.to_nat cs) d) = zlen d - cs) by (unfold zlen; rewrite L2; lia).
    pose proof (loop_search (skipn (Z.to_nat cs) d) (firstn (Z.to_nat cs) d)) as H.
    rewrite firstn_skipn in H. rewrite Z1, Z2, L1, L2 in H.
    replace (Z.of_nat (Z.to_nat cs)) with cs in H by lia.
    replace (Z.to_nat (zlen d - cs)) with (length d - Z.to_nat cs)%nat by (unfold zlen; lia).
    rewrite H.
    pose proof (find_ff_bounds (skipn (Z.to_nat cs) d) cs) as B. rewrite Z2 in B.
    destruct (M.find_ff (skipn (Z.to_nat cs) d) cs <? cs + (zlen d - cs)) eqn:F; [reflexivity|].
    f_equal. lia.
  - replace (Z.to_nat (zlen d - cs)) with O by lia. reflexivity.
Qed.

(* the hypothesis is needed: with a negative _chunk_start the Prelude reading of data[i] (no wraparound) and the
   model's find_break differ (CPython would wrap around and answer -1 here); such states are unreachable *)
Example find_break_needs_nonneg :
  snd (G.EoReader__find_next_break_index (G.mk_EoReader_st [0; 255] 0 false (-1) (-1))) = 1 /\
  M.find_break [0; 255] (-1) = 0.
Proof. split; reflexivity. Qed.

(* ---- chunked_reading_mode setter, next_chunk ---- *)
Lemma bridge_set_chunked g b : 0 <= G.EoReader__chunk_start g ->
  G.EoReader_set_chunked_reading_mode g b = (conc (M.r_set_chunked (abs g) b), tt).
Proof.
  destruct g as [d p c cs nb]. cbn [G.EoReader__chunk_start]. intros Hcs.
  unfold G.EoReader_set_chunked_reading_mode. simp. change (- (1)) with (-1).
  repeat case_if; try (exfalso; lia); rewrite ?bridge_find_next_break_index by exact Hcs; fin.
Qed.

Lemma bridge_next_chunk g : -1 <= G.EoReader__next_break g ->
  G.EoReader_next_chunk g =
  match M.r_next_chunk (abs g) with
  | Ok r' => (conc r', Ok tt)
  | Err e => (g, Err e)
  end.
Proof.
  destruct g as [d p c cs nb]. cbn [G.EoReader__next_break]. intros Hnb.
  unfold G.EoReader_next_chunk. autorewrite with rd. simp. pose proof (zlen_nonneg d).
  repeat case_if; try (exfalso; lia);
    rewrite ?bridge_find_next_break_index by (cbn [G.EoReader__chunk_start]; lia); simp;
    first [reflexivity | repeat (f_equal; simp; try lia); fail].
Qed.

(* ---- slice ---- *)
Lemma bridge_slice g index length :
  G.EoReader_slice g index length =
  (g, match M.r_slice (abs g) index length with Ok n => Ok (conc n) | Err e => Err e end).
Proof.
  destruct g as [d p c cs nb]. unfold G.EoReader_slice.
  destruct index as [i|]; destruct length as [l|]; go.
Qed.

(* ---- histories: the translated class run over a pool of readers = M.rrun ---- *)
(* the two hypotheses above as an invariant of model states; it holds initially and is preserved *)
Definition binv (r : M.rstate) : Prop := 0 <= M.rcstart r /\ -1 <= M.rbrk r.

Lemma binv_init d : binv (M.initR d).
Proof. unfold binv, M.initR. cbn [M.rcstart M.rbrk]. lia. Qed.

Lemma find_break_nonneg d cs : 0 <= cs -> 0 <= M.find_break d cs.
Proof.
  intros H. unfold M.find_break. destruct (cs <=? zlen d).
  - pose proof (find_ff_bounds (skipn (Z.to_nat cs) d) cs). lia.
  - apply zlen_nonneg.
Qed.

Definition gstep (g : G.EoReader_st) (o : M.rop) : G.EoReader_st * M.rout * option G.EoReader_st :=
  match o with
  | M.RByte => let '(g', v) := G.EoReader_get_byte g in (g', M.OZ v, None)
  | M.RBytes n => if n <? 0 then (g, M.OErr EUnexpected, None)
                  else let '(g', v) := G.EoReader_get_bytes g n in (g', M.OBytes v, None)
  | M.RChar => let '(g', v) := G.EoReader_get_char g in (g', M.OZ v, None)
  | M.RShort => let '(g', v) := G.EoReader_get_short g in (g', M.OZ v, None)
  | M.RThree => let '(g', v) := G.EoReader_get_three g in (g', M.OZ v, None)
  | M.RInt => let '(g', v) := G.EoReader_get_int g in (g', M.OZ v, None)
  | M.RString => let '(g', v) := G.EoReader_get_string g in (g', M.OStr v, None)
  | M.RFixed n p => match G.EoReader_get_fixed_string g n p with
                    | (g', Ok v) => (g', M.OStr v, None) | (g', Err e) => (g', M.OErr e, None) end
  | M.REnc => let '(g', v) := G.EoReader_get_encoded_string g in (g', M.OStr v, None)
  | M.RFixedEnc n p => match G.EoReader_get_fixed_encoded_string g n p with
                       | (g', Ok v) => (g', M.OStr v, None) | (g', Err e) => (g', M.OErr e, None) end
  | M.RSetChunked b => let '(g', _) := G.EoReader_set_chunked_reading_mode g b in (g', M.OUnit, None)
  | M.RGetChunked => let '(g', v) := G.EoReader_chunked_reading_mode g in (g', M.OBool v, None)
  | M.RRemaining => let '(g', v) := G.EoReader_remaining g in (g', M.OZ v, None)
  | M.RPosition => let '(g', v) := G.EoReader_position g in (g', M.OZ v, None)
  | M.RNextChunk => match G.EoReader_next_chunk g with
                    | (g', Ok _) => (g', M.OUnit, None) | (g', Err e) => (g', M.OErr e, None) end
  | M.RSlice i l => match G.EoReader_slice g i l with
                    | (g', Ok n) => (g', M.ONew, Some n) | (g', Err e) => (g', M.OErr e, None) end
  end.

Definition conc3 (x : M.rstate * M.rout * option M.rstate) : G.EoReader_st * M.rout * option G.EoReader_st :=
  let '(r, out, n) := x in (conc r, out, option_map conc n).

Lemma bridge_step g o : binv (abs g) -> gstep g o = conc3 (M.rstep (abs g) o).
Proof.
  intros [Hc Hb]. destruct o; cbn [gstep M.rstep].
  - rewrite bridge_get_byte. destruct (M.r_get_byte (abs g)) as [r' v]. reflexivity.
  - destruct (n <? 0) eqn:E; [cbn [conc3 option_map]; now rewrite conc_abs|].
    rewrite bridge_get_bytes by lia. destruct (M.r_get_bytes (abs g) n) as [r' v]. reflexivity.
  - rewrite bridge_get_char. destruct (M.r_get_char (abs g)) as [r' v]. reflexivity.
  - rewrite bridge_get_short. destruct (M.r_get_short (abs g)) as [r' v]. reflexivity.
  - rewrite bridge_get_three. destruct (M.r_get_three (abs g)) as [r' v]. reflexivity.
  - rewrite bridge_get_int. destruct (M.r_get_int (abs g)) as [r' v]. reflexivity.
  - rewrite bridge_get_string. destruct (M.r_get_string (abs g)) as [r' v]. reflexivity.
  - rewrite bridge_get_fixed_string. destruct (M.r_get_fixed_string (abs g) len padded) as [[r' v]|e];
      cbn [conc3 option_map]; [reflexivity | now rewrite conc_abs].
  - rewrite bridge_get_encoded_string. destruct (M.r_get_encoded_string (abs g)) as [r' v]. reflexivity.
  - rewrite bridge_get_fixed_encoded_string. destruct (M.r_get_fixed_encoded_string (abs g) len padded) as [[r' v]|e];
      cbn [conc3 option_map]; [reflexivity | now rewrite conc_abs].
  - rewrite bridge_set_chunked by (destruct g; exact Hc). reflexivity.
  - rewrite bridge_get_chunked. cbn [conc3 option_map]. now rewrite conc_abs.
  - rewrite bridge_remaining. cbn [conc3 option_map]. now rewrite conc_abs.
  - rewrite bridge_position. cbn [conc3 option_map]. now rewrite conc_abs.
  - rewrite bridge_next_chunk by (destruct g; exact Hb). destruct (M.r_next_chunk (abs g)) as [r'|e];
      cbn [conc3 option_map]; [reflexivity | now rewrite conc_abs].
  - rewrite bridge_slice. destruct (M.r_slice (abs g) index length) as [n|e];
      cbn [conc3 option_map]; now rewrite conc_abs.
Qed.

Lemma binv_set_pos r p : binv r -> binv (M.r_set_pos r p).
Proof. intros H. exact H. Qed.
Lemma binv_read_bytes r n : binv r -> binv (fst (M.r_read_bytes r n)).
Proof. intros H. exact H. Qed.
Lemma binv_read_byte r : binv r -> binv (fst (M.r_read_byte r)).
Proof. intros H. unfold M.r_read_byte. destruct (M.r_remaining r >? 0); exact H. Qed.

Lemma binv_step r o : binv r ->
  binv (fst (fst (M.rstep r o))) /\ (forall n, snd (M.rstep r o) = Some n -> binv n).
Proof.
  intros H. pose proof H as [Hc Hb].
  assert (R : forall n, binv (fst (M.r_read_bytes r n))) by (intros; now apply binv_read_bytes).
  destruct o; cbn [M.rstep];
    try (unfold M.r_get_char, M.r_get_short, M.r_get_three, M.r_get_int, M.r_get_number, M.r_get_string,
           M.r_get_encoded_string, M.r_get_bytes;
         match goal with |- context [M.r_read_bytes r ?k] =>
           specialize (R k); destruct (M.r_read_bytes r k) as [r' bs] end;
         cbn [fst snd] in *; split; [exact R | discriminate]).
  - pose proof (binv_read_byte r H) as B. unfold M.r_get_byte. destruct (M.r_read_byte r) as [r' v].
    cbn [fst snd] in *. split; [exact B | discriminate].
  - destruct (n <? 0); cbn [fst snd]; [split; [exact H | discriminate]|].
    unfold M.r_get_bytes. specialize (R n). destruct (M.r_read_bytes r n) as [r' bs].
    cbn [fst snd] in *. split; [exact R | discriminate].
  - unfold M.r_get_fixed_string. destruct (len <? 0); cbn [fst snd]; [split; [exact H | discriminate]|].
    specialize (R len). destruct (M.r_read_bytes r len) as [r' bs]. cbn [fst snd] in *. split; [exact R | discriminate].
  - unfold M.r_get_fixed_encoded_string. destruct (len <? 0); cbn [fst snd]; [split; [exact H | discriminate]|].
    specialize (R len). destruct (M.r_read_bytes r len) as [r' bs]. cbn [fst snd] in *. split; [exact R | discriminate].
  - cbn [fst snd]. split; [|discriminate]. unfold binv, M.r_set_chunked. cbn [M.rcstart M.rbrk].
    split; [exact Hc|]. destruct (M.rbrk r =? -1); [pose proof (find_break_nonneg (M.rdata r) (M.rcstart r) Hc); lia | exact Hb].
  - cbn [fst snd]. split; [exact H | discriminate].
  - cbn [fst snd]. split; [exact H | discriminate].
  - cbn [fst snd]. split; [exact H | discriminate].
  - unfold M.r_next_chunk. destruct (negb (M.rchunked r)); cbn [fst snd]; [split; [exact H | discriminate]|].
    split; [|discriminate]. unfold binv. cbn [M.rcstart M.rbrk]. pose proof (zlen_nonneg (M.rdata r)).
    assert (P : 0 <= (if M.rbrk r <? zlen (M.rdata r) then M.rbrk r + 1 else M.rbrk r))
      by (destruct (M.rbrk r <? zlen (M.rdata r)) eqn:E; lia).
    split; [exact P | pose proof (find_break_nonneg (M.rdata r) _ P); lia].
  - destruct (M.r_slice r index length) as [n|e] eqn:E; cbn [fst snd]; (split; [exact H|]); [|discriminate].
    intros n' [= <-]. unfold M.r_slice in E.
    repeat match type of E with (if ?c then _ else _) = _ => destruct c; [discriminate|] end.
    injection E as <-. apply binv_init.
Qed.

Fixpoint grun (pool : list G.EoReader_st) (ops : list (nat * M.rop)) : list G.EoReader_st * list M.rout :=
  match ops with
  | [] => (pool, [])
  | (h, o) :: t =>
    match nth_error pool h with
    | None => let '(p, outs) := grun pool t in (p, M.OErr EType :: outs)
    | Some g =>
      let '(g', out, newg) := gstep g o in
      let pool' := M.upd pool h g' in
      let pool' := match newg with Some n => pool' ++ [n] | None => pool' end in
      let '(p, outs) := grun pool' t in (p, out :: outs)
    end
  end.

Lemma map_upd {A B} (f : A -> B) : forall l n v, map f (M.upd l n v) = M.upd (map f l) n (f v).
Proof. induction l as [|x l IH]; intros [|n] v; cbn [M.upd map]; try reflexivity. now rewrite IH. Qed.

Lemma Forall_upd' {A} (P : A -> Prop) : forall l n v, Forall P l -> P v -> Forall P (M.upd l n v).
Proof.
  induction l as [|x l IH]; intros [|n] v Hl Hv; cbn [M.upd]; try exact Hl; inversion Hl; subst; constructor; auto.
Qed.

Lemma map_conc_abs pool : map conc (map abs pool) = pool.
Proof. rewrite map_map. rewrite <- (map_id pool) at 2. apply map_ext. apply conc_abs. Qed.

Theorem reader_bridge_run : forall ops pool, Forall binv (map abs pool) ->
  grun pool ops = (map conc (fst (M.rrun (map abs pool) ops)), snd (M.rrun (map abs pool) ops)).
Proof.
  induction ops as [|[h o] ops IH]; intros pool Hinv; cbn [grun M.rrun].
  - cbn [fst snd]. now rewrite map_conc_abs.
  - rewrite nth_error_map. destruct (nth_error pool h) as [g|] eqn:Hn; cbn [option_map].
    + assert (Hg : binv (abs g)).
      { rewrite Forall_forall in Hinv. apply Hinv. apply in_map. apply (nth_error_In _ _ Hn). }
      rewrite (bridge_step g o Hg). destruct (binv_step (abs g) o Hg) as [I1 I2].
      destruct (M.rstep (abs g) o) as [[r' out] newr]. cbn [fst snd conc3] in *.
      set (gpool := match option_map conc newr with Some n => M.upd pool h (conc r') ++ [n] | None => M.upd pool h (conc r') end).
      set (mpool := match newr with Some n => M.upd (map abs pool) h r' ++ [n] | None => M.upd (map abs pool) h r' end).
      assert (E : map abs gpool = mpool).
      { unfold gpool, mpool. destruct newr as [n|]; cbn [option_map].
        - rewrite map_app, map_upd. cbn [map]. now rewrite !abs_conc.
        - rewrite map_upd. now rewrite abs_conc. }
      assert (Hinv' : Forall binv (map abs gpool)).
      { rewrite E. unfold mpool. destruct newr as [n|].
        - apply Forall_app. split; [apply Forall_upd'; assumption | constructor; [apply I2; reflexivity | constructor]].
        - apply Forall_upd'; assumption. }
      rewrite (IH gpool Hinv'). rewrite E. destruct (M.rrun mpool ops) as [p outs]. reflexivity.
    + rewrite (IH pool Hinv). destruct (M.rrun (map abs pool) ops) as [p outs]. reflexivity.
Qed.

Corollary reader_bridge_run_init : forall ops d,
  grun [G.EoReader_init d] ops = (map conc (fst (M.rrun [M.initR d] ops)), snd (M.rrun [M.initR d] ops)).
Proof.
  intros ops d. pose proof (reader_bridge_run ops [G.EoReader_init d]) as H. cbn [map] in H.
  rewrite bridge_init in H. apply H. constructor; [apply binv_init | constructor].
Qed.

(* ---- summary in the "abs (G ...) = M ... (abs ..)" form ---- *)
Theorem reader_bridge :
  (forall d, abs (G.EoReader_init d) = M.initR d) /\
  (forall g, absP (G.EoReader_get_byte g) = M.r_get_byte (abs g)) /\
  (forall g n, 0 <= n -> absP (G.EoReader_get_bytes g n) = M.r_get_bytes (abs g) n) /\
  (forall g, absP (G.EoReader_get_char g) = M.r_get_char (abs g)) /\
  (forall g, absP (G.EoReader_get_short g) = M.r_get_short (abs g)) /\
  (forall g, absP (G.EoReader_get_three g) = M.r_get_three (abs g)) /\
  (forall g, absP (G.EoReader_get_int g) = M.r_get_int (abs g)) /\
  (forall g, absP (G.EoReader_get_string g) = M.r_get_string (abs g)) /\
  (forall g, absP (G.EoReader_get_encoded_string g) = M.r_get_encoded_string (abs g)) /\
  (forall g, absP (G.EoReader_remaining g) = (abs g, M.r_remaining (abs g))) /\
  (forall g, absP (G.EoReader_position g) = (abs g, M.rpos (abs g))) /\
  (forall g, absP (G.EoReader_chunked_reading_mode g) = (abs g, M.rchunked (abs g))) /\
  (forall g b, 0 <= G.EoReader__chunk_start g ->
     absP (G.EoReader_set_chunked_reading_mode g b) = (M.r_set_chunked (abs g) b, tt)).
Proof.
  repeat split; intros.
  - rewrite bridge_get_byte. apply absP_concP.
  - rewrite bridge_get_bytes by assumption. apply absP_concP.
  - rewrite bridge_get_char. apply absP_concP.
  - rewrite bridge_get_short. apply absP_concP.
  - rewrite bridge_get_three. apply absP_concP.
  - rewrite bridge_get_int. apply absP_concP.
  - rewrite bridge_get_string. apply absP_concP.
  - rewrite bridge_get_encoded_string. apply absP_concP.
  - rewrite bridge_remaining. reflexivity.
  - rewrite bridge_position. reflexivity.
  - rewrite bridge_get_chunked. reflexivity.
  - rewrite bridge_set_chunked by assumption. unfold absP. cbn [fst snd]. now rewrite abs_conc.
Qed.

Print Assumptions reader_bridge.
Print Assumptions reader_bridge_run_init.
Print Assumptions bridge_get_fixed_string.
Print Assumptions bridge_get_fixed_encoded_string.
Print Assumptions bridge_next_chunk.
Print Assumptions bridge_slice.
Print Assumptions bridge_remove_padding.
Print Assumptions bridge_find_next_break_index.
