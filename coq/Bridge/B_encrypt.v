(* Bridge: translated encryption_utils.flip_msb = Model.Encrypt.flip_msb, for all lists *)
From EO Require Import Prelude.Py.
Require EO.Gen.G_encryption_utils EO.Model.Encrypt.
Module G := EO.Gen.G_encryption_utils.
Module M := EO.Model.Encrypt.
Open Scope Z_scope.
Set Default Timeout 60.

Lemma flip_body_step done c rest :
  G.flip_msb_body1 (Z.of_nat (length done)) (done ++ c :: rest) = done ++ M.flip c :: rest.
Proof.
  unfold G.flip_msb_body1. rewrite zget_app_mid. unfold M.flip.
  destruct (Z.land c 127 =? 0); cbn [negb]; [reflexivity|]. now rewrite zset_app_mid.
Qed.

Lemma flip_loop_all : forall rest done,
  for_loop (length rest) (Z.of_nat (length done)) G.flip_msb_body1 (done ++ rest) = done ++ map M.flip rest.
Proof.
  induction rest as [|c rest IH]; intros done; cbn [length for_loop map]; [reflexivity|].
  rewrite flip_body_step.
  replace (Z.of_nat (length done) + 1) with (Z.of_nat (length (done ++ [M.flip c])))
    by (rewrite app_length; cbn [length]; lia).
  replace (done ++ M.flip c :: rest) with ((done ++ [M.flip c]) ++ rest) by (rewrite <- app_assoc; reflexivity).
  rewrite IH. now rewrite <- app_assoc.
Qed.

Lemma bridge_flip_msb l : G.flip_msb l = M.flip_msb l.
Proof.
  unfold G.flip_msb, M.flip_msb, for_range.
  replace (Z.to_nat (zlen l - 0)) with (length l) by (unfold zlen; lia).
  apply (flip_loop_all l []).
Qed.

Require Import EO.Properties.C10.
Theorem C10_flip_msb_src : forall l, bytes_ok l -> G.flip_msb (G.flip_msb l) = l.
Proof. intros l H. rewrite !bridge_flip_msb. now apply C10_flip_msb_invol. Qed.
Print Assumptions C10_flip_msb_src.
