(* Bridge: the translated number_encoding_utils.py (Gen) equals the hand-written model, for ALL inputs. *)
From EO Require Import Prelude.Py.
Require EO.Gen.G_eo_numeric_limits EO.Gen.G_number_encoding_utils EO.Model.Limits EO.Model.Number.
Module GL := EO.Gen.G_eo_numeric_limits.
Module G := EO.Gen.G_number_encoding_utils.
Module ML := EO.Model.Limits.
Module M := EO.Model.Number.
Open Scope Z_scope.
Set Default Timeout 60.

Lemma bridge_CHAR_MAX : GL.CHAR_MAX = ML.CHAR_MAX.   Proof. reflexivity. Qed.
Lemma bridge_SHORT_MAX : GL.SHORT_MAX = ML.SHORT_MAX. Proof. reflexivity. Qed.
Lemma bridge_THREE_MAX : GL.THREE_MAX = ML.THREE_MAX. Proof. reflexivity. Qed.
Lemma bridge_INT_MAX : GL.INT_MAX = ML.INT_MAX.       Proof. reflexivity. Qed.

Lemma bridge_encode_number n : G.encode_number n = M.encode_number n.
Proof.
  unfold G.encode_number, M.encode_number, M.encode_digits.
  rewrite bridge_CHAR_MAX, bridge_SHORT_MAX, bridge_THREE_MAX.
  destruct (n >=? ML.THREE_MAX); destruct (n >=? ML.SHORT_MAX); destruct (n >=? ML.CHAR_MAX);
    cbv beta iota zeta; destruct (py_bytes _); reflexivity.
Qed.

(* evaluate comparisons between literals (loop indices) without touching symbolic arithmetic *)
Ltac norm_idx :=
  change (0 + 1) with 1 in *; change (1 + 1) with 2 in *; change (2 + 1) with 3 in *;
  repeat match goal with
  | |- context [Z.eqb ?a ?b] =>
      lazymatch a with Zpos _ => idtac | Z0 => idtac end;
      lazymatch b with Zpos _ => idtac | Z0 => idtac end;
      let v := eval vm_compute in (Z.eqb a b) in change (Z.eqb a b) with v
  end;
  cbv beta iota zeta.
Ltac dz x := destruct (x =? 254); cbv beta iota zeta; [lia|].

Lemma min_len4 {A} (a b c d : A) t : Z.min (zlen (a :: b :: c :: d :: t)) 4 = 4.
Proof. unfold zlen. cbn [length]. lia. Qed.

Lemma bridge_decode_number bs : G.decode_number bs = M.decode_number bs.
Proof.
  unfold G.decode_number, M.decode_number.
  destruct bs as [|a [|b [|c [|d t]]]].
  - reflexivity.
  - change (Z.min (zlen [a]) 4) with 1. unfold for_range. change (Z.to_nat (1 - 0)) with 1%nat.
    cbn [for_loop M.positional]. unfold G.decode_number_body1.
    change (zget [a] 0) with a. cbv beta iota zeta.
    norm_idx. destruct (a =? 254); cbv beta iota zeta; lia.
  - change (Z.min (zlen [a; b]) 4) with 2. unfold for_range. change (Z.to_nat (2 - 0)) with 2%nat.
    cbn [for_loop M.positional]. unfold G.decode_number_body1.
    change (zget [a; b] 0) with a. change (zget [a; b] (0 + 1)) with b. cbv beta iota zeta.
    rewrite bridge_CHAR_MAX. unfold ML.CHAR_MAX.
    norm_idx. dz a. destruct (b =? 254); cbv beta iota zeta; lia.
  - change (Z.min (zlen [a; b; c]) 4) with 3. unfold for_range. change (Z.to_nat (3 - 0)) with 3%nat.
    cbn [for_loop M.positional]. unfold G.decode_number_body1.
    change (zget [a; b; c] 0) with a. change (zget [a; b; c] (0 + 1)) with b.
    change (zget [a; b; c] (0 + 1 + 1)) with c. cbv beta iota zeta.
    rewrite bridge_CHAR_MAX, bridge_SHORT_MAX. unfold ML.CHAR_MAX, ML.SHORT_MAX.
    norm_idx. dz a. dz b. destruct (c =? 254); cbv beta iota zeta; lia.
  - rewrite min_len4. unfold for_range. change (Z.to_nat (4 - 0)) with 4%nat.
    cbn [for_loop M.positional]. unfold G.decode_number_body1.
    change (zget (a :: b :: c :: d :: t) 0) with a. change (zget (a :: b :: c :: d :: t) (0 + 1)) with b.
    change (zget (a :: b :: c :: d :: t) (0 + 1 + 1)) with c.
    change (zget (a :: b :: c :: d :: t) (0 + 1 + 1 + 1)) with d. cbv beta iota zeta.
    rewrite bridge_CHAR_MAX, bridge_SHORT_MAX, bridge_THREE_MAX. unfold ML.CHAR_MAX, ML.SHORT_MAX, ML.THREE_MAX.
    assert (Ht : forall m, M.positional t m 0 = 0) by (intros; destruct t; reflexivity).
    rewrite Ht.
    norm_idx. dz a. dz b. dz c. destruct (d =? 254); cbv beta iota zeta; lia.
Qed.

(* ---- the property statements transported to the translated source ---- *)
Require Import EO.Properties.C07.
Theorem C07_roundtrip_src : forall n, 0 <= n < 4097152081 ->
  exists bs, G.encode_number n = Ok bs /\ G.decode_number bs = n.
Proof. intros n H. destruct (C07_roundtrip n H) as [bs [E D]]. exists bs. now rewrite bridge_encode_number, bridge_decode_number. Qed.
Theorem C07_wire_safe_src : forall n, 0 <= n < 4097152081 ->
  exists bs, G.encode_number n = Ok bs /\ length bs = 4%nat /\ Forall (fun b => 1 <= b <= 254) bs.
Proof. intros n H. destruct (C07_wire_safe n H) as [bs P]. exists bs. now rewrite bridge_encode_number. Qed.
Theorem C07_decode_formula_src : forall bs, G.decode_number bs = M.positional bs 1 4.
Proof. intros bs. rewrite bridge_decode_number. apply C07_decode_formula. Qed.
Print Assumptions C07_roundtrip_src.
