(* Bridge: translated encryption_utils.{interleave,deinterleave,swap_multiples} = Model.Encrypt, for all lists *)
From EO Require Import Prelude.Py.
From Coq Require Import ZifyNat.
Require EO.Gen.G_encryption_utils EO.Model.Encrypt EO.Proofs.Encrypt.
Module G := EO.Gen.G_encryption_utils.
Module M := EO.Model.Encrypt.
Module P := EO.Proofs.Encrypt.
Open Scope Z_scope.
Set Default Timeout 60.
Ltac Zify.zify_post_hook ::= Z.to_euclidean_division_equations.

(* ---------------- generic list facts ---------------- *)
Lemma nth_set_nth_same {A} : forall n (l : list A) v d, (n < length l)%nat -> nth n (set_nth n l v) d = v.
Proof.
  induction n as [|n IH]; intros [|x l] v d H; cbn [length] in H; try lia; cbn [set_nth nth]; [reflexivity|].
  apply IH. lia.
Qed.

Lemma nth_set_nth_other {A} : forall n k (l : list A) v d, n <> k -> nth k (set_nth n l v) d = nth k l d.
Proof.
  induction n as [|n IH]; intros k [|x l] v d H; cbn [set_nth]; try reflexivity.
  - destruct k as [|k]; [lia | reflexivity].
  - destruct k as [|k]; [reflexivity|]. cbn [nth]. apply IH. lia.
Qed.

Lemma zget_nat l k : zget l (Z.of_nat k) = nth k l 0.
Proof. unfold zget. now rewrite Nat2Z.id. Qed.
Lemma zset_nat l k v : zset l (Z.of_nat k) v = set_nth k l v.
Proof. unfold zset. now rewrite Nat2Z.id. Qed.

(* ---------------- invariant rule for counting while loops ---------------- *)
Lemma while_loop_inv {St} (cond : St -> bool) (body : St -> St) : forall (n : nat) (Q : nat -> St -> Prop),
  (forall k s, (k < n)%nat -> Q k s -> cond s = true /\ Q (S k) (body s)) ->
  (forall s, Q n s -> cond s = false) ->
  forall fuel st, (n <= fuel)%nat -> Q O st ->
  exists st', while_loop fuel cond body st = Some st' /\ Q n st'.
Proof.
  induction n as [|n IH]; intros Q Hstep Hend fuel st Hf H0.
  - exists st. split; [|exact H0]. destruct fuel as [|fuel]; cbn [while_loop]; rewrite (Hend st H0); reflexivity.
  - destruct fuel as [|fuel]; [lia|]. cbn [while_loop].
    destruct (Hstep O st ltac:(lia) H0) as [Hc Hb]. rewrite Hc.
    apply (IH (fun k s => Q (S k) s)).
    + intros k s Hk HQ. apply Hstep; [lia | exact HQ].
    + exact Hend.
    + lia.
    + exact Hb.
Qed.

Lemma even_odd_form q : Nat.even (1 + 2 * q) = false.
Proof. rewrite Nat.even_add, P.even_double. reflexivity. Qed.

(* ---------------- interleave ---------------- *)
(* buffer positions whose source index is below c already hold their final value *)
Definition ileave_inv (data : list Z) (c : nat) (buf : list Z) : Prop :=
  length buf = length data /\
  forall j, (j < length data)%nat -> (M.isrc (length data) j < c)%nat ->
            nth j buf 0 = nth (M.isrc (length data) j) data 0.

Lemma ileave_inv_step data c buf i :
  (i < length data)%nat -> M.isrc (length data) i = c -> ileave_inv data c buf ->
  ileave_inv data (S c) (set_nth i buf (nth c data 0)).
Proof.
  intros Hi Hc [Hl Hn]. split; [now rewrite set_nth_length|].
  intros j Hj Hlt. destruct (Nat.eq_dec i j) as [E|Hne].
  - subst j. rewrite nth_set_nth_same by lia. now rewrite Hc.
  - rewrite nth_set_nth_other by exact Hne. apply Hn; [exact Hj|].
    assert (Hd : M.isrc (length data) j <> c).
    { intros E. apply Hne. apply (P.isrc_inj (length data)); [exact Hi | exact Hj |]. now rewrite Hc, E. }
    lia.
Qed.

Lemma ileave_inv_done data buf : ileave_inv data (length data) buf -> buf = M.interleave data.
Proof.
  intros [Hl Hn]. apply (nth_ext _ _ 0 0); [now rewrite P.interleave_length|].
  intros j Hj. rewrite Hl in Hj. rewrite P.nth_interleave by exact Hj.
  apply Hn; [exact Hj | now apply P.isrc_lt].
Qed.

Lemma ileave_inv_init data : ileave_inv data 0 (zrepeat 0 (zlen data)).
Proof.
  split; [unfold zrepeat, zlen; rewrite repeat_length; lia | intros j _ H; lia].
Qed.

Lemma ibody1 data buf a b :
  G.interleave_body1 data (buf, Z.of_nat a, Z.of_nat b) = (set_nth a buf (nth b data 0), Z.of_nat a + 2, Z.of_nat b + 1).
Proof. unfold G.interleave_body1. cbv beta iota zeta. now rewrite zset_nat, zget_nat. Qed.

Lemma ibody2 data buf a b :
  G.interleave_body2 data (buf, Z.of_nat a, Z.of_nat b) = (set_nth a buf (nth b data 0), Z.of_nat a - 2, Z.of_nat b + 1).
Proof. unfold G.interleave_body2. cbv beta iota zeta. now rewrite zset_nat, zget_nat. Qed.

Lemma interleave_loop1 data fuel : ((length data + 1) / 2 <= fuel)%nat ->
  exists buf,
    while_loop fuel (G.interleave_cond1 data) (G.interleave_body1 data) (zrepeat 0 (zlen data), 0, 0)
    = Some (buf, 2 * Z.of_nat ((length data + 1) / 2), Z.of_nat ((length data + 1) / 2))
    /\ ileave_inv data ((length data + 1) / 2) buf.
Proof.
  intros Hf.
  destruct (while_loop_inv (G.interleave_cond1 data) (G.interleave_body1 data) ((length data + 1) / 2)
    (fun k st => exists buf, st = (buf, 2 * Z.of_nat k, Z.of_nat k) /\ ileave_inv data k buf))
    with (fuel := fuel) (st := (zrepeat 0 (zlen data), 0, 0)) as [st' [Hw [buf [Hst Hinv]]]].
  - intros k s Hk [buf [Hs Hinv]]. subst s. split.
    + unfold G.interleave_cond1, zlen. cbv beta iota zeta. lia.
    + exists (set_nth (2 * k) buf (nth k data 0)). split.
      * replace (2 * Z.of_nat k) with (Z.of_nat (2 * k)) by lia. rewrite ibody1. f_equal; [f_equal|]; lia.
      * apply ileave_inv_step; [lia | | exact Hinv].
        unfold M.isrc. rewrite P.even_double. lia.
  - intros s [buf [Hs _]]. subst s. unfold G.interleave_cond1, zlen. cbv beta iota zeta. lia.
  - exact Hf.
  - exists (zrepeat 0 (zlen data)). split; [reflexivity | apply ileave_inv_init].
  - exists buf. subst st'. split; [exact Hw | exact Hinv].
Qed.

Lemma interleave_loop2 data fuel buf : (length data / 2 <= fuel)%nat ->
  ileave_inv data ((length data + 1) / 2) buf ->
  exists buf' i' ii',
    while_loop fuel (G.interleave_cond2 data) (G.interleave_body2 data)
      (buf, 2 * Z.of_nat (length data / 2) - 1, Z.of_nat ((length data + 1) / 2))
    = Some (buf', i', ii')
    /\ ileave_inv data (length data) buf'.
Proof.
  intros Hf Hinv0.
  destruct (while_loop_inv (G.interleave_cond2 data) (G.interleave_body2 data) (length data / 2)
    (fun k st => exists b, st = (b, 2 * Z.of_nat (length data / 2) - 1 - 2 * Z.of_nat k,
                                 Z.of_nat ((length data + 1) / 2 + k))
                           /\ ileave_inv data ((length data + 1) / 2 + k) b))
    with (fuel := fuel) (st := (buf, 2 * Z.of_nat (length data / 2) - 1, Z.of_nat ((length data + 1) / 2)))
    as [st' [Hw [b [Hst Hinv]]]].
  - intros k s Hk [b [Hs Hinv]]. subst s. split.
    + unfold G.interleave_cond2. cbv beta iota zeta. lia.
    + exists (set_nth (2 * (length data / 2) - 1 - 2 * k) b (nth ((length data + 1) / 2 + k) data 0)). split.
      * replace (2 * Z.of_nat (length data / 2) - 1 - 2 * Z.of_nat k)
          with (Z.of_nat (2 * (length data / 2) - 1 - 2 * k)) by lia.
        rewrite ibody2. f_equal; [f_equal|]; lia.
      * replace ((length data + 1) / 2 + S k)%nat with (S ((length data + 1) / 2 + k)) by lia.
        apply ileave_inv_step; [lia | | exact Hinv].
        unfold M.isrc.
        replace (2 * (length data / 2) - 1 - 2 * k)%nat with (1 + 2 * (length data / 2 - 1 - k))%nat by lia.
        rewrite even_odd_form. lia.
  - intros s [b [Hs _]]. subst s. unfold G.interleave_cond2. cbv beta iota zeta. lia.
  - exact Hf.
  - exists buf. split; [f_equal; [f_equal|]; lia|].
    replace ((length data + 1) / 2 + 0)%nat with ((length data + 1) / 2)%nat by lia. exact Hinv0.
  - subst st'. eexists _, _, _. split; [exact Hw|].
    replace ((length data + 1) / 2 + length data / 2)%nat with (length data) in Hinv by lia. exact Hinv.
Qed.

Lemma bridge_interleave_fuel l fuel : ((length l + 1) / 2 <= fuel)%nat -> G.interleave fuel l = Ok (M.interleave l).
Proof.
  intros Hf. unfold G.interleave. cbv zeta.
  destruct (interleave_loop1 l fuel Hf) as [buf [Hw1 Hinv1]]. rewrite Hw1.
  destruct (interleave_loop2 l fuel buf ltac:(lia) Hinv1) as [buf' [i' [ii' [Hw2 Hinv2]]]].
  replace (if negb (zlen l mod 2 =? 0) then 2 * Z.of_nat ((length l + 1) / 2) - 1 - 2
           else 2 * Z.of_nat ((length l + 1) / 2) - 1)
    with (2 * Z.of_nat (length l / 2) - 1)
    by (unfold zlen; destruct (Z.of_nat (length l) mod 2 =? 0) eqn:E; cbn [negb]; lia).
  rewrite Hw2. f_equal. now apply ileave_inv_done.
Qed.

Lemma bridge_interleave_ge l fuel : (length l < fuel)%nat -> G.interleave fuel l = Ok (M.interleave l).
Proof. intros Hf. apply bridge_interleave_fuel. lia. Qed.

Lemma bridge_interleave l : G.interleave (S (length l)) l = Ok (M.interleave l).
Proof. apply bridge_interleave_ge. lia. Qed.

(* ---------------- deinterleave ---------------- *)
Definition dleave_inv (data : list Z) (c : nat) (buf : list Z) : Prop :=
  length buf = length data /\
  forall j, (j < c)%nat -> nth j buf 0 = nth (M.dsrc (length data) j) data 0.

Lemma dleave_inv_step data c buf i :
  (c < length data)%nat -> M.dsrc (length data) c = i -> dleave_inv data c buf ->
  dleave_inv data (S c) (set_nth c buf (nth i data 0)).
Proof.
  intros Hc Hi [Hl Hn]. split; [now rewrite set_nth_length|].
  intros j Hj. destruct (Nat.eq_dec c j) as [E|Hne].
  - subst j. rewrite nth_set_nth_same by lia. now rewrite Hi.
  - rewrite nth_set_nth_other by exact Hne. apply Hn. lia.
Qed.

Lemma dleave_inv_done data buf : dleave_inv data (length data) buf -> buf = M.deinterleave data.
Proof.
  intros [Hl Hn]. apply (nth_ext _ _ 0 0); [now rewrite P.deinterleave_length|].
  intros j Hj. rewrite Hl in Hj. rewrite P.nth_deinterleave by exact Hj.
  apply Hn. exact Hj.
Qed.

Lemma dleave_inv_init data : dleave_inv data 0 (zrepeat 0 (zlen data)).
Proof.
  split; [unfold zrepeat, zlen; rewrite repeat_length; lia | intros j H; lia].
Qed.

Lemma dbody1 data buf a b :
  G.deinterleave_body1 data (buf, Z.of_nat a, Z.of_nat b) = (set_nth b buf (nth a data 0), Z.of_nat a + 2, Z.of_nat b + 1).
Proof. unfold G.deinterleave_body1. cbv beta iota zeta. now rewrite zset_nat, zget_nat. Qed.

Lemma dbody2 data buf a b :
  G.deinterleave_body2 data (buf, Z.of_nat a, Z.of_nat b) = (set_nth b buf (nth a data 0), Z.of_nat a - 2, Z.of_nat b + 1).
Proof. unfold G.deinterleave_body2. cbv beta iota zeta. now rewrite zset_nat, zget_nat. Qed.

Lemma deinterleave_loop1 data fuel : ((length data + 1) / 2 <= fuel)%nat ->
  exists buf,
    while_loop fuel (G.deinterleave_cond1 data) (G.deinterleave_body1 data) (zrepeat 0 (zlen data), 0, 0)
    = Some (buf, 2 * Z.of_nat ((length data + 1) / 2), Z.of_nat ((length data + 1) / 2))
    /\ dleave_inv data ((length data + 1) / 2) buf.
Proof.
  intros Hf.
  destruct (while_loop_inv (G.deinterleave_cond1 data) (G.deinterleave_body1 data) ((length data + 1) / 2)
    (fun k st => exists buf, st = (buf, 2 * Z.of_nat k, Z.of_nat k) /\ dleave_inv data k buf))
    with (fuel := fuel) (st := (zrepeat 0 (zlen data), 0, 0)) as [st' [Hw [buf [Hst Hinv]]]].
  - intros k s Hk [buf [Hs Hinv]]. subst s. split.
    + unfold G.deinterleave_cond1, zlen. cbv beta iota zeta. lia.
    + exists (set_nth k buf (nth (2 * k) data 0)). split.
      * replace (2 * Z.of_nat k) with (Z.of_nat (2 * k)) by lia. rewrite dbody1. f_equal; [f_equal|]; lia.
      * apply dleave_inv_step; [lia | | exact Hinv].
        unfold M.dsrc. cbv zeta. destruct (k <? (length data + 1) / 2)%nat eqn:E; lia.
  - intros s [buf [Hs _]]. subst s. unfold G.deinterleave_cond1, zlen. cbv beta iota zeta. lia.
  - exact Hf.
  - exists (zrepeat 0 (zlen data)). split; [reflexivity | apply dleave_inv_init].
  - exists buf. subst st'. split; [exact Hw | exact Hinv].
Qed.

Lemma deinterleave_loop2 data fuel buf : (length data / 2 <= fuel)%nat ->
  dleave_inv data ((length data + 1) / 2) buf ->
  exists buf' i' ii',
    while_loop fuel (G.deinterleave_cond2 data) (G.deinterleave_body2 data)
      (buf, 2 * Z.of_nat (length data / 2) - 1, Z.of_nat ((length data + 1) / 2))
    = Some (buf', i', ii')
    /\ dleave_inv data (length data) buf'.
Proof.
  intros Hf Hinv0.
  destruct (while_loop_inv (G.deinterleave_cond2 data) (G.deinterleave_body2 data) (length data / 2)
    (fun k st => exists b, st = (b, 2 * Z.of_nat (length data / 2) - 1 - 2 * Z.of_nat k,
                                 Z.of_nat ((length data + 1) / 2 + k))
                           /\ dleave_inv data ((length data + 1) / 2 + k) b))
    with (fuel := fuel) (st := (buf, 2 * Z.of_nat (length data / 2) - 1, Z.of_nat ((length data + 1) / 2)))
    as [st' [Hw [b [Hst Hinv]]]].
  - intros k s Hk [b [Hs Hinv]]. subst s. split.
    + unfold G.deinterleave_cond2. cbv beta iota zeta. lia.
    + exists (set_nth ((length data + 1) / 2 + k) b (nth (2 * (length data / 2) - 1 - 2 * k) data 0)). split.
      * replace (2 * Z.of_nat (length data / 2) - 1 - 2 * Z.of_nat k)
          with (Z.of_nat (2 * (length data / 2) - 1 - 2 * k)) by lia.
        rewrite dbody2. f_equal; [f_equal|]; lia.
      * replace ((length data + 1) / 2 + S k)%nat with (S ((length data + 1) / 2 + k)) by lia.
        apply dleave_inv_step; [lia | | exact Hinv].
        unfold M.dsrc. cbv zeta.
        destruct ((length data + 1) / 2 + k <? (length data + 1) / 2)%nat eqn:E; lia.
  - intros s [b [Hs _]]. subst s. unfold G.deinterleave_cond2. cbv beta iota zeta. lia.
  - exact Hf.
  - exists buf. split; [f_equal; [f_equal|]; lia|].
    replace ((length data + 1) / 2 + 0)%nat with ((length data + 1) / 2)%nat by lia. exact Hinv0.
  - subst st'. eexists _, _, _. split; [exact Hw|].
    replace ((length data + 1) / 2 + length data / 2)%nat with (length data) in Hinv by lia. exact Hinv.
Qed.

Lemma bridge_deinterleave_fuel l fuel : ((length l + 1) / 2 <= fuel)%nat -> G.deinterleave fuel l = Ok (M.deinterleave l).
Proof.
  intros Hf. unfold G.deinterleave. cbv zeta.
  destruct (deinterleave_loop1 l fuel Hf) as [buf [Hw1 Hinv1]]. rewrite Hw1.
  destruct (deinterleave_loop2 l fuel buf ltac:(lia) Hinv1) as [buf' [i' [ii' [Hw2 Hinv2]]]].
  replace (if negb (zlen l mod 2 =? 0) then 2 * Z.of_nat ((length l + 1) / 2) - 1 - 2
           else 2 * Z.of_nat ((length l + 1) / 2) - 1)
    with (2 * Z.of_nat (length l / 2) - 1)
    by (unfold zlen; destruct (Z.of_nat (length l) mod 2 =? 0) eqn:E; cbn [negb]; lia).
  rewrite Hw2. f_equal. now apply dleave_inv_done.
Qed.

Lemma bridge_deinterleave_ge l fuel : (length l < fuel)%nat -> G.deinterleave fuel l = Ok (M.deinterleave l).
Proof. intros Hf. apply bridge_deinterleave_fuel. lia. Qed.

Lemma bridge_deinterleave l : G.deinterleave (S (length l)) l = Ok (M.deinterleave l).
Proof. apply bridge_deinterleave_ge. lia. Qed.

(* ---------------- swap_multiples ---------------- *)
Lemma nth_app3 {A} (pre mid rest : list A) j d :
  nth j (pre ++ mid ++ rest) d =
  if (j <? length pre)%nat then nth j pre d
  else if (j <? length pre + length mid)%nat then nth (j - length pre) mid d
  else nth (j - length pre - length mid) rest d.
Proof.
  destruct (j <? length pre)%nat eqn:E1.
  - apply app_nth1. lia.
  - rewrite app_nth2 by lia. destruct (j <? length pre + length mid)%nat eqn:E2.
    + apply app_nth1. lia.
    + rewrite app_nth2 by lia. reflexivity.
Qed.

(* inner loop: in-place reversal of the segment [p, p+n) *)
Definition rev_inv (d0 : list Z) (p n k : nat) (d : list Z) : Prop :=
  length d = length d0 /\
  (forall j, (j < p \/ p + k <= j < p + n - k \/ p + n <= j)%nat -> nth j d 0 = nth j d0 0) /\
  (forall j, (p <= j < p + k \/ p + n - k <= j < p + n)%nat -> nth j d 0 = nth (2 * p + n - 1 - j) d0 0).

Lemma sbody2 d p n k : (k < n)%nat ->
  G.swap_multiples_body2 (Z.of_nat n) (Z.of_nat (p + n)) (0 + Z.of_nat k) d
  = set_nth (p + n - 1 - k) (set_nth (p + k) d (nth (p + n - 1 - k) d 0)) (nth (p + k) d 0).
Proof.
  intros Hk. unfold G.swap_multiples_body2. cbv beta iota zeta.
  replace (Z.of_nat (p + n) - Z.of_nat n + (0 + Z.of_nat k)) with (Z.of_nat (p + k)) by lia.
  replace (Z.of_nat (p + n) - (0 + Z.of_nat k) - 1) with (Z.of_nat (p + n - 1 - k)) by lia.
  now rewrite !zset_nat, !zget_nat.
Qed.

Lemma rev_inv_step d0 p n k d : (p + n <= length d0)%nat -> (k < n / 2)%nat -> rev_inv d0 p n k d ->
  rev_inv d0 p n (S k) (set_nth (p + n - 1 - k) (set_nth (p + k) d (nth (p + n - 1 - k) d 0)) (nth (p + k) d 0)).
Proof.
  intros Hpn Hk [Hl [Hsame Hrev]]. split; [|split].
  - now rewrite !set_nth_length.
  - intros j Hj. rewrite !nth_set_nth_other by lia. apply Hsame. lia.
  - intros j Hj. destruct (Nat.eq_dec j (p + n - 1 - k)) as [Eb|Nb].
    + subst j. rewrite nth_set_nth_same by (rewrite set_nth_length; lia).
      rewrite Hsame by lia. f_equal. lia.
    + rewrite nth_set_nth_other by lia. destruct (Nat.eq_dec j (p + k)) as [Ea|Na].
      * subst j. rewrite nth_set_nth_same by lia. rewrite Hsame by lia. f_equal. lia.
      * rewrite nth_set_nth_other by lia. apply Hrev. lia.
Qed.

Lemma reverse_loop pre r rest :
  for_loop (length r / 2) 0
    (G.swap_multiples_body2 (Z.of_nat (length r)) (Z.of_nat (length pre + length r))) (pre ++ r ++ rest)
  = pre ++ rev r ++ rest.
Proof.
  assert (Hlen0 : length (pre ++ r ++ rest) = (length pre + length r + length rest)%nat)
    by (rewrite !app_length; lia).
  assert (H : rev_inv (pre ++ r ++ rest) (length pre) (length r) (length r / 2)
    (for_loop (length r / 2) 0
      (G.swap_multiples_body2 (Z.of_nat (length r)) (Z.of_nat (length pre + length r))) (pre ++ r ++ rest))).
  { apply (for_loop_inv (fun k d => rev_inv (pre ++ r ++ rest) (length pre) (length r) k d)).
    - split; [reflexivity|]. split; [reflexivity|]. intros j Hj. lia.
    - intros k s Hk Hinv. rewrite sbody2 by lia. apply rev_inv_step; [lia | exact Hk | exact Hinv]. }
  destruct H as [Hl [Hsame Hrev]].
  apply (nth_ext _ _ 0 0); [rewrite Hl, !app_length, rev_length; reflexivity|].
  intros j Hj. rewrite Hl, Hlen0 in Hj.
  assert (Hcase : (j < length pre \/ length pre + length r <= j)%nat \/ (length pre <= j < length pre + length r)%nat) by lia.
  destruct Hcase as [Hout|Hin].
  - rewrite Hsame by lia. rewrite !nth_app3, rev_length.
    destruct (j <? length pre)%nat eqn:E1; [reflexivity|].
    destruct (j <? length pre + length r)%nat eqn:E2; [lia | reflexivity].
  - assert (Hj' : nth j (for_loop (length r / 2) 0
        (G.swap_multiples_body2 (Z.of_nat (length r)) (Z.of_nat (length pre + length r))) (pre ++ r ++ rest)) 0
        = nth (2 * length pre + length r - 1 - j) (pre ++ r ++ rest) 0).
    { assert (Hc : (length pre <= j < length pre + length r / 2 \/
                    length pre + length r - length r / 2 <= j < length pre + length r)%nat \/
                   (length pre + length r / 2 <= j < length pre + length r - length r / 2)%nat) by lia.
      destruct Hc as [Hc|Hc]; [apply Hrev; exact Hc|].
      rewrite Hsame by lia. f_equal. lia. }
    rewrite Hj'. rewrite !nth_app3, rev_length.
    destruct (2 * length pre + length r - 1 - j <? length pre)%nat eqn:E1; [lia|].
    destruct (2 * length pre + length r - 1 - j <? length pre + length r)%nat eqn:E2; [|lia].
    destruct (j <? length pre)%nat eqn:E3; [lia|].
    destruct (j <? length pre + length r)%nat eqn:E4; [|lia].
    rewrite rev_nth by lia. f_equal. lia.
Qed.

Lemma reverse_guarded pre r rest :
  (if Z.of_nat (length r) >? 1
   then for_range 0 (Z.of_nat (length r) / 2)
          (G.swap_multiples_body2 (Z.of_nat (length r)) (Z.of_nat (length pre + length r))) (pre ++ r ++ rest)
   else pre ++ r ++ rest) = pre ++ rev r ++ rest.
Proof.
  destruct (Z.of_nat (length r) >? 1) eqn:E.
  - unfold for_range. replace (Z.to_nat (Z.of_nat (length r) / 2 - 0)) with (length r / 2)%nat by lia.
    apply reverse_loop.
  - destruct r as [|a [|b r]]; cbn [length] in E; try lia; reflexivity.
Qed.

(* outer loop body: the three cases *)
Lemma sbody1_extend m pre r x t : (x mod m =? 0) = true ->
  G.swap_multiples_body1 m (Z.of_nat (length pre + length r)) (Z.of_nat (length r), pre ++ r ++ x :: t)
  = (Z.of_nat (length r) + 1, pre ++ r ++ x :: t).
Proof.
  intros Hx. unfold G.swap_multiples_body1. cbv beta iota zeta.
  match goal with |- context [negb ?a && ?b] => assert (Hc : negb a && b = true) end.
  { apply andb_true_iff. split.
    - apply negb_true_iff. apply Z.eqb_neq. unfold zlen. rewrite !app_length. cbn [length]. lia.
    - replace (pre ++ r ++ x :: t) with ((pre ++ r) ++ x :: t) by (now rewrite <- app_assoc).
      replace (Z.of_nat (length pre + length r)) with (Z.of_nat (length (pre ++ r))) by (now rewrite app_length).
      rewrite zget_app_mid. exact Hx. }
  rewrite Hc. reflexivity.
Qed.

Lemma sbody1_flush m pre r rest :
  (rest = [] \/ exists x t, rest = x :: t /\ (x mod m =? 0) = false) ->
  G.swap_multiples_body1 m (Z.of_nat (length pre + length r)) (Z.of_nat (length r), pre ++ r ++ rest)
  = (0, pre ++ rev r ++ rest).
Proof.
  intros Hrest. unfold G.swap_multiples_body1. cbv beta iota zeta.
  match goal with |- context [negb ?a && ?b] => assert (Hc : negb a && b = false) end.
  { destruct Hrest as [E|[x [t [E Hx]]]]; subst rest.
    - apply andb_false_iff. left. apply negb_false_iff. apply Z.eqb_eq.
      unfold zlen. rewrite !app_length. cbn [length]. lia.
    - apply andb_false_iff. right.
      replace (pre ++ r ++ x :: t) with ((pre ++ r) ++ x :: t) by (now rewrite <- app_assoc).
      replace (Z.of_nat (length pre + length r)) with (Z.of_nat (length (pre ++ r))) by (now rewrite app_length).
      rewrite zget_app_mid. exact Hx. }
  rewrite Hc. cbv beta iota. rewrite reverse_guarded. reflexivity.
Qed.

Lemma swap_outer m : forall rest pre r,
  for_loop (length rest + 1) (Z.of_nat (length pre + length r)) (G.swap_multiples_body1 m)
    (Z.of_nat (length r), pre ++ r ++ rest)
  = (0, pre ++ M.swap_aux m (rev r) rest).
Proof.
  induction rest as [|x t IH]; intros pre r; cbn [length Nat.add for_loop].
  - rewrite sbody1_flush by (left; reflexivity). cbn [M.swap_aux]. now rewrite app_nil_r.
  - destruct (x mod m =? 0) eqn:Hx.
    + rewrite sbody1_extend by exact Hx.
      replace (Z.of_nat (length pre + length r) + 1) with (Z.of_nat (length pre + length (r ++ [x])))
        by (rewrite app_length; cbn [length]; lia).
      replace (Z.of_nat (length r) + 1) with (Z.of_nat (length (r ++ [x])))
        by (rewrite app_length; cbn [length]; lia).
      replace (pre ++ r ++ x :: t) with (pre ++ (r ++ [x]) ++ t) by (now rewrite <- app_assoc).
      rewrite IH. rewrite rev_app_distr. cbn [rev app M.swap_aux]. rewrite Hx. reflexivity.
    + rewrite sbody1_flush by (right; exists x, t; split; [reflexivity | exact Hx]).
      pose proof (IH (pre ++ rev r ++ [x]) []) as H. cbn [length app rev] in H.
      replace (Z.of_nat (length (pre ++ rev r ++ [x]) + 0)) with (Z.of_nat (length pre + length r) + 1) in H
        by (rewrite !app_length, rev_length; cbn [length]; lia).
      replace ((pre ++ rev r ++ [x]) ++ t) with (pre ++ rev r ++ x :: t) in H
        by (now rewrite <- !app_assoc).
      cbn [Z.of_nat] in H. rewrite H. cbn [M.swap_aux]. rewrite Hx.
      rewrite <- !app_assoc. reflexivity.
Qed.

Lemma bridge_swap_multiples l m : G.swap_multiples l m = M.swap_multiples l m.
Proof.
  unfold G.swap_multiples, M.swap_multiples.
  destruct (m <? 0); [reflexivity|]. destruct (m =? 0); [reflexivity|].
  cbv zeta. unfold for_range.
  replace (Z.to_nat (zlen l + 1 - 0)) with (length l + 1)%nat by (unfold zlen; lia).
  pose proof (swap_outer m l [] []) as H. cbn [length app rev Nat.add Z.of_nat] in H.
  rewrite H. reflexivity.
Qed.

Print Assumptions bridge_interleave_ge.
Print Assumptions bridge_interleave.
Print Assumptions bridge_deinterleave_ge.
Print Assumptions bridge_deinterleave.
Print Assumptions bridge_swap_multiples.
