(* Bridge: translated string_encoding_utils.py = Model.StringEnc, for all byte lists *)
From EO Require Import Prelude.Py.
Require EO.Gen.G_string_encoding_utils EO.Model.StringEnc.
Module G := EO.Gen.G_string_encoding_utils.
Module M := EO.Model.StringEnc.
Open Scope Z_scope.
Set Default Timeout 60.

Lemma body_step done c rest flip :
  G.u_invert_characters_body1 (Z.of_nat (length done)) (done ++ c :: rest, flip)
  = (done ++ M.inv_byte flip c :: rest, negb flip).
Proof.
  unfold G.u_invert_characters_body1. rewrite zget_app_mid. unfold M.inv_byte.
  destruct ((34 <=? c) && (c <=? 126)) eqn:R.
  - rewrite zset_app_mid.
    destruct flip; [destruct (c >=? 80)|]; cbv beta iota zeta; repeat (f_equal; try lia).
  - reflexivity.
Qed.

Lemma loop_all : forall rest done flip,
  for_loop (length rest) (Z.of_nat (length done)) G.u_invert_characters_body1 (done ++ rest, flip)
  = (done ++ M.invert_from flip rest, if Nat.even (length rest) then flip else negb flip).
Proof.
  induction rest as [|c rest IH]; intros done flip; cbn [length for_loop M.invert_from].
  - reflexivity.
  - rewrite body_step.
    replace (Z.of_nat (length done) + 1) with (Z.of_nat (length (done ++ [M.inv_byte flip c])))
      by (rewrite app_length; cbn [length]; lia).
    replace (done ++ M.inv_byte flip c :: rest) with ((done ++ [M.inv_byte flip c]) ++ rest)
      by (rewrite <- app_assoc; reflexivity).
    rewrite IH. rewrite <- app_assoc. cbn [app]. f_equal.
    rewrite Nat.even_succ, <- Nat.negb_even. destruct (Nat.even (length rest)), flip; reflexivity.
Qed.

Lemma bridge_invert l : G.u_invert_characters l = M.invert l.
Proof.
  unfold G.u_invert_characters, M.invert, for_range.
  replace (Z.to_nat (zlen l - 0)) with (length l) by (unfold zlen; lia).
  pose proof (loop_all l [] (zlen l mod 2 =? 1)) as H. cbn [app length] in H.
  change (Z.of_nat 0) with 0 in H. rewrite H. reflexivity.
Qed.

Lemma bridge_encode_string l : G.encode_string l = M.encode_string l.
Proof. unfold G.encode_string, M.encode_string. now rewrite bridge_invert. Qed.

Lemma bridge_decode_string l : G.decode_string l = M.decode_string l.
Proof. unfold G.decode_string, M.decode_string. now rewrite bridge_invert. Qed.

Require Import EO.Properties.C08.
Theorem C08_roundtrip_src : forall l i d, (i < length l)%nat -> nth i l d <> 126 ->
  nth i (G.decode_string (G.encode_string l)) d = nth i l d /\
  nth i (G.encode_string (G.decode_string l)) d = nth i l d.
Proof. intros. rewrite !bridge_encode_string, !bridge_decode_string. now apply C08_roundtrip_pos. Qed.
Theorem C08_length_src : forall l, length (G.encode_string l) = length l /\ length (G.decode_string l) = length l.
Proof. intros. rewrite bridge_encode_string, bridge_decode_string. apply C08_length. Qed.
Print Assumptions C08_roundtrip_src.
