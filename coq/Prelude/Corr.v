(* Helpers for the correspondence check (engine E1): the harness writes case lists into Cases/*.v and
   evaluates `failing chk cases 0` with vm_compute; only the indices of disagreeing cases are printed. *)
From EO Require Import Prelude.Py.
Open Scope Z_scope.

Fixpoint failing {A} (chk : A -> bool) (l : list A) (i : Z) : list Z :=
  match l with
  | [] => []
  | x :: t => if chk x then failing chk t (i + 1) else i :: failing chk t (i + 1)
  end.

Definition res_eqb {A} (eqA : A -> A -> bool) (a b : res A) : bool :=
  match a, b with
  | Ok x, Ok y => eqA x y
  | Err e, Err f => err_eqb e f
  | _, _ => false
  end.
Definition opt_eqb {A} (eqA : A -> A -> bool) (a b : option A) : bool :=
  match a, b with
  | Some x, Some y => eqA x y
  | None, None => true
  | _, _ => false
  end.
Definition pair_eqb {A B} (eqA : A -> A -> bool) (eqB : B -> B -> bool) (a b : A * B) : bool :=
  eqA (fst a) (fst b) && eqB (snd a) (snd b).
Fixpoint listx_eqb {A} (eqA : A -> A -> bool) (a b : list A) : bool :=
  match a, b with
  | [], [] => true
  | x :: a', y :: b' => eqA x y && listx_eqb eqA a' b'
  | _, _ => false
  end.
Definition unit_eqb (a b : unit) : bool := true.
