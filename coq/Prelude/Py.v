(* Prelude: the fragment of Python semantics the models and the translator output rely on.
   Python int -> Z, bytes/bytearray/list-of-int -> list Z, str -> list Z (code points). *)
From Coq Require Export ZArith List Bool Lia ZifyBool.
Export ListNotations.
Open Scope Z_scope.

Ltac Zify.zify_post_hook ::= Z.to_euclidean_division_equations.

(* ---- results / exceptions ------------------------------------------------------------ *)
Inductive err := EValue | ERuntime | ESerialization | EAttribute | EType | EFuel | EDraw | EUnexpected.
Inductive res (A : Type) := Ok (a : A) | Err (e : err).
Arguments Ok {A} a. Arguments Err {A} e.
Definition rbind {A B} (m : res A) (f : A -> res B) : res B :=
  match m with Ok a => f a | Err e => Err e end.
Notation "'do' x <- m ; f" := (rbind m (fun x => f)) (at level 200, x pattern, m at level 100, f at level 200, right associativity).

Definition err_eqb (a b : err) : bool :=
  match a, b with
  | EValue, EValue | ERuntime, ERuntime | ESerialization, ESerialization | EAttribute, EAttribute
  | EType, EType | EFuel, EFuel | EDraw, EDraw | EUnexpected, EUnexpected => true
  | _, _ => false end.

(* ---- lists as Python sequences ------------------------------------------------------- *)
Definition zlen {A} (l : list A) : Z := Z.of_nat (length l).
Definition zget (l : list Z) (i : Z) : Z := nth (Z.to_nat i) l 0.
Fixpoint set_nth {A} (n : nat) (l : list A) (v : A) : list A :=
  match l, n with
  | [], _ => []
  | _ :: t, O => v :: t
  | h :: t, S n' => h :: set_nth n' t v
  end.
Definition zset (l : list Z) (i : Z) (v : Z) : list Z := set_nth (Z.to_nat i) l v.
(* l[a:b] for 0 <= a, 0 <= b (Python clips to the length) *)
Definition slice {A} (l : list A) (a b : Z) : list A :=
  firstn (Z.to_nat (b - a)) (skipn (Z.to_nat a) l).
Definition zrepeat {A} (x : A) (n : Z) : list A := repeat x (Z.to_nat n).

Fixpoint list_eqb (a b : list Z) : bool :=
  match a, b with
  | [], [] => true
  | x :: a', y :: b' => (x =? y) && list_eqb a' b'
  | _, _ => false
  end.

Lemma list_eqb_eq a b : list_eqb a b = true <-> a = b.
Proof.
  revert b; induction a as [|x a IH]; intros [|y b]; cbn; split; intro H; try congruence; try discriminate.
  - apply andb_true_iff in H as [H1 H2]. apply Z.eqb_eq in H1. apply IH in H2. congruence.
  - inversion H; subst. apply andb_true_iff; split; [apply Z.eqb_refl | apply IH; reflexivity].
Qed.

(* ---- loops --------------------------------------------------------------------------- *)
(* for i in range(lo, lo+n): st := body i st *)
Fixpoint for_loop {S} (n : nat) (i : Z) (body : Z -> S -> S) (st : S) : S :=
  match n with
  | O => st
  | Datatypes.S n' => for_loop n' (i + 1) body (body i st)
  end.
Definition for_range {S} (lo hi : Z) (body : Z -> S -> S) (st : S) : S :=
  for_loop (Z.to_nat (hi - lo)) lo body st.

(* while cond st: st := body st, with explicit fuel; None = fuel exhausted *)
Fixpoint while_loop {S} (fuel : nat) (cond : S -> bool) (body : S -> S) (st : S) : option S :=
  if cond st then
    match fuel with
    | O => None
    | Datatypes.S f => while_loop f cond body (body st)
    end
  else Some st.

Lemma for_loop_app {S} n m i (body : Z -> S -> S) st :
  for_loop (n + m) i body st = for_loop m (i + Z.of_nat n) body (for_loop n i body st).
Proof.
  revert i st; induction n as [|n IH]; intros i st; cbn [for_loop Nat.add].
  - f_equal; lia.
  - rewrite IH. f_equal. lia.
Qed.

(* invariant rule for for_loop *)
Lemma for_loop_inv {S} (P : nat -> S -> Prop) n i0 (body : Z -> S -> S) st :
  P O st ->
  (forall k s, (k < n)%nat -> P k s -> P (Datatypes.S k) (body (i0 + Z.of_nat k) s)) ->
  P n (for_loop n i0 body st).
Proof.
  revert P i0 st; induction n as [|n IH]; intros P i0 st H0 Hs; cbn [for_loop]; [exact H0|].
  apply (IH (fun k s => P (Datatypes.S k) s)).
  - replace i0 with (i0 + Z.of_nat 0) by lia. apply Hs; [lia | exact H0].
  - intros k s Hk HP. replace (i0 + 1 + Z.of_nat k) with (i0 + Z.of_nat (Datatypes.S k)) by lia.
    apply Hs; [lia | exact HP].
Qed.

(* Python int(a / b) for exact floats (|a|,|b| < 2^26): truncation toward zero *)
Definition truediv_int (a b : Z) : Z := Z.quot a b.

Definition bytes_ok (l : list Z) : Prop := Forall (fun b => 0 <= b <= 255) l.
Definition bytes_okb (l : list Z) : bool := forallb (fun b => (0 <=? b) && (b <=? 255)) l.

(* bytes([..]) raises ValueError unless every element is in range(256) *)
Definition py_bytes (l : list Z) : res (list Z) := if bytes_okb l then Ok l else Err EValue.

(* random.randrange(a, b): ValueError on an empty range; otherwise the next scripted draw, which must
   respect the contract a <= r < b (EDraw flags a draw script that does not). *)
Definition randrange (a b : Z) (draws : list Z) : res (Z * list Z) :=
  if a <? b then
    match draws with
    | r :: t => if (a <=? r) && (r <? b) then Ok (r, t) else Err EDraw
    | [] => Err EDraw
    end
  else Err EValue.

(* ---- indexing lemmas used by loop bridges -------------------------------------------- *)
Lemma zget_app_mid (done : list Z) c rest : zget (done ++ c :: rest) (Z.of_nat (length done)) = c.
Proof. unfold zget. rewrite Nat2Z.id. rewrite app_nth2 by lia. rewrite Nat.sub_diag. reflexivity. Qed.

Lemma set_nth_app_mid {A} (done : list A) c rest v : set_nth (length done) (done ++ c :: rest) v = done ++ v :: rest.
Proof. induction done as [|x done IH]; cbn [length app set_nth]; [reflexivity | now rewrite IH]. Qed.

Lemma zset_app_mid (done : list Z) c rest v : zset (done ++ c :: rest) (Z.of_nat (length done)) v = done ++ v :: rest.
Proof. unfold zset. rewrite Nat2Z.id. apply set_nth_app_mid. Qed.

Lemma set_nth_length {A} n (l : list A) v : length (set_nth n l v) = length l.
Proof. revert n; induction l as [|x l IH]; intros [|n]; cbn [set_nth length]; auto. Qed.

Lemma zlen_app {A} (a b : list A) : zlen (a ++ b) = zlen a + zlen b.
Proof. unfold zlen. rewrite app_length. lia. Qed.
Lemma zlen_nonneg {A} (a : list A) : 0 <= zlen a.
Proof. unfold zlen. lia. Qed.
Lemma zlen_cons {A} (x : A) l : zlen (x :: l) = zlen l + 1.
Proof. unfold zlen. cbn [length]. lia. Qed.
Lemma zlen_rev {A} (l : list A) : zlen (rev l) = zlen l.
Proof. unfold zlen. now rewrite rev_length. Qed.
