(* Prelude, part 2: the few extra Python builtins used by the object classes (eo_reader.py, eo_writer.py).
   Like Prelude/Py.v this file is part of the trusted reading of Python; it is validated against CPython by the
   correspondence harness, not proved.  str = list of code points, bytes/bytearray/memoryview = list Z. *)
From EO Require Import Prelude.Py.
(* bytearray(s, 'windows-1252', 'replace') = cp_encode s ;  bs.decode('windows-1252', 'replace') = cp_decode bs *)
From EO Require Export Model.Cp1252.
Open Scope Z_scope.

(* bytearray.append(v): ValueError unless v in range(256) *)
Definition bytearray_append (l : list Z) (v : Z) : res (list Z) :=
  if (0 <=? v) && (v <=? 255) then Ok (l ++ [v]) else Err EValue.

(* bs.find(bytes([c])): index of the first c in bs, or -1 *)
Fixpoint find_from (l : list Z) (c : Z) (i : Z) : Z :=
  match l with
  | [] => -1
  | x :: t => if x =? c then i else find_from t c (i + 1)
  end.
Definition find_byte (l : list Z) (c : Z) : Z := find_from l c 0.

(* l[a:b] = v  for 0 <= a, 0 <= b (Python clips both bounds to the length and uses max a b as the upper bound);
   on a bytearray the length may change *)
Definition slice_assign {A} (l : list A) (a b : Z) (v : list A) : list A :=
  firstn (Z.to_nat a) l ++ v ++ skipn (Z.to_nat (Z.max a b)) l.
