(* Model of src/eolib/packet/sequence_start.py: the three generate()/from_*() pairs.
   Objects are their field tuples (value, seq1, seq2); random.randrange is the scripted source of
   Prelude.Py.randrange (next element of `draws`, which must respect randrange's contract). *)
From EO Require Import Prelude.Py Model.Limits.
Open Scope Z_scope.

Definition account_from_value (v : Z) : Z := v.
Definition account_generate (draws : list Z) : res (Z * list Z) :=
  do (r, draws) <- randrange 0 240 draws; Ok (r, draws).

Definition init_from_init_values (seq1 seq2 : Z) : Z * Z * Z := (seq1 * 7 + seq2 - 13, seq1, seq2).
Definition seq1_max (value : Z) : Z := truediv_int (value + 13) 7.
Definition seq1_min (value : Z) : Z := Z.max 0 (truediv_int (value - (CHAR_MAX - 1) + 13 + 6) 7).
Definition init_generate (draws : list Z) : res ((Z * Z * Z) * list Z) :=
  do (value, draws) <- randrange 0 1757 draws;
  do (r, draws) <- randrange 0 (seq1_max value - seq1_min value) draws;
  let seq1 := r + seq1_min value in
  let seq2 := value - seq1 * 7 + 13 in
  Ok ((value, seq1, seq2), draws).

Definition ping_from_ping_values (seq1 seq2 : Z) : Z * Z * Z := (seq1 - seq2, seq1, seq2).
Definition ping_generate (draws : list Z) : res ((Z * Z * Z) * list Z) :=
  do (value, draws) <- randrange 0 1757 draws;
  do (r, draws) <- randrange 0 (CHAR_MAX - 1) draws;
  let seq1 := value + r in
  let seq2 := seq1 - value in
  Ok ((value, seq1, seq2), draws).
