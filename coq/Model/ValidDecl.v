(* What it means for an object to respect its declaration (property C16), stated declaratively over the
   elaborated spec and the object's slots - without reference to the writer. *)
From EO Require Import Prelude.Py Model.Limits Model.Spec Model.Ser.
Open Scope Z_scope.

(* "an integer at or above its type's limit" is a violation *)
Definition int_below (t : itype) (z : Z) : bool :=
  match t with TByte => (0 <=? z) && (z <=? 255) | _ => z <=? itype_max t end.

Section WithRec.
  (* validity of a nested object of class n *)
  Variable vc : string -> value -> bool.

  Definition valid_value (ty : etype) (v : value) : bool :=
    match ty, v with
    | EInt t, VInt z => int_below t z
    | EInt t, VBool b => true
    | EBool _, _ => true
    | EEnum _ t, VInt z => int_below t z
    | EEnum _ _, VBool _ => true
    | EStr _, VStr _ => true
    | EBlob, VBytes _ => true
    | EStruct n, x => vc n x
    | _, _ => false
    end.

  (* declared length: exact for a literal length (at most, when padded), at most max(type)+offset for a length field *)
  Definition valid_len (f : fieldspec) (v : value) : bool :=
    match f_len f, py_len v with
    | LNone, _ => true
    | _, None => false
    | LLit n, Some l => if f_padded f then l <=? n else l =? n
    | LRef _, Some l => l <=? f_maxlen f
    end.

  (* returns (valid so far, reached_missing_optional) *)
  Definition valid_instr (flds : list (string * value)) (i : einstr) (rmo : bool) : bool * bool :=
    match i with
    | EField f =>
      match f_name f with
      | None => (true, rmo)
      | Some name =>
        match assoc flds name with
        | None => (false, rmo)
        | Some v =>
          let '(rmo', go) := opt_guard (f_optional f) (f_opt_first f) rmo v in
          if negb go then (true, rmo') else
          (* a required (non-hardcoded) field must be provided *)
          if is_none v && (match f_hard f with Some _ => false | None => true end) then (false, rmo') else
          (valid_len f v && valid_value (f_ty f) v, rmo')
        end
      end
    | EArray f _ _ _ =>
      match f_name f with
      | None => (false, rmo)
      | Some name =>
        match assoc flds name with
        | None => (false, rmo)
        | Some v =>
          let '(rmo', go) := opt_guard (f_optional f) (f_opt_first f) rmo v in
          if negb go then (true, rmo') else
          match v with
          | VList elems => (valid_len f v && forallb (valid_value (f_ty f)) elems, rmo')
          | _ => (false, rmo')
          end
        end
      end
    | ELength _ t off optional opt_first ref_by =>
      match ref_by with
      | None => (false, rmo)
      | Some fr =>
        match assoc flds fr with
        | Some fv => match length_slot fv with
                     | Some sv => let '(rmo', go) := opt_guard optional opt_first rmo sv in
                                  (negb go || match sv with VInt l => int_below t (l - off) | _ => false end, rmo')
                     | None => (false, rmo) end
        | None => (false, rmo)
        end
      end
    | ESwitch field cases =>
      match assoc flds field, assoc flds (field ++ "_data")%string with
      | Some fv, Some dv =>
        let z := match fv with VInt z => Some z | VBool b => Some (if b then 1 else 0) | _ => None end in
        match find_case cases z with
        | None => (is_none dv, rmo)                      (* no case for this value: there is nothing to carry *)
        | Some c =>
          match c_cls c with
          | None => (is_none dv, rmo)                    (* empty case: the data must be None *)
          | Some cls => (match obj_class dv with Some c' => String.eqb c' cls && vc cls dv | None => false end, rmo)
          end
        end
      | _, _ => (false, rmo)
      end
    | _ => (true, rmo)
    end.

  Fixpoint valid_instrs (flds : list (string * value)) (is : list einstr) (rmo : bool) : bool :=
    match is with
    | [] => true
    | i :: t => let '(ok, rmo') := valid_instr flds i rmo in ok && valid_instrs flds t rmo'
    end.

  Definition valid_body (d : sdef) (v : value) : bool :=
    match v with
    | VObj _ flds => valid_instrs flds (sd_body d) false
    | _ => match sd_body d with [] => true | _ => false end
    end.
End WithRec.

Fixpoint valid_decl (fuel : nat) (E : env) (cls : string) (v : value) : bool :=
  match fuel with
  | O => false
  | S f => match env_find E cls with Some d => valid_body (valid_decl f E) d v | None => false end
  end.
