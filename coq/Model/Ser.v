(* Reference semantics of generated `serialize` methods: one clause per statement the generator emits
   (protocol_code_generator/generate/{object,field,switch}_code_generator.py), over the EoWriter model. *)
From EO Require Import Prelude.Py Model.Limits Model.Number Model.StringEnc Model.Cp1252 Model.Writer Model.Spec.
Open Scope Z_scope.

Definition is_none (v : value) : bool := match v with VNone => true | _ => false end.
(* Python len() of a slot value; None when len() raises TypeError *)
Definition py_len (v : value) : option Z :=
  match v with VStr s => Some (zlen s) | VBytes b => Some (zlen b) | VList l => Some (zlen l) | _ => None end.
(* the constructor's assignment to a length field's slot: len(self._f) [if self._f is not None else None] *)
Definition length_slot (fv : value) : option value :=
  match py_len fv with Some l => Some (VInt l) | None => if is_none fv then Some VNone else None end.
(* truthiness, for `1 if x else 0` *)
Definition truthy (v : value) : bool :=
  match v with VNone => false | VInt z => negb (z =? 0) | VBool b => b | VStr s => negb (zlen s =? 0)
             | VBytes s => negb (zlen s =? 0) | VList l => negb (zlen l =? 0) | VObj _ _ => true end.

Definition w_add_int_of (t : itype) (w : wstate) (z : Z) : wres :=
  match t with TByte => w_add_byte w z | TChar => w_add_char w z | TShort => w_add_short w z
             | TThree => w_add_three w z | TInt => w_add_int w z end.

(* the value of a hardcoded literal as the emitted Python expression evaluates it *)
Definition lit_value (ty : etype) (lit : string) : res value :=
  match ty with
  | EInt _ => match parse_int lit with Some z => if isdigit lit then Ok (VInt z) else Err EUnexpected | None => Err EUnexpected end
  | EBool _ => if String.eqb lit "true" then Ok (VBool true) else if String.eqb lit "false" then Ok (VBool false) else Err EUnexpected
  | EStr _ => Ok (VStr (str_cps lit))
  | _ => Err EUnexpected
  end.

Section WithRec.
  (* serializer of a struct-typed value one level down: Cls.serialize(writer, v) *)
  Variable rec : string -> value -> wstate -> wres.

  (* the write statement for one value of type ty; len = length expression of a fixed string *)
  Definition ser_value (ty : etype) (v : value) (len : option Z) (padded : bool) (offset : Z) (w : wstate) : wres :=
    match ty with
    | EInt t => match v with VInt z => w_add_int_of t w (z - offset) | VBool b => w_add_int_of t w ((if b then 1 else 0) - offset) | _ => (w, Err EType) end
    | EBool t => w_add_int_of t w (if truthy v then 1 else 0)
    | EEnum _ t => match v with VInt z => w_add_int_of t w z | VBool b => w_add_int_of t w (if b then 1 else 0) | _ => (w, Err EType) end
    | EStr enc =>
        match v with
        | VStr s =>
            match len with
            | None => if enc then w_add_encoded_string w s else w_add_string w s
            | Some n => if enc then w_add_fixed_encoded_string w s n padded else w_add_fixed_string w s n padded
            end
        | _ => (w, Err EType)
        end
    | EBlob => match v with VBytes b => w_add_bytes w b | _ => (w, Err EType) end
    | EStruct n => rec n v w
    end.

  (* for i in range(n): [if i > 0: add_byte(0xFF)] write data._f[i] [add_byte(0xFF)] *)
  Fixpoint ser_elems (ty : etype) (delimited trailing : bool) (n : nat) (i : Z) (elems : list value) (w : wstate) : wres :=
    match n with
    | O => (w, Ok tt)
    | S n' =>
      let '(w1, r1) := if delimited && negb trailing && (i >? 0) then w_add_byte w 255 else (w, Ok tt) in
      match r1 with Err e => (w1, Err e) | Ok _ =>
      match elems with
      | [] => (w1, Err EUnexpected)        (* IndexError: cannot happen after the length check *)
      | x :: rest =>
        let '(w2, r2) := ser_value ty x None false 0 w1 in
        match r2 with Err e => (w2, Err e) | Ok _ =>
        let '(w3, r3) := if delimited && trailing then w_add_byte w2 255 else (w2, Ok tt) in
        match r3 with Err e => (w3, Err e) | Ok _ => ser_elems ty delimited trailing n' (i + 1) rest w3 end
        end
      end end
    end.

  (* optional guard: returns the new reached_missing_optional and whether the field's statements run *)
  Definition opt_guard (optional opt_first : bool) (rmo : bool) (v : value) : bool * bool :=
    if optional then let rmo' := (if opt_first then false else rmo) || is_none v in (rmo', negb rmo') else (rmo, true).

  Definition len_check (f : fieldspec) (v : value) : res unit :=
    match f_name f with
    | None => Ok tt
    | Some _ =>
      let bound := match f_len f with LRef _ => Some (f_maxlen f, true) | LLit n => Some (n, f_padded f) | LNone => None end in
      match bound with
      | None => Ok tt
      | Some (b, variable) =>
        match py_len v with
        | None => Err EType
        | Some l => if (if variable then l >? b else negb (l =? b)) then Err ESerialization else Ok tt
        end
      end
    end.

  Definition ser_field (flds : list (string * value)) (f : fieldspec) (rmo : bool) (w : wstate) : wstate * res unit * bool :=
    match f_name f with
    | None =>   (* unnamed hardcoded field *)
      match f_hard f with
      | None => (w, Err EUnexpected, rmo)
      | Some lit => match lit_value (f_ty f) lit with
                    | Err e => (w, Err e, rmo)
                    | Ok v => let len := match f_len f with LLit n => Some n | _ => None end in
                              let '(w', r) := ser_value (f_ty f) v len (f_padded f) 0 w in (w', r, rmo)
                    end
      end
    | Some name =>
      match assoc flds name with
      | None => (w, Err EAttribute, rmo)
      | Some v =>
        let '(rmo', go) := opt_guard (f_optional f) (f_opt_first f) rmo v in
        if negb go then (w, Ok tt, rmo') else
        if negb (f_optional f) && (match f_hard f with None => true | Some _ => false end) && is_none v then (w, Err ESerialization, rmo') else
        match len_check f v with
        | Err e => (w, Err e, rmo')
        | Ok _ =>
          let len := match f_len f with LLit n => Some n | LRef _ => py_len v | LNone => None end in
          let '(w', r) := ser_value (f_ty f) v len (f_padded f) 0 w in (w', r, rmo')
        end
      end
    end.

  Definition ser_array (flds : list (string * value)) (f : fieldspec) (delimited trailing : bool) (rmo : bool) (w : wstate) : wstate * res unit * bool :=
    match f_name f with
    | None => (w, Err EUnexpected, rmo)
    | Some name =>
      match assoc flds name with
      | None => (w, Err EAttribute, rmo)
      | Some v =>
        let '(rmo', go) := opt_guard (f_optional f) (f_opt_first f) rmo v in
        if negb go then (w, Ok tt, rmo') else
        if negb (f_optional f) && is_none v then (w, Err ESerialization, rmo') else
        match len_check f v with
        | Err e => (w, Err e, rmo')
        | Ok _ =>
          match v with
          | VList elems =>
            let n := match f_len f with LLit n => n | _ => zlen elems end in
            let '(w', r) := ser_elems (f_ty f) delimited trailing (Z.to_nat n) 0 elems w in (w', r, rmo')
          | _ => (w, Err EType, rmo')
          end
        end
      end
    end.

  Fixpoint find_case (cases : list ecase) (z : option Z) : option ecase :=
    match cases with
    | [] => None
    | c :: t => match c_key c with
                | CKDefault => Some c
                | CKValue v => match z with Some x => if x =? v then Some c else find_case t z | None => find_case t z end
                end
    end.

  Definition obj_class (v : value) : option string := match v with VObj c _ => Some c | _ => None end.

  Definition ser_instr (flds : list (string * value)) (old_len : Z) (i : einstr) (rmo : bool) (w : wstate) : wstate * res unit * bool :=
    match i with
    | EField f => ser_field flds f rmo w
    | EArray f d t _ => ser_array flds f d t rmo w
    | ELength name t off optional opt_first ref_by =>
      match ref_by with
      | None => (w, Err EAttribute, rmo)     (* the slot is never assigned *)
      | Some fr =>
        match assoc flds fr with
        | None => (w, Err EAttribute, rmo)
        | Some fv =>
          (* the slot holds len(referencing field), or None when that (optional) field is None *)
          match length_slot fv with
          | None => (w, Err EType, rmo)
          | Some sv =>
            let '(rmo', go) := opt_guard optional opt_first rmo sv in
            if negb go then (w, Ok tt, rmo') else
            match sv with
            | VInt l => let '(w', r) := w_add_int_of t w (l - off) in (w', r, rmo')
            | _ => (w, Err ESerialization, rmo')        (* "<length field> must be provided." *)
            end
          end
        end
      end
    | EDummy ty lit guarded =>
      if guarded && negb (zlen (wdata w) =? old_len) then (w, Ok tt, rmo) else
      match lit_value ty lit with
      | Err e => (w, Err e, rmo)
      | Ok v => let '(w', r) := ser_value ty v None false 0 w in (w', r, rmo)
      end
    | ESwitch field cases =>
      match assoc flds field, assoc flds (field ++ "_data")%string with
      | Some fv, Some dv =>
        let z := match fv with VInt z => Some z | VBool b => Some (if b then 1 else 0) | _ => None end in
        match find_case cases z with
        | None => if is_none dv then (w, Ok tt, rmo) else (w, Err ESerialization, rmo)   (* no case matches: case data must be None *)
        | Some c =>
          match c_cls c with
          | None => if is_none dv then (w, Ok tt, rmo) else (w, Err ESerialization, rmo)
          | Some cls =>
            match obj_class dv with
            | Some c' => if String.eqb c' cls then let '(w', r) := rec cls dv w in (w', r, rmo) else (w, Err ESerialization, rmo)
            | None => (w, Err ESerialization, rmo)
            end
          end
        end
      | _, _ => (w, Err EAttribute, rmo)
      end
    | ESetMode b => (w_set_san w b, Ok tt, rmo)
    | EBreak => let '(w', r) := w_add_byte w 255 in (w', r, rmo)
    end.

  Fixpoint ser_instrs (flds : list (string * value)) (old_len : Z) (is : list einstr) (rmo : bool) (w : wstate) : wres :=
    match is with
    | [] => (w, Ok tt)
    | i :: t => let '(w', r, rmo') := ser_instr flds old_len i rmo w in
                match r with Ok _ => ser_instrs flds old_len t rmo' w' | Err e => (w', Err e) end
    end.

  (* the body of Cls.serialize(writer, data): save the mode, try: statements, finally: restore the mode *)
  Definition ser_body (d : sdef) (v : value) (w : wstate) : wres :=
    let old_san := wsan w in
    match v with
    | VObj _ flds => let '(w', r) := ser_instrs flds (zlen (wdata w)) (sd_body d) false w in (w_set_san w' old_san, r)
    | _ => match sd_body d with [] => (w, Ok tt) | _ => (w, Err EAttribute) end
    end.
End WithRec.

Fixpoint ser_struct (fuel : nat) (E : env) (cls : string) (v : value) (w : wstate) : wres :=
  match fuel with
  | O => (w, Err EFuel)
  | S f => match env_find E cls with
           | Some d => ser_body (ser_struct f E) d v w
           | None => (w, Err EAttribute)
           end
  end.

(* serialize with a fresh writer in a given entry mode *)
Definition serialize (E : env) (cls : string) (v : value) (san : bool) : wres :=
  ser_struct (S (List.length E)) E cls v (mkW [] san).
