(* Decidable side conditions on an elaborated package under which generator acceptance implies well-formedness
   (Proofs/ElabSound.v, Properties/C03W.v).  `nondegenerate` spells out, for the model, the property's carve-out
   "degenerate = zero-size array elements ... identifiers that collide with generated member names". *)
From EO Require Import Prelude.Py Model.Spec Model.Elab Model.Ser Model.WfEnv Model.Progress.
Open Scope string_scope.
Open Scope list_scope.
Open Scope Z_scope.

Definition lens_required (p : pkg) : bool :=        (* no OPTIONAL <length> field anywhere *)
  forallb (fun d => forallb (fun i => match i with ELength _ _ _ opt _ _ => negb opt | _ => true end) (sd_body d)) (pk_env p).

Definition opt_len_names (es : list einstr) : list string :=
  flat_map (fun i => match i with ELength n _ _ true _ _ => [n] | _ => [] end) es.
Definition switch_data_names (es : list einstr) : list string :=
  flat_map (fun i => match i with ESwitch f _ => [(f ++ "_data")%string] | _ => [] end) es.

(* weaker than lens_required: no optional length field of a class is REFERENCED as the length of a field / array of that class *)
Definition def_opt_lens_unreferenced (d : sdef) : bool :=
  forallb (fun i => match i with
                    | EField f | EArray f _ _ _ =>
                      match f_len f with LRef l => negb (mem_str l (opt_len_names (sd_body d))) | _ => true end
                    | _ => true end) (sd_body d).
Definition opt_lens_unreferenced (p : pkg) : bool := forallb def_opt_lens_unreferenced (pk_env p).

(* no required length field is named like the `<field>_data` slot of a switch of the same class *)
Definition def_switch_data_fresh (d : sdef) : bool :=
  forallb (fun i => match i with
                    | ELength n _ _ false _ _ => negb (mem_str n (switch_data_names (sd_body d)))
                    | _ => true end) (sd_body d).
Definition switch_data_fresh (p : pkg) : bool := forallb def_switch_data_fresh (pk_env p).

(* every `remaining / size` array has a positive element size *)
Definition def_arrays_sized (d : sdef) : bool :=
  forallb (fun i => match i with EArray _ _ _ (ACRemaining sz) => 0 <? sz | _ => true end) (sd_body d).
Definition arrays_sized (p : pkg) : bool := forallb def_arrays_sized (pk_env p).

(* no enum is named like a generated class *)
Definition enum_names_fresh (p : pkg) : bool :=
  forallb (fun e => negb (mem_str (pe_name e) (map sd_name (pk_env p)))) (pk_enums p).


Definition nondegenerate (p : pkg) : bool :=
  dup_free (map sd_name (pk_env p)) && enum_names_fresh p && switch_data_fresh p && arrays_sized p.

(* the domain of C03_accepted_wf, per accepted tree: (nondegenerate, no recursive struct, optional lengths unreferenced, wf_pkg) *)
Definition tree_domain (files : list rfile) : option (bool * bool * bool * bool) :=
  match elab files with
  | Err _ => None
  | Ok p => Some (nondegenerate p, depth_ok (pk_env p), opt_lens_unreferenced p, wf_pkg p)
  end.
