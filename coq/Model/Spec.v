(* The eo-protocol specification language: raw XML-level AST (attributes unparsed), the elaborated flat
   instruction form that mirrors the statements the generator emits, and the values of generated classes. *)
From EO Require Import Prelude.Py.
From Coq Require Export String Ascii.
Open Scope Z_scope.

(* ---------------- raw (as in the XML) ---------------- *)
Inductive rinstr :=
| RField (name : option string) (type : option string) (length padded optional : option string) (text : option string)
| RArray (name type length optional delimited trailing : option string)
| RLength (name type offset optional : option string)
| RDummy (type : option string) (text : option string)
| RSwitch (field : option string) (cases : list rcase)
| RChunked (body : list rinstr)
| RBreak
with rcase := RCase (value default : option string) (body : list rinstr).

Record renum := mkREnum { re_name : option string; re_type : option string; re_values : list (option string * option string) (* name, text *) }.
Record rstruct := mkRStruct { rs_name : option string; rs_body : list rinstr }.
Record rpacket := mkRPacket { rp_family : option string; rp_action : option string; rp_body : list rinstr }.
(* one protocol.xml; rf_path is the directory relative to the XML root, "" for the root itself *)
Record rfile := mkRFile { rf_path : string; rf_enums : list renum; rf_structs : list rstruct; rf_packets : list rpacket }.

(* ---------------- elaborated ---------------- *)
Inductive itype := TByte | TChar | TShort | TThree | TInt.
Definition itype_size (t : itype) : Z := match t with TByte | TChar => 1 | TShort => 2 | TThree => 3 | TInt => 4 end.
(* get_max_value_of *)
Definition itype_max (t : itype) : Z :=
  match t with TByte => 255 | TChar => 252 | TShort => 64008 | TThree => 16194276 | TInt => 4097152080 end.

Inductive etype :=
| EInt (t : itype)
| EBool (t : itype)
| EEnum (name : string) (t : itype)
| EStr (encoded : bool)
| EBlob
| EStruct (name : string).

Inductive elen := LNone | LLit (n : Z) | LRef (field : string).

Record fieldspec := mkField {
  f_name : option string;      (* None: unnamed hardcoded field *)
  f_ty : etype;
  f_len : elen;
  f_padded : bool;
  f_optional : bool;
  f_opt_first : bool;          (* no optional field reached yet in this segment: `rmo = ...` rather than `rmo = rmo or ...` *)
  f_hard : option string;      (* hardcoded literal text *)
  f_maxlen : Z                 (* for LRef: max value of the length field's type + its offset *)
}.

(* how the deserializer finds the element count of an array *)
Inductive acount := ACExpr | ACRemaining (elem_size : Z) | ACWhile.

Inductive ecase_key := CKValue (v : Z) | CKDefault.
Record ecase := mkCase { c_key : ecase_key; c_cls : option string (* class of the case data; None = empty case *) }.

Inductive einstr :=
| EField (f : fieldspec)
| EArray (f : fieldspec) (delimited trailing : bool) (count : acount)
| ELength (name : string) (t : itype) (offset : Z) (optional opt_first : bool) (ref_by : option string)
| EDummy (ty : etype) (lit : string) (guarded : bool)
| ESwitch (field : string) (cases : list ecase)
| ESetMode (b : bool)
| EBreak.

Record sdef := mkSDef { sd_name : string; sd_body : list einstr }.
(* all generated classes (structs, packets, case-data classes), by class name *)
Definition env := list sdef.
Fixpoint env_find (e : env) (n : string) : option sdef :=
  match e with [] => None | d :: t => if String.eqb (sd_name d) n then Some d else env_find t n end.

Record penum := mkPEnum { pe_name : string; pe_under : itype; pe_values : list (string * Z) }.
Record ppacket := mkPPacket { pp_cls : string; pp_family : Z; pp_action : Z }.
Record pkg := mkPkg { pk_env : env; pk_enums : list penum; pk_packets : list ppacket;
                      pk_files : list (string * list string) (* per input file: directory, class names it declares *) }.

(* ---------------- values ---------------- *)
Inductive value :=
| VNone
| VInt (z : Z)            (* ints and enum values *)
| VBool (b : bool)
| VStr (s : list Z)       (* code points *)
| VBytes (b : list Z)
| VList (l : list value)
| VObj (cls : string) (fields : list (string * value)).

Fixpoint assoc {A} (l : list (string * A)) (k : string) : option A :=
  match l with [] => None | (k', v) :: t => if String.eqb k' k then Some v else assoc t k end.
Definition assoc_set {A} (l : list (string * A)) (k : string) (v : A) : list (string * A) := l ++ [(k, v)].

(* ---------------- small string utilities (ASCII identifiers and numerals) ---------------- *)
Definition is_digit (c : ascii) : bool := let n := nat_of_ascii c in (48 <=? n)%nat && (n <=? 57)%nat.
Fixpoint all_digits (s : string) : bool :=
  match s with EmptyString => true | String c t => is_digit c && all_digits t end.
(* str.isdigit() on ASCII text: non-empty and all digits *)
Definition isdigit (s : string) : bool := match s with EmptyString => false | _ => all_digits s end.
Fixpoint digits_val (s : string) (acc : Z) : Z :=
  match s with EmptyString => acc | String c t => digits_val t (acc * 10 + Z.of_nat (nat_of_ascii c) - 48) end.
(* int(text) on ASCII text of the form [+-]?digits; None otherwise (ValueError) *)
Definition parse_int (s : string) : option Z :=
  match s with
  | String "-" t => if isdigit t then Some (- digits_val t 0) else None
  | String "+" t => if isdigit t then Some (digits_val t 0) else None
  | _ => if isdigit s then Some (digits_val s 0) else None
  end.
Definition try_parse_int (s : option string) : option Z := match s with Some t => parse_int t | None => None end.

(* split at the first ':' *)
Fixpoint split_colon (s : string) : string * option string :=
  match s with
  | EmptyString => (EmptyString, None)
  | String ":" t => (EmptyString, Some t)
  | String c t => let '(a, b) := split_colon t in (String c a, b)
  end.
Fixpoint has_colon (s : string) : bool :=
  match s with EmptyString => false | String ":" _ => true | String _ t => has_colon t end.

Definition lower_ascii (c : ascii) : ascii :=
  let n := nat_of_ascii c in if (65 <=? n)%nat && (n <=? 90)%nat then ascii_of_nat (n + 32) else c.
Fixpoint lower (s : string) : string := match s with EmptyString => EmptyString | String c t => String (lower_ascii c) (lower t) end.
(* get_boolean_attribute *)
Definition bool_attr (a : option string) (default : bool) : bool :=
  match a with None => default | Some s => String.eqb (lower s) "true" end.
(* element.get(name) used directly as a condition: truthy iff present and non-empty *)
Definition truthy_attr (a : option string) : bool :=
  match a with None => false | Some EmptyString => false | Some _ => true end.

Fixpoint str_cps (s : string) : list Z :=
  match s with EmptyString => [] | String c t => Z.of_nat (nat_of_ascii c) :: str_cps t end.
Definition str_len (s : string) : Z := Z.of_nat (String.length s).
Fixpoint mem_str (x : string) (l : list string) : bool :=
  match l with [] => false | y :: t => String.eqb x y || mem_str x t end.
