(* The generator's `serialize` templates as a Coq function: instruction list -> statements of Model/PyStmt.v.
   Mirrors, statement by statement, protocol_code_generator/generate/{object,field,switch}_code_generator.py
   (generate_serialize, _generate_serialize_missing_optional_guard, _generate_serialize_none_not_allowed_error,
   _generate_serialize_length_check, _get_write_statement, _generate_dummy, generate_case, generate_unmatched_guard,
   _generate_chunked, _generate_break, _generate_serialize_method) and `class Render` of tools/gen2instr.py.
   `None` = the generator raises for such an instruction (no class is generated), or would emit text that is not Python. *)
From EO Require Import Prelude.Py Model.Writer Model.Spec Model.PyStmt.
Open Scope string_scope.
Open Scope list_scope.
Open Scope Z_scope.

Definition RMO := "reached_missing_optional".
Definition OLD_LEN := "old_writer_length".
Definition OLD_MODE := "old_string_sanitization_mode".
Definition LOOP_VAR := "i".

Definition add_meth (t : itype) : wmeth :=
  match t with TByte => MByte | TChar => MChar | TShort => MShort | TThree => MThree | TInt => MInt end.

(* _get_python_type_name: the first argument of cast(..) *)
Definition py_type_name (ty : etype) : string :=
  match ty with EInt _ => "int" | EBool _ => "bool" | EStr _ => "str" | EBlob => "bytes" | EEnum n _ => n | EStruct n => n end.

(* _get_write_value_expression of an unnamed (hardcoded) field *)
Definition lit_expr (ty : etype) (lit : string) : option pexpr :=
  match ty with
  | EInt _ => if isdigit lit then Some (PInt (digits_val lit 0)) else None
  | EBool _ => if String.eqb lit "false" then Some (PInt 0) else if String.eqb lit "true" then Some (PInt 1) else None
  | EStr _ => Some (PStr lit)
  | _ => None
  end.

(* _get_length_offset_expression(-offset) appended to the value *)
Definition with_offset (e : pexpr) (offset : Z) : pexpr :=
  if offset =? 0 then e else if offset >? 0 then PBin BSub e (PInt offset) else PBin BAdd e (PInt (- offset)).

(* _get_write_statement *)
Definition write_stmt (ty : etype) (value : pexpr) (optional : bool) (offset : Z) (lenexpr : option pexpr) (padded : bool) : pstmt :=
  let v1 := if optional then PCast (py_type_name ty) value else value in
  let v2 := match ty with EBool _ => PIfElse (PInt 1) v1 (PInt 0) | EEnum _ _ => PIntOf v1 | _ => v1 end in
  let v3 := with_offset v2 offset in
  match ty with
  | EInt t | EBool t | EEnum _ t => SAdd (add_meth t) v3
  | EStr enc => match lenexpr with
                | None => SAdd (if enc then MEncString else MString) v3
                | Some le => SAddFixed enc v3 le padded
                end
  | EBlob => SAdd MBytes v3
  | EStruct n => SSerialize n v3
  end.

(* _get_serialize_length_expression *)
Definition len_expr (l : elen) : option pexpr :=
  match l with LNone => None | LLit n => Some (PInt n) | LRef f => Some (PSlot f) end.

Definition raise_if (c : pexpr) : pstmt := SIf c [SRaise] [].

(* _generate_serialize_none_not_allowed_error *)
Definition none_guard (f : fieldspec) (n : string) : list pstmt :=
  if negb (f_optional f) && (match f_hard f with None => true | Some _ => false end)
  then [raise_if (PIsNone (PSlot n))] else [].
(* _generate_serialize_length_check *)
Definition len_guard (f : fieldspec) (n : string) : list pstmt :=
  match f_len f with
  | LNone => []
  | LRef _ => [raise_if (PCmp CGt (PLen (PSlot n)) (PInt (f_maxlen f)))]
  | LLit k => [raise_if (PCmp (if f_padded f then CGt else CNe) (PLen (PSlot n)) (PInt k))]
  end.
(* _generate_serialize_missing_optional_guard around the statements of the field *)
Definition opt_wrap (f : fieldspec) (n : string) (core : list pstmt) : list pstmt :=
  if f_optional f
  then [SAssign RMO (if f_opt_first f then PIsNone (PSlot n) else POr (PVar RMO) (PIsNone (PSlot n)));
        SIf (PNot (PVar RMO)) core []]
  else core.
(* the array loop around the write statement *)
Definition array_loop (f : fieldspec) (n : string) (delimited trailing : bool) (offset : Z) : list pstmt :=
  let size := match len_expr (f_len f) with Some e => e | None => PLen (PSlot n) end in
  [SFor LOOP_VAR size
        ((if delimited && negb trailing then [SIf (PCmp CGt (PVar LOOP_VAR) (PInt 0)) [SAdd MByte (PInt 255)] []] else [])
         ++ [write_stmt (f_ty f) (PIndex (PSlot n) (PVar LOOP_VAR)) (f_optional f) offset None (f_padded f)]
         ++ (if delimited && trailing then [SAdd MByte (PInt 255)] else []))].
Definition named_fieldlike (f : fieldspec) (n : string) (write : list pstmt) : list pstmt :=
  opt_wrap f n (none_guard f n ++ len_guard f n ++ write).

(* generate_serialize of one FieldCodeGenerator (a field, an array, a length field seen as a field, a dummy seen as a field) *)
Definition fieldlike (f : fieldspec) (array delimited trailing : bool) (offset : Z) : option (list pstmt) :=
  match f_name f with
  | None =>
    if array || f_optional f then None else
    match f_hard f with
    | None => None
    | Some lit =>
      match lit_expr (f_ty f) lit with
      | None => None
      | Some e => Some [write_stmt (f_ty f) e false offset (len_expr (f_len f)) (f_padded f)]
      end
    end
  | Some n =>
    Some (named_fieldlike f n
            (if array then array_loop f n delimited trailing offset
             else [write_stmt (f_ty f) (PSlot n) (f_optional f) offset (len_expr (f_len f)) (f_padded f)]))
  end.

(* the body of one case (generate_case) *)
Definition case_body (dn : string) (c : ecase) : list pstmt :=
  match c_cls c with
  | None => [raise_if (PIsNotNone (PSlot dn))]
  | Some cls => [raise_if (PNot (PIsInstance (PSlot dn) cls)); SSerialize cls (PSlot dn)]
  end.

(* if / elif / else chain of a switch: the statements of the remaining `else` branch (Python's elif IS an `if` alone in the
   else branch); without a default case the chain ends with the unmatched-value guard *)
Fixpoint case_chain (field dn : string) (cases : list ecase) : option (list pstmt) :=
  match cases with
  | [] => Some [raise_if (PIsNotNone (PSlot dn))]
  | c :: t =>
    match c_key c with
    | CKDefault => match t with [] => Some (case_body dn c) | _ => None end       (* `elif` after `else`: not Python *)
    | CKValue v =>
      match case_chain field dn t with
      | Some el => Some [SIf (PCmp CEq (PSlot field) (PInt v)) (case_body dn c) el]
      | None => None
      end
    end
  end.

Definition render_instr (i : einstr) : option (list pstmt) :=
  match i with
  | EField f => fieldlike f false false false 0
  | EArray f d t _ => match f_name f with Some _ => fieldlike f true d t 0 | None => None end
  | ELength name t off optional opt_first _ =>
    fieldlike (mkField (Some name) (EInt t) LNone false optional opt_first None 0) false false false off
  | EDummy ty lit guarded =>
    match fieldlike (mkField None ty LNone false false false (Some lit) 0) false false false 0 with
    | None => None
    | Some core => Some (if guarded then [SIf (PCmp CEq PWriterLen (PVar OLD_LEN)) core []] else core)
    end
  | ESwitch field cases =>
    match cases with
    | c :: _ => match c_key c with CKDefault => None (* "Standalone default case is not allowed." *) | _ => case_chain field (field ++ "_data") cases end
    | [] => case_chain field (field ++ "_data") cases
    end
  | ESetMode b => Some [SSetMode (PBool b)]
  | EBreak => Some [SAdd MByte (PInt 255)]
  end.

Fixpoint render_ser (is : list einstr) : option (list pstmt) :=
  match is with
  | [] => Some []
  | i :: t => match render_instr i, render_ser t with
              | Some a, Some b => Some (a ++ b)
              | _, _ => None
              end
  end.

(* needs_old_writer_length_variable / needs_reached_missing_optional_variable *)
Definition instr_needs_old (i : einstr) : bool := match i with EDummy _ _ true => true | _ => false end.
Definition instr_needs_rmo (i : einstr) : bool :=
  match i with
  | EField f | EArray f _ _ _ => f_optional f && negb (f_opt_first f)
  | ELength _ _ _ optional opt_first _ => optional && negb opt_first
  | _ => false
  end.
Definition needs_old (is : list einstr) : bool := existsb instr_needs_old is.
Definition needs_rmo (is : list einstr) : bool := existsb instr_needs_rmo is.

Definition header (is : list einstr) : list pstmt :=
  (if needs_old is then [SAssign OLD_LEN PWriterLen] else [])
  ++ (if needs_rmo is then [SAssign RMO (PBool false)] else [])
  ++ [SAssign OLD_MODE PWriterMode].

(* _generate_serialize_method: the statements of `def serialize(writer, data)` *)
Definition render_serialize (is : list einstr) : option (list pstmt) :=
  match render_ser is with
  | None => None
  | Some [] => None                    (* `try:` with an empty body is not Python *)
  | Some body => Some (header is ++ [STryFinally body [SSetMode (PVar OLD_MODE)]])
  end.
