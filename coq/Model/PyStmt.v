(* A small Python: the statements and expressions the generator's `serialize` templates are made of, with a big-step,
   fuel-free interpreter over the EoWriter model (Model/Writer.v) and the `value` type of Model/Spec.v.

   THIS FILE IS TRUSTED (like Prelude/Py.v): `exec_stmts` is what "running the generated statements" means in the theorems of
   Proofs/RenderSer.v.  It is meant to be read against Python:

   values        int -> VInt, bool -> VBool (a bool IS an int wherever a number is wanted: True == 1), str -> VStr (code points),
                 bytes -> VBytes, tuple/list -> VList, None -> VNone, an instance of a generated class -> VObj cls slots.
   exceptions    TypeError -> EType, AttributeError -> EAttribute, ValueError -> EValue, SerializationError -> ESerialization;
                 IndexError, NameError / UnboundLocalError and anything outside the modelled fragment -> EUnexpected.
   data          `data._x` reads slot x of the object being serialized (`flds`); a missing slot (or `data` not an instance of a
                 generated class: then `flds` = []) raises AttributeError.
   writer        `writer.add_*(..)` are the operations of Model/Writer.v.  They are typed as annotated in eo_writer.py: an argument
                 of another Python type raises TypeError.  (CPython agrees - `None > 252`, `bytearray(5, 'windows-1252', ..)`,
                 `len(5)`, `bytearray().extend(5)` all raise TypeError - except for duck-typed arguments that no generated
                 constructor stores: add_bytes(list of ints / "" ) succeeds, add_fixed_string(s, None, False) raises ValueError.)
   not modelled  (evaluate to EUnexpected; none of them is reachable from a rendered template under the side conditions of the
                 theorems): int(str) / int(bytes) (Python parses the text), == between two non-numbers other than None,
                 ordering or + - between two non-numbers, assigning a non-bool to writer.string_sanitization_mode,
                 the evaluation of the message of `raise SerializationError(<message>)` (ignored: assumed not to raise). *)
From EO Require Import Prelude.Py Model.Writer Model.Spec.
Open Scope string_scope.
Open Scope Z_scope.

Inductive cmpop := CEq | CNe | CGt | CLt | CGe.
Inductive binop := BAdd | BSub.
(* the one-argument writer methods *)
Inductive wmeth := MByte | MChar | MShort | MThree | MInt | MString | MEncString | MBytes.

Inductive pexpr :=
| PSlot (x : string)                          (* data._x *)
| PVar (x : string)                           (* a local variable *)
| PInt (z : Z)
| PBool (b : bool)
| PStr (s : string)                           (* an ASCII string literal *)
| PNone
| PConst (enum member : string) (z : Z)       (* Enum.Member: a member of an IntEnum, whose integer value is z *)
| PIndex (e i : pexpr)                        (* e[i] *)
| PLen (e : pexpr)                            (* len(e) *)
| PIsNone (e : pexpr)                         (* e is None *)
| PIsNotNone (e : pexpr)                      (* e is not None *)
| PNot (e : pexpr)                            (* not e *)
| PIsInstance (e : pexpr) (cls : string)      (* isinstance(e, Cls) *)
| PCmp (op : cmpop) (a b : pexpr)             (* a == b, a != b, a > b, a < b, a >= b *)
| PBin (op : binop) (a b : pexpr)             (* a + b, a - b *)
| PIfElse (a c b : pexpr)                     (* a if c else b *)
| PIntOf (e : pexpr)                          (* int(e) *)
| PCast (ty : string) (e : pexpr)             (* cast(T, e): the identity *)
| PWriterLen                                  (* len(writer) *)
| PWriterMode                                 (* writer.string_sanitization_mode *)
| POr (a b : pexpr).                          (* a or b *)

Inductive pstmt :=
| SAdd (m : wmeth) (e : pexpr)                              (* writer.add_<m>(e) *)
| SAddFixed (encoded : bool) (e len : pexpr) (padded : bool) (* writer.add_fixed_[encoded_]string(e, len, True|False) *)
| SSetMode (e : pexpr)                                      (* writer.string_sanitization_mode = e *)
| SAssign (x : string) (e : pexpr)                          (* x = e   /   x: T = e *)
| SIf (c : pexpr) (th el : list pstmt)                      (* if c: th else: el      (elif = an `if` alone in `el`; no else = []) *)
| SFor (x : string) (e : pexpr) (body : list pstmt)         (* for x in range(e): body *)
| SRaise                                                    (* raise SerializationError(<message>) *)
| SSerialize (cls : string) (e : pexpr)                     (* Cls.serialize(writer, e) *)
| STryFinally (body fin : list pstmt).                      (* try: body finally: fin *)

Definition locals := list (string * value).

(* ---------------- values as Python sees them ---------------- *)
(* a number: int or bool *)
Definition as_int (v : value) : option Z :=
  match v with VInt z => Some z | VBool b => Some (if b then 1 else 0) | _ => None end.
(* bool(v) *)
Definition py_truth (v : value) : bool :=
  match v with VNone => false | VInt z => negb (z =? 0) | VBool b => b | VStr s => negb (zlen s =? 0)
             | VBytes s => negb (zlen s =? 0) | VList l => negb (zlen l =? 0) | VObj _ _ => true end.
(* len(v): TypeError for None, numbers and instances of generated classes (they define no __len__) *)
Definition py_len_of (v : value) : res value :=
  match v with VStr s => Ok (VInt (zlen s)) | VBytes b => Ok (VInt (zlen b)) | VList l => Ok (VInt (zlen l)) | _ => Err EType end.
(* v[i] for a number i >= 0 (the templates only index with a range() variable): IndexError past the end *)
Definition py_index (v i : value) : res value :=
  match as_int i with
  | None => Err EType
  | Some k =>
    if k <? 0 then Err EUnexpected else
    match v with
    | VList l => match nth_error l (Z.to_nat k) with Some x => Ok x | None => Err EUnexpected end
    | VStr s => match nth_error s (Z.to_nat k) with Some c => Ok (VStr [c]) | None => Err EUnexpected end
    | VBytes s => match nth_error s (Z.to_nat k) with Some c => Ok (VInt c) | None => Err EUnexpected end
    | _ => Err EType          (* not subscriptable *)
    end
  end.
Definition py_is_none (v : value) : bool := match v with VNone => true | _ => false end.
(* isinstance(v, Cls) for a generated class (generated classes do not inherit from each other) *)
Definition py_isinstance (v : value) (cls : string) : bool := match v with VObj c _ => String.eqb c cls | _ => false end.
(* int(v) *)
Definition py_int (v : value) : res value :=
  match v with
  | VInt z => Ok (VInt z)
  | VBool b => Ok (VInt (if b then 1 else 0))
  | VStr _ | VBytes _ => Err EUnexpected       (* Python parses the text: not modelled *)
  | _ => Err EType
  end.
Definition py_cmp (op : cmpop) (a b : value) : res value :=
  match as_int a, as_int b with
  | Some x, Some y =>
    Ok (VBool (match op with CEq => x =? y | CNe => negb (x =? y) | CGt => x >? y | CLt => x <? y | CGe => x >=? y end))
  | Some _, None | None, Some _ =>
    (* a number never equals a non-number; ordering a number against None / str / bytes / tuple / object is a TypeError *)
    match op with CEq => Ok (VBool false) | CNe => Ok (VBool true) | _ => Err EType end
  | None, None =>
    match op with
    | CEq | CNe =>
      (* None equals only None; other pairs of non-numbers are not modelled *)
      match a, b with
      | VNone, VNone => Ok (VBool (match op with CEq => true | _ => false end))
      | VNone, _ | _, VNone => Ok (VBool (match op with CEq => false | _ => true end))
      | _, _ => Err EUnexpected
      end
    | _ => match a, b with VNone, _ | _, VNone => Err EType | _, _ => Err EUnexpected end
    end
  end.
Definition py_bin (op : binop) (a b : value) : res value :=
  match as_int a, as_int b with
  | Some x, Some y => Ok (VInt (match op with BAdd => x + y | BSub => x - y end))
  | None, None => match a, b with VNone, _ | _, VNone => Err EType | _, _ => Err EUnexpected end
  | _, _ => Err EType
  end.

(* ---------------- expressions ---------------- *)
Section Eval.
  Variable L : locals.
  Variable flds : list (string * value).
  Variable w : wstate.

  Fixpoint eval (e : pexpr) : res value :=
    match e with
    | PSlot x => match assoc flds x with Some v => Ok v | None => Err EAttribute end
    | PVar x => match assoc L x with Some v => Ok v | None => Err EUnexpected end
    | PInt z => Ok (VInt z)
    | PBool b => Ok (VBool b)
    | PStr s => Ok (VStr (str_cps s))
    | PNone => Ok VNone
    | PConst _ _ z => Ok (VInt z)
    | PIndex a i => do va <- eval a; do vi <- eval i; py_index va vi
    | PLen a => do va <- eval a; py_len_of va
    | PIsNone a => do va <- eval a; Ok (VBool (py_is_none va))
    | PIsNotNone a => do va <- eval a; Ok (VBool (negb (py_is_none va)))
    | PNot a => do va <- eval a; Ok (VBool (negb (py_truth va)))
    | PIsInstance a cls => do va <- eval a; Ok (VBool (py_isinstance va cls))
    | PCmp op a b => do va <- eval a; do vb <- eval b; py_cmp op va vb
    | PBin op a b => do va <- eval a; do vb <- eval b; py_bin op va vb
    | PIfElse a c b => do vc <- eval c; if py_truth vc then eval a else eval b
    | PIntOf a => do va <- eval a; py_int va
    | PCast _ a => eval a
    | PWriterLen => Ok (VInt (zlen (wdata w)))
    | PWriterMode => Ok (VBool (wsan w))
    | POr a b => do va <- eval a; if py_truth va then Ok va else eval b
    end.
End Eval.

(* ---------------- statements ---------------- *)
Definition exec_add (m : wmeth) (v : value) (w : wstate) : wres :=
  match m with
  | MByte => match as_int v with Some z => w_add_byte w z | None => (w, Err EType) end
  | MChar => match as_int v with Some z => w_add_char w z | None => (w, Err EType) end
  | MShort => match as_int v with Some z => w_add_short w z | None => (w, Err EType) end
  | MThree => match as_int v with Some z => w_add_three w z | None => (w, Err EType) end
  | MInt => match as_int v with Some z => w_add_int w z | None => (w, Err EType) end
  | MString => match v with VStr s => w_add_string w s | _ => (w, Err EType) end
  | MEncString => match v with VStr s => w_add_encoded_string w s | _ => (w, Err EType) end
  | MBytes => match v with VBytes b => w_add_bytes w b | _ => (w, Err EType) end
  end.
Definition exec_add_fixed (encoded : bool) (v len : value) (padded : bool) (w : wstate) : wres :=
  match v, as_int len with
  | VStr s, Some n => if encoded then w_add_fixed_encoded_string w s n padded else w_add_fixed_string w s n padded
  | _, _ => (w, Err EType)
  end.

Section Exec.
  (* Cls.serialize(writer, v): the callee *)
  Variable rec : string -> value -> wstate -> wres.
  (* the slots of `data` *)
  Variable flds : list (string * value).

  Fixpoint exec_stmt (s : pstmt) (L : locals) (w : wstate) {struct s} : wstate * res unit * locals :=
    let go := fix go (l : list pstmt) (L : locals) (w : wstate) {struct l} : wstate * res unit * locals :=
                match l with
                | [] => (w, Ok tt, L)
                | s' :: t => let '(w1, r1, L1) := exec_stmt s' L w in
                             match r1 with Ok _ => go t L1 w1 | Err e => (w1, Err e, L1) end
                end in
    match s with
    | SAdd m e =>
      match eval L flds w e with
      | Err x => (w, Err x, L)
      | Ok v => let '(w', r) := exec_add m v w in (w', r, L)
      end
    | SAddFixed enc e len padded =>
      match eval L flds w e with
      | Err x => (w, Err x, L)
      | Ok v => match eval L flds w len with
                | Err x => (w, Err x, L)
                | Ok vl => let '(w', r) := exec_add_fixed enc v vl padded w in (w', r, L)
                end
      end
    | SSetMode e =>
      match eval L flds w e with
      | Err x => (w, Err x, L)
      | Ok (VBool b) => (w_set_san w b, Ok tt, L)
      | Ok _ => (w, Err EUnexpected, L)
      end
    | SAssign x e =>
      match eval L flds w e with
      | Err err => (w, Err err, L)
      | Ok v => (w, Ok tt, (x, v) :: L)
      end
    | SIf c th el =>
      match eval L flds w c with
      | Err x => (w, Err x, L)
      | Ok v => if py_truth v then go th L w else go el L w
      end
    | SFor x e body =>
      match eval L flds w e with
      | Err err => (w, Err err, L)
      | Ok v =>
        match as_int v with
        | None => (w, Err EType, L)
        | Some n =>
          (fix loop (k : nat) (i : Z) (L : locals) (w : wstate) {struct k} : wstate * res unit * locals :=
             match k with
             | O => (w, Ok tt, L)
             | S k' => let '(w1, r1, L1) := go body ((x, VInt i) :: L) w in
                       match r1 with Ok _ => loop k' (i + 1) L1 w1 | Err err => (w1, Err err, L1) end
             end) (Z.to_nat n) 0 L w
        end
      end
    | SRaise => (w, Err ESerialization, L)
    | SSerialize cls e =>
      match eval L flds w e with
      | Err x => (w, Err x, L)
      | Ok v => let '(w', r) := rec cls v w in (w', r, L)
      end
    | STryFinally body fin =>
      let '(w1, r1, L1) := go body L w in
      let '(w2, r2, L2) := go fin L1 w1 in
      (w2, match r2 with Err x => Err x | Ok _ => r1 end, L2)
    end.

  Fixpoint exec_stmts (l : list pstmt) (L : locals) (w : wstate) {struct l} : wstate * res unit * locals :=
    match l with
    | [] => (w, Ok tt, L)
    | s :: t => let '(w1, r1, L1) := exec_stmt s L w in
                match r1 with Ok _ => exec_stmts t L1 w1 | Err e => (w1, Err e, L1) end
    end.

  (* for x in range(k iterations starting at i): body *)
  Fixpoint exec_loop (x : string) (body : list pstmt) (k : nat) (i : Z) (L : locals) (w : wstate) {struct k} : wstate * res unit * locals :=
    match k with
    | O => (w, Ok tt, L)
    | S k' => let '(w1, r1, L1) := exec_stmts body ((x, VInt i) :: L) w in
              match r1 with Ok _ => exec_loop x body k' (i + 1) L1 w1 | Err err => (w1, Err err, L1) end
    end.
End Exec.
