(* The executable comparison used by the harness (tools/gencheck.py render_stream), `deserialize` side: the statements
   tools/py2stmt.py parsed from the text of every generated `deserialize` against `render_deserialize` of the same class's body in
   `elab tree`, and the static side conditions of the theorems of Proofs/RenderDeser.v.
   Soundness of the boolean equalities and of the enum-constant erasure is proved in Proofs/RenderDeser.v. *)
From EO Require Import Prelude.Py Prelude.Corr Model.Reader Model.Spec Model.Elab Model.PyStmt Model.PyStmtR Model.RenderDeser Model.RenderCheck.
Open Scope string_scope.
Open Scope list_scope.
Open Scope Z_scope.

Definition rmeth_eqb (a b : rmeth) : bool :=
  match a, b with
  | GByte, GByte | GChar, GChar | GShort, GShort | GThree, GThree | GInt, GInt | GString, GString | GEncString, GEncString => true
  | _, _ => false
  end.

Fixpoint args_eqb (a b : list (string * string)) : bool :=
  match a, b with
  | [], [] => true
  | (k, x) :: a', (k', x') :: b' => String.eqb k k' && String.eqb x x' && args_eqb a' b'
  | _, _ => false
  end.

Fixpoint dexpr_eqb (a b : dexpr) : bool :=
  match a, b with
  | DVar x, DVar y => String.eqb x y
  | DInt x, DInt y => x =? y
  | DBool x, DBool y => Bool.eqb x y
  | DNone, DNone => true
  | DConst e m z, DConst e' m' z' => String.eqb e e' && String.eqb m m' && (z =? z')
  | DGet m, DGet m' => rmeth_eqb m m'
  | DGetFixed c l p, DGetFixed c' l' p' => Bool.eqb c c' && dexpr_eqb l l' && Bool.eqb p p'
  | DGetBytes n, DGetBytes n' => dexpr_eqb n n'
  | DBytesOf e, DBytesOf e' => dexpr_eqb e e'
  | DRemaining, DRemaining => true
  | DPosition, DPosition => true
  | DMode, DMode => true
  | DEnumOf n e, DEnumOf n' e' => String.eqb n n' && dexpr_eqb e e'
  | DCmp o a1 a2, DCmp o' b1 b2 => cmpop_eqb o o' && dexpr_eqb a1 b1 && dexpr_eqb a2 b2
  | DBin o a1 a2, DBin o' b1 b2 => binop_eqb o o' && dexpr_eqb a1 b1 && dexpr_eqb a2 b2
  | DIntDiv a1 a2, DIntDiv b1 b2 => dexpr_eqb a1 b1 && dexpr_eqb a2 b2
  | DDeser c, DDeser c' => String.eqb c c'
  | DEmptyList, DEmptyList => true
  | DNew c args, DNew c' args' => String.eqb c c' && args_eqb args args'
  | _, _ => false
  end.

Fixpoint dstmt_eqb (a b : dstmt) {struct a} : bool :=
  let eqs := fix eqs (l1 l2 : list dstmt) {struct l1} : bool :=
               match l1, l2 with
               | [], [] => true
               | x :: t1, y :: t2 => dstmt_eqb x y && eqs t1 t2
               | _, _ => false
               end in
  match a, b with
  | DSAssign x e, DSAssign x' e' => String.eqb x x' && dexpr_eqb e e'
  | DSExpr e, DSExpr e' => dexpr_eqb e e'
  | DSAppend x e, DSAppend x' e' => String.eqb x x' && dexpr_eqb e e'
  | DSIf c t e, DSIf c' t' e' => dexpr_eqb c c' && eqs t t' && eqs e e'
  | DSFor x e body, DSFor x' e' body' => String.eqb x x' && dexpr_eqb e e' && eqs body body'
  | DSWhile c body, DSWhile c' body' => dexpr_eqb c c' && eqs body body'
  | DSNextChunk, DSNextChunk => true
  | DSSetMode e, DSSetMode e' => dexpr_eqb e e'
  | DSSetByteSize x e, DSSetByteSize x' e' => String.eqb x x' && dexpr_eqb e e'
  | DSReturn e, DSReturn e' => dexpr_eqb e e'
  | DSTryFinally b f, DSTryFinally b' f' => eqs b b' && eqs f f'
  | _, _ => false
  end.
Fixpoint dstmts_eqb (l1 l2 : list dstmt) {struct l1} : bool :=
  match l1, l2 with
  | [], [] => true
  | x :: t1, y :: t2 => dstmt_eqb x y && dstmts_eqb t1 t2
  | _, _ => false
  end.

(* ---- Enum.Member constants: replaced by their integer value (the interpreter gives DConst _ _ z the value z) ---- *)
Fixpoint d_erase_e (e : dexpr) : dexpr :=
  match e with
  | DConst _ _ z => DInt z
  | DGetFixed c l p => DGetFixed c (d_erase_e l) p
  | DGetBytes n => DGetBytes (d_erase_e n)
  | DBytesOf a => DBytesOf (d_erase_e a)
  | DEnumOf n a => DEnumOf n (d_erase_e a)
  | DCmp o a b => DCmp o (d_erase_e a) (d_erase_e b)
  | DBin o a b => DBin o (d_erase_e a) (d_erase_e b)
  | DIntDiv a b => DIntDiv (d_erase_e a) (d_erase_e b)
  | x => x
  end.
Fixpoint d_erase_s (s : dstmt) : dstmt :=
  match s with
  | DSAssign x e => DSAssign x (d_erase_e e)
  | DSExpr e => DSExpr (d_erase_e e)
  | DSAppend x e => DSAppend x (d_erase_e e)
  | DSIf c t e => DSIf (d_erase_e c) (map d_erase_s t) (map d_erase_s e)
  | DSFor x e body => DSFor x (d_erase_e e) (map d_erase_s body)
  | DSWhile c body => DSWhile (d_erase_e c) (map d_erase_s body)
  | DSNextChunk => DSNextChunk
  | DSSetMode e => DSSetMode (d_erase_e e)
  | DSSetByteSize x e => DSSetByteSize x (d_erase_e e)
  | DSReturn e => DSReturn (d_erase_e e)
  | DSTryFinally b f => DSTryFinally (map d_erase_s b) (map d_erase_s f)
  end.

(* every Enum.Member of the text carries the value the elaborated specification gives that member *)
Section Consts.
  Variable enums : list penum.
  Fixpoint d_consts_e (e : dexpr) : bool :=
    match e with
    | DConst en m z => const_ok enums en m z
    | DGetFixed _ a _ | DGetBytes a | DBytesOf a | DEnumOf _ a => d_consts_e a
    | DCmp _ a b | DBin _ a b | DIntDiv a b => d_consts_e a && d_consts_e b
    | _ => true
    end.
  Fixpoint d_consts_s (s : dstmt) : bool :=
    match s with
    | DSAssign _ e | DSExpr e | DSAppend _ e | DSSetMode e | DSSetByteSize _ e | DSReturn e => d_consts_e e
    | DSIf c t e => d_consts_e c && forallb d_consts_s t && forallb d_consts_s e
    | DSFor _ e body | DSWhile e body => d_consts_e e && forallb d_consts_s body
    | DSNextChunk => true
    | DSTryFinally b f => forallb d_consts_s b && forallb d_consts_s f
    end.
End Consts.

(* ---- static side conditions of the theorems (Proofs/RenderDeser.v) on an instruction list ---- *)
(* The emitted method keeps its own variables among the locals: reader_start_position, old_chunked_reading_mode, the loop variable
   `i`, and `<array>_length` for every array whose element count is computed from reader.remaining.  Model/Deser.v has no such
   variables: a field of that name assigned BEFORE the emitted code assigns its own variable is clobbered by the emitted code and
   not by Deser.v (see the `_differs` examples of Proofs/RenderDeser.v).  The condition is flow-sensitive: a field named `i` or
   `xs_length` read after the last loop that uses the name is harmless (struct ByteFields of the corpus has a field `i`), and so
   is a field named `result` (`result = Cls(result=result, ..)` evaluates the arguments first). *)

(* what is known about the value of a local once its instruction has run *)
Inductive kind :=
| KAny
| KLen                      (* a length field: an int, or None when optional and absent *)
| KArr (optional : bool)    (* an array: a list [or None] *)
| KStr (optional : bool).   (* a string field: a str [or None] *)
(* the names the instructions so far have assigned, latest first *)
Definition tctx := list (string * kind).

Definition instr_binds (i : einstr) : tctx :=
  match i with
  | EField f => match f_name f with
                | Some n => [(n, match f_ty f with EStr _ => KStr (f_optional f) | _ => KAny end)]
                | None => []
                end
  | EArray f _ _ _ => match f_name f with Some n => [(n, KArr (f_optional f))] | None => [] end
  | ELength name _ _ _ _ _ => [(name, KLen)]
  | ESwitch field _ => [((field ++ "_data")%string, KAny)]
  | _ => []
  end.

Definition unbound (T : tctx) (n : string) : bool := match assoc T n with None => true | Some _ => false end.
(* a name assigned for the first time ("Cannot redefine field") that is not one of the two variables of the method frame *)
Definition fresh (T : tctx) (n : string) : bool := negb (mem_str n [D_RSP; D_OCRM]) && unbound T n.
(* a length attribute naming a field must name an earlier length field *)
Definition len_ok (T : tctx) (l : elen) : bool :=
  match l with
  | LRef fld => match assoc T fld with Some KLen => true | _ => false end
  | _ => true
  end.

Definition instr_static_ok_d (T : tctx) (i : einstr) : bool :=
  match i with
  | EField f =>
    (match f_name f with Some n => fresh T n | None => true end)
    (* "Only string types may specify a length": the read of another type ignores it, Deser.v evaluates it *)
    && (match f_len f with LNone => true | l => (match f_ty f with EStr _ => true | _ => false end) && len_ok T l end)
  | EArray f _ _ count =>
    match f_name f with
    | None => false
    | Some n =>
      fresh T n && len_ok T (f_len f)
      && (match count with
          | ACWhile => true
          | _ => unbound T D_LOOP && negb (String.eqb n D_LOOP)          (* for i in range(..) *)
          end)
      && (match count with
          | ACRemaining _ =>                                             (* n_length = int(reader.remaining / size) *)
            let rl := rem_len_name n in
            unbound T rl && negb (mem_str rl [D_RSP; D_OCRM; D_LOOP; n])
          | _ => true
          end)
    end
  | ELength name _ _ _ _ _ => fresh T name
  | EDummy _ _ _ => true
  | ESwitch field cases =>
    fresh T (field ++ "_data")
    (* the emitted `if field == ..` raises UnboundLocalError for a name never assigned; Deser.v treats it as matching no case *)
    && (match cases with [] => true | _ => negb (unbound T field) end)
  | ESetMode _ | EBreak => true
  end.

Fixpoint static_ok_from (T : tctx) (is : list einstr) : bool :=
  match is with
  | [] => true
  | i :: t => instr_static_ok_d T i && static_ok_from (instr_binds i ++ T) t
  end.

(* a whole method body: additionally no public name is "byte_size" (`result._byte_size = ..` would overwrite that field) *)
Definition static_ok_d (is : list einstr) : bool :=
  static_ok_from [] is && negb (mem_str "byte_size" (public_names is)).

(* ---- the check ---- *)
Definition dparsed := list (string * list dstmt).

Definition d_render_class (enums : list penum) (d : sdef) (ss : list dstmt) : list (string * string) :=
  if negb (forallb (d_consts_s enums) ss) then [(sd_name d, "enum constant")] else
  match render_deserialize (sd_name d) (sd_body d) with
  | None => [(sd_name d, "not renderable")]
  | Some rs =>
    if dstmts_eqb (map d_erase_s ss) rs
    then (if static_ok_d (sd_body d) then [] else [(sd_name d, "outside the theorem")])
    else [(sd_name d, "deserialize")]
  end.

(* (class, what differs) *)
Definition render_detail_d (files : list rfile) (P : dparsed) : list (string * string) :=
  match elab files with
  | Err _ => [("<elab>", "the model rejects the tree")]
  | Ok p =>
    let E := pk_env p in
    flat_map (fun d => match assoc P (sd_name d) with
                       | None => [(sd_name d, "missing")]
                       | Some ss => d_render_class (pk_enums p) d ss
                       end) E
    ++ flat_map (fun r => match env_find E (fst r) with Some _ => [] | None => [(fst r, "extra")] end) P
    ++ (if dup_free (map sd_name E) && dup_free (map fst P) then [] else [("<names>", "duplicate class names")])
  end.

(* for diagnosis *)
Definition render_show_d (files : list rfile) (cls : string) : option (option (list dstmt)) :=
  match elab files with
  | Err _ => None
  | Ok p => match env_find (pk_env p) cls with Some d => Some (render_deserialize (sd_name d) (sd_body d)) | None => None end
  end.
