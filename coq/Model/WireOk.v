(* Property C01's side conditions, stage A (specifications without chunked sections):
   wire_ok  - the class is wire-unambiguous: read-to-the-end items only where nothing follows in the whole message,
              optional fields last, dummy only in otherwise-empty bodies, implied-length arrays of fixed-size or
              progress-making closed elements;
   valid_obj - the object is in range and avoids the values the format cannot carry (the documented lossy characters,
              empty optional tails), and holds exactly what a deserializer can produce (ints as VInt, bools as VBool ...).

   Conditions added while proving Properties/C01.v (each marked [C01-Ak] below; each has a necessity witness
   `Ak_..._necessary` in Properties/C01.v: accepted by the original definitions, refused now, no round trip in the model;
   Properties/C01.v also proves wire_ok_stronger / valid_obj_stronger: the new conditions imply the original ones):
     A1 wire_ok:  every name an instruction binds (public field, array, switch data, length field) is new;
     A2 wire_ok:  no public name is "byte_size";
     A3 wire_ok:  a length reference names a length field declared before whose slot is assigned from this very field
                  (lens now carries (length field, referencing field) pairs); unnamed fields carry no length reference;
     A4 wire_ok:  the field a switch inspects is a public name read before the switch;
     A5 wire_ok:  an optional struct field / the element class of an optional array occupies at least one byte (nonempty_ty);
     A6 wire_ok:  the literal of an unnamed hardcoded field and of a sole dummy has an encoding (lit_enc_ok);
     A7 valid_obj: a hardcoded named field holds its literal (hard_agrees; replaces "the literal parses");
     A8 valid_obj: the object's field list is exactly the public names of the body, in order;
     A9 valid_obj: an array with a literal length holds exactly that many elements (whatever `padded` says).
   Refactoring without change of meaning (Properties/C01.v: size_of_refactor, progress_class_refactor): the deep list patterns
   `[EDummy ty lit false]` in size_of / wire_body / progress_body go through sole_dummy. *)
From EO Require Import Prelude.Py Model.Limits Model.Cp1252 Model.Spec Model.Ser Model.ValidDecl.
Open Scope Z_scope.

(* ---------------- static sizes ---------------- *)
Section Size.
  Variable size_cls : string -> option Z.
  Definition ty_size (ty : etype) (len : elen) : option Z :=
    match ty with
    | EInt t | EBool t | EEnum _ t => Some (itype_size t)
    | EStr _ => match len with LLit n => Some n | _ => None end
    | EBlob => None
    | EStruct n => size_cls n
    end.
  Definition instr_size (i : einstr) : option Z :=
    match i with
    | EField f => if f_optional f then None else ty_size (f_ty f) (f_len f)
    | EArray f false _ _ =>
      if f_optional f then None else
      match f_len f, ty_size (f_ty f) LNone with LLit n, Some s => Some (n * s) | _, _ => None end
    | ELength _ t _ false _ _ => Some (itype_size t)
    | _ => None
    end.
  Fixpoint body_size (is : list einstr) : option Z :=
    match is with
    | [] => Some 0
    | i :: t => match instr_size i, body_size t with Some a, Some b => Some (a + b) | _, _ => None end
    end.
End Size.
(* [EDummy ty lit false] as the whole body (refactoring of the former deep patterns; same meaning) *)
Definition sole_dummy (is : list einstr) : option (etype * string) :=
  match is with [EDummy ty lit false] => Some (ty, lit) | _ => None end.
Fixpoint size_of (fuel : nat) (E : env) (cls : string) : option Z :=
  match fuel with
  | O => None
  | S f => match env_find E cls with
           | Some d => match sole_dummy (sd_body d) with
                       | Some (ty, _) => ty_size (fun _ => None) ty LNone
                       | None => body_size (size_of f E) (sd_body d) end
           | None => None end
  end.

(* ---------------- wire-unambiguity (no chunked sections) ---------------- *)
Definition is_optional_instr (i : einstr) : bool :=
  match i with EField f | EArray f _ _ _ => f_optional f | _ => false end.
Definition only_optionals (is : list einstr) : bool := forallb is_optional_instr is.

(* the names a class body makes public (constructor arguments / fields of the deserialized object), in order *)
Definition pub_name (i : einstr) : option string :=
  match i with EField f | EArray f _ _ _ => f_name f | ESwitch field _ => Some (field ++ "_data")%string | _ => None end.
Fixpoint pub_names (is : list einstr) : list string :=
  match is with [] => [] | i :: t => match pub_name i with Some n => n :: pub_names t | None => pub_names t end end.
Fixpoint strs_eqb (a b : list string) : bool :=
  match a, b with [], [] => true | x :: a', y :: b' => String.eqb x y && strs_eqb a' b' | _, _ => false end.

(* [C01-A1] a name bound by an instruction is new: not a length field's name, not a public name seen so far *)
Definition fresh (n : string) (lens : list (string * string)) (pubs : list string) : bool :=
  negb (mem_str n (map fst lens)) && negb (mem_str n pubs).
(* [C01-A2] ... and a public name is not the reserved "byte_size" *)
Definition pub_fresh (n : string) (lens : list (string * string)) (pubs : list string) : bool :=
  negb (String.eqb n "byte_size") && fresh n lens pubs.
(* [C01-A3] the length field l was declared before and its slot is assigned from exactly this field *)
Definition ref_ok (l n : string) (lens : list (string * string)) : bool :=
  existsb (fun p => String.eqb (fst p) l && String.eqb (snd p) n) lens.
(* [C01-A6] the literal of an unnamed hardcoded field / of a dummy has an encoding *)
Definition lit_enc_ok (ty : etype) (len : elen) (padded : bool) (lit : string) : bool :=
  match lit_value ty lit with
  | Ok (VInt z) => match ty with EInt t => z <=? itype_max t | _ => false end
  | Ok (VBool _) => true
  | Ok (VStr s) => match len with LLit n => if padded then zlen s <=? n else zlen s =? n | _ => true end
  | _ => false
  end.

Section Wire.
  Variable E : env.
  Variable sizef : string -> option Z.
  (* wire_cls n last: class n is unambiguous when [last] says whether nothing follows it in the whole message *)
  Variable wire_cls : string -> bool -> bool.
  (* every object of class n occupies at least one byte, and its reads cannot come back empty-handed *)
  Variable progress_cls : string -> bool.

  (* a value of this type is self-delimiting given its length expression *)
  Definition closed_ty (ty : etype) (len : elen) : bool :=
    match ty with
    | EInt _ | EBool _ | EEnum _ _ => true
    | EStr _ => match len with LNone => false | _ => true end
    | EBlob => false
    | EStruct n => wire_cls n false
    end.
  Definition elem_size (ty : etype) : option Z := ty_size sizef ty LNone.
  (* [C01-A5] a present optional struct (element) must occupy at least one byte, or it reads back as absent *)
  Definition nonempty_ty (ty : etype) : bool :=
    match ty with
    | EStruct n => progress_cls n || match sizef n with Some s => 0 <? s | None => false end
    | _ => true
    end.

  (* lens = (length field, the field its slot is assigned from) declared so far; pubs = public names bound so far *)
  Fixpoint wire_instrs (last : bool) (lens : list (string * string)) (pubs : list string) (is : list einstr) : bool :=
    match is with
    | [] => true
    | i :: t =>
      let final := last && match t with [] => true | _ => false end in   (* nothing at all follows this instruction *)
      match i with
      | EField f =>
        (match f_name f with
         | Some n => pub_fresh n lens pubs && match f_len f with LRef l => ref_ok l n lens | _ => true end
         | None => match f_hard f with Some lit => lit_enc_ok (f_ty f) (f_len f) (f_padded f) lit | None => false end &&
                   match f_len f with LRef _ => false | _ => true end
         end) &&
        (if f_optional f then
           (* optional: presence is "data remains": optionals last, in a class that ends the message *)
           last && only_optionals t &&
           match f_name f with Some _ => true | None => false end &&
           (closed_ty (f_ty f) (f_len f) || final) &&
           match f_ty f with EStruct n => wire_cls n final | _ => true end &&
           nonempty_ty (f_ty f)
         else
           match f_ty f with
           | EStruct n => wire_cls n final
           | _ => closed_ty (f_ty f) (f_len f) || final
           end) &&
        wire_instrs last lens (match f_name f with Some n => n :: pubs | None => pubs end) t
      | EArray f delimited _ count =>
        negb delimited &&
        (match f_name f with Some n => pub_fresh n lens pubs | None => false end) &&
        (if f_optional f then last && only_optionals t && nonempty_ty (f_ty f) else true) &&
        (match f_ty f with EStruct n => wire_cls n false | ty => closed_ty ty LNone end) &&
        (match count with
         | ACExpr => match f_len f, f_name f with
                     | LRef l, Some n => ref_ok l n lens
                     | LLit n, _ => 0 <=? n
                     | _, _ => false end
         | ACRemaining sz => final && (0 <? sz) && match elem_size (f_ty f) with Some s => s =? sz | None => false end
         | ACWhile => final && match f_ty f with EStruct n => progress_cls n | _ => false end
         end) &&
        wire_instrs last lens (match f_name f with Some n => n :: pubs | None => pubs end) t
      | ELength name _ _ optional _ ref_by =>
        negb optional && fresh name lens pubs &&
        (match ref_by with Some fr => wire_instrs last ((name, fr) :: lens) pubs t | None => false end)
      | EDummy _ _ _ => false                      (* a dummy is only allowed as the sole instruction: see wire_body *)
      | ESwitch field cases =>
        mem_str field pubs &&                                        (* [C01-A4] the switch field was read before *)
        pub_fresh (field ++ "_data")%string lens pubs &&
        forallb (fun c => match c_cls c with Some cls => wire_cls cls final | None => true end) cases &&
        wire_instrs last lens ((field ++ "_data")%string :: pubs) t
      | ESetMode _ => false
      | EBreak => false
      end
    end.

  Definition wire_body (last : bool) (is : list einstr) : bool :=
    match sole_dummy is with
    | Some (ty, lit) => match ty with EInt _ | EBool _ => lit_enc_ok ty LNone false lit | _ => false end
    | None => wire_instrs last [] [] is
    end.

  (* the first thing the class writes is a required fixed-size scalar: it always makes progress *)
  Definition progress_body (is : list einstr) : bool :=
    match sole_dummy is with
    | Some (ty, _) => match ty with EInt _ => true | _ => false end
    | None =>
      match is with
      | EField f :: _ => negb (f_optional f) && match f_ty f with EInt _ | EBool _ | EEnum _ _ => true | EStruct n => progress_cls n | _ => false end
      | ELength _ _ _ false _ _ :: _ => true
      | _ => false
      end
    end.
End Wire.

Fixpoint progress_class (fuel : nat) (E : env) (cls : string) : bool :=
  match fuel with
  | O => false
  | S f => match env_find E cls with Some d => progress_body (progress_class f E) (sd_body d) | None => false end
  end.

Fixpoint wire_class (fuel : nat) (E : env) (cls : string) (last : bool) : bool :=
  match fuel with
  | O => false
  | S f => match env_find E cls with
           | Some d => wire_body (size_of (S (List.length E)) E) (wire_class f E) (progress_class (S (List.length E)) E) last (sd_body d)
           | None => false
           end
  end.
Definition wire_ok (E : env) (cls : string) : bool := wire_class (S (List.length E)) E cls true.

(* ---------------- objects the format can carry ---------------- *)
Definition no_255 (s : list Z) : bool := forallb (fun c => negb (c =? 255)) s.
Definition no_126 (s : list Z) : bool := forallb (fun c => negb (c =? 126)) s.

(* [C01-A7] a hardcoded named field holds its literal (the constructor assigns it; deserialize rebuilds it from the literal) *)
Definition lit_eqb (v lv : value) : bool :=
  match v, lv with
  | VInt a, VInt b => a =? b
  | VBool a, VBool b => Bool.eqb a b
  | VStr a, VStr b => list_eqb a b
  | _, _ => false
  end.
Definition hard_agrees (f : fieldspec) (v : value) : bool :=
  match f_hard f with
  | None => true
  | Some lit => match lit_value (f_ty f) lit with Ok lv => lit_eqb v lv | Err _ => false end
  end.

Section Obj.
  Variable vo : string -> value -> bool.
  Definition obj_value (ty : etype) (len : elen) (padded : bool) (v : value) : bool :=
    match ty, v with
    | EInt t, VInt z => (0 <=? z) && (z <=? itype_max t)
    | EBool _, VBool _ => true
    | EEnum _ t, VInt z => (0 <=? z) && (z <=? itype_max t)
    | EStr enc, VStr s => forallb cp_encodable s && (negb (padded && match len with LNone => false | _ => true end) || forallb (fun c => negb (c =? 255)) s)
                          && (negb enc || forallb (fun c => negb (c =? 126)) s)
    | EBlob, VBytes b => bytes_okb b
    | EStruct n, x => vo n x
    | _, _ => false
    end.
  (* the encoding of a present optional value must not be empty (an empty optional tail reads back as absent) *)
  Definition nonempty_value (v : value) : bool :=
    match v with VStr s => negb (zlen s =? 0) | VBytes b => negb (zlen b =? 0) | VList l => negb (zlen l =? 0) | _ => true end.

  Fixpoint obj_instrs (flds : list (string * value)) (is : list einstr) (rmo : bool) : bool :=
    match is with
    | [] => true
    | i :: t =>
      match i with
      | EField f =>
        match f_name f with
        | None => obj_instrs flds t rmo
        | Some name =>
          match assoc flds name with
          | None => false
          | Some v =>
            hard_agrees f v &&
            if f_optional f then
              (if is_none v then obj_instrs flds t true
               else negb rmo && nonempty_value v && valid_len f v && obj_value (f_ty f) (f_len f) (f_padded f) v && obj_instrs flds t rmo)
            else
              valid_len f v && obj_value (f_ty f) (f_len f) (f_padded f) v && obj_instrs flds t rmo
          end
        end
      | EArray f _ _ _ =>
        match f_name f with
        | None => false
        | Some name =>
          match assoc flds name with
          | Some (VList elems) =>
            (negb (f_optional f) || (negb rmo && nonempty_value (VList elems))) &&
            valid_len f (VList elems) &&
            (match f_len f with LLit n => zlen elems =? n | _ => true end) &&     (* [C01-A9] a literal array length is exact *)
            forallb (obj_value (f_ty f) LNone false) elems && obj_instrs flds t rmo
          | Some VNone => f_optional f && obj_instrs flds t true
          | _ => false
          end
        end
      | ELength _ lty off _ _ ref_by =>
        match ref_by with
        | Some fr => match assoc flds fr with
                     | Some fv => match py_len fv with Some l => (0 <=? l - off) && (l - off <=? itype_max lty) | None => false end
                     | None => false end
        | None => false
        end && obj_instrs flds t rmo
      | ESwitch field cases =>
        match assoc flds field, assoc flds (field ++ "_data")%string with
        | Some (VInt z), Some dv =>
          match find_case cases (Some z) with
          | None => is_none dv
          | Some c => match c_cls c with
                      | None => is_none dv
                      | Some cls => match obj_class dv with Some c' => String.eqb c' cls && vo cls dv | None => false end
                      end
          end
        | _, _ => false
        end && obj_instrs flds t rmo
      | _ => obj_instrs flds t rmo
      end
    end.
End Obj.

Fixpoint valid_obj (fuel : nat) (E : env) (cls : string) (v : value) : bool :=
  match fuel with
  | O => false
  | S f => match env_find E cls, v with
           | Some d, VObj c flds =>
             String.eqb c cls &&
             strs_eqb (map fst flds) (pub_names (sd_body d)) &&     (* [C01-A8] exactly the public fields, in declaration order *)
             obj_instrs (valid_obj f E) flds (sd_body d) false
           | _, _ => false
           end
  end.

(* what deserialize builds for an object: its public fields (hardcoded named fields hold their literal) plus byte_size *)
Definition public_fields (v : value) : list (string * value) := match v with VObj _ f => f | _ => [] end.
