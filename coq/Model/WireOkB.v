(* Property C01's side conditions, stage B: specifications WITH chunked sections, breaks and delimited arrays.
   Generalises Model/WireOk.v (which stays as it is): every check now knows
     m     - the static reading/sanitisation mode at the instruction (ESetMode changes it),
     K     - what follows the class in the whole message: nothing (KEnd), a break byte (KBreak), anything (KOther),
   and valid_objB additionally threads
     cl    - (non-chunked mode only) "no 0xFF byte was read since the reader's current chunk start":
             a chunked section may only be entered from non-chunked mode when this holds, because the reader's
             chunk start still lies before those bytes and its (possibly cached) break index is the FIRST 0xFF after it.
             It is computed from the VALUES (a byte field holding 3 is harmless, one holding 255 is not).
   In non-chunked mode with K in {KEnd, KOther} the conditions are exactly those of stage A
   (Properties/C01B.v: C01_stageA_included).

   Exclusions specific to stage B (each has a `..._necessary` witness in Properties/C01B.v):
     B1 value: a 0xFF byte (byte value 255, U+00FF or padding in a string, 0xFF in a blob; conservatively also ANY array,
               struct or switch case data) read in non-chunked mode before a chunked section;
     B2 wire:  a read-to-the-end item (string without length, blob, implied-length array, optional) in a chunked section must be
               followed by a break or by nothing; after the section's end by nothing;
     B3 wire:  an unlengthed array with SEPARATING delimiters must end the message (its reader swallows the next break);
     B4 wire:  <break> and delimited arrays only in chunked mode (the generator guarantees it; the reader raises otherwise);
     B5 value: a class with its own chunked section used inside a chunked section must not read a 0xFF byte after
               its section (it returns to the caller's chunked mode with the caller's chunk bookkeeping);
     B6 value: in a chunked section: byte/enum-byte values <> 255, length-of-type-byte <> 255, blobs without 0xFF,
               strings without U+00FF (sanitised to 'y'), padded strings fill their length exactly (padding IS 0xFF);
     B7 value: elements of an unlengthed or optional delimited array are non-empty (an empty chunk ends the loop / reads as absent);
     B8 wire:  optionals come last in their break-delimited segment (stage A: in the class); the first optional after a break
               carries the elaborated flag f_opt_first (the generator always sets it: a break restarts the chain of optionals).
   Known incompleteness (sound, but refuses specifications that do round-trip): arrays, structs and switch case data read in
   non-chunked mode always clear `cl`, even when all their bytes are harmless; a delimited unlengthed array is refused when
   an optional field follows it in the same chunk (it round-trips only while that optional is absent); non-sole <dummy> and
   optional <length> are refused as in stage A. *)
From EO Require Import Prelude.Py Model.Limits Model.Cp1252 Model.Spec Model.Ser Model.ValidDecl Model.WireOk.
Open Scope Z_scope.

Inductive cont := KEnd | KBreak | KOther.
(* a read that runs to the end of the chunk (chunked) / of the data (non-chunked) stops exactly where the item ends *)
Definition stopb (m : bool) (K : cont) : bool := match K with KEnd => true | KBreak => m | KOther => false end.
Definition is_kend (K : cont) : bool := match K with KEnd => true | _ => false end.
(* what follows an instruction whose remaining siblings are t, in a class followed by K: only the BYTES matter,
   so mode switches are transparent *)
Fixpoint cont_of (t : list einstr) (K : cont) : cont :=
  match t with
  | [] => K
  | ESetMode _ :: t' => cont_of t' K
  | EBreak :: _ => KBreak
  | _ => KOther
  end.

(* integer types whose encodings never contain 0xFF, whatever the (valid) value *)
Definition clean_it (t : itype) : bool := match t with TByte => false | _ => true end.
Definition is_set_mode (i : einstr) : bool := match i with ESetMode _ => true | _ => false end.
(* once an optional is absent nothing more is written up to the next break (or the end): only optionals (and mode
   switches) may follow in that segment; opt_cont = what follows an absent optional *)
Fixpoint opt_cont (t : list einstr) (K : cont) : option cont :=
  match t with
  | [] => Some K
  | EBreak :: _ => Some KBreak
  | i :: t' => if is_optional_instr i || is_set_mode i then opt_cont t' K else None
  end.
Definition opt_stop (m : bool) (t : list einstr) (K : cont) : bool :=
  match opt_cont t K with Some K' => stopb m K' | None => false end.
(* a break starts a new chain of optionals: the first optional after it must be flagged as such
   (f_opt_first, as the generator does), or the writer goes on skipping *)
Fixpoint first_opt_ok (t : list einstr) : bool :=
  match t with
  | [] => true
  | EBreak :: _ => true
  | EField f :: t' => if f_optional f then f_opt_first f else first_opt_ok t'
  | EArray f _ _ _ :: t' => if f_optional f then f_opt_first f else first_opt_ok t'
  | _ :: t' => first_opt_ok t'
  end.

(* [B6] literals written inside a chunked section *)
Definition lit_enc_okB (m : bool) (ty : etype) (len : elen) (padded : bool) (lit : string) : bool :=
  lit_enc_ok ty len padded lit &&
  (negb m ||
   match lit_value ty lit with
   | Ok (VInt z) => match ty with EInt TByte => negb (z =? 255) | _ => true end
   | Ok (VStr s) => match len with LLit n => negb padded || (zlen s =? n) | _ => true end
   | _ => true
   end).

Section WireB.
  Variable sizef : string -> option Z.
  (* wire_cls n em K: class n entered in mode em, followed by K *)
  Variable wire_cls : string -> bool -> cont -> bool.
  Variable progress_cls : string -> bool.

  Definition closed_leaf (ty : etype) (len : elen) : bool :=
    match ty with
    | EInt _ | EBool _ | EEnum _ _ => true
    | EStr _ => match len with LNone => false | _ => true end
    | _ => false
    end.
  (* one value of type ty read in mode m, followed by K *)
  Definition wire_val (m : bool) (K : cont) (ty : etype) (len : elen) : bool :=
    match ty with
    | EStruct n => wire_cls n m K
    | _ => closed_leaf ty len || stopb m K
    end.
  Definition elem_sizeB (ty : etype) : option Z := ty_size sizef ty LNone.
  (* as in stage A, in either mode *)
  Definition nonempty_tyB (ty : etype) : bool :=
    match ty with
    | EStruct n => progress_cls n || match sizef n with Some s => 0 <? s | None => false end
    | _ => true
    end.
  Definition elem_prog (ty : etype) : bool := match ty with EStruct n => progress_cls n | _ => true end.

  Fixpoint wire_instrsB (K : cont) (m : bool) (lens : list (string * string)) (pubs : list string) (is : list einstr) : bool :=
    match is with
    | [] => true
    | i :: t =>
      let Kc := cont_of t K in
      match i with
      | EField f =>
        (match f_name f with
         | Some n => pub_fresh n lens pubs && match f_len f with LRef l => ref_ok l n lens | _ => true end
         | None => match f_hard f with Some lit => lit_enc_okB m (f_ty f) (f_len f) (f_padded f) lit | None => false end &&
                   match f_len f with LRef _ => false | _ => true end
         end) &&
        (if f_optional f then
           opt_stop m t K && match f_name f with Some _ => true | None => false end && nonempty_tyB (f_ty f)
         else true) &&
        wire_val m Kc (f_ty f) (f_len f) &&                               (* [B2] *)
        wire_instrsB K m lens (match f_name f with Some n => n :: pubs | None => pubs end) t
      | EArray f delimited trailing count =>
        (negb delimited || m) &&                                                (* [B4] *)
        (match f_name f with Some n => pub_fresh n lens pubs | None => false end) &&
        (if f_optional f then opt_stop m t K && nonempty_tyB (f_ty f) else true) &&
        (if delimited
         then wire_val true KBreak (f_ty f) LNone && (trailing || wire_val true Kc (f_ty f) LNone)
         else wire_val m KOther (f_ty f) LNone) &&
        (match count with
         | ACExpr => match f_len f, f_name f with
                     | LRef l, Some n => ref_ok l n lens
                     | LLit n, _ => 0 <=? n
                     | _, _ => false end
         | ACRemaining sz => negb delimited && stopb m Kc && (0 <? sz) &&
                             match elem_sizeB (f_ty f) with Some s => s =? sz | None => false end
         | ACWhile => if delimited
                      then (if trailing then stopb m Kc else is_kend Kc) && elem_prog (f_ty f)     (* [B3] *)
                      else stopb m Kc && match f_ty f with EStruct n => progress_cls n | _ => false end
         end) &&
        wire_instrsB K m lens (match f_name f with Some n => n :: pubs | None => pubs end) t
      | ELength name lt _ optional _ ref_by =>
        negb optional && fresh name lens pubs &&
        (match ref_by with
         | Some fr => wire_instrsB K m ((name, fr) :: lens) pubs t
         | None => false end)
      | EDummy _ _ _ => false
      | ESwitch field cases =>
        mem_str field pubs &&
        pub_fresh (field ++ "_data")%string lens pubs &&
        forallb (fun c => match c_cls c with Some cls => wire_cls cls m Kc | None => true end) cases &&
        wire_instrsB K m lens ((field ++ "_data")%string :: pubs) t
      | ESetMode b => wire_instrsB K b lens pubs t
      | EBreak => m && first_opt_ok t && wire_instrsB K m lens pubs t             (* [B4] *)
      end
    end.

  Definition wire_bodyB (em : bool) (K : cont) (is : list einstr) : bool :=
    match sole_dummy is with
    | Some (ty, lit) => match ty with EInt _ | EBool _ => lit_enc_okB em ty LNone false lit | _ => false end
    | None => wire_instrsB K em [] [] is
    end.
End WireB.

Fixpoint wire_classB (fuel : nat) (E : env) (cls : string) (em : bool) (K : cont) : bool :=
  match fuel with
  | O => false
  | S f => match env_find E cls with
           | Some d => wire_bodyB (size_of (S (List.length E)) E) (wire_classB f E) (progress_class (S (List.length E)) E)
                                  em K (sd_body d)
           | None => false
           end
  end.
(* a top-level class: entered by a fresh (non-chunked) reader, nothing follows *)
Definition wire_okB (E : env) (cls : string) : bool := wire_classB (S (List.length E)) E cls false KEnd.

(* ---------------- objects the format can carry, chunked sections included ---------------- *)
(* [B6] the encoding of this leaf value holds no 0xFF *)
Definition chunk_value (ty : etype) (len : elen) (padded : bool) (v : value) : bool :=
  match ty, v with
  | EInt TByte, VInt z => negb (z =? 255)
  | EEnum _ TByte, VInt z => negb (z =? 255)
  | EStr _, VStr s => no_255 s && (negb padded || match len with LLit n => zlen s =? n | _ => true end)
  | EBlob, VBytes b => no_255 b
  | _, _ => true
  end.
(* [B1] reading this value in non-chunked mode keeps the reader clean: a leaf whose bytes hold no 0xFF
   (conservatively, structs, arrays and switch data do not) *)
Definition leaf_clean (ty : etype) (len : elen) (padded : bool) (v : value) : bool :=
  match ty with EStruct _ => false | _ => chunk_value ty len padded v end.
Definition lit_clean (f : fieldspec) : bool :=
  match f_hard f with
  | Some lit => match lit_value (f_ty f) lit with Ok lv => leaf_clean (f_ty f) (f_len f) (f_padded f) lv | Err _ => false end
  | None => false
  end.
Definition is_while (c : acount) : bool := match c with ACWhile => true | _ => false end.

Section ObjB.
  (* vo n em cl x: x is a value of class n entered in mode em by a reader that is clean iff cl *)
  Variable vo : string -> bool -> bool -> value -> bool.
  Definition obj_valueB (m cl : bool) (ty : etype) (len : elen) (padded : bool) (v : value) : bool :=
    obj_value (fun n x => vo n m cl x) ty len padded v && (negb m || chunk_value ty len padded v).

  (* em: the mode the class was entered in; m: the static mode here; cl: no 0xFF byte has been read since the reader's
     chunk start (always so in chunked mode) *)
  Fixpoint obj_instrsB (em m cl : bool) (flds : list (string * value)) (is : list einstr) (rmo : bool) : bool :=
    match is with
    | [] => negb em || m || cl                                         (* [B5] back in the caller's chunked mode *)
    | i :: t =>
      match i with
      | EField f =>
        match f_name f with
        | None => obj_instrsB em m (m || cl && lit_clean f) flds t rmo
        | Some name =>
          match assoc flds name with
          | None => false
          | Some v =>
            hard_agrees f v &&
            if f_optional f then
              (if is_none v then obj_instrsB em m cl flds t true
               else negb rmo && nonempty_value v && valid_len f v && obj_valueB m cl (f_ty f) (f_len f) (f_padded f) v &&
                    obj_instrsB em m (m || cl && leaf_clean (f_ty f) (f_len f) (f_padded f) v) flds t rmo)
            else
              valid_len f v && obj_valueB m cl (f_ty f) (f_len f) (f_padded f) v &&
              obj_instrsB em m (m || cl && leaf_clean (f_ty f) (f_len f) (f_padded f) v) flds t rmo
          end
        end
      | EArray f delimited _ count =>
        match f_name f with
        | None => false
        | Some name =>
          match assoc flds name with
          | Some (VList elems) =>
            (negb (f_optional f) || (negb rmo && nonempty_value (VList elems))) &&
            valid_len f (VList elems) &&
            (match f_len f with LLit n => zlen elems =? n | _ => true end) &&
            (negb delimited || negb (is_while count || f_optional f) || forallb nonempty_value elems) &&     (* [B7] *)
            forallb (obj_valueB m m (f_ty f) LNone false) elems && obj_instrsB em m m flds t rmo
          | Some VNone => f_optional f && obj_instrsB em m cl flds t true
          | _ => false
          end
        end
      | ELength _ lty off _ _ ref_by =>
        match ref_by with
        | Some fr => match assoc flds fr with
                     | Some fv => match py_len fv with
                                  | Some l => (0 <=? l - off) && (l - off <=? itype_max lty) &&
                                              (negb m || clean_it lty || negb (l - off =? 255)) &&             (* [B6] *)
                                              obj_instrsB em m (m || cl && (clean_it lty || negb (l - off =? 255))) flds t rmo
                                  | None => false end
                     | None => false end
        | None => false
        end
      | ESwitch field cases =>
        match assoc flds field, assoc flds (field ++ "_data")%string with
        | Some (VInt z), Some dv =>
          match find_case cases (Some z) with
          | None => is_none dv && obj_instrsB em m cl flds t rmo
          | Some c => match c_cls c with
                      | None => is_none dv && obj_instrsB em m cl flds t rmo
                      | Some cls => match obj_class dv with
                                    | Some c' => String.eqb c' cls && vo cls m cl dv && obj_instrsB em m m flds t rmo
                                    | None => false end
                      end
          end
        | _, _ => false
        end
      | ESetMode b => (negb b || m || cl) && obj_instrsB em b (b || m || cl) flds t rmo      (* [B1] *)
      | EBreak => obj_instrsB em m (m || cl) flds t false                       (* a break starts a new chain of optionals *)
      | EDummy _ _ _ => obj_instrsB em m cl flds t rmo
      end
    end.
End ObjB.

(* valid_objB fuel E cls em cl v: v is a value of class cls that round-trips when the class is entered in mode em
   by a reader that is clean iff cl (a fresh reader is clean) *)
Fixpoint valid_objB (fuel : nat) (E : env) (cls : string) (em cl : bool) (v : value) : bool :=
  match fuel with
  | O => false
  | S f => match env_find E cls, v with
           | Some d, VObj c flds =>
             String.eqb c cls &&
             strs_eqb (map fst flds) (pub_names (sd_body d)) &&
             obj_instrsB (valid_objB f E) em em (em || cl) flds (sd_body d) false
           | _, _ => false
           end
  end.
(* a top-level object: the class is entered in non-chunked mode by a fresh reader, which has read no 0xFF yet *)
Definition valid_okB (E : env) (cls : string) (v : value) : bool := valid_objB (S (List.length E)) E cls false true v.
