(* Model of src/eolib/data/number_encoding_utils.py *)
From EO Require Import Prelude.Py Model.Limits.
Open Scope Z_scope.

(* the four digits, least significant first; 254 (0xFE) marks an absent digit *)
Definition encode_digits (n : Z) : list Z :=
  let d := if n >=? THREE_MAX then n / THREE_MAX + 1 else 254 in
  let v3 := if n >=? THREE_MAX then n mod THREE_MAX else n in
  let c := if n >=? SHORT_MAX then v3 / SHORT_MAX + 1 else 254 in
  let v2 := if n >=? SHORT_MAX then v3 mod SHORT_MAX else v3 in
  let b := if n >=? CHAR_MAX then v2 / CHAR_MAX + 1 else 254 in
  let v1 := if n >=? CHAR_MAX then v2 mod CHAR_MAX else v2 in
  [v1 + 1; b; c; d].

(* bytes([...]) raises ValueError when a digit is outside 0..255 (negative or oversized numbers) *)
Definition encode_number (n : Z) : res (list Z) := py_bytes (encode_digits n).

(* documented positional formula: sum of (byte-1)*253^i up to the first 0xFE, at most k bytes *)
Fixpoint positional (bs : list Z) (mult : Z) (k : nat) : Z :=
  match k, bs with
  | S k', b :: t => if b =? 254 then 0 else (b - 1) * mult + positional t (mult * 253) k'
  | _, _ => 0
  end.
Definition decode_number (bs : list Z) : Z := positional bs 1 4.
