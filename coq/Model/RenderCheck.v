(* The executable comparison used by the harness (tools/gencheck.py render_stream): the statements tools/py2stmt.py parsed from
   the text of every generated `serialize` against `render_serialize` of the same class's body in `elab tree`.
   Soundness of the boolean equalities and of the enum-constant erasure is proved in Proofs/RenderSer.v. *)
From EO Require Import Prelude.Py Prelude.Corr Model.Writer Model.Spec Model.Elab Model.PyStmt Model.RenderSer.
Open Scope string_scope.
Open Scope list_scope.
Open Scope Z_scope.

Definition cmpop_eqb (a b : cmpop) : bool :=
  match a, b with CEq, CEq | CNe, CNe | CGt, CGt | CLt, CLt | CGe, CGe => true | _, _ => false end.
Definition binop_eqb (a b : binop) : bool := match a, b with BAdd, BAdd | BSub, BSub => true | _, _ => false end.
Definition wmeth_eqb (a b : wmeth) : bool :=
  match a, b with
  | MByte, MByte | MChar, MChar | MShort, MShort | MThree, MThree | MInt, MInt | MString, MString | MEncString, MEncString | MBytes, MBytes => true
  | _, _ => false
  end.

Fixpoint pexpr_eqb (a b : pexpr) : bool :=
  match a, b with
  | PSlot x, PSlot y => String.eqb x y
  | PVar x, PVar y => String.eqb x y
  | PInt x, PInt y => x =? y
  | PBool x, PBool y => Bool.eqb x y
  | PStr x, PStr y => String.eqb x y
  | PNone, PNone => true
  | PConst e m z, PConst e' m' z' => String.eqb e e' && String.eqb m m' && (z =? z')
  | PIndex a1 a2, PIndex b1 b2 => pexpr_eqb a1 b1 && pexpr_eqb a2 b2
  | PLen a1, PLen b1 => pexpr_eqb a1 b1
  | PIsNone a1, PIsNone b1 => pexpr_eqb a1 b1
  | PIsNotNone a1, PIsNotNone b1 => pexpr_eqb a1 b1
  | PNot a1, PNot b1 => pexpr_eqb a1 b1
  | PIsInstance a1 c, PIsInstance b1 c' => pexpr_eqb a1 b1 && String.eqb c c'
  | PCmp o a1 a2, PCmp o' b1 b2 => cmpop_eqb o o' && pexpr_eqb a1 b1 && pexpr_eqb a2 b2
  | PBin o a1 a2, PBin o' b1 b2 => binop_eqb o o' && pexpr_eqb a1 b1 && pexpr_eqb a2 b2
  | PIfElse a1 a2 a3, PIfElse b1 b2 b3 => pexpr_eqb a1 b1 && pexpr_eqb a2 b2 && pexpr_eqb a3 b3
  | PIntOf a1, PIntOf b1 => pexpr_eqb a1 b1
  | PCast t a1, PCast t' b1 => String.eqb t t' && pexpr_eqb a1 b1
  | PWriterLen, PWriterLen => true
  | PWriterMode, PWriterMode => true
  | POr a1 a2, POr b1 b2 => pexpr_eqb a1 b1 && pexpr_eqb a2 b2
  | _, _ => false
  end.

Fixpoint pstmt_eqb (a b : pstmt) {struct a} : bool :=
  let eqs := fix eqs (l1 l2 : list pstmt) {struct l1} : bool :=
               match l1, l2 with
               | [], [] => true
               | x :: t1, y :: t2 => pstmt_eqb x y && eqs t1 t2
               | _, _ => false
               end in
  match a, b with
  | SAdd m e, SAdd m' e' => wmeth_eqb m m' && pexpr_eqb e e'
  | SAddFixed c e l p, SAddFixed c' e' l' p' => Bool.eqb c c' && pexpr_eqb e e' && pexpr_eqb l l' && Bool.eqb p p'
  | SSetMode e, SSetMode e' => pexpr_eqb e e'
  | SAssign x e, SAssign x' e' => String.eqb x x' && pexpr_eqb e e'
  | SIf c t e, SIf c' t' e' => pexpr_eqb c c' && eqs t t' && eqs e e'
  | SFor x e body, SFor x' e' body' => String.eqb x x' && pexpr_eqb e e' && eqs body body'
  | SRaise, SRaise => true
  | SSerialize c e, SSerialize c' e' => String.eqb c c' && pexpr_eqb e e'
  | STryFinally b f, STryFinally b' f' => eqs b b' && eqs f f'
  | _, _ => false
  end.
Fixpoint pstmts_eqb (l1 l2 : list pstmt) {struct l1} : bool :=
  match l1, l2 with
  | [], [] => true
  | x :: t1, y :: t2 => pstmt_eqb x y && pstmts_eqb t1 t2
  | _, _ => false
  end.

(* ---- Enum.Member constants: replaced by their integer value (the interpreter gives PConst _ _ z the value z) ---- *)
Fixpoint erase_e (e : pexpr) : pexpr :=
  match e with
  | PConst _ _ z => PInt z
  | PIndex a b => PIndex (erase_e a) (erase_e b)
  | PLen a => PLen (erase_e a)
  | PIsNone a => PIsNone (erase_e a)
  | PIsNotNone a => PIsNotNone (erase_e a)
  | PNot a => PNot (erase_e a)
  | PIsInstance a c => PIsInstance (erase_e a) c
  | PCmp o a b => PCmp o (erase_e a) (erase_e b)
  | PBin o a b => PBin o (erase_e a) (erase_e b)
  | PIfElse a c b => PIfElse (erase_e a) (erase_e c) (erase_e b)
  | PIntOf a => PIntOf (erase_e a)
  | PCast t a => PCast t (erase_e a)
  | POr a b => POr (erase_e a) (erase_e b)
  | x => x
  end.
Fixpoint erase_s (s : pstmt) : pstmt :=
  match s with
  | SAdd m e => SAdd m (erase_e e)
  | SAddFixed c e l p => SAddFixed c (erase_e e) (erase_e l) p
  | SSetMode e => SSetMode (erase_e e)
  | SAssign x e => SAssign x (erase_e e)
  | SIf c t e => SIf (erase_e c) (map erase_s t) (map erase_s e)
  | SFor x e body => SFor x (erase_e e) (map erase_s body)
  | SRaise => SRaise
  | SSerialize c e => SSerialize c (erase_e e)
  | STryFinally b f => STryFinally (map erase_s b) (map erase_s f)
  end.

(* every Enum.Member of the text carries the value the elaborated specification gives that member *)
Section Consts.
  Variable enums : list penum.
  Definition const_ok (e m : string) (z : Z) : bool :=
    existsb (fun pe => String.eqb (pe_name pe) e &&
                       existsb (fun v => String.eqb (python_name (fst v)) m && (snd v =? z)) (pe_values pe)) enums.
  Fixpoint consts_e (e : pexpr) : bool :=
    match e with
    | PConst en m z => const_ok en m z
    | PIndex a b | PCmp _ a b | PBin _ a b | POr a b => consts_e a && consts_e b
    | PLen a | PIsNone a | PIsNotNone a | PNot a | PIsInstance a _ | PIntOf a | PCast _ a => consts_e a
    | PIfElse a c b => consts_e a && consts_e c && consts_e b
    | _ => true
    end.
  Fixpoint consts_s (s : pstmt) : bool :=
    match s with
    | SAdd _ e | SSetMode e | SAssign _ e | SSerialize _ e => consts_e e
    | SAddFixed _ e l _ => consts_e e && consts_e l
    | SIf c t e => consts_e c && forallb consts_s t && forallb consts_s e
    | SFor _ e body => consts_e e && forallb consts_s body
    | SRaise => true
    | STryFinally b f => forallb consts_s b && forallb consts_s f
    end.
End Consts.

(* ---- static side conditions of the theorem (Proofs/RenderSer.v) on an instruction list ---- *)
(* - an unnamed hardcoded field whose length attribute names a length field: the emitted add_fixed_string(lit, data._len, ..) is
     not what Ser.v describes (unreachable in generated code: the length field's slot is never assigned, so the length field
     itself raises AttributeError first);
   - an array with a hardcoded value (the generator refuses it; elab never produces it): Ser.v's None check of arrays does not
     look at f_hard, the template's does. *)
Definition instr_static_ok (i : einstr) : bool :=
  match i with
  | EField f => match f_name f, f_len f with None, LRef _ => false | _, _ => true end
  | EArray f _ _ _ => match f_hard f with None => true | Some _ => false end
  | _ => true
  end.
Definition static_ok (is : list einstr) : bool := forallb instr_static_ok is.

(* ---- the check ---- *)
Definition parsed := list (string * list pstmt).

Definition render_class (enums : list penum) (d : sdef) (ss : list pstmt) : list (string * string) :=
  if negb (forallb (consts_s enums) ss) then [(sd_name d, "enum constant")] else
  match render_serialize (sd_body d) with
  | None => [(sd_name d, "not renderable")]
  | Some rs =>
    if pstmts_eqb (map erase_s ss) rs
    then (if static_ok (sd_body d) then [] else [(sd_name d, "outside the theorem")])
    else [(sd_name d, "serialize")]
  end.

(* (class, what differs) *)
Definition render_detail (files : list rfile) (P : parsed) : list (string * string) :=
  match elab files with
  | Err _ => [("<elab>", "the model rejects the tree")]
  | Ok p =>
    let E := pk_env p in
    flat_map (fun d => match assoc P (sd_name d) with
                       | None => [(sd_name d, "missing")]
                       | Some ss => render_class (pk_enums p) d ss
                       end) E
    ++ flat_map (fun r => match env_find E (fst r) with Some _ => [] | None => [(fst r, "extra")] end) P
    ++ (if dup_free (map sd_name E) && dup_free (map fst P) then [] else [("<names>", "duplicate class names")])
  end.

(* for diagnosis *)
Definition render_show (files : list rfile) (cls : string) : option (option (list pstmt)) :=
  match elab files with
  | Err _ => None
  | Ok p => match env_find (pk_env p) cls with Some d => Some (render_serialize (sd_body d)) | None => None end
  end.
