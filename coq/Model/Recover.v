(* Structural tie between the model and the GENERATED code (translation validation).

   tools/gen2instr.py reads the text of every generated class and recovers, in the vocabulary of Model/Spec.v,
     S = the instruction list of the body of `serialize`  (+ what the constructor assigns: hardcoded literals, length slots)
     D = the instruction list of the body of `deserialize`
   (fail-closed: the recovered lists, printed back through the templates, are AST-identical to the real methods).
   `recover_check files recovered` compares them with `sd_body` of the same class in `elab files`.

   Neither method shows every component of an instruction, so each side is compared on the components it determines:

     component                          serialize side (S)                         deserialize side (D)
     ---------------------------------  -----------------------------------------  ------------------------------------------
     constructor, order of instructions yes                                        yes
     EField/EArray  f_name              yes  (data._n)                             yes  (n = ... / Cls(n=n))
                    f_ty                yes  (add_<t>, `1 if .. else 0`, int(..);  yes  (get_<t>, `!= 0`, Enum(..), X.deserialize)
                                             enum name: cast(..) / slot annotation)
                    f_len               yes  (fixed-string argument, range(..))    yes  (fixed-string argument, range(..))
                    f_padded            yes  when f_len <> LNone                   yes  when f_len <> LNone
                    f_optional          yes  (missing-optional guard)              yes  (`if reader.remaining > 0`)
                    f_opt_first         yes  when f_optional (`rmo = ..` / `rmo = rmo or ..`)   no
                    f_hard              yes  (unnamed: the literal written; named: `self._n = <literal>` in __init__)   no
                    f_maxlen            yes  when f_len = LRef and named (the `len(..) > MAX` guard)                    no
     EArray         delimited           yes  (0xFF written in the loop)            yes  (next_chunk() in the loop)
                    trailing            yes  when delimited                        only when delimited and counted (`if i + 1 < n`)
                    count (acount)      no                                         yes  (range(expr) / int(remaining / size) / while)
     ELength        name, t, offset     yes                                        yes
                    optional            yes                                        yes
                    opt_first           yes  when optional                         no
                    ref_by              yes  (`self._len = len(self._f)` in __init__)           no
     EDummy         ty, guarded         yes                                        yes
                    lit                 yes                                        no
     ESwitch        field, keys, c_cls  yes, except a final EMPTY default case     yes  (all of it)
                                        (textually the unmatched-value guard)
     ESetMode b, EBreak                 yes                                        yes

   Components that NEITHER side can see are exactly those Model/Ser.v and Model/Deser.v never read; `canon` erases them
   (lemmas ser_canon / deser_canon below):
     f_padded when f_len = LNone;  f_opt_first / opt_first when not optional;  f_maxlen unless f_len = LRef on a named field;
     trailing when not delimited;  `EDummy ty lit false` = an unnamed hardcoded field (the generator emits the same statement).
   Theorem sides_determine: the two projections together determine `canon i` - every component of every constructor is
   determined by at least one side. *)
From EO Require Import Prelude.Py Prelude.Corr Model.Limits Model.Number Model.StringEnc Model.Cp1252 Model.Writer Model.Reader
     Model.Spec Model.Elab Model.Ser Model.Deser.
Open Scope string_scope.
Open Scope list_scope.
Open Scope Z_scope.

(* ---------------- boolean equalities ---------------- *)
Definition itype_eqb (a b : itype) : bool :=
  match a, b with TByte, TByte | TChar, TChar | TShort, TShort | TThree, TThree | TInt, TInt => true | _, _ => false end.
Definition etype_eqb (a b : etype) : bool :=
  match a, b with
  | EInt x, EInt y => itype_eqb x y
  | EBool x, EBool y => itype_eqb x y
  | EEnum n x, EEnum m y => String.eqb n m && itype_eqb x y
  | EStr x, EStr y => Bool.eqb x y
  | EBlob, EBlob => true
  | EStruct n, EStruct m => String.eqb n m
  | _, _ => false
  end.
Definition elen_eqb (a b : elen) : bool :=
  match a, b with LNone, LNone => true | LLit x, LLit y => x =? y | LRef x, LRef y => String.eqb x y | _, _ => false end.
Definition ostr_eqb (a b : option string) : bool := opt_eqb String.eqb a b.
Definition fieldspec_eqb (a b : fieldspec) : bool :=
  ostr_eqb (f_name a) (f_name b) && etype_eqb (f_ty a) (f_ty b) && elen_eqb (f_len a) (f_len b) &&
  Bool.eqb (f_padded a) (f_padded b) && Bool.eqb (f_optional a) (f_optional b) && Bool.eqb (f_opt_first a) (f_opt_first b) &&
  ostr_eqb (f_hard a) (f_hard b) && (f_maxlen a =? f_maxlen b).
Definition acount_eqb (a b : acount) : bool :=
  match a, b with ACExpr, ACExpr => true | ACRemaining x, ACRemaining y => x =? y | ACWhile, ACWhile => true | _, _ => false end.
Definition ckey_eqb (a b : ecase_key) : bool :=
  match a, b with CKValue x, CKValue y => x =? y | CKDefault, CKDefault => true | _, _ => false end.
Definition ecase_eqb (a b : ecase) : bool := ckey_eqb (c_key a) (c_key b) && ostr_eqb (c_cls a) (c_cls b).
Definition einstr_eqb (a b : einstr) : bool :=
  match a, b with
  | EField f, EField g => fieldspec_eqb f g
  | EArray f d t c, EArray g d' t' c' => fieldspec_eqb f g && Bool.eqb d d' && Bool.eqb t t' && acount_eqb c c'
  | ELength n t o p q r, ELength n' t' o' p' q' r' =>
    String.eqb n n' && itype_eqb t t' && (o =? o') && Bool.eqb p p' && Bool.eqb q q' && ostr_eqb r r'
  | EDummy ty l g, EDummy ty' l' g' => etype_eqb ty ty' && String.eqb l l' && Bool.eqb g g'
  | ESwitch f cs, ESwitch f' cs' => String.eqb f f' && listx_eqb ecase_eqb cs cs'
  | ESetMode b, ESetMode b' => Bool.eqb b b'
  | EBreak, EBreak => true
  | _, _ => false
  end.

Lemma itype_eqb_eq a b : itype_eqb a b = true -> a = b.
Proof. destruct a, b; simpl; congruence. Qed.
Lemma etype_eqb_eq a b : etype_eqb a b = true -> a = b.
Proof.
  destruct a, b; simpl; try congruence; intro H;
    repeat match goal with
           | H : _ && _ = true |- _ => apply andb_true_iff in H as [? ?]
           | H : itype_eqb _ _ = true |- _ => apply itype_eqb_eq in H
           | H : String.eqb _ _ = true |- _ => apply String.eqb_eq in H
           | H : Bool.eqb _ _ = true |- _ => apply Bool.eqb_prop in H
           end; subst; reflexivity.
Qed.
Lemma elen_eqb_eq a b : elen_eqb a b = true -> a = b.
Proof.
  destruct a, b; simpl; try congruence; intro H.
  - apply Z.eqb_eq in H. congruence.
  - apply String.eqb_eq in H. congruence.
Qed.
Lemma ostr_eqb_eq a b : ostr_eqb a b = true -> a = b.
Proof. destruct a, b; simpl; try congruence. intro H. apply String.eqb_eq in H. congruence. Qed.
Lemma acount_eqb_eq a b : acount_eqb a b = true -> a = b.
Proof. destruct a, b; simpl; try congruence. intro H. apply Z.eqb_eq in H. congruence. Qed.
Lemma ckey_eqb_eq a b : ckey_eqb a b = true -> a = b.
Proof. destruct a, b; simpl; try congruence. intro H. apply Z.eqb_eq in H. congruence. Qed.

Ltac eqb_split :=
  repeat match goal with
         | H : _ && _ = true |- _ => apply andb_true_iff in H as [? ?]
         end;
  repeat match goal with
         | H : itype_eqb _ _ = true |- _ => apply itype_eqb_eq in H
         | H : etype_eqb _ _ = true |- _ => apply etype_eqb_eq in H
         | H : elen_eqb _ _ = true |- _ => apply elen_eqb_eq in H
         | H : ostr_eqb _ _ = true |- _ => apply ostr_eqb_eq in H
         | H : acount_eqb _ _ = true |- _ => apply acount_eqb_eq in H
         | H : ckey_eqb _ _ = true |- _ => apply ckey_eqb_eq in H
         | H : String.eqb _ _ = true |- _ => apply String.eqb_eq in H
         | H : Bool.eqb _ _ = true |- _ => apply Bool.eqb_prop in H
         | H : (_ =? _) = true |- _ => apply Z.eqb_eq in H
         end.

Lemma fieldspec_eqb_eq a b : fieldspec_eqb a b = true -> a = b.
Proof. destruct a, b; unfold fieldspec_eqb; simpl; intro H; eqb_split; subst; reflexivity. Qed.
Lemma ecase_eqb_eq a b : ecase_eqb a b = true -> a = b.
Proof. destruct a, b; unfold ecase_eqb; simpl; intro H; eqb_split; subst; reflexivity. Qed.
Lemma listx_eqb_eq {A} (eqA : A -> A -> bool) (HA : forall x y, eqA x y = true -> x = y) l1 l2 :
  listx_eqb eqA l1 l2 = true -> l1 = l2.
Proof.
  revert l2; induction l1 as [|x l1 IH]; intros [|y l2]; simpl; try congruence.
  intro H. apply andb_true_iff in H as [H1 H2]. apply HA in H1. apply IH in H2. congruence.
Qed.
(* the comparison never identifies two different instructions *)
Lemma einstr_eqb_eq a b : einstr_eqb a b = true -> a = b.
Proof.
  destruct a, b; simpl; try congruence; intro H; eqb_split;
    repeat match goal with
           | H : fieldspec_eqb _ _ = true |- _ => apply fieldspec_eqb_eq in H
           | H : listx_eqb ecase_eqb _ _ = true |- _ => apply (listx_eqb_eq _ ecase_eqb_eq) in H
           end; subst; reflexivity.
Qed.

(* ---------------- what the sides determine ---------------- *)
Definition is_named (f : fieldspec) : bool := match f_name f with Some _ => true | None => false end.
(* erase the components nothing reads *)
Definition canon_field (f : fieldspec) : fieldspec :=
  mkField (f_name f) (f_ty f) (f_len f)
          (match f_len f with LNone => false | _ => f_padded f end)
          (f_optional f)
          (f_optional f && f_opt_first f)
          (f_hard f)
          (match f_len f with LRef _ => if is_named f then f_maxlen f else 0 | _ => 0 end).
Definition canon (i : einstr) : einstr :=
  match i with
  | EField f => EField (canon_field f)
  | EArray f d t c => EArray (canon_field f) d (d && t) c
  | ELength n t off o q r => ELength n t off o (o && q) r
  | EDummy ty lit false => EField (mkField None ty LNone false false false (Some lit) 0)
  | j => j
  end.

(* a final empty default case: `else: if data._f_data is not None: raise ...` is also what the unmatched guard looks like *)
Definition drop_empty_default (cs : list ecase) : list ecase :=
  match rev cs with
  | mkCase CKDefault None :: r => rev r
  | _ => cs
  end.

Definition proj_S (i : einstr) : einstr :=
  match canon i with
  | EArray f d t _ => EArray f d t ACExpr
  | ESwitch fld cs => ESwitch fld (drop_empty_default cs)
  | j => j
  end.

Definition erase_S_only (f : fieldspec) : fieldspec :=
  mkField (f_name f) (f_ty f) (f_len f) (f_padded f) (f_optional f) false None 0.
Definition proj_D (i : einstr) : einstr :=
  match canon i with
  | EField f => EField (erase_S_only f)
  | EArray f d t c => EArray (erase_S_only f) d (match c with ACWhile => false | _ => t end) c
  | ELength n t off o _ _ => ELength n t off o false None
  | EDummy ty _ g => EDummy ty "" g
  | j => j
  end.

(* every component (up to canon) is determined by at least one side *)
Theorem sides_determine a b : proj_S a = proj_S b -> proj_D a = proj_D b -> canon a = canon b.
Proof.
  unfold proj_S, proj_D.
  destruct (canon a) eqn:Ea, (canon b) eqn:Eb; intros HS HD; try discriminate; try assumption;
    try (inversion HS; inversion HD; subst; reflexivity).
Qed.

Lemma canon_idem i : canon (canon i) = canon i.
Proof.
  destruct i as [f|f d t c|n t off o q r|ty lit g| | |]; simpl; try reflexivity.
  - destruct f as [n ty l p o q h m]; unfold canon_field, is_named; simpl. destruct l, o, q, n; reflexivity.
  - destruct f as [n ty l p o q h m]; unfold canon_field, is_named; simpl. destruct l, o, q, n, d, t; reflexivity.
  - destruct o, q; reflexivity.
  - destruct g; reflexivity.
Qed.

(* ---------------- the erased components are never read by the semantics ---------------- *)
Section Dead.
  Variable srec : string -> value -> wstate -> wres.
  Variable drec : string -> rstate -> rres value.

  Lemma ser_value_padded ty v p p' off w : ser_value srec ty v None p off w = ser_value srec ty v None p' off w.
  Proof. destruct ty; reflexivity. Qed.
  Lemma deser_value_padded ty p p' off r : deser_value drec ty None p off r = deser_value drec ty None p' off r.
  Proof. destruct ty; reflexivity. Qed.

  Lemma ser_field_canon flds f rmo w : ser_field srec flds (canon_field f) rmo w = ser_field srec flds f rmo w.
  Proof.
    destruct f as [n ty l p o q h m]. unfold ser_field, canon_field, is_named, len_check, opt_guard; simpl.
    destruct n as [n|].
    - destruct (assoc flds n) as [v|]; [|reflexivity]. destruct o, q, l; reflexivity.
    - destruct h as [lit|]; [|reflexivity]. destruct (lit_value ty lit); [|reflexivity]. destruct l; reflexivity.
  Qed.

  Lemma ser_elems_trailing ty d t k : forall i0 es w0, ser_elems srec ty d (d && t) k i0 es w0 = ser_elems srec ty d t k i0 es w0.
  Proof.
    destruct d; [reflexivity|]. simpl.
    induction k as [|k IH]; intros i0 es w0; simpl; [reflexivity|].
    destruct es as [|x es]; [reflexivity|]. destruct (ser_value srec ty x None false 0 w0) as [w2 [u2|e2]]; [apply IH|reflexivity].
  Qed.

  Lemma ser_canon flds old i rmo w : ser_instr srec flds old (canon i) rmo w = ser_instr srec flds old i rmo w.
  Proof.
    destruct i as [f|f d t c|n t off o q r|ty lit g| | |]; simpl; try reflexivity.
    - apply ser_field_canon.
    - destruct f as [n ty l p o q h m]. unfold ser_array, canon_field, is_named, len_check, opt_guard; simpl.
      destruct n as [n|]; [|reflexivity]. destruct (assoc flds n) as [v|]; [|reflexivity].
      destruct o, q, l; simpl; destruct v; simpl; rewrite ?ser_elems_trailing; reflexivity.
    - destruct o, q; reflexivity.
    - destruct g; simpl; [reflexivity|]. unfold ser_field; simpl. destruct (lit_value ty lit); reflexivity.
  Qed.

  Lemma deser_for_trailing ty d t k : forall i0 n acc r0, deser_for drec ty d (d && t) k i0 n acc r0 = deser_for drec ty d t k i0 n acc r0.
  Proof.
    destruct d; [reflexivity|]. simpl.
    induction k as [|k IH]; intros i0 n acc r0; simpl; [reflexivity|].
    destruct (deser_value drec ty None false 0 r0) as [r1 [x|e]]; [apply IH|reflexivity].
  Qed.

  Lemma deser_canon start i locals r : deser_instr drec start (canon i) locals r = deser_instr drec start i locals r.
  Proof.
    destruct i as [f|f d t c|n t off o q r0|ty lit g| | |]; simpl; try reflexivity.
    - destruct f as [n ty l p o q h m]. unfold canon_field, is_named, len_expr; simpl. destruct l; reflexivity.
    - destruct f as [n ty l p o q h m]. unfold canon_field, is_named, len_expr; simpl.
      destruct n as [n|]; [|reflexivity]. destruct c, l; simpl; rewrite ?deser_for_trailing; try reflexivity;
        destruct (assoc_last locals _ None) as [[]|]; simpl; rewrite ?deser_for_trailing; reflexivity.
    - destruct g; reflexivity.
  Qed.

  (* dropping a final empty default case does not change what serialize does (it is what the unmatched guard does) *)
  Lemma find_case_drop cs z :
    match find_case (drop_empty_default cs) z with Some c => Some (c_cls c) | None => Some None end =
    match find_case cs z with Some c => Some (c_cls c) | None => Some None end.
  Proof.
    unfold drop_empty_default. destruct (rev cs) as [|[k cl] r] eqn:E; [reflexivity|].
    destruct k; [reflexivity|]. destruct cl; [reflexivity|].
    assert (cs = rev r ++ [mkCase CKDefault None]) as -> by (rewrite <- (rev_involutive cs), E; reflexivity).
    clear E. induction (rev r) as [|c l IH]; simpl; [reflexivity|].
    destruct (c_key c); [|reflexivity]. destruct z as [x|]; [destruct (x =? v)|]; try reflexivity; apply IH.
  Qed.
  Lemma ser_drop_default flds old fld cs rmo w :
    ser_instr srec flds old (ESwitch fld (drop_empty_default cs)) rmo w = ser_instr srec flds old (ESwitch fld cs) rmo w.
  Proof.
    simpl. destruct (assoc flds fld) as [fv|]; [|reflexivity]. destruct (assoc flds (fld ++ "_data")) as [dv|]; [|reflexivity].
    set (z := match fv with VInt z => Some z | VBool b => Some (if b then 1 else 0) | _ => None end).
    pose proof (find_case_drop cs z) as H.
    destruct (find_case (drop_empty_default cs) z) as [c1|], (find_case cs z) as [c2|]; inversion H as [H1]; try reflexivity;
      try (rewrite H1; reflexivity); try (rewrite <- H1; reflexivity).
  Qed.
End Dead.

(* ---------------- the check ---------------- *)
Definition side_ok (proj : einstr -> einstr) (model recovered : list einstr) : bool :=
  listx_eqb einstr_eqb (map proj model) (map proj recovered).

Definition recovered := list (string * list einstr * list einstr).
Fixpoint find_rec (l : recovered) (n : string) : option (list einstr * list einstr) :=
  match l with [] => None | (m, s, d) :: t => if String.eqb m n then Some (s, d) else find_rec t n end.

(* (class, what differs) *)
Definition recover_detail (files : list rfile) (rec : recovered) : list (string * string) :=
  match elab files with
  | Err _ => [("<elab>", "the model rejects the tree")]
  | Ok p =>
    let E := pk_env p in
    flat_map (fun d => match find_rec rec (sd_name d) with
                       | None => [(sd_name d, "missing")]
                       | Some (s, dd) =>
                         (if side_ok proj_S (sd_body d) s then [] else [(sd_name d, "serialize")]) ++
                         (if side_ok proj_D (sd_body d) dd then [] else [(sd_name d, "deserialize")])
                       end) E
    ++ flat_map (fun r => match env_find E (fst (fst r)) with Some _ => [] | None => [(fst (fst r), "extra")] end) rec
    ++ (if dup_free (map sd_name E) && dup_free (map (fun r => fst (fst r)) rec) then [] else [("<names>", "duplicate class names")])
  end.

Fixpoint dedup (l : list string) : list string :=
  match l with [] => [] | x :: t => if mem_str x t then dedup t else x :: dedup t end.
(* the names of the classes whose recovered S or D differ from the model's body (or that are missing / extra) *)
Definition recover_check (files : list rfile) (rec : recovered) : list string := dedup (map fst (recover_detail files rec)).

(* one class against an already elaborated environment: (serialize side agrees, deserialize side agrees) *)
Definition elab_env (files : list rfile) : env := match elab files with Ok p => pk_env p | Err _ => [] end.
Definition recover_class (E : env) (r : string * list einstr * list einstr) : option (bool * bool) :=
  match env_find E (fst (fst r)) with
  | Some d => Some (side_ok proj_S (sd_body d) (snd (fst r)), side_ok proj_D (sd_body d) (snd r))
  | None => None
  end.

(* for diagnosis: both projections of the model's body of one class *)
Definition recover_show (files : list rfile) (cls : string) : option (list einstr * list einstr) :=
  match elab files with
  | Err _ => None
  | Ok p => match env_find (pk_env p) cls with
            | Some d => Some (map proj_S (sd_body d), map proj_D (sd_body d))
            | None => None
            end
  end.

(* enums (generated member names and ordinals) and packet identities (what family() / action() return) *)
Definition recover_meta (files : list rfile) (enums : list (string * list (string * Z))) (packets : list (string * Z * Z)) : list string :=
  match elab files with
  | Err _ => ["<elab>"]
  | Ok p =>
    flat_map (fun e => match assoc enums (pe_name e) with
                       | Some vs => if listx_eqb (pair_eqb String.eqb Z.eqb) (map (fun v => (python_name (fst v), snd v)) (pe_values e)) vs
                                    then [] else [pe_name e]
                       | None => [pe_name e]
                       end) (pk_enums p)
    ++ flat_map (fun e => if existsb (fun x => String.eqb (pe_name x) (fst e)) (pk_enums p) then [] else [fst e]) enums
    ++ flat_map (fun k => if existsb (fun r => String.eqb (fst (fst r)) (pp_cls k) && (snd (fst r) =? pp_family k) && (snd r =? pp_action k)) packets
                          then [] else [pp_cls k]) (pk_packets p)
    ++ flat_map (fun r => if existsb (fun k => String.eqb (pp_cls k) (fst (fst r))) (pk_packets p) then [] else [fst (fst r)]) packets
  end.
