(* Model R of src/eolib/data/eo_reader.py (EoReader), faithful to the code: it has the cached `_next_break`
   with the -1 sentinel, filled by the mode setter only when -1 and recomputed by next_chunk. *)
From EO Require Import Prelude.Py Model.Number Model.StringEnc Model.Cp1252.
Open Scope Z_scope.

Record rstate := mkR { rdata : list Z; rpos : Z; rchunked : bool; rcstart : Z; rbrk : Z }.
Definition initR (d : list Z) : rstate := mkR d 0 false 0 (-1).

(* index of the first 0xFF in l (l starts at index i), else the index just past l *)
Fixpoint find_ff (l : list Z) (i : Z) : Z :=
  match l with
  | [] => i
  | x :: t => if x =? 255 then i else find_ff t (i + 1)
  end.
(* _find_next_break_index: for i in range(chunk_start, len(data)) *)
Definition find_break (d : list Z) (cstart : Z) : Z :=
  if cstart <=? zlen d then find_ff (skipn (Z.to_nat cstart) d) cstart else zlen d.

Definition r_remaining (r : rstate) : Z :=
  if rchunked r then rbrk r - Z.min (rpos r) (rbrk r) else zlen (rdata r) - rpos r.

Definition r_set_pos (r : rstate) (p : Z) : rstate := mkR (rdata r) p (rchunked r) (rcstart r) (rbrk r).

(* _read_byte *)
Definition r_read_byte (r : rstate) : rstate * Z :=
  if r_remaining r >? 0 then (r_set_pos r (rpos r + 1), zget (rdata r) (rpos r)) else (r, 0).

(* _read_bytes(length), length >= 0 *)
Definition r_read_bytes (r : rstate) (n : Z) : rstate * list Z :=
  let n := Z.min n (r_remaining r) in
  (r_set_pos r (rpos r + n), slice (rdata r) (rpos r) (rpos r + n)).

(* chunked_reading_mode setter *)
Definition r_set_chunked (r : rstate) (b : bool) : rstate :=
  mkR (rdata r) (rpos r) b (rcstart r) (if rbrk r =? -1 then find_break (rdata r) (rcstart r) else rbrk r).

Definition r_next_chunk (r : rstate) : res rstate :=
  if negb (rchunked r) then Err ERuntime else
  let p := rbrk r in
  let p := if p <? zlen (rdata r) then p + 1 else p in
  Ok (mkR (rdata r) p (rchunked r) p (find_break (rdata r) p)).

(* slice(index=None, length=None) *)
Definition r_slice (r : rstate) (index length : option Z) : res rstate :=
  let index := match index with Some i => i | None => rpos r end in
  let length := match length with Some l => l | None => Z.max 0 (zlen (rdata r) - index) end in
  if index <? 0 then Err EValue else
  if length <? 0 then Err EValue else
  let b := Z.max 0 (Z.min (zlen (rdata r)) index) in
  let e := b + Z.min (zlen (rdata r) - b) length in
  Ok (initR (slice (rdata r) b e)).

(* _remove_padding: cut at the first 0xFF *)
Fixpoint remove_padding (bs : list Z) : list Z :=
  match bs with
  | [] => []
  | x :: t => if x =? 255 then [] else x :: remove_padding t
  end.

Definition r_get_byte := r_read_byte.
Definition r_get_bytes := r_read_bytes.
Definition r_get_number (r : rstate) (size : Z) : rstate * Z :=
  let '(r', bs) := r_read_bytes r size in (r', decode_number bs).
Definition r_get_char r := r_get_number r 1.
Definition r_get_short r := r_get_number r 2.
Definition r_get_three r := r_get_number r 3.
Definition r_get_int r := r_get_number r 4.
Definition r_get_string (r : rstate) : rstate * list Z :=
  let '(r', bs) := r_read_bytes r (r_remaining r) in (r', cp_decode bs).
Definition r_get_fixed_string (r : rstate) (len : Z) (padded : bool) : res (rstate * list Z) :=
  if len <? 0 then Err EValue else
  let '(r', bs) := r_read_bytes r len in
  let bs := if padded then remove_padding bs else bs in
  Ok (r', cp_decode bs).
Definition r_get_encoded_string (r : rstate) : rstate * list Z :=
  let '(r', bs) := r_read_bytes r (r_remaining r) in (r', cp_decode (decode_string bs)).
Definition r_get_fixed_encoded_string (r : rstate) (len : Z) (padded : bool) : res (rstate * list Z) :=
  if len <? 0 then Err EValue else
  let '(r', bs) := r_read_bytes r len in
  let bs := decode_string bs in
  let bs := if padded then remove_padding bs else bs in
  Ok (r', cp_decode bs).

(* ---- operations as data; a history addresses readers by handle (slices create new readers) ---- *)
Inductive rop :=
| RByte | RBytes (n : Z) | RChar | RShort | RThree | RInt
| RString | RFixed (len : Z) (padded : bool) | REnc | RFixedEnc (len : Z) (padded : bool)
| RSetChunked (b : bool) | RGetChunked | RRemaining | RPosition | RNextChunk
| RSlice (index length : option Z).

Inductive rout := OZ (z : Z) | OBytes (l : list Z) | OStr (l : list Z) | OBool (b : bool) | OUnit | ONew | OErr (e : err).

(* one step on one reader: new state of that reader, observable output, and the new reader a slice creates *)
Definition rstep (r : rstate) (o : rop) : rstate * rout * option rstate :=
  match o with
  | RByte => let '(r', v) := r_get_byte r in (r', OZ v, None)
  | RBytes n => if n <? 0 then (r, OErr EUnexpected, None) else let '(r', v) := r_get_bytes r n in (r', OBytes v, None)
  | RChar => let '(r', v) := r_get_char r in (r', OZ v, None)
  | RShort => let '(r', v) := r_get_short r in (r', OZ v, None)
  | RThree => let '(r', v) := r_get_three r in (r', OZ v, None)
  | RInt => let '(r', v) := r_get_int r in (r', OZ v, None)
  | RString => let '(r', v) := r_get_string r in (r', OStr v, None)
  | RFixed n p => match r_get_fixed_string r n p with Ok (r', v) => (r', OStr v, None) | Err e => (r, OErr e, None) end
  | REnc => let '(r', v) := r_get_encoded_string r in (r', OStr v, None)
  | RFixedEnc n p => match r_get_fixed_encoded_string r n p with Ok (r', v) => (r', OStr v, None) | Err e => (r, OErr e, None) end
  | RSetChunked b => (r_set_chunked r b, OUnit, None)
  | RGetChunked => (r, OBool (rchunked r), None)
  | RRemaining => (r, OZ (r_remaining r), None)
  | RPosition => (r, OZ (rpos r), None)
  | RNextChunk => match r_next_chunk r with Ok r' => (r', OUnit, None) | Err e => (r, OErr e, None) end
  | RSlice i l => match r_slice r i l with Ok n => (r, ONew, Some n) | Err e => (r, OErr e, None) end
  end.

Fixpoint upd {A} (l : list A) (n : nat) (v : A) : list A :=
  match l, n with
  | [], _ => []
  | _ :: t, O => v :: t
  | h :: t, S n' => h :: upd t n' v
  end.

(* a history over a growing pool of readers; an op on a handle that does not exist yet is skipped (OErr EType) *)
Fixpoint rrun (pool : list rstate) (ops : list (nat * rop)) : list rstate * list rout :=
  match ops with
  | [] => (pool, [])
  | (h, o) :: t =>
    match nth_error pool h with
    | None => let '(p, outs) := rrun pool t in (p, OErr EType :: outs)
    | Some r =>
      let '(r', out, newr) := rstep r o in
      let pool' := upd pool h r' in
      let pool' := match newr with Some n => pool' ++ [n] | None => pool' end in
      let '(p, outs) := rrun pool' t in (p, out :: outs)
    end
  end.
