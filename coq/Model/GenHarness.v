(* Executable checks for the generator correspondence (engine E1): the harness writes, per specification tree,
   the raw XML term, whether the real generator accepted it, and what the generated code did on each case. *)
From EO Require Import Prelude.Py Prelude.Corr Model.Writer Model.Reader Model.Spec Model.Elab Model.Ser Model.Deser.
Open Scope Z_scope.

Fixpoint value_eqb (a b : value) : bool :=
  match a, b with
  | VNone, VNone => true
  | VInt x, VInt y => x =? y
  | VBool x, VBool y => Bool.eqb x y
  | VStr x, VStr y => list_eqb x y
  | VBytes x, VBytes y => list_eqb x y
  | VList x, VList y =>
    (fix go (l1 l2 : list value) : bool :=
       match l1, l2 with [], [] => true | u :: t1, v :: t2 => value_eqb u v && go t1 t2 | _, _ => false end) x y
  | VObj c1 f1, VObj c2 f2 =>
    String.eqb c1 c2 &&
    (fix go (l1 l2 : list (string * value)) : bool :=
       match l1, l2 with
       | [], [] => true
       | (k1, u) :: t1, (k2, v) :: t2 => String.eqb k1 k2 && value_eqb u v && go t1 t2
       | _, _ => false end) f1 f2
  | _, _ => false
  end.

Inductive gcase :=
| GSer (cls : string) (v : value) (san : bool) (exp : res unit * list Z * bool)        (* outcome, bytes written, final mode *)
| GDeser (cls : string) (data : list Z) (chunked : bool) (exp : res value * Z * bool)  (* outcome, final position, final mode *)
| GRound (cls : string) (v : value) (exp : res value)                                  (* serialize (fresh writer) then deserialize *)
| GPacket (cls : string) (family action : Z).                                           (* what Cls.family() / Cls.action() return *)

Definition run_ser (E : env) (cls : string) (v : value) (san : bool) : res unit * list Z * bool :=
  let '(w, r) := serialize E cls v san in (r, wdata w, wsan w).
Definition run_deser (E : env) (cls : string) (data : list Z) (chunked : bool) : res value * Z * bool :=
  let '(r, v) := deserialize E cls data chunked in (v, rpos r, rchunked r).

Definition gcase_ok (p : pkg) (c : gcase) : bool :=
  let E := pk_env p in
  match c with
  | GSer cls v san (er, ed, em) =>
    let '(r, d, m) := run_ser E cls v san in res_eqb unit_eqb r er && list_eqb d ed && Bool.eqb m em
  | GDeser cls data ch (ev, ep, em) =>
    let '(v, p, m) := run_deser E cls data ch in res_eqb value_eqb v ev && (p =? ep) && Bool.eqb m em
  | GRound cls v ev =>
    let '(r, d, _) := run_ser E cls v false in
    match r with
    | Err e => res_eqb value_eqb (Err e) ev
    | Ok _ => let '(v', _, _) := run_deser E cls d false in res_eqb value_eqb v' ev
    end
  | GPacket cls fam act =>
    existsb (fun k => String.eqb (pp_cls k) cls && (pp_family k =? fam) && (pp_action k =? act)) (pk_packets p)
  end.

(* -> [] when everything agrees; [-1] when accept/reject differs; else the indices of the disagreeing cases *)
Definition tree_failing (files : list rfile) (accepted : bool) (cases : list gcase) : list Z :=
  match elab files with
  | Err _ => if accepted then [-1] else []
  | Ok p => if accepted then failing (gcase_ok p) cases 0 else [-1]
  end.

(* what the model computes, for diagnosing a disagreement *)
Definition tree_show (files : list rfile) (c : gcase) :=
  match elab files with
  | Err e => None
  | Ok p => Some (match c with
                  | GSer cls v san _ => (Some (run_ser (pk_env p) cls v san), None)
                  | GDeser cls d ch _ => (None, Some (run_deser (pk_env p) cls d ch))
                  | GRound cls v _ => (Some (run_ser (pk_env p) cls v false), None)
                  | GPacket _ _ _ => (None, None)
                  end)
  end.

(* ---- C01: round trip under wire_ok / valid_obj ---- *)
From EO Require Import Model.ValidDecl Model.WireOk Model.WfEnv.
Fixpoint strip_bs (v : value) : value :=
  match v with
  | VList l => VList (map strip_bs l)
  | VObj c f =>
    VObj c ((fix go (l : list (string * value)) : list (string * value) :=
               match l with
               | [] => []
               | (k, x) :: t => if String.eqb k "byte_size" then go t else (k, strip_bs x) :: go t
               end) f)
  | x => x
  end.
Definition top_byte_size (v : value) : option Z :=
  match v with VObj _ f => match assoc f "byte_size"%string with Some (VInt z) => Some z | _ => None end | _ => None end.

(* serialize with a fresh writer, deserialize with a fresh reader: equal field by field, everything consumed, byte_size = length *)
Definition round_ok (E : env) (cls : string) (v : value) : bool :=
  let '(r, d, _) := run_ser E cls v false in
  match r with
  | Err _ => false
  | Ok _ =>
    let '(rv, pos, _) := run_deser E cls d false in
    match rv with
    | Ok v' => value_eqb (strip_bs v') v && (pos =? zlen d) && opt_eqb Z.eqb (top_byte_size v') (Some (zlen d))
    | Err _ => false
    end
  end.

(* per case: (in the theorem's domain?, model round trip ok?) ; impl_ok = what the generated code did *)
Definition c01_case (p : pkg) (c : string * value * bool) : bool * bool * bool :=
  let '(cls, v, impl_ok) := c in
  let E := pk_env p in
  (wire_ok E cls && valid_obj (S (List.length E)) E cls v, round_ok E cls v, impl_ok).
(* -> (number of cases inside the domain, indices where a case inside the domain does not round-trip in the model or in the implementation,
       indices where model and implementation disagree about round-tripping at all) *)
Definition tree_c01 (files : list rfile) (cases : list (string * value * bool)) : Z * list Z * list Z :=
  match elab files with
  | Err _ => (-1, [], [])
  | Ok p =>
    let rs := map (c01_case p) cases in
    (zlen (List.filter (fun r => fst (fst r)) rs),
     failing (fun r => negb (fst (fst r)) || (snd (fst r) && snd r)) rs 0,
     failing (fun r => Bool.eqb (snd (fst r)) (snd r)) rs 0)
  end.
Definition tree_wf (files : list rfile) : bool := match elab files with Ok p => wf_pkg p | Err _ => false end.
