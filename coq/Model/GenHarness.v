(* Executable checks for the generator correspondence (engine E1): the harness writes, per specification tree,
   the raw XML term, whether the real generator accepted it, and what the generated code did on each case. *)
From EO Require Import Prelude.Py Prelude.Corr Model.Writer Model.Reader Model.Spec Model.Elab Model.Ser Model.Deser.
Open Scope Z_scope.

Fixpoint value_eqb (a b : value) : bool :=
  match a, b with
  | VNone, VNone => true
  | VInt x, VInt y => x =? y
  | VBool x, VBool y => Bool.eqb x y
  | VStr x, VStr y => list_eqb x y
  | VBytes x, VBytes y => list_eqb x y
  | VList x, VList y =>
    (fix go (l1 l2 : list value) : bool :=
       match l1, l2 with [], [] => true | u :: t1, v :: t2 => value_eqb u v && go t1 t2 | _, _ => false end) x y
  | VObj c1 f1, VObj c2 f2 =>
    String.eqb c1 c2 &&
    (fix go (l1 l2 : list (string * value)) : bool :=
       match l1, l2 with
       | [], [] => true
       | (k1, u) :: t1, (k2, v) :: t2 => String.eqb k1 k2 && value_eqb u v && go t1 t2
       | _, _ => false end) f1 f2
  | _, _ => false
  end.

Inductive gcase :=
| GSer (cls : string) (v : value) (san : bool) (exp : res unit * list Z * bool)        (* outcome, bytes written, final mode *)
| GDeser (cls : string) (data : list Z) (chunked : bool) (exp : res value * Z * bool)  (* outcome, final position, final mode *)
| GRound (cls : string) (v : value) (exp : res value)                                  (* serialize (fresh writer) then deserialize *)
| GPacket (cls : string) (family action : Z).                                           (* what Cls.family() / Cls.action() return *)

Definition run_ser (E : env) (cls : string) (v : value) (san : bool) : res unit * list Z * bool :=
  let '(w, r) := serialize E cls v san in (r, wdata w, wsan w).
Definition run_deser (E : env) (cls : string) (data : list Z) (chunked : bool) : res value * Z * bool :=
  let '(r, v) := deserialize E cls data chunked in (v, rpos r, rchunked r).

Definition gcase_ok (p : pkg) (c : gcase) : bool :=
  let E := pk_env p in
  match c with
  | GSer cls v san (er, ed, em) =>
    let '(r, d, m) := run_ser E cls v san in res_eqb unit_eqb r er && list_eqb d ed && Bool.eqb m em
  | GDeser cls data ch (ev, ep, em) =>
    let '(v, p, m) := run_deser E cls data ch in res_eqb value_eqb v ev && (p =? ep) && Bool.eqb m em
  | GRound cls v ev =>
    let '(r, d, _) := run_ser E cls v false in
    match r with
    | Err e => res_eqb value_eqb (Err e) ev
    | Ok _ => let '(v', _, _) := run_deser E cls d false in res_eqb value_eqb v' ev
    end
  | GPacket cls fam act =>
    existsb (fun k => String.eqb (pp_cls k) cls && (pp_family k =? fam) && (pp_action k =? act)) (pk_packets p)
  end.

(* -> [] when everything agrees; [-1] when accept/reject differs; else the indices of the disagreeing cases *)
Definition tree_failing (files : list rfile) (accepted : bool) (cases : list gcase) : list Z :=
  match elab files with
  | Err _ => if accepted then [-1] else []
  | Ok p => if accepted then failing (gcase_ok p) cases 0 else [-1]
  end.

(* what the model computes, for diagnosing a disagreement *)
Definition tree_show (files : list rfile) (c : gcase) :=
  match elab files with
  | Err e => None
  | Ok p => Some (match c with
                  | GSer cls v san _ => (Some (run_ser (pk_env p) cls v san), None)
                  | GDeser cls d ch _ => (None, Some (run_deser (pk_env p) cls d ch))
                  | GRound cls v _ => (Some (run_ser (pk_env p) cls v false), None)
                  | GPacket _ _ _ => (None, None)
                  end)
  end.
