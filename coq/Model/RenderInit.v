(* The generated constructors (`__init__`): a small Python for their text, its interpreters, and the generator's templates as a Coq
   function.

   tools/py2stmt.py (class IParser) parses, generically and fail-closed, the `__init__` method of every generated class from its
   SOURCE TEXT into `iparams * list istmt`; `render_init` mirrors protocol_code_generator/generate/field_code_generator.py
   `generate_field` (init_params / init_body), switch_code_generator.py `generate_case_data_field` and object_code_generator.py
   `_generate_init_method`; Model/RenderCheckI.v compares the two per class; Proofs/RenderInit.v proves what running the rendered
   statements computes.

   THE INTERPRETERS OF THIS FILE ARE TRUSTED (like Model/PyStmt.v and Model/PyStmtR.v): `exec_init` / `exec_init_h` are what
   "calling the generated constructor" means in the theorems.  Read against Python:

   signature     `def __init__(self, *, a: T, b: Optional[U] = None)`: keyword-only parameters, in order, each either required or
                 with the default None (any other default: Unparsed).  Annotations have no effect on a call and are not translated.
   call          `Cls(k1=v1, ..)` with keyword arguments only: an argument that names no parameter, or a required parameter without
                 an argument, raises TypeError; a parameter with a default that gets no argument is bound to None.  A keyword
                 repeated at the call site is a SyntaxError of the CALLER's text, not a call: EUnexpected.
   statements    only `self._x = e`: sets the instance attribute `_x` (x is stored without the underscore), replacing an earlier
                 value.  An instance starts with no attributes of its own; the class attribute `_byte_size = 0` is visible through
                 `self._byte_size` until the instance gets its own.
   expressions   a parameter name (IVar; tools/py2stmt.py refuses every other bare name), `self._x` (AttributeError when unset),
                 None / int / bool / ASCII str literals, tuple(e), len(e), `e is None`, `e is not None`, `a if c else b`.
                 `tuple` and `len` are the builtins: tools/py2stmt.py refuses a method that calls them while a parameter has that
                 name, and `init_static_ok` (Model/RenderCheckI.v) keeps such parameter lists outside the theorems.
   tuple(v)      of a list / tuple: the same elements, as an immutable tuple; of a str: its one-character strings; of bytes /
                 bytearray: its ints; of None, a number or an instance of a generated class (no __iter__): TypeError.
   len(v)        of str / bytes / list / tuple; TypeError otherwise (as Model/PyStmt.py_len_of).
   values        `exec_init` works on Model/Spec.value (tuples and lists both VList: immutability is not visible there).
                 `exec_init_h` is the same interpreter on the object/heap model of Model/ObjModel.v (property C19): an argument is
                 an immutable value (HImm) or a reference to a caller-owned mutable cell (HCell: a list or a bytearray, whose
                 current content is in the heap); `self._x = x` stores the REFERENCE, `tuple(x)` builds a new immutable tuple from
                 the cell's current content.  The copy is shallow, as in Python: the elements of a cell are immutable values in
                 that model (Model/ObjModel.v `heap`), so a list of mutable lists is outside it.
   exceptions    TypeError -> EType, AttributeError -> EAttribute, anything outside the fragment -> EUnexpected. *)
From EO Require Import Prelude.Py Model.Spec Model.Elab Model.Ser Model.PyStmt Model.ObjModel.
Open Scope string_scope.
Open Scope list_scope.
Open Scope Z_scope.

Inductive iexpr :=
| IVar (x : string)                   (* a parameter of __init__ *)
| ISelf (x : string)                  (* self._x *)
| INone
| IInt (z : Z)
| IBool (b : bool)
| IStr (s : string)                   (* an ASCII string literal *)
| ITuple (e : iexpr)                  (* tuple(e) *)
| ILen (e : iexpr)                    (* len(e) *)
| IIsNone (e : iexpr)                 (* e is None *)
| IIsNotNone (e : iexpr)              (* e is not None *)
| IIfElse (a c b : iexpr).            (* a if c else b *)

Inductive istmt := ISetSelf (x : string) (e : iexpr).     (* self._x = e *)

(* keyword-only parameters after `self, *`: name, has the default None *)
Definition iparams := list (string * bool).
Definition slots := list (string * value).

(* ---------------- Python ---------------- *)
(* tuple(v) *)
Definition py_tuple_of (v : value) : res value :=
  match v with
  | VList l => Ok (VList l)
  | VStr s => Ok (VList (map (fun c => VStr [c]) s))
  | VBytes b => Ok (VList (map VInt b))
  | _ => Err EType
  end.

(* self._x = v *)
Fixpoint set_slot {A} (sl : list (string * A)) (x : string) (v : A) : list (string * A) :=
  match sl with
  | [] => [(x, v)]
  | (k, u) :: t => if String.eqb k x then (k, v) :: t else (k, u) :: set_slot t x v
  end.

(* binding the keyword arguments of a call to the parameters *)
Fixpoint bind_params {A} (none : A) (ps : iparams) (args : list (string * A)) : res (list (string * A)) :=
  match ps with
  | [] => Ok []
  | (n, dflt) :: t =>
    do v <- match assoc args n with
            | Some v => Ok v
            | None => if dflt then Ok none else Err EType       (* missing required keyword-only argument *)
            end;
    do rest <- bind_params none t args;
    Ok ((n, v) :: rest)
  end.
Definition bind_args {A} (none : A) (ps : iparams) (args : list (string * A)) : res (list (string * A)) :=
  if negb (dup_free (map fst args)) then Err EUnexpected                          (* keyword argument repeated: not a call *)
  else if negb (forallb (fun a => mem_str (fst a) (map fst ps)) args) then Err EType     (* unexpected keyword argument *)
  else bind_params none ps args.

(* ---------------- on values ---------------- *)
Section Eval.
  Variable L : locals.          (* the parameters *)
  Variable sl : slots.           (* the instance attributes assigned so far *)

  Fixpoint ieval (e : iexpr) : res value :=
    match e with
    | IVar x => match assoc L x with Some v => Ok v | None => Err EUnexpected end
    | ISelf x => match assoc sl x with
                 | Some v => Ok v
                 | None => if String.eqb x "byte_size" then Ok (VInt 0) else Err EAttribute
                 end
    | INone => Ok VNone
    | IInt z => Ok (VInt z)
    | IBool b => Ok (VBool b)
    | IStr s => Ok (VStr (str_cps s))
    | ITuple a => do v <- ieval a; py_tuple_of v
    | ILen a => do v <- ieval a; py_len_of v
    | IIsNone a => do v <- ieval a; Ok (VBool (py_is_none v))
    | IIsNotNone a => do v <- ieval a; Ok (VBool (negb (py_is_none v)))
    | IIfElse a c b => do vc <- ieval c; if py_truth vc then ieval a else ieval b
    end.
End Eval.

Fixpoint exec_istmts (L : locals) (ss : list istmt) (sl : slots) : res slots :=
  match ss with
  | [] => Ok sl
  | ISetSelf x e :: t => do v <- ieval L sl e; exec_istmts L t (set_slot sl x v)
  end.

(* Cls(args): the private slots of the new instance *)
Definition exec_init (ps : iparams) (ss : list istmt) (args : list (string * value)) : res slots :=
  do L <- bind_args VNone ps args; exec_istmts L ss [].

(* the instance as the serializers and `deserialize` see it (a VObj carries the public properties): the templates give every
   constructor parameter x a read-only property `x` that returns `self._x`, and no other property but byte_size *)
Definition public_fields (ps : iparams) (sl : slots) : list (string * value) :=
  flat_map (fun p => match assoc sl (fst p) with Some v => [(fst p, v)] | None => [] end) ps.
Definition new_obj (cls : string) (ps : iparams) (ss : list istmt) (args : list (string * value)) : res value :=
  do sl <- exec_init ps ss args; Ok (VObj cls (public_fields ps sl)).

(* ---------------- on the object / heap model of Model/ObjModel.v ---------------- *)
Definition hslots := list (string * hval).
Section EvalH.
  Variable h : heap.
  Variable L : list (string * hval).
  Variable sl : hslots.

  Fixpoint ieval_h (e : iexpr) : res hval :=
    match e with
    | IVar x => match assoc L x with Some v => Ok v | None => Err EUnexpected end          (* the reference itself *)
    | ISelf x => match assoc sl x with
                 | Some v => Ok v
                 | None => if String.eqb x "byte_size" then Ok (HImm (VInt 0)) else Err EAttribute
                 end
    | INone => Ok (HImm VNone)
    | IInt z => Ok (HImm (VInt z))
    | IBool b => Ok (HImm (VBool b))
    | IStr s => Ok (HImm (VStr (str_cps s)))
    | ITuple a => do x <- ieval_h a; do t <- py_tuple_of (deref h x); Ok (HImm t)          (* a NEW, immutable object *)
    | ILen a => do x <- ieval_h a; do n <- py_len_of (deref h x); Ok (HImm n)
    | IIsNone a => do x <- ieval_h a; Ok (HImm (VBool (py_is_none (deref h x))))
    | IIsNotNone a => do x <- ieval_h a; Ok (HImm (VBool (negb (py_is_none (deref h x)))))
    | IIfElse a c b => do xc <- ieval_h c; if py_truth (deref h xc) then ieval_h a else ieval_h b
    end.
End EvalH.

Fixpoint exec_istmts_h (h : heap) (L : list (string * hval)) (ss : list istmt) (sl : hslots) : res hslots :=
  match ss with
  | [] => Ok sl
  | ISetSelf x e :: t => do v <- ieval_h h L sl e; exec_istmts_h h L t (set_slot sl x v)
  end.
Definition exec_init_h (h : heap) (ps : iparams) (ss : list istmt) (args : list (string * hval)) : res hslots :=
  do L <- bind_args (HImm VNone) ps args; exec_istmts_h h L ss [].
Definition new_inst (h : heap) (cls : string) (ps : iparams) (ss : list istmt) (args : list (string * hval)) : res inst :=
  do sl <- exec_init_h h ps ss args; Ok (mkInst cls sl).

(* ---------------- the templates ---------------- *)
(* generate_field: the expression assigned to self._<name> *)
Definition hard_expr (ty : etype) (lit : string) : option iexpr :=
  match ty with
  | EStr _ => Some (IStr lit)                                                     (* _string_literal *)
  | EBool _ => if String.eqb lit "true" then Some (IBool true)
               else if String.eqb lit "false" then Some (IBool false)
               else None                                                           (* "is not a valid bool value" *)
  | EInt _ => if isdigit lit then Some (IInt (digits_val lit 0)) else None          (* _int_literal; "is not a valid integer value" *)
  | _ => None                                                                     (* "Hardcoded field values are not allowed" *)
  end.
Definition field_expr (f : fieldspec) (n : string) (array : bool) : option iexpr :=
  match f_hard f with
  | Some lit => if array then None (* "Array fields may not specify hardcoded values." *) else hard_expr (f_ty f) lit
  | None =>
    Some (if array
          then (if f_optional f then IIfElse INone (IIsNone (IVar n)) (ITuple (IVar n)) else ITuple (IVar n))
          else IVar n)
  end.
(* ... followed, when the length attribute names a length field, by the assignment of that length field's slot *)
Definition len_stmt (f : fieldspec) (n : string) : list istmt :=
  match f_len f with
  | LRef l => [ISetSelf l (if f_optional f then IIfElse (ILen (ISelf n)) (IIsNotNone (ISelf n)) INone else ILen (ISelf n))]
  | _ => []
  end.
Definition init_fieldlike (f : fieldspec) (array : bool) : option (iparams * list istmt) :=
  match f_name f with
  | None => if array then None (* "Array fields must specify a name." *) else Some ([], [])       (* generate_field returns at once *)
  | Some n =>
    match field_expr f n array with
    | None => None
    | Some e => Some ([(n, f_optional f)], ISetSelf n e :: len_stmt f n)
    end
  end.
Definition init_instr (i : einstr) : option (iparams * list istmt) :=
  match i with
  | EField f => init_fieldlike f false
  | EArray f _ _ _ => init_fieldlike f true
  | ESwitch field _ =>                                        (* generate_case_data_field: `<field>_data: '..' = None` *)
    let dn := (field ++ "_data")%string in Some ([(dn, true)], [ISetSelf dn (IVar dn)])
  | _ => Some ([], [])                                        (* length fields, dummies, chunked sections, breaks: nothing *)
  end.
Fixpoint render_init_from (is : list einstr) : option (iparams * list istmt) :=
  match is with
  | [] => Some ([], [])
  | i :: t => match init_instr i, render_init_from t with
              | Some (p1, s1), Some (p2, s2) => Some (p1 ++ p2, s1 ++ s2)
              | _, _ => None
              end
  end.
(* _generate_init_method.  `None` = the generator raises for such an instruction (no class is generated), or would emit text that
   is not Python: two parameters of the same name, or a parameter named `self` ("duplicate argument" SyntaxError) *)
Definition render_init (is : list einstr) : option (iparams * list istmt) :=
  match render_init_from is with
  | Some (ps, ss) => if dup_free ("self" :: map fst ps) then Some (ps, ss) else None
  | None => None
  end.
