(* Static termination check for generated deserializers (Model/Deser.v): a decidable predicate on elaborated classes
   under which no `while reader.remaining > 0:` loop of an implied-length array can run forever.

   Delimited implied-length arrays need NO condition: each iteration ends with next_chunk(), which moves the chunk
   start strictly forward (the chunk start never moves backwards, whatever the element does).

   A NON-delimited implied-length array needs every iteration either to consume at least one byte or to call
   next_chunk() (then the chunk start moves strictly forward, as for delimited arrays).  For the former its element
   type must "advance": a basic value, or a struct in which a consuming read in the SAME mode as the loop test is
   reached through instructions that change nothing when they read nothing - and whose instructions never move the
   position backwards.  next_chunk() can move the position backwards only when called from a state that is not
   "tight" (position beyond the cached break); `an_*` below is a two-point abstract interpretation (tight / unknown)
   that accepts a break only where the state is known to be tight.

   Finding F4 (element struct opening with a chunked section, without any break, inside a non-chunked parent) is
   exactly what is refused: the leading ESetMode changes the mode, and no next_chunk() follows. *)
From EO Require Import Prelude.Py Model.Spec Model.WfEnv.
Open Scope Z_scope.

Definition pg_mode (m : bool) (i : einstr) : bool := match i with ESetMode b => b | _ => m end.

(* ---------------- monotonicity analysis: a = true means "tight": cache valid and position <= break ---------------- *)
Section An.
  (* an_cls cls m a = Some a': entered in mode m in abstract state a, the class never moves the position backwards and
     leaves abstract state a' *)
  Variable an_cls : string -> bool -> bool -> option bool.

  (* one value read: a read in chunked mode keeps a tight state tight; a non-chunked read may pass the break *)
  Definition an_type (m a : bool) (ty : etype) : option bool :=
    match ty with EStruct n => an_cls n m a | _ => Some (a && m) end.

  (* one loop iteration: the element, then (delimited) next_chunk, accepted only from a tight state *)
  Definition an_iter (m : bool) (ty : etype) (delimited : bool) (a : bool) : option bool :=
    match an_type m a ty with
    | Some a1 => if delimited then (if a1 then Some true else None) else Some a1
    | None => None
    end.

  (* loop invariant: tight if the entry state is tight and an iteration keeps it so, else unknown *)
  Definition an_loop (f : bool -> option bool) (a : bool) : option bool :=
    match (if a then f true else None) with
    | Some true => Some true
    | _ => match f false with Some _ => Some false | None => None end
    end.

  Fixpoint an_cases (m a : bool) (cases : list ecase) : option bool :=
    match cases with
    | [] => Some a
    | c :: t =>
      match an_cases m a t with
      | None => None
      | Some o => match c_cls c with
                  | None => Some o
                  | Some cls => match an_cls cls m a with Some a1 => Some (o && a1) | None => None end
                  end
      end
    end.

  Definition an_instr (m a : bool) (i : einstr) : option bool :=
    match i with
    | EField f => match an_type m a (f_ty f) with Some a1 => Some (a && a1) | None => None end
    | EArray f delimited _ _ => an_loop (an_iter m (f_ty f) delimited) a
    | ELength _ _ _ _ _ _ => Some (a && m)
    | EDummy ty _ _ => match an_type m a ty with Some a1 => Some (a && a1) | None => None end
    | ESwitch _ cases => an_cases m a cases
    | ESetMode _ => Some a
    | EBreak => if a then Some true else None
    end.

  Fixpoint an_instrs (m a : bool) (is : list einstr) : option bool :=
    match is with
    | [] => Some a
    | i :: t => match an_instr m a i with Some a1 => an_instrs (pg_mode m i) a1 t | None => None end
    end.
End An.

Fixpoint an_class (fuel : nat) (E : env) (cls : string) (m a : bool) : option bool :=
  match fuel with
  | O => None
  | S f => match env_find E cls with
           | Some d => an_instrs (an_class f E) m a (sd_body d)
           | None => None
           end
  end.

(* ---------------- "advances": read with remaining > 0 in mode m, a successful read consumes >= 1 byte ---------------- *)
Section Adv.
  Variable adv_cls : string -> bool -> bool.
  Variable an_cls : string -> bool -> bool -> option bool.

  Definition adv_type (m : bool) (ty : etype) (len : elen) : bool :=
    match ty with
    | EInt _ | EBool _ | EEnum _ _ | EBlob => true
    | EStr _ => match len with LNone => true | LLit n => 0 <? n | LRef _ => false end
    | EStruct n => adv_cls n m
    end.

  Definition adv_first (m : bool) (i : einstr) : bool :=
    match i with
    | EField f => adv_type m (f_ty f) (f_len f)
    | ELength _ _ _ _ _ _ => true
    | EDummy ty _ _ => basic_ty ty
    | _ => false
    end.

  (* instructions that only read: no struct, no next_chunk(), no mode switch.  They never move the position backwards and
     leave the mode, the chunk start and the cached break alone - so if they read nothing, `remaining` is unchanged *)
  Definition plain_ty (ty : etype) : bool := match ty with EStruct _ => false | _ => true end.
  Definition plain_instr (i : einstr) : bool :=
    match i with
    | EField f => plain_ty (f_ty f)
    | EArray f delimited _ _ => plain_ty (f_ty f) && negb delimited
    | ELength _ _ _ _ _ _ => true
    | EDummy ty _ _ => plain_ty ty
    | _ => false
    end.

  (* find the consuming instruction: switches to the mode already in force and plain instructions may precede it
     (a plain instruction that reads something has consumed already; one that reads nothing changes nothing) *)
  Fixpoint adv_scan (m : bool) (is : list einstr) : bool :=
    match is with
    | [] => false
    | i :: t => match i with
                | ESetMode b => Bool.eqb b m && adv_scan m t
                | _ => adv_first m i || (plain_instr i && adv_scan m t)
                end
    end.

  (* ... and the whole body is monotone from the entry state (tight when chunked: remaining > 0 in chunked mode means
     position < break) *)
  Definition adv_instrs (m : bool) (is : list einstr) : bool :=
    match an_instrs an_cls m m is with Some _ => adv_scan m is | None => false end.
End Adv.

Fixpoint adv_class (fuel : nat) (E : env) (cls : string) (m : bool) : bool :=
  match fuel with
  | O => false
  | S f => match env_find E cls with
           | Some d => adv_instrs (adv_class f E) (an_class f E) m (sd_body d)
           | None => false
           end
  end.

(* ---------------- "always breaks": every successful run of the class calls next_chunk() at least once ---------------- *)
Section Brk.
  Variable brk_cls : string -> bool.
  Definition brk_instr (i : einstr) : bool :=
    match i with
    | EBreak => true
    | EField f => negb (f_optional f) && match f_ty f with EStruct n => brk_cls n | _ => false end
    | _ => false
    end.
  Definition brk_instrs (is : list einstr) : bool := existsb brk_instr is.
  Definition brk_type (ty : etype) : bool := match ty with EStruct n => brk_cls n | _ => false end.
End Brk.

Fixpoint brk_class (fuel : nat) (E : env) (cls : string) : bool :=
  match fuel with
  | O => false
  | S f => match env_find E cls with
           | Some d => brk_instrs (brk_class f E) (sd_body d)
           | None => false
           end
  end.

(* ---------------- the check: every reachable non-delimited implied-length array has an element that advances
   (each iteration consumes a byte) or always breaks (each iteration moves the chunk start forward) ---------------- *)
Section Prog.
  Variable prog_cls : string -> bool -> bool.
  Variable adv_cls : string -> bool -> bool.
  Variable brk_cls : string -> bool.

  Definition prog_type (m : bool) (ty : etype) : bool := match ty with EStruct n => prog_cls n m | _ => true end.

  Definition prog_instr (m : bool) (i : einstr) : bool :=
    match i with
    | EField f => prog_type m (f_ty f)
    | EArray f delimited _ count =>
      prog_type m (f_ty f) &&
      match count with
      | ACWhile => delimited || adv_type adv_cls m (f_ty f) LNone || brk_type brk_cls (f_ty f)
      | _ => true
      end
    | EDummy ty _ _ => prog_type m ty
    | ESwitch _ cases => forallb (fun c => match c_cls c with Some cls => prog_cls cls m | None => true end) cases
    | _ => true
    end.

  Fixpoint prog_instrs (m : bool) (is : list einstr) : bool :=
    match is with
    | [] => true
    | i :: t => prog_instr m i && prog_instrs (pg_mode m i) t
    end.
End Prog.

Fixpoint prog_class (fuel : nat) (E : env) (cls : string) (m : bool) : bool :=
  match fuel with
  | O => false
  | S f => match env_find E cls with
           | Some d => prog_instrs (prog_class f E) (adv_class f E) (brk_class f E) m (sd_body d)
           | None => false
           end
  end.

(* the entry mode is the static parameter; same fuel as `deserialize` and `wf_class` *)
Definition progress_okT (E : env) (cls : string) (chunked : bool) : bool := prog_class (S (List.length E)) E cls chunked.

(* ---------------- struct nesting depth ---------------- *)
Definition ty_refs (ty : etype) : list string := match ty with EStruct n => [n] | _ => [] end.
Definition instr_refs (i : einstr) : list string :=
  match i with
  | EField f => ty_refs (f_ty f)
  | EArray f _ _ _ => ty_refs (f_ty f)
  | EDummy ty _ _ => ty_refs ty
  | ESwitch _ cases => flat_map (fun c => match c_cls c with Some cls => [cls] | None => [] end) cases
  | _ => []
  end.
Definition body_refs (is : list einstr) : list string := flat_map instr_refs is.

(* the classes reachable from cls nest at most `fuel` deep (so: no cycle among them) *)
Fixpoint depth_le (fuel : nat) (E : env) (cls : string) : bool :=
  match fuel with
  | O => false
  | S f => match env_find E cls with
           | Some d => forallb (depth_le f E) (body_refs (sd_body d))
           | None => true
           end
  end.

(* every class of the environment nests at most length E deep: one less than the fuel `deserialize` starts with *)
Definition depth_ok (E : env) : bool := forallb (fun d => depth_le (List.length E) E (sd_name d)) E.
