(* An operational model of the part of CPython's import system the eolib package relies on (property C20):
   sys.modules, parent-before-child import, a module registered before its body runs, the child bound as an attribute of
   its parent when its import completes, `from m import *` copying the public names m has at that moment (all names not
   starting with "_" - including submodule attributes and imported names - or __all__), `from m import a`, and the
   re-binding loop `globals()[n] = importlib.import_module('.' + n, __name__)`.
   The import programs are extracted from the real source files on every run (tools/impprog.py). *)
From EO Require Import Prelude.Py Model.Spec.
Open Scope string_scope.
Open Scope list_scope.

Inductive obj := OMod (path : string) | ODef (home name : string).
Definition obj_eqb (a b : obj) : bool :=
  match a, b with
  | OMod p, OMod q => String.eqb p q
  | ODef h n, ODef h' n' => String.eqb h h' && String.eqb n n'
  | _, _ => false end.

Inductive stmt :=
| SStar (target : string)                               (* from target import *        (target: absolute dotted path) *)
| SFrom (target : string) (names : list (string * string))   (* from target import a as b *)
| SImport (bind bound target : string)                  (* import a.b.c  (binds a -> module a)  /  import a.b as c (binds c -> module a.b) *)
| SDef (name : string)                                  (* class / def / NAME = ... *)
| SAll (names : list string)                            (* __all__ = [...] *)
| SRebind (names : list string).                        (* for n in names: globals()[n] = import_module('.' + n, __name__) *)

Record mstate := mkM { m_ns : list (string * obj); m_all : option (list string); m_done : bool }.
Definition world := list (string * mstate).             (* sys.modules, in order of first registration *)
Definition program := list (string * list stmt).        (* module path -> body; a path absent from the program is external *)

Fixpoint wfind (w : world) (p : string) : option mstate :=
  match w with [] => None | (q, m) :: t => if String.eqb q p then Some m else wfind t p end.
Fixpoint wset (w : world) (p : string) (m : mstate) : world :=
  match w with
  | [] => [(p, m)]
  | (q, x) :: t => if String.eqb q p then (q, m) :: t else (q, x) :: wset t p m
  end.
Fixpoint pfind (P : program) (p : string) : option (list stmt) :=
  match P with [] => None | (q, b) :: t => if String.eqb q p then Some b else pfind t p end.

(* the last binding of a name wins *)
Fixpoint ns_get (n : list (string * obj)) (k : string) (acc : option obj) : option obj :=
  match n with [] => acc | (k', v) :: t => ns_get t k (if String.eqb k' k then Some v else acc) end.
Definition ns_lookup (n : list (string * obj)) (k : string) : option obj := ns_get n k None.
Definition bind (w : world) (p k : string) (v : obj) : world :=
  match wfind w p with
  | Some m => wset w p (mkM (m_ns m ++ [(k, v)]) (m_all m) (m_done m))
  | None => w
  end.

Fixpoint split_dots (s : string) (acc : string) : list string :=
  match s with
  | EmptyString => [acc]
  | String "." t => acc :: split_dots t EmptyString
  | String c t => split_dots t (acc ++ String c EmptyString)%string
  end.
Fixpoint join_dots (l : list string) : string :=
  match l with [] => EmptyString | [x] => x | x :: t => (x ++ "." ++ join_dots t)%string end.
Fixpoint has_dot (s : string) : bool :=
  match s with EmptyString => false | String "." _ => true | String _ t => has_dot t end.
(* "a.b.c" -> "a.b" / "c" ; "a" -> "" / "a" *)
Definition parent_of (p : string) : string := join_dots (removelast (split_dots p EmptyString)).
Definition leaf_of (p : string) : string := last (split_dots p EmptyString) EmptyString.

Definition is_private (k : string) : bool := match k with String "_" _ => true | _ => false end.
Fixpoint dedup_names (l : list string) (seen : list string) : list string :=
  match l with [] => [] | x :: t => if mem_str x seen then dedup_names t seen else x :: dedup_names t (x :: seen) end.
(* the names `from m import *` copies *)
Definition public_names (m : mstate) : list string :=
  match m_all m with
  | Some l => l
  | None => List.filter (fun k => negb (is_private k)) (dedup_names (map fst (m_ns m)) [])
  end.

Definition is_internal (P : program) (p : string) : bool := match pfind P p with Some _ => true | None => false end.

Definition obind {A B} (o : option A) (f : A -> option B) : option B := match o with Some x => f x | None => None end.
Fixpoint ofold {A B} (f : A -> B -> option A) (l : list B) (a : A) : option A :=
  match l with [] => Some a | x :: t => obind (f a x) (ofold f t) end.

(* import_module p: parents first; registered (empty, not done) before the body runs; on completion bound in the parent.
   None = out of fuel (the run did not complete) *)
Fixpoint import_module (fuel : nat) (P : program) (w : world) (p : string) : option world :=
  match fuel with
  | O => None
  | S f =>
    match wfind w p with
    | Some _ => Some w                             (* already in sys.modules (complete or partially initialised) *)
    | None =>
      match pfind P p with
      | None => Some w                             (* external module (typing, enum, ...): opaque *)
      | Some body =>
        let par := parent_of p in
        obind (if String.eqb par EmptyString then Some w else import_module f P w par) (fun w =>
        match wfind w p with
        | Some _ => Some w                         (* importing the parent package already imported this module *)
        | None =>
          let w := wset w p (mkM [] None false) in
          obind (exec_stmts f P w p body) (fun w =>
          let w := match wfind w p with Some m => wset w p (mkM (m_ns m) (m_all m) true) | None => w end in
          Some (if String.eqb par EmptyString then w else bind w par (leaf_of p) (OMod p)))
        end)
      end
    end
  end
with exec_stmts (fuel : nat) (P : program) (w : world) (cur : string) (body : list stmt) : option world :=
  match fuel with
  | O => None
  | S f =>
    match body with
    | [] => Some w
    | s :: rest =>
      obind
        (match s with
         | SStar t =>
           obind (import_module f P w t) (fun w =>
           match wfind w t with
           | Some m => Some (fold_left (fun w k => match ns_lookup (m_ns m) k with Some v => bind w cur k v | None => w end) (public_names m) w)
           | None => Some w      (* external: nothing the package cares about *)
           end)
         | SFrom t names =>
           obind (import_module f P w t) (fun w =>
           ofold (fun w ab =>
                    let '(a, b) := ab in
                    match wfind w t with
                    | Some m =>
                      match ns_lookup (m_ns m) a with
                      | Some v => Some (bind w cur b v)
                      | None => (* from package import submodule *)
                        let sub := (t ++ "." ++ a)%string in
                        if is_internal P sub then obind (import_module f P w sub) (fun w => Some (bind w cur b (OMod sub))) else Some w
                      end
                    | None => Some (bind w cur b (ODef t a))    (* external module: the object it defines *)
                    end) names w)
         | SImport b bound t => obind (import_module f P w t) (fun w => Some (bind w cur b (OMod bound)))
         | SDef n => Some (bind w cur n (ODef cur n))
         | SAll l => Some (match wfind w cur with Some m => wset w cur (mkM (m_ns m) (Some l) (m_done m)) | None => w end)
         | SRebind names =>
           ofold (fun w n => let sub := (cur ++ "." ++ n)%string in
                             obind (import_module f P w sub) (fun w => Some (bind w cur n (OMod sub)))) names w
         end)
        (fun w => exec_stmts f P w cur rest)
    end
  end.

(* a fresh interpreter: import `first`, then `import eolib` *)
Definition fresh_run (fuel : nat) (P : program) (first : string) : option world :=
  obind (import_module fuel P [] first) (fun w => import_module fuel P w "eolib").

(* getattr chain from eolib along a dotted path "eolib.a.b" *)
Fixpoint resolve_parts (w : world) (cur : obj) (parts : list string) : option obj :=
  match parts with
  | [] => Some cur
  | k :: t => match cur with
              | OMod p => match wfind w p with
                          | Some m => match ns_lookup (m_ns m) k with Some o => resolve_parts w o t | None => None end
                          | None => None end
              | _ => None
              end
  end.
Definition resolve_path (w : world) (path : string) : option obj :=
  match split_dots path EmptyString with
  | root :: rest => resolve_parts w (OMod root) rest
  | [] => None
  end.

Definition has_private_component (path : string) : bool := existsb is_private (split_dots path EmptyString).

(* C20, part 1: every documented module in sys.modules is what its dotted path resolves to *)
Definition paths_ok (w : world) : list string :=
  map fst (List.filter (fun pm => negb (has_private_component (fst pm)) &&
                                  negb (match resolve_path w (fst pm) with Some o => obj_eqb o (OMod (fst pm)) | None => false end)) w).
(* ... and over EVERY documented module of the program (loaded or not): a module that was never loaded is not reachable along its path *)
Definition paths_ok_all (P : program) (w : world) : list string :=
  map fst (List.filter (fun pm => negb (has_private_component (fst pm)) &&
                                  negb (match resolve_path w (fst pm) with Some o => obj_eqb o (OMod (fst pm)) | None => false end)) P).
(* C20, part 2: a name defined in module `home` is that very object in package `pkg` *)
Definition name_ok (w : world) (pkg home name : string) : bool :=
  match wfind w pkg with
  | Some m => match ns_lookup (m_ns m) name with Some o => obj_eqb o (ODef home name) | None => false end
  | None => false
  end.
