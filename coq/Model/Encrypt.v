(* Model of src/eolib/encrypt/encryption_utils.py *)
From EO Require Import Prelude.Py.
From Coq Require Import Permutation.
Open Scope Z_scope.

(* flip_msb: xor 0x80 unless the low 7 bits are zero *)
Definition flip (b : Z) : Z := if Z.land b 127 =? 0 then b else Z.lxor b 128.
Definition flip_msb (l : list Z) : list Z := map flip l.

(* interleave / deinterleave as position permutations that depend only on the length *)
Definition isrc (n i : nat) : nat := if Nat.even i then (i / 2)%nat else (n - 1 - i / 2)%nat.
Definition dsrc (n j : nat) : nat :=
  let h := ((n + 1) / 2)%nat in
  if (j <? h)%nat then (2 * j)%nat else (2 * (n / 2) - 1 - 2 * (j - h))%nat.
Definition interleave (l : list Z) : list Z := map (fun i => nth (isrc (length l) i) l 0) (seq 0 (length l)).
Definition deinterleave (l : list Z) : list Z := map (fun j => nth (dsrc (length l) j) l 0) (seq 0 (length l)).

(* swap_multiples: reverse every maximal run of multiples of m (m > 0); `run` accumulates the current run,
   newest first, i.e. already reversed *)
Fixpoint swap_aux (m : Z) (run : list Z) (l : list Z) : list Z :=
  match l with
  | [] => run
  | x :: t => if x mod m =? 0 then swap_aux m (x :: run) t else run ++ x :: swap_aux m [] t
  end.
Definition swap_multiples (l : list Z) (m : Z) : res (list Z) :=
  if m <? 0 then Err EValue else if m =? 0 then Ok l else Ok (swap_aux m [] l).

(* pipelines *)
Inductive eop := Interleave | Deinterleave | FlipMsb | Swap (m : Z).
Definition inverse (o : eop) : eop :=
  match o with Interleave => Deinterleave | Deinterleave => Interleave | FlipMsb => FlipMsb | Swap m => Swap m end.
Definition apply_op (o : eop) (l : list Z) : list Z :=
  match o with
  | Interleave => interleave l
  | Deinterleave => deinterleave l
  | FlipMsb => flip_msb l
  | Swap m => match swap_multiples l m with Ok r => r | Err _ => l end
  end.
Definition run_ops (p : list eop) (l : list Z) : list Z := fold_left (fun acc o => apply_op o acc) p l.
