(* The documented chunked-reading model A (docs/chunks.md of eo-protocol, EoReader docstrings): no cache.
   State: data, position, mode, start of the current chunk.  In chunked mode reads stop at the first 0xFF at or
   after the chunk start; next_chunk moves just past it (or to the end); otherwise reads are bounded by the data. *)
From EO Require Import Prelude.Py Model.Number Model.StringEnc Model.Cp1252 Model.Reader.
Open Scope Z_scope.

Record astate := mkA { adata : list Z; apos : Z; achunked : bool; acstart : Z }.
Definition initA (d : list Z) : astate := mkA d 0 false 0.

Definition chunk_end (a : astate) : Z := find_break (adata a) (acstart a).
Definition a_remaining (a : astate) : Z :=
  if achunked a then chunk_end a - Z.min (apos a) (chunk_end a) else zlen (adata a) - apos a.
Definition a_set_pos (a : astate) (p : Z) : astate := mkA (adata a) p (achunked a) (acstart a).

(* a read of n bytes takes min n remaining bytes at the position *)
Definition a_read (a : astate) (n : Z) : astate * list Z :=
  let k := Z.min n (a_remaining a) in (a_set_pos a (apos a + k), slice (adata a) (apos a) (apos a + k)).
Definition a_read_byte (a : astate) : astate * Z :=
  if a_remaining a >? 0 then (a_set_pos a (apos a + 1), zget (adata a) (apos a)) else (a, 0).

Definition a_next_chunk (a : astate) : res astate :=
  if negb (achunked a) then Err ERuntime else
  let p := chunk_end a in
  let p := if p <? zlen (adata a) then p + 1 else p in
  Ok (mkA (adata a) p true p).

Definition a_slice (a : astate) (index length : option Z) : res astate :=
  let index := match index with Some i => i | None => apos a end in
  let length := match length with Some l => l | None => Z.max 0 (zlen (adata a) - index) end in
  if (index <? 0) || (length <? 0) then Err EValue else
  let b := Z.min (zlen (adata a)) index in
  Ok (initA (firstn (Z.to_nat length) (skipn (Z.to_nat b) (adata a)))).

Definition astep (a : astate) (o : rop) : astate * rout * option astate :=
  match o with
  | RByte => let '(a', v) := a_read_byte a in (a', OZ v, None)
  | RBytes n => if n <? 0 then (a, OErr EUnexpected, None) else let '(a', v) := a_read a n in (a', OBytes v, None)
  | RChar => let '(a', v) := a_read a 1 in (a', OZ (decode_number v), None)
  | RShort => let '(a', v) := a_read a 2 in (a', OZ (decode_number v), None)
  | RThree => let '(a', v) := a_read a 3 in (a', OZ (decode_number v), None)
  | RInt => let '(a', v) := a_read a 4 in (a', OZ (decode_number v), None)
  | RString => let '(a', v) := a_read a (a_remaining a) in (a', OStr (cp_decode v), None)
  | RFixed n p => if n <? 0 then (a, OErr EValue, None) else
                  let '(a', v) := a_read a n in (a', OStr (cp_decode (if p then remove_padding v else v)), None)
  | REnc => let '(a', v) := a_read a (a_remaining a) in (a', OStr (cp_decode (decode_string v)), None)
  | RFixedEnc n p => if n <? 0 then (a, OErr EValue, None) else
                  let '(a', v) := a_read a n in
                  let v := decode_string v in (a', OStr (cp_decode (if p then remove_padding v else v)), None)
  | RSetChunked b => (mkA (adata a) (apos a) b (acstart a), OUnit, None)
  | RGetChunked => (a, OBool (achunked a), None)
  | RRemaining => (a, OZ (a_remaining a), None)
  | RPosition => (a, OZ (apos a), None)
  | RNextChunk => match a_next_chunk a with Ok a' => (a', OUnit, None) | Err e => (a, OErr e, None) end
  | RSlice i l => match a_slice a i l with Ok n => (a, ONew, Some n) | Err e => (a, OErr e, None) end
  end.

Fixpoint arun (pool : list astate) (ops : list (nat * rop)) : list astate * list rout :=
  match ops with
  | [] => (pool, [])
  | (h, o) :: t =>
    match nth_error pool h with
    | None => let '(p, outs) := arun pool t in (p, OErr EType :: outs)
    | Some a =>
      let '(a', out, newa) := astep a o in
      let pool' := upd pool h a' in
      let pool' := match newa with Some n => pool' ++ [n] | None => pool' end in
      let '(p, outs) := arun pool' t in (p, out :: outs)
    end
  end.
