(* What the generator writes where (property C18): module names, output paths, the per-directory __init__ star-imports,
   and how import lines are rendered (a set -> deduplicated -> sorted descending -> `from __future__` first).
   The two sources of nondeterminism of the Python code are explicit inputs here: the iteration order of the import set
   and the order in which os.walk yields the protocol files. *)
From EO Require Import Prelude.Py Model.Spec Model.Elab.
From Coq Require Import Sorting.Permutation.
Open Scope string_scope.
Open Scope list_scope.

Definition is_upper (c : ascii) : bool := let n := nat_of_ascii c in (65 <=? n)%nat && (n <=? 90)%nat.
Definition is_lower (c : ascii) : bool := let n := nat_of_ascii c in (97 <=? n)%nat && (n <=? 122)%nat.

(* pascal_case_to_snake_case (protocol_code_generator/util/name_utils.py): an underscore before an upper-case letter that is
   followed by a non-upper-case character or preceded by a lower-case one *)
Fixpoint snake_from (prev : option ascii) (s : string) : string :=
  match s with
  | EmptyString => EmptyString
  | String c t =>
    let next_not_upper := match t with String d _ => negb (is_upper d) | EmptyString => false end in
    let sep := match prev with
               | None => false
               | Some p => is_upper c && (next_not_upper || is_lower p)
               end in
    let rest := String (lower_ascii c) (snake_from (Some c) t) in
    if sep then String "_" rest else rest
  end.
Definition snake (s : string) : string := snake_from None s.

(* one declared type: directory of its protocol.xml ("" = root) and class name *)
Record decl := mkDecl { d_dir : string; d_name : string }.
Definition packet_class (path fa ac : string) : string :=
  fa ++ ac ++ (if String.eqb path "net/client" then "ClientPacket" else "ServerPacket").
Definition file_decls (f : rfile) : list decl :=
  map (fun e => mkDecl (rf_path f) (match re_name e with Some n => n | None => EmptyString end)) (rf_enums f) ++
  map (fun s => mkDecl (rf_path f) (match rs_name s with Some n => n | None => EmptyString end)) (rf_structs f) ++
  map (fun p => mkDecl (rf_path f) (packet_class (rf_path f)
                                      (match rp_family p with Some n => n | None => EmptyString end)
                                      (match rp_action p with Some n => n | None => EmptyString end))) (rf_packets f).
Definition all_decls (fs : list rfile) : list decl := flat_map file_decls fs.

Definition path_join (dir leaf : string) : string := if String.eqb dir EmptyString then leaf else dir ++ "/" ++ leaf.
(* the module file of a declared type, relative to the output root *)
Definition module_path (d : decl) : string := path_join (d_dir d) (snake (d_name d) ++ ".py").
Definition init_path (dir : string) : string := path_join dir "__init__.py".
(* the star-import the directory's generated __init__ carries for it *)
Definition init_line (d : decl) : string := "from ." ++ snake (d_name d) ++ " import *".

(* ---- rendering of import lines: CodeBlock.to_string ---- *)
Fixpoint str_leb (a b : string) : bool :=
  match a, b with
  | EmptyString, _ => true
  | String _ _, EmptyString => false
  | String x a', String y b' =>
    let nx := nat_of_ascii x in let ny := nat_of_ascii y in
    if (nx <? ny)%nat then true else if (ny <? nx)%nat then false else str_leb a' b'
  end.
(* insertion sort, DESCENDING (sorted(..., reverse=True)) *)
Fixpoint insert_desc (x : string) (l : list string) : list string :=
  match l with
  | [] => [x]
  | y :: t => if str_leb y x then x :: y :: t else y :: insert_desc x t
  end.
Fixpoint sort_desc (l : list string) : list string :=
  match l with [] => [] | x :: t => insert_desc x (sort_desc t) end.
Fixpoint dedup (l : list string) : list string :=
  match l with [] => [] | x :: t => if mem_str x t then dedup t else x :: dedup t end.
Fixpoint prefix_of (p s : string) : bool :=
  match p, s with
  | EmptyString, _ => true
  | String a p', String b s' => Ascii.eqb a b && prefix_of p' s'
  | _, _ => false
  end.
Definition is_future (l : string) : bool := prefix_of "from __future__" l.
(* the (set of) import strings, in whatever order the set iterates *)
Definition render_imports (l : list string) : list string :=
  let s := sort_desc (dedup l) in
  List.filter is_future s ++ List.filter (fun x => negb (is_future x)) s.

(* ---- what generate() writes: a map path -> content key; contents of class modules are abstract (a function of the
   declaration and the whole type table), the __init__ of a directory is its rendered star-imports ---- *)
Inductive content := CModule (d : decl) | CInit (lines : list string).
Definition dir_init (f : rfile) : string * content := (init_path (rf_path f), CInit (render_imports (map init_line (file_decls f)))).
Definition file_outputs (f : rfile) : list (string * content) :=
  map (fun d => (module_path d, CModule d)) (file_decls f) ++ [dir_init f].
(* files are written in walk order; a later write to the same path replaces the earlier one *)
Fixpoint fs_write (out : list (string * content)) (w : string * content) : list (string * content) :=
  match out with
  | [] => [w]
  | (p, c) :: t => if String.eqb p (fst w) then (p, snd w) :: t else (p, c) :: fs_write t w
  end.
Definition generate (fs : list rfile) (out : list (string * content)) : list (string * content) :=
  fold_left fs_write (flat_map file_outputs fs) out.
Fixpoint fs_get (out : list (string * content)) (p : string) : option content :=
  match out with [] => None | (q, c) :: t => if String.eqb q p then Some c else fs_get t p end.

(* distinct declarations go to distinct files: no two types of a directory share a snake name, one protocol.xml per directory *)
Definition all_paths (fs : list rfile) : list string := map fst (flat_map file_outputs fs).
Definition valid_layout (fs : list rfile) : bool := dup_free (all_paths fs).
