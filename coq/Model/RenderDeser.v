(* The generator's `deserialize` templates as a Coq function: class name, instruction list -> statements of Model/PyStmtR.v.
   Mirrors, statement by statement, protocol_code_generator/generate/{object,field,switch}_code_generator.py
   (generate_deserialize, _generate_deserialize_array, _get_read_statement, _get_read_statement_for_basic_type,
   _get_deserialize_length_expression, _get_length_offset_expression, _generate_dummy, generate_switch_start / generate_case,
   _generate_chunked, _generate_break, _generate_deserialize_method) and `class Render` (read_expr, fieldlike_D, instr_D,
   deserialize) of tools/gen2instr.py.
   `None` = the generator raises for such an instruction (no class is generated), or would emit text that is not Python, or the
   instruction is not one Model/Elab.v produces (an array whose element count contradicts its length attribute).
   `init_model` is what the generated constructor `Cls(a=.., b=..)` builds (generate_field / generate_switch_start: init_body). *)
From EO Require Import Prelude.Py Model.Reader Model.Spec Model.Ser Model.PyStmt Model.PyStmtR.
Open Scope string_scope.
Open Scope list_scope.
Open Scope Z_scope.

Definition D_RSP := "reader_start_position".
Definition D_OCRM := "old_chunked_reading_mode".
Definition D_RESULT := "result".
Definition D_LOOP := "i".

Definition get_meth (t : itype) : rmeth :=
  match t with TByte => GByte | TChar => GChar | TShort => GShort | TThree => GThree | TInt => GInt end.

(* _get_length_offset_expression(offset) appended to the read *)
Definition d_with_offset (e : dexpr) (offset : Z) : dexpr :=
  if offset =? 0 then e else if offset >? 0 then DBin BAdd e (DInt offset) else DBin BSub e (DInt (- offset)).

(* _get_read_statement: the expression that reads one value *)
Definition read_expr (ty : etype) (lenexpr : option dexpr) (padded : bool) (offset : Z) : dexpr :=
  match ty with
  | EInt t => d_with_offset (DGet (get_meth t)) offset
  | EBool t => DCmp CNe (d_with_offset (DGet (get_meth t)) offset) (DInt 0)
  | EEnum n t => DEnumOf n (d_with_offset (DGet (get_meth t)) offset)
  | EStr enc => match lenexpr with
                | None => DGet (if enc then GEncString else GString)
                | Some le => DGetFixed enc le padded
                end
  | EBlob => DBytesOf (DGetBytes DRemaining)
  | EStruct n => DDeser n
  end.

(* _get_deserialize_length_expression *)
Definition d_len_expr (l : elen) : option dexpr :=
  match l with LNone => None | LLit n => Some (DInt n) | LRef f => Some (DVar f) end.

(* reader.remaining > 0 *)
Definition has_remaining : dexpr := DCmp CGt DRemaining (DInt 0).

(* generate_deserialize: `n: Optional[T] = None` / `if reader.remaining > 0:` around the statements of an optional field *)
Definition d_opt_wrap (optional : bool) (n : string) (core : list dstmt) : list dstmt :=
  if optional then [DSAssign n DNone; DSIf has_remaining core []] else core.

Definition rem_len_name (n : string) : string := (n ++ "_length")%string.

(* _generate_deserialize_array *)
Definition array_elem (f : fieldspec) (n : string) : dstmt := DSAppend n (read_expr (f_ty f) None (f_padded f) 0).
Definition array_for (f : fieldspec) (n : string) (delimited trailing : bool) (le : dexpr) : dstmt :=
  DSFor D_LOOP le
        ([array_elem f n]
         ++ (if delimited
             then (if trailing then [DSNextChunk]
                   else [DSIf (DCmp CLt (DBin BAdd (DVar D_LOOP) (DInt 1)) le) [DSNextChunk] []])
             else [])).
Definition array_while (f : fieldspec) (n : string) (delimited : bool) : dstmt :=
  DSWhile has_remaining ([array_elem f n] ++ (if delimited then [DSNextChunk] else [])).
Definition array_core (f : fieldspec) (n : string) (delimited trailing : bool) (count : acount) : option (list dstmt) :=
  match count, d_len_expr (f_len f) with
  | ACExpr, Some le => Some [DSAssign n DEmptyList; array_for f n delimited trailing le]
  | ACRemaining size, None =>
    Some [DSAssign (rem_len_name n) (DIntDiv DRemaining (DInt size)); DSAssign n DEmptyList;
          array_for f n delimited trailing (DVar (rem_len_name n))]
  | ACWhile, None => Some [DSAssign n DEmptyList; array_while f n delimited]
  | _, _ => None
  end.

Definition field_read (f : fieldspec) : dexpr := read_expr (f_ty f) (d_len_expr (f_len f)) (f_padded f) 0.

(* the body of one case (generate_case) *)
Definition d_case_body (dn : string) (c : ecase) : list dstmt :=
  [DSAssign dn (match c_cls c with None => DNone | Some cls => DDeser cls end)].
(* if / elif / else chain of a switch: the statements of the remaining `else` branch (none when the cases are exhausted) *)
Fixpoint d_case_chain (field dn : string) (cases : list ecase) : option (list dstmt) :=
  match cases with
  | [] => Some []
  | c :: t =>
    match c_key c with
    | CKDefault => match t with [] => Some (d_case_body dn c) | _ => None end       (* `elif` after `else`: not Python *)
    | CKValue v =>
      match d_case_chain field dn t with
      | Some el => Some [DSIf (DCmp CEq (DVar field) (DInt v)) (d_case_body dn c) el]
      | None => None
      end
    end
  end.

Definition d_render_instr (i : einstr) : option (list dstmt) :=
  match i with
  | EField f =>
    match f_name f with
    | None => if f_optional f then None else Some [DSExpr (field_read f)]
    | Some n => Some (d_opt_wrap (f_optional f) n [DSAssign n (field_read f)])
    end
  | EArray f d t count =>
    match f_name f with
    | None => None
    | Some n => match array_core f n d t count with
                | Some core => Some (d_opt_wrap (f_optional f) n core)
                | None => None
                end
    end
  | ELength name t off optional _ _ =>
    Some (d_opt_wrap optional name [DSAssign name (read_expr (EInt t) None false off)])
  | EDummy ty lit guarded =>
    let core := [DSExpr (read_expr ty None false 0)] in
    Some (if guarded then [DSIf (DCmp CEq DPosition (DVar D_RSP)) core []] else core)
  | ESwitch field cases =>
    let dn := (field ++ "_data")%string in
    match cases with
    | c :: _ => match c_key c with
                | CKDefault => None             (* "Standalone default case is not allowed." *)
                | _ => match d_case_chain field dn cases with Some ch => Some (DSAssign dn DNone :: ch) | None => None end
                end
    | [] => Some [DSAssign dn DNone]
    end
  | ESetMode b => Some [DSSetMode (DBool b)]
  | EBreak => Some [DSNextChunk]
  end.

Fixpoint render_deser (is : list einstr) : option (list dstmt) :=
  match is with
  | [] => Some []
  | i :: t => match d_render_instr i, render_deser t with
              | Some a, Some b => Some (a ++ b)
              | _, _ => None
              end
  end.

(* deserialize_init_arguments: the names passed to the constructor, in declaration order *)
Definition instr_public (i : einstr) : list string :=
  match i with
  | EField f | EArray f _ _ _ => match f_name f with Some n => [n] | None => [] end
  | ESwitch field _ => [(field ++ "_data")%string]
  | _ => []
  end.
Definition public_names (is : list einstr) : list string := flat_map instr_public is.

(* _generate_deserialize_method: the statements of `def deserialize(reader)` of class cls *)
Definition method_tail (cls : string) (is : list einstr) : list dstmt :=
  [DSAssign D_RESULT (DNew cls (map (fun n => (n, n)) (public_names is)));
   DSSetByteSize D_RESULT (DBin BSub DPosition (DVar D_RSP));
   DSReturn (DVar D_RESULT)].
Definition render_deserialize (cls : string) (is : list einstr) : option (list dstmt) :=
  match render_deser is with
  | None => None
  | Some body =>
    Some [DSAssign D_OCRM DMode;
          DSTryFinally ([DSAssign D_RSP DPosition] ++ body ++ method_tail cls is) [DSSetMode (DVar D_OCRM)]]
  end.

(* ---------------- the generated constructor ---------------- *)
(* tuple(v) *)
Definition py_tuple (v : value) : res value :=
  match v with
  | VList l => Ok (VList l)
  | VStr _ | VBytes _ => Err EUnexpected          (* a tuple of characters / ints: not modelled *)
  | _ => Err EType                                (* not iterable *)
  end.
(* self._len = len(self._n) [if self._n is not None else None]  for a field / array whose length attribute names a length field
   (the private slot is not part of the value; the statement can raise) *)
Definition len_slot_check (f : fieldspec) (v : value) : res unit :=
  match f_len f with
  | LRef _ => if f_optional f && is_none v then Ok tt else match py_len v with Some _ => Ok tt | None => Err EType end
  | _ => Ok tt
  end.
(* the statements of __init__, top to bottom: the public fields they assign *)
Fixpoint init_fields (is : list einstr) (args : list (string * value)) : res (list (string * value)) :=
  match is with
  | [] => Ok []
  | i :: t =>
    match i with
    | EField f =>
      match f_name f with
      | None => init_fields t args
      | Some n =>
        do v <- match f_hard f with
                | Some lit => lit_value (f_ty f) lit                                   (* self._n = <literal>: the argument is ignored *)
                | None => match assoc args n with Some v => Ok v | None => Err EUnexpected end      (* self._n = n *)
                end;
        do _ <- len_slot_check f v;
        do rest <- init_fields t args;
        Ok ((n, v) :: rest)
      end
    | EArray f _ _ _ =>
      match f_name f with
      | None => init_fields t args
      | Some n =>
        do a <- match assoc args n with Some v => Ok v | None => Err EUnexpected end;
        do v <- (if f_optional f && is_none a then Ok VNone else py_tuple a);         (* [None if n is None else] tuple(n) *)
        do _ <- len_slot_check f v;
        do rest <- init_fields t args;
        Ok ((n, v) :: rest)
      end
    | ESwitch field _ =>
      let dn := (field ++ "_data")%string in
      do v <- match assoc args dn with Some v => Ok v | None => Err EUnexpected end;     (* self._dn = dn *)
      do rest <- init_fields t args;
      Ok ((dn, v) :: rest)
    | _ => init_fields t args
    end
  end.

Fixpoint strs_eqb (a b : list string) : bool :=
  match a, b with
  | [], [] => true
  | x :: a', y :: b' => String.eqb x y && strs_eqb a' b'
  | _, _ => false
  end.

(* Cls(kw=.., ..) for the class with body `is`, called with exactly its parameters as keywords, in declaration order
   (any other way of calling it: not modelled) *)
Definition init_model (cls : string) (is : list einstr) (args : list (string * value)) : res value :=
  if strs_eqb (map fst args) (public_names is)
  then do flds <- init_fields is args; Ok (VObj cls flds)
  else Err EUnexpected.
