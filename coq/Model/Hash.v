(* Model of src/eolib/encrypt/server_verification_utils.py (as repaired by the fix: commit, see known_findings.txt) *)
From EO Require Import Prelude.Py.
Open Scope Z_scope.

(* helper emulating the truncating (C-style) remainder with Python's floor remainder *)
Definition u_mod (a b : Z) : Z :=
  let r := a mod b in
  if (a <? 0) && negb (r =? 0) then r - b else r.

Definition server_verification_hash (challenge : Z) : Z :=
  let c := challenge + 1 in
  110905 + (u_mod c 9 + 1) * u_mod (11092004 - c) ((c mod 11 + 1) * 119) * 119 + u_mod c 2004.

(* what the game client computes: the published formula with C's truncating remainder (Z.rem) *)
Definition client_hash (challenge : Z) : Z :=
  let c := challenge + 1 in
  110905 + (Z.rem c 9 + 1) * Z.rem (11092004 - c) ((Z.rem c 11 + 1) * 119) * 119 + Z.rem c 2004.

(* the UNREPAIRED helper (subtracts b for every negative dividend), kept to state the refutation *)
Definition u_mod_unrepaired (a b : Z) : Z :=
  let r := a mod b in if a <? 0 then r - b else r.
Definition hash_unrepaired (challenge : Z) : Z :=
  let c := challenge + 1 in
  110905 + (u_mod_unrepaired c 9 + 1) * u_mod_unrepaired (11092004 - c) ((c mod 11 + 1) * 119) * 119 + u_mod_unrepaired c 2004.
