(* Typed items: one write with EoWriter and the matching read with EoReader (properties C04, C06). *)
From EO Require Import Prelude.Py Model.Limits Model.Number Model.StringEnc Model.Cp1252 Model.Writer Model.Reader.
Open Scope Z_scope.

Inductive item :=
| IByte (b : Z) | IBytes (bs : list Z)
| IChar (n : Z) | IShort (n : Z) | IThree (n : Z) | IInt (n : Z)
| IFixed (s : list Z)                 (* add_fixed_string(s, len s)        / get_fixed_string(len s) *)
| IPadded (s : list Z) (len : Z)      (* add_fixed_string(s, len, True)    / get_fixed_string(len, True) *)
| IEncFixed (s : list Z)              (* add_fixed_encoded_string(s, len s) / get_fixed_encoded_string(len s) *)
| IEncPadded (s : list Z) (len : Z)   (* ... padded *)
| IStr (s : list Z)                   (* add_string / get_string: reads to the end (of the chunk) *)
| IEncStr (s : list Z)                (* add_encoded_string / get_encoded_string *)
| IRest (bs : list Z).                (* add_bytes / get_bytes(remaining) *)

Definition write_op (it : item) : wop :=
  match it with
  | IByte b => WByte b | IBytes bs => WBytes bs
  | IChar n => WChar n | IShort n => WShort n | IThree n => WThree n | IInt n => WInt n
  | IFixed s => WFixed s (zlen s) false | IPadded s len => WFixed s len true
  | IEncFixed s => WFixedEnc s (zlen s) false | IEncPadded s len => WFixedEnc s len true
  | IStr s => WString s | IEncStr s => WEnc s | IRest bs => WBytes bs
  end.

(* the read matching a write; IRest reads `remaining` bytes, which depends on the reader: handled by read_item *)
Definition read_item (r : rstate) (it : item) : rstate * rout * option rstate :=
  match it with
  | IByte _ => rstep r RByte | IBytes bs => rstep r (RBytes (zlen bs))
  | IChar _ => rstep r RChar | IShort _ => rstep r RShort | IThree _ => rstep r RThree | IInt _ => rstep r RInt
  | IFixed s => rstep r (RFixed (zlen s) false) | IPadded _ len => rstep r (RFixed len true)
  | IEncFixed s => rstep r (RFixedEnc (zlen s) false) | IEncPadded _ len => rstep r (RFixedEnc len true)
  | IStr _ => rstep r RString | IEncStr _ => rstep r REnc
  | IRest _ => rstep r (RBytes (r_remaining r))
  end.

(* what the read must return: the value written; strings as their windows-1252 image *)
Definition expected (it : item) : rout :=
  match it with
  | IByte b => OZ b | IBytes bs => OBytes bs
  | IChar n | IShort n | IThree n | IInt n => OZ n
  | IFixed s | IPadded s _ | IEncFixed s | IEncPadded s _ | IStr s | IEncStr s => OStr (map cp_image s)
  | IRest bs => OBytes bs
  end.

Definition no_cp (c : Z) (s : list Z) : bool := forallb (fun x => negb (x =? c)) s.
Definition in_range (n lim : Z) : bool := (0 <=? n) && (n <? lim).

(* in-range integers; the only exclusions for strings are the characters the format cannot carry:
   U+00FF (byte 0xFF) inside padded strings, '~' inside encoded strings *)
Definition valid (it : item) : bool :=
  match it with
  | IByte b => in_range b 256 | IBytes bs | IRest bs => bytes_okb bs
  | IChar n => in_range n CHAR_MAX | IShort n => in_range n SHORT_MAX | IThree n => in_range n THREE_MAX | IInt n => in_range n INT_MAX
  | IFixed s | IStr s => true
  | IPadded s len => (zlen s <=? len) && no_cp 255 s
  | IEncFixed s | IEncStr s => no_cp 126 s
  | IEncPadded s len => (zlen s <=? len) && no_cp 255 s && no_cp 126 s
  end.

Definition trailing (it : item) : bool := match it with IStr _ | IEncStr _ | IRest _ => true | _ => false end.
(* only the last item may be one that reads "to the end" *)
Fixpoint trailing_last (its : list item) : bool :=
  match its with
  | [] => true
  | [_] => true
  | it :: t => negb (trailing it) && trailing_last t
  end.

Fixpoint read_items (r : rstate) (its : list item) : rstate * list rout :=
  match its with
  | [] => (r, [])
  | it :: t => let '(r', out, _) := read_item r it in let '(r'', outs) := read_items r' t in (r'', out :: outs)
  end.

(* chunk fields (C06): kinds whose bytes never contain 0xFF when sanitisation is on *)
Definition chunk_field (it : item) : bool :=
  match it with
  | IChar _ | IShort _ | IThree _ | IInt _ | IFixed _ | IEncFixed _ | IStr _ | IEncStr _ => valid it
  | _ => false end.

(* chunks joined by single break bytes *)
Fixpoint join_chunks (cs : list (list Z)) : list Z :=
  match cs with
  | [] => []
  | [c] => c
  | c :: t => c ++ 255 :: join_chunks t
  end.

(* the bytes an item occupies on the wire, given the writer's sanitisation mode *)
Definition item_bytes (san : bool) (it : item) : list Z := wdata (fst (wstep (mkW [] san) (write_op it))).

(* ---- chunked reading plans (C06) ---- *)
(* reads a plan may contain: anything that consumes or inspects the current chunk; not the mode switch,
   next_chunk, slice (absolute addressing) or position (absolute) *)
Definition plan_op (o : rop) : bool :=
  match o with
  | RByte | RBytes _ | RChar | RShort | RThree | RInt | RString | RFixed _ _ | REnc | RFixedEnc _ _ | RRemaining => true
  | _ => false end.

Fixpoint run_plan (r : rstate) (p : list rop) : rstate * list rout :=
  match p with
  | [] => (r, [])
  | o :: t => let '(r', out, _) := rstep r o in let '(r'', outs) := run_plan r' t in (r'', out :: outs)
  end.

(* plan for chunk 0, next_chunk, plan for chunk 1, next_chunk, ... *)
Fixpoint run_chunks (r : rstate) (plans : list (list rop)) : list (list rout) :=
  match plans with
  | [] => []
  | p :: t => let '(r', outs) := run_plan r p in
              outs :: match r_next_chunk r' with Ok r'' => run_chunks r'' t | Err _ => [] end
  end.
