(* Model of src/eolib/data/eo_writer.py (EoWriter), written in the statement order of the code:
   check, encode, sanitise, pad, encode_string, extend.  Python str = list of code points. *)
From EO Require Import Prelude.Py Model.Limits Model.Number Model.StringEnc Model.Cp1252.
Open Scope Z_scope.

Record wstate := mkW { wdata : list Z; wsan : bool }.
Definition initW : wstate := mkW [] false.

Definition wres := (wstate * res unit)%type.
Definition w_extend (w : wstate) (bs : list Z) : wstate := mkW (wdata w ++ bs) (wsan w).

(* _check_number_size(number, max_value): raises when number > max_value *)
Definition check_number_size (n maxv : Z) : res unit := if n >? maxv then Err EValue else Ok tt.

(* add_byte: the size check, then bytearray.append (ValueError unless in range(256)) *)
Definition w_add_byte (w : wstate) (v : Z) : wres :=
  match check_number_size v 255 with
  | Err e => (w, Err e)
  | Ok _ => if (0 <=? v) && (v <=? 255) then (w_extend w [v], Ok tt) else (w, Err EValue)
  end.

(* add_bytes: bytearray.extend, no checks (argument is a bytes-like object: every element in 0..255) *)
Definition w_add_bytes (w : wstate) (bs : list Z) : wres := (w_extend w bs, Ok tt).

Definition w_add_number (w : wstate) (n : Z) (limit : Z) (size : Z) : wres :=
  match check_number_size n (limit - 1) with
  | Err e => (w, Err e)
  | Ok _ => match encode_number n with
            | Err e => (w, Err e)
            | Ok bs => (w_extend w (slice bs 0 size), Ok tt)
            end
  end.
Definition w_add_char w n := w_add_number w n CHAR_MAX 1.
Definition w_add_short w n := w_add_number w n SHORT_MAX 2.
Definition w_add_three w n := w_add_number w n THREE_MAX 3.
Definition w_add_int w n := w_add_number w n INT_MAX 4.

(* _sanitize_string: in sanitisation mode every 0xFF becomes 'y' (0x79) *)
Definition sanitize (san : bool) (bs : list Z) : list Z :=
  if san then map (fun b => if b =? 255 then 121 else b) bs else bs.

(* _add_padding (only called when len bytes <= length) *)
Definition add_padding (bs : list Z) (len : Z) : list Z :=
  if zlen bs =? len then bs else bs ++ zrepeat 255 (len - zlen bs).

(* _check_string_length: lengths are in code points *)
Definition check_string_length (s : list Z) (len : Z) (padded : bool) : res unit :=
  if padded then (if len >=? zlen s then Ok tt else Err EValue)
  else (if negb (zlen s =? len) then Err EValue else Ok tt).

Definition w_add_string (w : wstate) (s : list Z) : wres :=
  let bs := cp_encode s in
  let bs := sanitize (wsan w) bs in
  w_add_bytes w bs.

Definition w_add_fixed_string (w : wstate) (s : list Z) (len : Z) (padded : bool) : wres :=
  match check_string_length s len padded with
  | Err e => (w, Err e)
  | Ok _ =>
    let bs := cp_encode s in
    let bs := sanitize (wsan w) bs in
    let bs := if padded then add_padding bs len else bs in
    w_add_bytes w bs
  end.

Definition w_add_encoded_string (w : wstate) (s : list Z) : wres :=
  let bs := cp_encode s in
  let bs := sanitize (wsan w) bs in
  let bs := encode_string bs in
  w_add_bytes w bs.

Definition w_add_fixed_encoded_string (w : wstate) (s : list Z) (len : Z) (padded : bool) : wres :=
  match check_string_length s len padded with
  | Err e => (w, Err e)
  | Ok _ =>
    let bs := cp_encode s in
    let bs := sanitize (wsan w) bs in
    let bs := if padded then add_padding bs len else bs in
    let bs := encode_string bs in
    w_add_bytes w bs
  end.

Definition w_set_san (w : wstate) (b : bool) : wstate := mkW (wdata w) b.

(* operations as data, for histories *)
Inductive wop :=
| WByte (v : Z) | WBytes (bs : list Z) | WChar (n : Z) | WShort (n : Z) | WThree (n : Z) | WInt (n : Z)
| WString (s : list Z) | WFixed (s : list Z) (len : Z) (padded : bool)
| WEnc (s : list Z) | WFixedEnc (s : list Z) (len : Z) (padded : bool)
| WSetSan (b : bool).

Definition wstep (w : wstate) (o : wop) : wres :=
  match o with
  | WByte v => w_add_byte w v
  | WBytes bs => w_add_bytes w bs
  | WChar n => w_add_char w n
  | WShort n => w_add_short w n
  | WThree n => w_add_three w n
  | WInt n => w_add_int w n
  | WString s => w_add_string w s
  | WFixed s len p => w_add_fixed_string w s len p
  | WEnc s => w_add_encoded_string w s
  | WFixedEnc s len p => w_add_fixed_encoded_string w s len p
  | WSetSan b => (w_set_san w b, Ok tt)
  end.

(* a history: every step's outcome is observed (failing steps included), the state carries on *)
Fixpoint wrun (w : wstate) (ops : list wop) : wstate * list (res unit) :=
  match ops with
  | [] => (w, [])
  | o :: t => let '(w', r) := wstep w o in let '(w'', rs) := wrun w' t in (w'', r :: rs)
  end.
