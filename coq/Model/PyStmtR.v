(* A small Python, reader side: the statements and expressions the generator's `deserialize` templates are made of, with a
   big-step interpreter over the EoReader model (Model/Reader.v) and the `value` type of Model/Spec.v.
   Companion of Model/PyStmt.v (the `serialize` side), whose value helpers (as_int, py_truth, py_cmp, py_bin) it reuses.

   THIS FILE IS TRUSTED (like Model/PyStmt.v): `dexec_stmts` is what "running the generated statements" means in the theorems
   of Proofs/RenderDeser.v.  It is meant to be read against Python:

   values        as in Model/PyStmt.v; a list under construction (`xs = []`, `xs.append(..)`) is a VList, a bytearray / bytes a
                 VBytes, an instance of a generated class VObj cls fields (its public properties, `byte_size` included once
                 `x._byte_size = ..` has run).
   expressions   HAVE EFFECTS on the reader (`reader.get_char()` advances it): evaluation threads the reader state, operands
                 left to right, arguments before the call.
   reader        `reader.get_*`, `.remaining`, `.position`, `.chunked_reading_mode`, `.next_chunk()` are the operations of
                 Model/Reader.v (get_bytes(n) with n < 0 is outside the documented domain of that model, here as there).
                 A non-number as the length of get_fixed_string raises TypeError (`None < 0`), a negative one the documented
                 ValueError (raised by the reader model itself).
   callee        `Cls.deserialize(reader)` is the parameter `rec`; `Cls(a=x, b=y)` (keyword arguments that are local variables)
                 is the parameter `ctor`: the generated __init__ is not part of the method's text (Model/RenderDeser.v
                 `init_model` says what the generated constructors do).
   Enum(e)       the generated enums have the metaclass ProtocolEnumMeta: calling one with ANY int gives an int-valued member
                 (VInt z); tools/py2stmt.py only maps a call to DEnumOf when the class is declared that way.
   return        `return e` ends the function with the value: outcome OReturn v, propagated through loops and `try`; a
                 `finally` block runs on every exit and its own exception / return wins.
   while         the number of iterations is bounded by fuel = 1 + len(data of the reader) taken when the loop is entered,
                 exactly as Model/Deser.v bounds its `while reader.remaining > 0` loops; running out of fuel is Err EFuel
                 ("did not finish"), in the state where the next iteration would start.
   exceptions    TypeError -> EType, AttributeError -> EAttribute, ValueError -> EValue, RuntimeError -> ERuntime;
                 NameError / UnboundLocalError, ZeroDivisionError and anything outside the modelled fragment -> EUnexpected.
   mutable data  lists and objects have value semantics.  That is Python's behaviour as long as no list / object is mutated
                 while reachable under a second name; `x = y` and `xs.append(y)` for a variable y holding a list or an
                 object are refused (EUnexpected).  Remaining caveat: an object passed to a constructor and then given a new
                 `_byte_size` under its old name (no template does that: `_byte_size` is only set on the fresh `result`).
   not modelled  (EUnexpected) Enum(<non-number>), bytes(<anything but a bytearray>), a non-bool assigned to
                 reader.chunked_reading_mode. *)
From EO Require Import Prelude.Py Model.Reader Model.Spec Model.PyStmt.
Open Scope string_scope.
Open Scope Z_scope.

(* the zero-argument reader methods *)
Inductive rmeth := GByte | GChar | GShort | GThree | GInt | GString | GEncString.

Inductive dexpr :=
| DVar (x : string)                                  (* a local variable *)
| DInt (z : Z)
| DBool (b : bool)
| DNone
| DConst (enum member : string) (z : Z)              (* Enum.Member, whose integer value is z *)
| DGet (m : rmeth)                                   (* reader.get_<m>() *)
| DGetFixed (encoded : bool) (len : dexpr) (padded : bool)   (* reader.get_fixed_[encoded_]string(len, True|False) *)
| DGetBytes (n : dexpr)                              (* reader.get_bytes(n) *)
| DBytesOf (e : dexpr)                               (* bytes(e) *)
| DRemaining                                         (* reader.remaining *)
| DPosition                                          (* reader.position *)
| DMode                                              (* reader.chunked_reading_mode *)
| DEnumOf (enum : string) (e : dexpr)                (* Enum(e) *)
| DCmp (op : cmpop) (a b : dexpr)                    (* a == b, a != b, a > b, a < b, a >= b *)
| DBin (op : binop) (a b : dexpr)                    (* a + b, a - b *)
| DIntDiv (a b : dexpr)                              (* int(a / b) *)
| DDeser (cls : string)                              (* Cls.deserialize(reader) *)
| DEmptyList                                         (* [] *)
| DNew (cls : string) (args : list (string * string)). (* Cls(kw1=var1, kw2=var2, ...) *)

Inductive dstmt :=
| DSAssign (x : string) (e : dexpr)                  (* x = e   /   x: T = e  (the annotation of a local is not evaluated) *)
| DSExpr (e : dexpr)                                 (* e       (an expression statement: the value is dropped) *)
| DSAppend (x : string) (e : dexpr)                  (* x.append(e) *)
| DSIf (c : dexpr) (th el : list dstmt)              (* if c: th else: el      (elif = an `if` alone in `el`; no else = []) *)
| DSFor (x : string) (e : dexpr) (body : list dstmt) (* for x in range(e): body *)
| DSWhile (c : dexpr) (body : list dstmt)            (* while c: body *)
| DSNextChunk                                        (* reader.next_chunk() *)
| DSSetMode (e : dexpr)                              (* reader.chunked_reading_mode = e *)
| DSSetByteSize (x : string) (e : dexpr)             (* x._byte_size = e *)
| DSReturn (e : dexpr)                               (* return e *)
| DSTryFinally (body fin : list dstmt).              (* try: body finally: fin *)

Inductive outcome := ONormal | OReturn (v : value).

(* ---------------- reader calls ---------------- *)
Definition exec_get (m : rmeth) (r : rstate) : rstate * res value :=
  match m with
  | GByte => let '(r', z) := r_get_byte r in (r', Ok (VInt z))
  | GChar => let '(r', z) := r_get_char r in (r', Ok (VInt z))
  | GShort => let '(r', z) := r_get_short r in (r', Ok (VInt z))
  | GThree => let '(r', z) := r_get_three r in (r', Ok (VInt z))
  | GInt => let '(r', z) := r_get_int r in (r', Ok (VInt z))
  | GString => let '(r', s) := r_get_string r in (r', Ok (VStr s))
  | GEncString => let '(r', s) := r_get_encoded_string r in (r', Ok (VStr s))
  end.
Definition exec_get_fixed (encoded : bool) (len : value) (padded : bool) (r : rstate) : rstate * res value :=
  match as_int len with
  | None => (r, Err EType)
  | Some n => match (if encoded then r_get_fixed_encoded_string r n padded else r_get_fixed_string r n padded) with
              | Ok (r', s) => (r', Ok (VStr s))
              | Err e => (r, Err e)
              end
  end.
Definition exec_get_bytes (n : value) (r : rstate) : rstate * res value :=
  match as_int n with
  | None => (r, Err EType)
  | Some k => let '(r', b) := r_get_bytes r k in (r', Ok (VBytes b))
  end.
(* bytes(v) *)
Definition py_bytes_of (v : value) : res value := match v with VBytes b => Ok (VBytes b) | _ => Err EUnexpected end.
(* Enum(v) for an enum with metaclass ProtocolEnumMeta *)
Definition py_enum_of (v : value) : res value := match as_int v with Some z => Ok (VInt z) | None => Err EUnexpected end.
(* int(a / b) *)
Definition py_int_div (a b : value) : res value :=
  match as_int a, as_int b with
  | Some x, Some y => if y =? 0 then Err EUnexpected else Ok (VInt (truediv_int x y))
  | _, _ => Err EType
  end.
(* the values of the variables passed as keyword arguments, left to right *)
Fixpoint lookup_args (L : locals) (args : list (string * string)) : res (list (string * value)) :=
  match args with
  | [] => Ok []
  | (kw, x) :: t => match assoc L x with
                    | None => Err EUnexpected
                    | Some v => do rest <- lookup_args L t; Ok ((kw, v) :: rest)
                    end
  end.
(* x._byte_size = v *)
Definition set_byte_size (flds : list (string * value)) (v : value) : list (string * value) :=
  filter (fun p => negb (String.eqb (fst p) "byte_size")) flds ++ [("byte_size", v)].
(* a second name for a mutable object *)
Definition aliases (e : dexpr) (v : value) : bool :=
  match e, v with DVar _, VList _ | DVar _, VObj _ _ => true | _, _ => false end.

(* the bound on the iterations of a `while` loop entered in state r (as in Model/Deser.v) *)
Definition while_fuel (r : rstate) : nat := S (List.length (rdata r)).

Section Exec.
  (* Cls.deserialize(reader) *)
  Variable rec : string -> rstate -> rstate * res value.
  (* Cls(kw=.., ..) *)
  Variable ctor : string -> list (string * value) -> res value.

  (* ---------------- expressions ---------------- *)
  Fixpoint deval (L : locals) (e : dexpr) (r : rstate) {struct e} : rstate * res value :=
    match e with
    | DVar x => (r, match assoc L x with Some v => Ok v | None => Err EUnexpected end)
    | DInt z => (r, Ok (VInt z))
    | DBool b => (r, Ok (VBool b))
    | DNone => (r, Ok VNone)
    | DConst _ _ z => (r, Ok (VInt z))
    | DGet m => exec_get m r
    | DGetFixed enc len padded =>
      let '(r1, vl) := deval L len r in
      match vl with Err x => (r1, Err x) | Ok lv => exec_get_fixed enc lv padded r1 end
    | DGetBytes n =>
      let '(r1, vn) := deval L n r in
      match vn with Err x => (r1, Err x) | Ok nv => exec_get_bytes nv r1 end
    | DBytesOf a => let '(r1, va) := deval L a r in (r1, do x <- va; py_bytes_of x)
    | DRemaining => (r, Ok (VInt (r_remaining r)))
    | DPosition => (r, Ok (VInt (rpos r)))
    | DMode => (r, Ok (VBool (rchunked r)))
    | DEnumOf _ a => let '(r1, va) := deval L a r in (r1, do x <- va; py_enum_of x)
    | DCmp op a b =>
      let '(r1, va) := deval L a r in
      match va with Err x => (r1, Err x) | Ok x => let '(r2, vb) := deval L b r1 in (r2, do y <- vb; py_cmp op x y) end
    | DBin op a b =>
      let '(r1, va) := deval L a r in
      match va with Err x => (r1, Err x) | Ok x => let '(r2, vb) := deval L b r1 in (r2, do y <- vb; py_bin op x y) end
    | DIntDiv a b =>
      let '(r1, va) := deval L a r in
      match va with Err x => (r1, Err x) | Ok x => let '(r2, vb) := deval L b r1 in (r2, do y <- vb; py_int_div x y) end
    | DDeser cls => rec cls r
    | DEmptyList => (r, Ok (VList []))
    | DNew cls args => (r, do vs <- lookup_args L args; ctor cls vs)
    end.

  (* ---------------- statements ---------------- *)
  Definition xres := (rstate * res outcome * locals)%type.

  Fixpoint dexec_stmt (s : dstmt) (L : locals) (r : rstate) {struct s} : xres :=
    let go := fix go (l : list dstmt) (L : locals) (r : rstate) {struct l} : xres :=
                match l with
                | [] => (r, Ok ONormal, L)
                | s' :: t => let '(r1, o1, L1) := dexec_stmt s' L r in
                             match o1 with Ok ONormal => go t L1 r1 | _ => (r1, o1, L1) end
                end in
    match s with
    | DSAssign x e =>
      let '(r1, v) := deval L e r in
      match v with
      | Err x => (r1, Err x, L)
      | Ok v => if aliases e v then (r1, Err EUnexpected, L) else (r1, Ok ONormal, (x, v) :: L)
      end
    | DSExpr e =>
      let '(r1, v) := deval L e r in
      (r1, match v with Err x => Err x | Ok _ => Ok ONormal end, L)
    | DSAppend x e =>
      (* `x.append` is looked up before the argument is evaluated *)
      match assoc L x with
      | None => (r, Err EUnexpected, L)
      | Some (VList l) =>
        let '(r1, v) := deval L e r in
        match v with
        | Err x => (r1, Err x, L)
        | Ok v => if aliases e v then (r1, Err EUnexpected, L) else (r1, Ok ONormal, (x, VList (l ++ [v])) :: L)
        end
      | Some _ => (r, Err EAttribute, L)
      end
    | DSIf c th el =>
      let '(r1, v) := deval L c r in
      match v with
      | Err x => (r1, Err x, L)
      | Ok v => if py_truth v then go th L r1 else go el L r1
      end
    | DSFor x e body =>
      let '(r1, v) := deval L e r in
      match v with
      | Err x => (r1, Err x, L)
      | Ok v =>
        match as_int v with
        | None => (r1, Err EType, L)
        | Some n =>
          (fix loop (k : nat) (i : Z) (L : locals) (r : rstate) {struct k} : xres :=
             match k with
             | O => (r, Ok ONormal, L)
             | S k' => let '(r2, o2, L2) := go body ((x, VInt i) :: L) r in
                       match o2 with Ok ONormal => loop k' (i + 1) L2 r2 | _ => (r2, o2, L2) end
             end) (Z.to_nat n) 0 L r1
        end
      end
    | DSWhile c body =>
      (fix loop (fuel : nat) (L : locals) (r : rstate) {struct fuel} : xres :=
         let '(r1, v) := deval L c r in
         match v with
         | Err x => (r1, Err x, L)
         | Ok v =>
           if py_truth v then
             match fuel with
             | O => (r1, Err EFuel, L)
             | S f => let '(r2, o2, L2) := go body L r1 in
                      match o2 with Ok ONormal => loop f L2 r2 | _ => (r2, o2, L2) end
             end
           else (r1, Ok ONormal, L)
         end) (while_fuel r) L r
    | DSNextChunk =>
      match r_next_chunk r with Ok r' => (r', Ok ONormal, L) | Err x => (r, Err x, L) end
    | DSSetMode e =>
      let '(r1, v) := deval L e r in
      match v with
      | Err x => (r1, Err x, L)
      | Ok (VBool b) => (r_set_chunked r1 b, Ok ONormal, L)
      | Ok _ => (r1, Err EUnexpected, L)
      end
    | DSSetByteSize x e =>
      (* the right-hand side first, then the target *)
      let '(r1, v) := deval L e r in
      match v with
      | Err er => (r1, Err er, L)
      | Ok v =>
        match assoc L x with
        | None => (r1, Err EUnexpected, L)
        | Some (VObj c flds) => (r1, Ok ONormal, (x, VObj c (set_byte_size flds v)) :: L)
        | Some _ => (r1, Err EAttribute, L)
        end
      end
    | DSReturn e =>
      let '(r1, v) := deval L e r in
      (r1, match v with Err x => Err x | Ok v => Ok (OReturn v) end, L)
    | DSTryFinally body fin =>
      let '(r1, o1, L1) := go body L r in
      let '(r2, o2, L2) := go fin L1 r1 in
      (r2, match o2 with Ok ONormal => o1 | _ => o2 end, L2)
    end.

  Fixpoint dexec_stmts (l : list dstmt) (L : locals) (r : rstate) {struct l} : xres :=
    match l with
    | [] => (r, Ok ONormal, L)
    | s :: t => let '(r1, o1, L1) := dexec_stmt s L r in
                match o1 with Ok ONormal => dexec_stmts t L1 r1 | _ => (r1, o1, L1) end
    end.

  (* for x in range(k iterations starting at i): body *)
  Fixpoint dexec_for (x : string) (body : list dstmt) (k : nat) (i : Z) (L : locals) (r : rstate) {struct k} : xres :=
    match k with
    | O => (r, Ok ONormal, L)
    | S k' => let '(r2, o2, L2) := dexec_stmts body ((x, VInt i) :: L) r in
              match o2 with Ok ONormal => dexec_for x body k' (i + 1) L2 r2 | _ => (r2, o2, L2) end
    end.

  (* while c: body, at most `fuel` iterations *)
  Fixpoint dexec_while (c : dexpr) (body : list dstmt) (fuel : nat) (L : locals) (r : rstate) {struct fuel} : xres :=
    let '(r1, v) := deval L c r in
    match v with
    | Err x => (r1, Err x, L)
    | Ok v =>
      if py_truth v then
        match fuel with
        | O => (r1, Err EFuel, L)
        | S f => let '(r2, o2, L2) := dexec_stmts body L r1 in
                 match o2 with Ok ONormal => dexec_while c body f L2 r2 | _ => (r2, o2, L2) end
        end
      else (r1, Ok ONormal, L)
    end.

  (* calling a function whose body is `ss`: the returned value (None when the body falls off its end) *)
  Definition dcall (ss : list dstmt) (r : rstate) : rstate * res value :=
    let '(r', o, _) := dexec_stmts ss [] r in
    (r', match o with Ok (OReturn v) => Ok v | Ok ONormal => Ok VNone | Err e => Err e end).
End Exec.
