(* The eo-protocol wire format as a pure, declarative function of (elaborated spec, value):
   no writer state, no error kinds.  `None` = "this value has no encoding under this declaration"
   (the generated serializer raises).  Proofs/EncSer.v shows the statement-level semantics of the generated
   code (Model/Ser.v over the EoWriter model) produces exactly these bytes, and fails exactly when this is None. *)
From EO Require Import Prelude.Py Model.Limits Model.Number Model.StringEnc Model.Cp1252 Model.Writer Model.Spec Model.Ser.
Open Scope Z_scope.

(* ---------------- scalars ---------------- *)
(* An integer of wire type t.  byte: the byte itself.  Otherwise the first itype_size t digits of the
   base-253 encoding.  NOTE: the admissible range is  z <= itype_max t  AND  every digit of encode_digits z is a byte;
   the second condition admits z = -1 (digit 0x00) exactly as EoWriter does (add_char(-1) emits 0x00) and refuses
   z <= -2.  This is deliberate: the function describes what the generated code emits, warts included. *)
Definition enc_int (t : itype) (z : Z) : option (list Z) :=
  match t with
  | TByte => if (0 <=? z) && (z <=? 255) then Some [z] else None
  | _ => if z <=? itype_max t
         then match encode_number z with
              | Ok _ => Some (slice (encode_digits z) 0 (itype_size t))
              | Err _ => None
              end
         else None
  end.

(* how a string body is placed on the wire: as is, or through encode_string *)
Definition place (encoded : bool) (bs : list Z) : list Z := if encoded then encode_string bs else bs.

(* A string: windows-1252 bytes, 0xFF -> 'y' when the static mode `san` says so; a fixed length must be met
   exactly, or (padded) not exceeded, the remainder being 0xFF bytes; lengths count code points. *)
Definition enc_str (san encoded : bool) (s : list Z) (len : option Z) (padded : bool) : option (list Z) :=
  let body := sanitize san (cp_encode s) in
  match len with
  | None => Some (place encoded body)
  | Some n =>
    if padded
    then if zlen s <=? n then Some (place encoded (body ++ zrepeat 255 (n - zlen s))) else None
    else if zlen s =? n then Some (place encoded body) else None
  end.

(* ---------------- generic list helpers ---------------- *)
Fixpoint sequence {A} (l : list (option A)) : option (list A) :=
  match l with
  | [] => Some []
  | None :: _ => None
  | Some x :: t => match sequence t with Some r => Some (x :: r) | None => None end
  end.

Fixpoint intercalate {A} (sep : list A) (l : list (list A)) : list A :=
  match l with
  | [] => []
  | [x] => x
  | x :: t => x ++ sep ++ intercalate sep t
  end.

(* the static sanitisation mode after an instruction: only <chunked> boundaries change it *)
Definition instr_mode (i : einstr) (san : bool) : bool := match i with ESetMode b => b | _ => san end.
Definition mode_after (is : list einstr) (san : bool) : bool := fold_left (fun s i => instr_mode i s) is san.

Section WithRec.
  (* encoding of a struct-typed value one level down, in a given static mode *)
  Variable rec : string -> value -> bool -> option (list Z).

  Definition enc_value (ty : etype) (v : value) (len : option Z) (padded : bool) (offset : Z) (san : bool) : option (list Z) :=
    match ty with
    | EInt t => match v with
                | VInt z => enc_int t (z - offset)
                | VBool b => enc_int t ((if b then 1 else 0) - offset)
                | _ => None end
    | EBool t => enc_int t (if truthy v then 1 else 0)
    | EEnum _ t => match v with
                   | VInt z => enc_int t z
                   | VBool b => enc_int t (if b then 1 else 0)
                   | _ => None end
    | EStr enc => match v with VStr s => enc_str san enc s len padded | _ => None end
    | EBlob => match v with VBytes b => Some b | _ => None end
    | EStruct n => rec n v san
    end.

  (* arrays, closed form *)
  Definition join_elems (delimited trailing : bool) (bodies : list (list Z)) : list Z :=
    if delimited
    then if trailing then List.concat (map (fun b => b ++ [255]) bodies) else intercalate [255] bodies
    else List.concat bodies.

  Definition enc_elems (ty : etype) (delimited trailing : bool) (san : bool) (elems : list value) : option (list Z) :=
    match sequence (map (fun e => enc_value ty e None false 0 san) elems) with
    | Some bodies => Some (join_elems delimited trailing bodies)
    | None => None
    end.

  (* the element count an array declaration admits: a literal length exactly, a length reference at most
     what the length field can carry *)
  Definition array_count_ok (f : fieldspec) (elems : list value) : bool :=
    match f_len f with
    | LLit n => zlen elems =? n
    | LRef _ => zlen elems <=? f_maxlen f
    | LNone => true
    end.

  (* a named field's length expression *)
  Definition field_len (f : fieldspec) (v : value) : option Z :=
    match f_len f with LLit n => Some n | LRef _ => py_len v | LNone => None end.

  Definition len_ok (f : fieldspec) (v : value) : bool :=
    match len_check f v with Ok _ => true | Err _ => false end.

  (* result of one instruction: bytes and the new reached_missing_optional *)
  Definition enc_field (flds : list (string * value)) (f : fieldspec) (rmo san : bool) : option (list Z * bool) :=
    match f_name f with
    | None =>
      match f_hard f with
      | None => None
      | Some lit =>
        match lit_value (f_ty f) lit with
        | Err _ => None
        | Ok v =>
          match enc_value (f_ty f) v (match f_len f with LLit n => Some n | _ => None end) (f_padded f) 0 san with
          | Some out => Some (out, rmo)
          | None => None
          end
        end
      end
    | Some name =>
      match assoc flds name with
      | None => None
      | Some v =>
        let '(rmo', go) := opt_guard (f_optional f) (f_opt_first f) rmo v in
        if negb go then Some ([], rmo') else
        if negb (f_optional f) && (match f_hard f with None => true | Some _ => false end) && is_none v then None else
        if len_ok f v
        then match enc_value (f_ty f) v (field_len f v) (f_padded f) 0 san with
             | Some out => Some (out, rmo')
             | None => None
             end
        else None
      end
    end.

  Definition enc_array (flds : list (string * value)) (f : fieldspec) (delimited trailing : bool) (rmo san : bool)
    : option (list Z * bool) :=
    match f_name f with
    | None => None
    | Some name =>
      match assoc flds name with
      | None => None
      | Some v =>
        let '(rmo', go) := opt_guard (f_optional f) (f_opt_first f) rmo v in
        if negb go then Some ([], rmo') else
        match v with
        | VList elems =>
          if array_count_ok f elems
          then match enc_elems (f_ty f) delimited trailing san elems with
               | Some out => Some (out, rmo')
               | None => None
               end
          else None
        | _ => None          (* None for a required array; any non-list *)
        end
      end
    end.

  (* acc = the bytes this struct call has emitted so far (for a guarded <dummy>) *)
  Definition enc_instr (flds : list (string * value)) (i : einstr) (rmo san : bool) (acc : list Z) : option (list Z * bool) :=
    match i with
    | EField f => enc_field flds f rmo san
    | EArray f d t _ => enc_array flds f d t rmo san
    | ELength name t off optional opt_first ref_by =>
      match ref_by with
      | None => None
      | Some fr =>
        match assoc flds fr with
        | None => None
        | Some fv =>
          (* the slot holds len(referencing field), or None when that (optional) field is None: an optional length
             field is then skipped (and everything optional after it), a required one has no encoding *)
          match length_slot fv with
          | None => None
          | Some sv =>
            let '(rmo', go) := opt_guard optional opt_first rmo sv in
            if negb go then Some ([], rmo') else
            match sv with
            | VInt l => match enc_int t (l - off) with Some out => Some (out, rmo') | None => None end
            | _ => None
            end
          end
        end
      end
    | EDummy ty lit guarded =>
      if guarded && negb (match acc with [] => true | _ => false end) then Some ([], rmo) else
      match lit_value ty lit with
      | Err _ => None
      | Ok v => match enc_value ty v None false 0 san with Some out => Some (out, rmo) | None => None end
      end
    | ESwitch field cases =>
      match assoc flds field, assoc flds (field ++ "_data")%string with
      | Some fv, Some dv =>
        let z := match fv with VInt z => Some z | VBool b => Some (if b then 1 else 0) | _ => None end in
        match find_case cases z with
        | None => if is_none dv then Some ([], rmo) else None
        | Some c =>
          match c_cls c with
          | None => if is_none dv then Some ([], rmo) else None
          | Some cls =>
            match obj_class dv with
            | Some c' => if String.eqb c' cls
                         then match rec cls dv san with Some out => Some (out, rmo) | None => None end
                         else None
            | None => None
            end
          end
        end
      | _, _ => None
      end
    | ESetMode _ => Some ([], rmo)
    | EBreak => Some ([255], rmo)
    end.

  Fixpoint enc_instrs (flds : list (string * value)) (is : list einstr) (rmo san : bool) (acc : list Z) : option (list Z) :=
    match is with
    | [] => Some []
    | i :: t =>
      match enc_instr flds i rmo san acc with
      | None => None
      | Some (out, rmo') =>
        match enc_instrs flds t rmo' (instr_mode i san) (acc ++ out) with
        | Some out' => Some (out ++ out')
        | None => None
        end
      end
    end.

  Definition enc_body (d : sdef) (v : value) (san : bool) : option (list Z) :=
    match v with
    | VObj _ flds => enc_instrs flds (sd_body d) false san []
    | _ => match sd_body d with [] => Some [] | _ => None end
    end.
End WithRec.

Fixpoint enc_struct (fuel : nat) (E : env) (cls : string) (v : value) (san : bool) : option (list Z) :=
  match fuel with
  | O => None
  | S f => match env_find E cls with
           | Some d => enc_body (enc_struct f E) d v san
           | None => None
           end
  end.

(* the wire image of a value of class cls, for a writer entered in mode san *)
Definition encode (E : env) (cls : string) (v : value) (san : bool) : option (list Z) :=
  enc_struct (S (List.length E)) E cls v san.
