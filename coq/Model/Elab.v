(* Elaboration of raw eo-protocol XML into the flat instruction form, mirroring the code generator's acceptance
   rules (type_factory.py, object_code_generator.py, field_code_generator.py, switch_code_generator.py,
   code_generator.py) in the order the generator applies them.  Any Python exception = rejection (Err). *)
From EO Require Import Prelude.Py Model.Spec.
Open Scope string_scope.
Open Scope list_scope.
Open Scope Z_scope.

Definition reject {A} : res A := Err EValue.
Definition require {A} (o : option A) : res A := match o with Some x => Ok x | None => reject end.
Definition guard (b : bool) : res unit := if b then Ok tt else reject.

(* boolean attributes `optional` and `delimited` (get_boolean_attribute) *)
Definition flag_attr (a : option string) : bool := bool_attr a false.

(* ---------------- types ---------------- *)
Inductive rtype := RTEnum (e : renum) (path : string) | RTStruct (s : rstruct) (path : string).
Definition tenv := list (string * rtype).

Record tinfo := mkTI {
  ti_ty : etype;
  ti_fixed : option Z;
  ti_bounded : bool;
  ti_values : list (string * Z)        (* enum: declared (name, ordinal) *)
}.
Definition is_integer (t : tinfo) : option itype := match ti_ty t with EInt i => Some i | _ => None end.
Definition is_basic (t : tinfo) : bool := match ti_ty t with EInt _ | EBool _ | EStr _ => true | _ => false end.

Definition int_info (i : itype) : tinfo := mkTI (EInt i) (Some (itype_size i)) true [].

(* flatten as TypeFactory._flatten_instructions: an instruction, then (chunked) its body / (switch) its case bodies *)
Fixpoint flatten_instr (i : rinstr) : list rinstr :=
  match i with
  | RChunked body => i :: flat_map flatten_instr body
  | RSwitch _ cases => i :: flat_map (fun c => match c with RCase _ _ b => flat_map flatten_instr b end) cases
  | _ => [i]
  end.
Definition flatten (body : list rinstr) : list rinstr := flat_map flatten_instr body.

Fixpoint dup_free (l : list string) : bool :=
  match l with [] => true | x :: t => negb (mem_str x t) && dup_free t end.
Fixpoint zdup_free (l : list Z) : bool :=
  match l with [] => true | x :: t => negb (existsb (Z.eqb x) t) && zdup_free t end.

Definition python_name (n : string) : string := if String.eqb n "None" then "None_" else n.

Section Types.
  Variable T : tenv.

  Definition builtin_int (n : string) : option itype :=
    if String.eqb n "byte" then Some TByte else if String.eqb n "char" then Some TChar else
    if String.eqb n "short" then Some TShort else if String.eqb n "three" then Some TThree else
    if String.eqb n "int" then Some TInt else None.

  Definition is_string_name (n : string) : option bool :=
    if String.eqb n "string" then Some false else if String.eqb n "encoded_string" then Some true else None.

  (* _create_enum_type: `under` = underlying-type override *)
  Definition enum_values (e : renum) : res (list (string * Z)) :=
    let fix go (vs : list (option string * option string)) : res (list (string * Z)) :=
      match vs with
      | [] => Ok []
      | (n, t) :: rest =>
        do name <- require n;
        do ord <- require (try_parse_int t);
        do tl <- go rest;
        Ok ((name, ord) :: tl)
      end in
    do vals <- go (re_values e);
    do _ <- guard (zdup_free (map snd vals));
    do _ <- guard (dup_free (map (fun p => python_name (fst p)) vals));
    Ok vals.

  (* get_type(name, length): fuel bounds the depth of struct-in-struct resolution (cycles = RecursionError) *)
  Fixpoint get_type (fuel : nat) (name : string) (len : option string) : res tinfo :=
    match fuel with
    | O => reject
    | S fuel' =>
      match len with
      | Some l =>
        (* _create_type_with_specified_length *)
        match is_string_name name with
        | Some enc => Ok (mkTI (EStr enc) (parse_int l) true [])
        | None => reject
        end
      | None =>
        let '(base, under_name) := split_colon name in
        do under <-
          match under_name with
          | None => Ok None
          | Some un =>
            if has_colon un then reject else
            if String.eqb base un then reject else
            do ut <- get_type fuel' un None;
            match is_integer ut with Some i => Ok (Some i) | None => reject end
          end;
        match builtin_int base with
        | Some i => match under with Some _ => reject | None => Ok (int_info i) end
        | None =>
          if String.eqb base "bool" then
            let u := match under with Some i => i | None => TChar end in
            Ok (mkTI (EBool u) (Some (itype_size u)) true [])
          else match is_string_name base with
          | Some enc => match under with Some _ => reject | None => Ok (mkTI (EStr enc) None false []) end
          | None =>
            if String.eqb base "blob" then match under with Some _ => reject | None => Ok (mkTI EBlob None false []) end
            else
              match assoc T base with
              | None => reject
              | Some (RTEnum e _) =>
                do ename <- require (re_name e);
                do u <- match under with
                        | Some i => Ok i
                        | None =>
                          do tn <- require (re_type e);
                          if String.eqb ename tn then reject else
                          do ut <- get_type fuel' tn None;
                          require (is_integer ut)
                        end;
                do vals <- enum_values e;
                Ok (mkTI (EEnum ename u) (Some (itype_size u)) true vals)
              | Some (RTStruct s _) =>
                do sname <- require (rs_name s);
                let flat := flatten (rs_body s) in
                (* _calculate_fixed_struct_size *)
                let fix fixed (is : list rinstr) (acc : Z) : res (option Z) :=
                  match is with
                  | [] => Ok (Some acc)
                  | i :: rest =>
                    match i with
                    | RField _ ty l _ opt _ =>
                      do tn <- require ty;
                      do t <- get_type fuel' tn l;
                      match ti_fixed t with
                      | None => Ok None
                      | Some sz => if flag_attr opt then Ok None else fixed rest (acc + sz)
                      end
                    | RArray _ ty l opt delim _ =>
                      match try_parse_int l with
                      | None => Ok None
                      | Some n =>
                        do tn <- require ty;
                        do t <- get_type fuel' tn None;
                        match ti_fixed t with
                        | None => Ok None
                        | Some sz => if flag_attr opt || flag_attr delim then Ok None else fixed rest (acc + n * sz)
                        end
                      end
                    | RDummy ty _ =>
                      do tn <- require ty;
                      do t <- get_type fuel' tn None;
                      match ti_fixed t with None => Ok None | Some sz => fixed rest (acc + sz) end
                    | RChunked _ => Ok None
                    | RSwitch _ _ => Ok None
                    | _ => fixed rest acc
                    end
                  end in
                (* _is_bounded *)
                let fix bounded (is : list rinstr) (result : bool) : res bool :=
                  match is with
                  | [] => Ok result
                  | i :: rest =>
                    if negb result then bounded rest (match i with RBreak => true | _ => false end) else
                    match i with
                    | RField _ ty l _ _ _ =>
                      do tn <- require ty; do t <- get_type fuel' tn l; bounded rest (ti_bounded t)
                    | RArray _ ty l _ _ _ =>
                      do tn <- require ty; do t <- get_type fuel' tn None;
                      bounded rest (ti_bounded t && match l with Some _ => true | None => false end)
                    | RDummy ty _ =>
                      do tn <- require ty; do t <- get_type fuel' tn None; bounded rest (ti_bounded t)
                    | _ => bounded rest result
                    end
                  end in
                do fx <- fixed flat 0;
                do bd <- bounded flat true;
                match under with
                | Some _ => reject      (* a struct has no underlying type *)
                | None => Ok (mkTI (EStruct sname) fx bd [])
                end
              end
          end
        end
      end
    end.
End Types.

(* ---------------- object generation ---------------- *)
Record fdata := mkFD { fd_ti : tinfo; fd_offset : Z; fd_array : bool }.
Record ctx := mkCtx {
  cx_chunked : bool; cx_ropt : bool; cx_rdummy : bool;
  cx_fields : list (string * fdata);
  cx_lenmap : list (string * bool);
  cx_emitted : bool          (* something was already emitted into this class's serialize/deserialize *)
}.
Definition ctx0 : ctx := mkCtx false false false [] [] false.

Fixpoint lenmap_mark (m : list (string * bool)) (k : string) : list (string * bool) :=
  match m with [] => [] | (k', b) :: t => if String.eqb k' k then (k', true) :: t else (k', b) :: lenmap_mark t k end.

Definition upper_ascii (c : ascii) : ascii :=
  let n := nat_of_ascii c in if (97 <=? n)%nat && (n <=? 122)%nat then ascii_of_nat (n - 32) else c.
(* snake_case_to_pascal_case *)
Fixpoint snake_to_pascal (s : string) (up : bool) : string :=
  match s with
  | EmptyString => EmptyString
  | String "_" t => snake_to_pascal t true
  | String c t => String (if up then upper_ascii c else lower_ascii c) (snake_to_pascal t false)
  end.

Section Gen.
  Variable T : tenv.
  Variable tfuel : nat.
  Definition gt := get_type T tfuel.

  (* _validate_length_attribute *)
  Definition check_length_attr (c : ctx) (len : option string) : res unit :=
    match len with
    | None => Ok tt
    | Some l =>
      do _ <- guard (isdigit l || match assoc (cx_lenmap c) l with Some _ => true | None => false end);
      guard (negb (match assoc (cx_lenmap c) l with Some b => b | None => false end))
    end.

  Definition elab_len (c : ctx) (len : option string) : res (elen * Z) :=
    match len with
    | None => Ok (LNone, 0)
    | Some l =>
      if isdigit l then Ok (LLit (digits_val l 0), 0) else
      (* _check_field_accessible + max value of the length field's type + offset *)
      match assoc (cx_fields c) l with
      | None => reject
      | Some fd => match is_integer (fd_ti fd) with
                   | Some i => Ok (LRef l, itype_max i + fd_offset fd)
                   | None => reject
                   end
      end
    end.

  (* value expression of an unnamed hardcoded field (_get_write_value_expression) *)
  Definition check_unnamed_literal (t : tinfo) (lit : string) : res unit :=
    match ti_ty t with
    | EInt _ => guard (isdigit lit)
    | EBool _ => guard (String.eqb lit "false" || String.eqb lit "true")
    | EStr _ => Ok tt
    | _ => reject
    end.

  (* _validate_hardcoded_value *)
  Definition check_hardcoded (t : tinfo) (len : option string) (hard : option string) : res unit :=
    match hard with
    | None => Ok tt
    | Some lit =>
      do _ <- match ti_ty t with
              | EStr _ => match try_parse_int len with Some n => guard (n =? str_len lit) | None => Ok tt end
              | _ => Ok tt
              end;
      guard (is_basic t)
    end.

  Definition elab_field (c : ctx) (name ty len padded optional text : option string) : res (ctx * list einstr) :=
    let opt := flag_attr optional in
    do _ <- guard (negb (cx_ropt c && negb opt));                        (* _check_optional_field *)
    do tn <- require ty;
    let pad := bool_attr padded false in
    do _ <- guard (negb (opt && match name with None => true | Some _ => false end));
    do _ <- match name with None => (do _ <- require text; guard (negb opt)) | Some _ => Ok tt end;   (* _validate_unnamed_field *)
    do t <- match text with Some _ => gt tn len | None => Ok (int_info TChar) end;   (* hardcoded: resolve first *)
    do _ <- check_hardcoded t len text;
    do _ <- match name with Some n => guard (negb (match assoc (cx_fields c) n with Some _ => true | None => false end)) | None => Ok tt end;
    do _ <- check_length_attr c len;
    do t <- gt tn len;
    do _ <- match text with Some lit => check_unnamed_literal t lit | None => Ok tt end;   (* hardcoded literals are type-checked, named or not *)
    do lm <- elab_len c len;
    let '(l, maxlen) := lm in
    let f := mkField name (ti_ty t) l pad opt (negb (cx_ropt c)) text maxlen in
    let fields' := match name with Some n => cx_fields c ++ [(n, mkFD t 0 false)] | None => cx_fields c end in
    let lenmap' := match name, len with
                   | Some _, Some ln => lenmap_mark (cx_lenmap c) ln
                   | _, _ => cx_lenmap c end in
    Ok (mkCtx (cx_chunked c) (cx_ropt c || opt) (cx_rdummy c) fields' lenmap' true, [EField f]).

  Definition elab_array (c : ctx) (name ty len optional delimited trailing : option string) : res (ctx * list einstr) :=
    let opt := flag_attr optional in
    do _ <- guard (negb (cx_ropt c && negb opt));
    let delim := flag_attr delimited in
    do _ <- guard (negb (delim && negb (cx_chunked c)));
    do n <- require name;
    do tn <- require ty;
    let trail := bool_attr trailing true in
    do t <- gt tn None;
    do _ <- guard (delim || ti_bounded t);
    do _ <- guard (negb (match assoc (cx_fields c) n with Some _ => true | None => false end));
    do _ <- check_length_attr c len;
    do lm <- elab_len c len;
    let '(l, maxlen) := lm in
    let count := match l with
                 | LNone => if delim then ACWhile else match ti_fixed t with Some sz => ACRemaining sz | None => ACWhile end
                 | _ => ACExpr end in
    let f := mkField (Some n) (ti_ty t) l false opt (negb (cx_ropt c)) None maxlen in
    let lenmap' := match len with Some ln => lenmap_mark (cx_lenmap c) ln | None => cx_lenmap c end in
    Ok (mkCtx (cx_chunked c) (cx_ropt c || opt) (cx_rdummy c) (cx_fields c ++ [(n, mkFD t 0 true)]) lenmap' true,
        [EArray f delim trail count]).

  Definition elab_length (c : ctx) (name ty offset optional : option string) : res (ctx * list einstr) :=
    let opt := flag_attr optional in
    do _ <- guard (negb (cx_ropt c && negb opt));
    do n <- require name;
    do tn <- require ty;
    do off <- match offset with None => Ok 0 | Some o => require (parse_int o) end;
    do t <- gt tn None;
    do i <- require (is_integer t);
    do _ <- guard (negb (match assoc (cx_fields c) n with Some _ => true | None => false end));
    Ok (mkCtx (cx_chunked c) (cx_ropt c || opt) (cx_rdummy c) (cx_fields c ++ [(n, mkFD t off false)])
              (cx_lenmap c ++ [(n, false)]) true,
        [ELength n i off opt (negb (cx_ropt c)) None]).

  Definition elab_dummy (c : ctx) (ty text : option string) : res (ctx * list einstr) :=
    do tn <- require ty;
    do lit <- require text;
    do t <- gt tn None;
    do _ <- check_hardcoded t None text;
    do _ <- check_unnamed_literal t lit;
    Ok (mkCtx (cx_chunked c) (cx_ropt c) true (cx_fields c) (cx_lenmap c) true, [EDummy (ti_ty t) lit (cx_emitted c)]).

  (* _get_case_value_expression: the integer the case compares the field with *)
  Definition case_value (c : ctx) (field : string) (value : option string) : res Z :=
    do fd <- require (assoc (cx_fields c) field);
    do _ <- guard (negb (fd_array fd));
    do v <- require value;
    match ti_ty (fd_ti fd) with
    | EInt _ => do _ <- guard (isdigit v); Ok (digits_val v 0)
    | EEnum _ _ =>
      match parse_int v with
      | Some z => do _ <- guard (negb (existsb (fun p => snd p =? z) (ti_values (fd_ti fd)))); Ok z
      | None => require (assoc (ti_values (fd_ti fd)) v)
      end
    | _ => reject
    end.

  (* the instruction list of one class body; returns the final context, the flat instructions and the case classes *)
  Fixpoint elab_instrs (fuel : nat) (cls : string) (c : ctx) (is : list rinstr) : res (ctx * list einstr * list sdef) :=
    match fuel with
    | O => reject
    | S fuel' =>
      match is with
      | [] => Ok (c, [], [])
      | i :: rest =>
        do _ <- guard (negb (cx_rdummy c));          (* generate_instruction: nothing may follow a <dummy> *)
        do r1 <-
          match i with
          | RField n ty l p o tx => do x <- elab_field c n ty l p o tx; Ok (fst x, snd x, [])
          | RArray n ty l o d tr => do x <- elab_array c n ty l o d tr; Ok (fst x, snd x, [])
          | RLength n ty off o => do x <- elab_length c n ty off o; Ok (fst x, snd x, [])
          | RDummy ty tx => do x <- elab_dummy c ty tx; Ok (fst x, snd x, [])
          | RBreak =>
            do _ <- guard (cx_chunked c);
            Ok (mkCtx true false false (cx_fields c) (cx_lenmap c) true, [EBreak], [])
          | RChunked body =>
            let was := cx_chunked c in
            let c1 := mkCtx true (cx_ropt c) (cx_rdummy c) (cx_fields c) (cx_lenmap c) (cx_emitted c || negb was) in
            do x <- elab_instrs fuel' cls c1 body;
            let '(c2, es, aux) := x in
            let c3 := mkCtx was (cx_ropt c2) (cx_rdummy c2) (cx_fields c2) (cx_lenmap c2) (cx_emitted c2) in
            Ok (c3, (if was then es else ESetMode true :: es ++ [ESetMode false]), aux)
          | RSwitch field cases =>
            do fname <- require field;
            let iface := (snake_to_pascal fname true ++ "Data")%string in
            let fix go (cs : list rcase) (start : bool) (ropt rdummy : bool) : res (list ecase * list sdef * bool * bool) :=
              match cs with
              | [] => Ok ([], [], ropt, rdummy)
              | RCase value default body :: more =>
                let dflt := bool_attr default false in
                do suffix <- (if dflt then Ok "Default" else require value);
                let ccls := (cls ++ "." ++ iface ++ suffix)%string in
                do _ <- guard (negb (dflt && start));
                do key <- (if dflt then (do _ <- require (assoc (cx_fields c) fname); Ok CKDefault)
                           else (do z <- case_value c fname value; Ok (CKValue z)));
                let cc := mkCtx (cx_chunked c) (cx_ropt c) (cx_rdummy c) [] [] false in
                do x <- match body with
                        | [] => Ok (cc, None, [])
                        | _ => do y <- elab_instrs fuel' ccls cc body;
                               let '(c', es, aux) := y in Ok (c', Some ccls, mkSDef ccls es :: aux)
                        end;
                let '(c', ocls, defs) := x in
                do tl <- go more false (ropt || cx_ropt c') (rdummy || cx_rdummy c');
                let '(ecs, defs', ro, rd) := tl in
                Ok (mkCase key ocls :: ecs, defs ++ defs', ro, rd)
              end in
            do x <- go cases true (cx_ropt c) (cx_rdummy c);
            let '(ecs, defs, ro, rd) := x in
            Ok (mkCtx (cx_chunked c) ro rd (cx_fields c) (cx_lenmap c) true, [ESwitch fname ecs], defs)
          end;
        let '(c', es, aux) := r1 in
        do r2 <- elab_instrs fuel' cls c' rest;
        let '(c'', es', aux') := r2 in
        Ok (c'', es ++ es', aux ++ aux')
      end
    end.

  (* the constructor assigns a length field's slot when a later field of the same class references it *)
  Fixpoint find_ref (name : string) (is : list einstr) : option string :=
    match is with
    | [] => None
    | EField f :: t | EArray f _ _ _ :: t =>
      match f_len f, f_name f with
      | LRef l, Some n => if String.eqb l name then Some n else find_ref name t
      | _, _ => find_ref name t
      end
    | _ :: t => find_ref name t
    end.
  Fixpoint fix_refs (all : list einstr) (is : list einstr) : list einstr :=
    match is with
    | [] => []
    | ELength n t off o of _ :: rest => ELength n t off o of (find_ref n all) :: fix_refs all rest
    | i :: rest => i :: fix_refs all rest
    end.
  Definition fix_def (d : sdef) : sdef := mkSDef (sd_name d) (fix_refs (sd_body d) (sd_body d)).

  Fixpoint instr_size (i : rinstr) : nat :=
    match i with
    | RChunked b => S (fold_right (fun x a => instr_size x + a)%nat O b)
    | RSwitch _ cs => S (fold_right (fun c a => match c with RCase _ _ b => S (fold_right (fun x a' => instr_size x + a')%nat O b) end + a)%nat O cs)
    | _ => 1%nat
    end.
  Definition body_fuel (b : list rinstr) : nat := S (S (fold_right (fun x a => (2 * instr_size x + a)%nat) O b)).

  Definition elab_object (cls : string) (body : list rinstr) : res (list sdef) :=
    do x <- elab_instrs (body_fuel body) cls ctx0 body;
    let '(_, es, aux) := x in
    Ok (map fix_def (mkSDef cls es :: aux)).
End Gen.

(* ---------------- files ---------------- *)
Definition index_file (T : tenv) (f : rfile) : res tenv :=
  let fix enums (T : tenv) (l : list renum) : res tenv :=
    match l with
    | [] => Ok T
    | e :: t => do n <- require (re_name e);
                do _ <- guard (negb (match assoc T n with Some _ => true | None => false end));
                enums (T ++ [(n, RTEnum e (rf_path f))]) t
    end in
  let fix structs (T : tenv) (l : list rstruct) : res tenv :=
    match l with
    | [] => Ok T
    | s :: t => do n <- require (rs_name s);
                do _ <- guard (negb (match assoc T n with Some _ => true | None => false end));
                structs (T ++ [(n, RTStruct s (rf_path f))]) t
    end in
  do T1 <- enums T (rf_enums f);
  do T2 <- structs T1 (rf_structs f);
  let fix packets (seen : list string) (l : list rpacket) : res unit :=
    match l with
    | [] => Ok tt
    | p :: t => do fa <- require (rp_family p); do ac <- require (rp_action p);
                let id := (fa ++ "_" ++ ac)%string in
                do _ <- guard (negb (mem_str id seen));
                packets (id :: seen) t
    end in
  do _ <- packets [] (rf_packets f);
  Ok T2.

Fixpoint index_files (T : tenv) (fs : list rfile) : res tenv :=
  match fs with [] => Ok T | f :: t => do T' <- index_file T f; index_files T' t end.

Definition packet_suffix (path : string) : res string :=
  if String.eqb path "net/client" then Ok "ClientPacket" else
  if String.eqb path "net/server" then Ok "ServerPacket" else reject.

Definition gen_file (T : tenv) (tfuel : nat) (f : rfile) : res (list sdef * list penum * list ppacket * list string) :=
  let fix enums (l : list renum) : res (list penum) :=
    match l with
    | [] => Ok []
    | e :: t => do n <- require (re_name e);
                do ti <- get_type T tfuel n None;
                do pe <- match ti_ty ti with
                         | EEnum en u => if String.eqb en n then Ok (mkPEnum n u (ti_values ti)) else reject
                         | _ => reject end;
                do tl <- enums t; Ok (pe :: tl)
    end in
  let fix structs (l : list rstruct) : res (list sdef * list string) :=
    match l with
    | [] => Ok ([], [])
    | s :: t => do n <- require (rs_name s);
                do ti <- get_type T tfuel n None;
                do _ <- match ti_ty ti with EStruct sn => guard (String.eqb sn n) | _ => reject end;
                do defs <- elab_object T tfuel n (rs_body s);
                do tl <- structs t; Ok (defs ++ fst tl, n :: snd tl)
    end in
  let fix packets (l : list rpacket) : res (list sdef * list ppacket * list string) :=
    match l with
    | [] => Ok ([], [], [])
    | p :: t => do suffix <- packet_suffix (rf_path f);
                do fa <- require (rp_family p); do ac <- require (rp_action p);
                let cls := (fa ++ ac ++ suffix)%string in
                do fam <- get_type T tfuel "PacketFamily" None;
                do _ <- match ti_ty fam with EEnum _ _ => Ok tt | _ => reject end;
                do act <- get_type T tfuel "PacketAction" None;
                do _ <- match ti_ty act with EEnum _ _ => Ok tt | _ => reject end;
                do fv <- require (assoc (ti_values fam) fa);
                do av <- require (assoc (ti_values act) ac);
                do defs <- elab_object T tfuel cls (rp_body p);
                do tl <- packets t;
                let '(ds, ps, ns) := tl in
                Ok (defs ++ ds, mkPPacket cls fv av :: ps, cls :: ns)
    end in
  do es <- enums (rf_enums f);
  do ss <- structs (rf_structs f);
  do ps <- packets (rf_packets f);
  let '(pd, pp, pn) := ps in
  Ok (fst ss ++ pd, es, pp, map pe_name es ++ snd ss ++ pn).

Definition elab (fs : list rfile) : res pkg :=
  do T <- index_files [] fs;
  let tfuel := S (S (List.length T)) in
  let fix go (l : list rfile) : res pkg :=
    match l with
    | [] => Ok (mkPkg [] [] [] [])
    | f :: t => do x <- gen_file T tfuel f;
                let '(defs, es, ps, names) := x in
                do p <- go t;
                Ok (mkPkg (defs ++ pk_env p) (es ++ pk_enums p) (ps ++ pk_packets p) ((rf_path f, names) :: pk_files p))
    end in
  go fs.

Definition accepts (fs : list rfile) : bool := match elab fs with Ok _ => true | Err _ => false end.
