(* Model of protocol enums: IntEnum classes whose metaclass (src/eolib/protocol/protocol_enum_meta.py) turns the
   ValueError of an unknown ordinal into an "Unrecognized(n)" pseudo-member that is NOT registered in the class. *)
From EO Require Import Prelude.Py Model.Spec.
From Coq Require Import DecimalString.
Open Scope Z_scope.

(* class state as CPython keeps it: the ordered members (declaration order; later duplicates of an ordinal are aliases
   of the first) and the value -> member map used by the lookup *)
Record ecls := mkECls { ec_members : list (string * Z); ec_v2m : list (Z * nat) }.

Fixpoint first_index (n : Z) (l : list (string * Z)) (i : nat) : option nat :=
  match l with [] => None | (_, v) :: t => if v =? n then Some i else first_index n t (S i) end.
(* the class created from a declaration: canonical members are the first of each ordinal *)
Fixpoint canon_members (l : list (string * Z)) (seen : list Z) : list (string * Z) :=
  match l with
  | [] => []
  | (nm, v) :: t => if existsb (Z.eqb v) seen then canon_members t seen else (nm, v) :: canon_members t (v :: seen)
  end.
Definition mk_class (decl : list (string * Z)) : ecls :=
  let ms := canon_members decl [] in
  mkECls ms (map (fun p => (snd (snd p), fst p)) (combine (seq 0 (List.length ms)) ms)).

Inductive eval := Member (idx : nat) | Unrecognized (n : Z).

Fixpoint v2m_find (m : list (Z * nat)) (n : Z) : option nat :=
  match m with [] => None | (v, i) :: t => if v =? n then Some i else v2m_find t n end.

(* E(n): the metaclass __call__; returns the (unchanged) class state and the value *)
Definition ecall (c : ecls) (n : Z) : ecls * eval :=
  match v2m_find (ec_v2m c) n with
  | Some i => (c, Member i)
  | None => (c, Unrecognized n)        (* int.__new__(cls, n): nothing is registered *)
  end.

Definition e_int (c : ecls) (v : eval) : Z :=
  match v with Member i => snd (nth i (ec_members c) (EmptyString, 0)) | Unrecognized n => n end.
Definition dec (n : Z) : string := NilZero.string_of_int (Z.to_int n).
Definition e_name (c : ecls) (v : eval) : string :=
  match v with
  | Member i => fst (nth i (ec_members c) (EmptyString, 0))
  | Unrecognized n => ("Unrecognized(" ++ dec n ++ ")")%string
  end.

(* a history of constructions *)
Fixpoint ecalls (c : ecls) (ns : list Z) : ecls * list eval :=
  match ns with
  | [] => (c, [])
  | n :: t => let '(c1, v) := ecall c n in let '(c2, vs) := ecalls c1 t in (c2, v :: vs)
  end.

(* observation compared with CPython: (is a declared member?, index, name, int value) *)
Definition e_obs (c : ecls) (v : eval) : bool * Z * string * Z :=
  match v with
  | Member i => (true, Z.of_nat i, e_name c v, e_int c v)
  | Unrecognized n => (false, -1, e_name c v, n)
  end.

(* ---- correspondence helpers (engine E1) ---- *)
Definition obs_eqb (a b : bool * Z * string * Z) : bool :=
  let '(m1, i1, n1, v1) := a in let '(m2, i2, n2, v2) := b in
  Bool.eqb m1 m2 && (i1 =? i2) && String.eqb n1 n2 && (v1 =? v2).
Fixpoint members_eqb (a b : list (string * Z)) : bool :=
  match a, b with
  | [], [] => true
  | (n1, v1) :: t1, (n2, v2) :: t2 => String.eqb n1 n2 && (v1 =? v2) && members_eqb t1 t2
  | _, _ => false
  end.
Fixpoint all_obs_eqb (a b : list (bool * Z * string * Z)) : bool :=
  match a, b with [], [] => true | x :: t1, y :: t2 => obs_eqb x y && all_obs_eqb t1 t2 | _, _ => false end.
(* declaration, calls, observed per call, members observed after all calls *)
Definition enum_check (c : list (string * Z) * list Z * list (bool * Z * string * Z) * list (string * Z)) : bool :=
  let '(decl, ns, exp, mem) := c in
  let '(c', vs) := ecalls (mk_class decl) ns in
  all_obs_eqb (map (e_obs c') vs) exp && members_eqb (ec_members c') mem.
