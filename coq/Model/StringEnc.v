(* Model of src/eolib/data/string_encoding_utils.py *)
From EO Require Import Prelude.Py.
Open Scope Z_scope.

(* per-byte reflection: 0x9F - c, shifted by +/-0x2E on "flippy" positions (sign chosen at 0x50),
   applied only to 0x22..0x7E *)
Definition inv_byte (flip : bool) (c : Z) : Z :=
  if (34 <=? c) && (c <=? 126)
  then 159 - c - (if flip then (if c >=? 80 then -46 else 46) else 0)
  else c.

Fixpoint invert_from (flip : bool) (l : list Z) : list Z :=
  match l with
  | [] => []
  | c :: t => inv_byte flip c :: invert_from (negb flip) t
  end.

Definition invert (l : list Z) : list Z := invert_from (zlen l mod 2 =? 1) l.
Definition encode_string (l : list Z) : list Z := rev (invert l).
Definition decode_string (l : list Z) : list Z := invert (rev l).
