From EO Require Import Prelude.Py.
Open Scope Z_scope.
Definition CHAR_MAX : Z := 253.
Definition SHORT_MAX : Z := 64009.
Definition THREE_MAX : Z := 16194277.
Definition INT_MAX : Z := 4097152081.
