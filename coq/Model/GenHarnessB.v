(* C01 correspondence with the stage-B side conditions (chunked sections included). *)
From EO Require Import Prelude.Py Prelude.Corr Model.Spec Model.Elab Model.WireOk Model.WireOkB Model.GenHarness.
Open Scope Z_scope.

(* per case: (inside the theorem's domain?, model round trip ok?, what the generated code did) *)
Definition c01_caseB (p : pkg) (c : string * value * bool) : bool * bool * bool :=
  let '(cls, v, impl_ok) := c in
  let E := pk_env p in
  (wire_okB E cls && valid_okB E cls v, round_ok E cls v, impl_ok).
(* -> (cases inside the stage-B domain, cases inside the stage-A domain,
       indices where a case inside the domain does not round-trip in the model or in the implementation,
       indices where model and implementation disagree about round-tripping at all) *)
Definition tree_c01B (files : list rfile) (cases : list (string * value * bool)) : Z * Z * list Z * list Z :=
  match elab files with
  | Err _ => (-1, -1, [], [])
  | Ok p =>
    let rs := map (c01_caseB p) cases in
    (zlen (List.filter (fun r => fst (fst r)) rs),
     zlen (List.filter (fun c => let '(cls, v, _) := c in wire_ok (pk_env p) cls && valid_obj (S (List.length (pk_env p))) (pk_env p) cls v) cases),
     failing (fun r => negb (fst (fst r)) || (snd (fst r) && snd r)) rs 0,
     failing (fun r => Bool.eqb (snd (fst r)) (snd r)) rs 0)
  end.

(* per top-level class: does the termination theorem (C03_terminates_core) apply, entered non-chunked / chunked *)
From EO Require Import Model.Progress Model.WfEnv.
Definition tree_progress (files : list rfile) : list (string * bool * bool) :=
  match elab files with
  | Err _ => []
  | Ok p => map (fun n => (n, progress_okT (pk_env p) n false, progress_okT (pk_env p) n true))
                (List.filter (fun n => match env_find (pk_env p) n with Some _ => true | None => false end) (top_classes p))
  end.
