(* windows-1252 with errors='replace', as CPython's codec behaves (table validated against CPython on every run).
   str = list of code points; one byte per code point. *)
From EO Require Import Prelude.Py.
Open Scope Z_scope.

(* bytes 0x80..0x9F; None = undefined in windows-1252 (decodes to U+FFFD under 'replace') *)
Definition cp_table : list (option Z) :=
  [Some 8364; None; Some 8218; Some 402; Some 8222; Some 8230; Some 8224; Some 8225; Some 710; Some 8240; Some 352;
   Some 8249; Some 338; None; Some 381; None; None; Some 8216; Some 8217; Some 8220; Some 8221; Some 8226; Some 8211;
   Some 8212; Some 732; Some 8482; Some 353; Some 8250; Some 339; None; Some 382; Some 376].

Fixpoint tfind (c : Z) (t : list (option Z)) (i : Z) : option Z :=
  match t with
  | [] => None
  | Some x :: t' => if x =? c then Some i else tfind c t' (i + 1)
  | None :: t' => tfind c t' (i + 1)
  end.

(* one code point -> one byte; '?' (63) when the code point has no windows-1252 byte *)
Definition cp_enc (c : Z) : Z :=
  if (0 <=? c) && (c <? 128) then c
  else if (160 <=? c) && (c <=? 255) then c
  else match tfind c cp_table 128 with Some b => b | None => 63 end.

Definition cp_dec (b : Z) : Z :=
  if (b <? 128) then b
  else if (160 <=? b) then b
  else match nth (Z.to_nat (b - 128)) cp_table None with Some c => c | None => 65533 end.

Definition cp_encode (s : list Z) : list Z := map cp_enc s.
Definition cp_decode (bs : list Z) : list Z := map cp_dec bs.

(* what a code point looks like after a trip through windows-1252 *)
Definition cp_encodable (c : Z) : bool :=
  ((0 <=? c) && (c <? 128)) || ((160 <=? c) && (c <=? 255)) || match tfind c cp_table 128 with Some _ => true | None => false end.
Definition cp_image (c : Z) : Z := if cp_encodable c then c else 63.
