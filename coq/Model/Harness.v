(* Executable observers used by the correspondence checks (engine E1/E2): traces of the writer / reader models
   in the shape the Python harness records from the implementation, and boolean comparisons. *)
From EO Require Import Prelude.Py Prelude.Corr Model.Number Model.StringEnc Model.Cp1252 Model.Writer Model.Reader Model.ReaderSpec Model.Items.
Open Scope Z_scope.

(* ---- writer: after every op (failing ones included): outcome, full contents, mode ---- *)
Definition wobs := (res unit * list Z * bool)%type.
Definition wobs_eqb (a b : wobs) : bool :=
  let '(r1, d1, s1) := a in let '(r2, d2, s2) := b in
  res_eqb unit_eqb r1 r2 && list_eqb d1 d2 && Bool.eqb s1 s2.
Fixpoint wtrace (w : wstate) (ops : list wop) : list wobs :=
  match ops with
  | [] => []
  | o :: t => let '(w', r) := wstep w o in (r, wdata w', wsan w') :: wtrace w' t
  end.
Definition wcheck (c : list wop * list wobs) : bool := listx_eqb wobs_eqb (wtrace initW (fst c)) (snd c).

(* ---- reader: after every op: output, then position / remaining / mode of the addressed reader ---- *)
Definition rout_eqb (a b : rout) : bool :=
  match a, b with
  | OZ x, OZ y => x =? y
  | OBytes x, OBytes y => list_eqb x y
  | OStr x, OStr y => list_eqb x y
  | OBool x, OBool y => Bool.eqb x y
  | OUnit, OUnit => true
  | ONew, ONew => true
  | OErr e, OErr f => err_eqb e f
  | _, _ => false
  end.
Definition robs := (rout * Z * Z * bool)%type.
Definition robs_eqb (a b : robs) : bool :=
  let '(o1, p1, m1, c1) := a in let '(o2, p2, m2, c2) := b in
  rout_eqb o1 o2 && (p1 =? p2) && (m1 =? m2) && Bool.eqb c1 c2.

Fixpoint rtrace (pool : list rstate) (ops : list (nat * rop)) : list robs :=
  match ops with
  | [] => []
  | (h, o) :: t =>
    match nth_error pool h with
    | None => (OErr EType, 0, 0, false) :: rtrace pool t
    | Some r =>
      let '(r', out, newr) := rstep r o in
      let pool' := upd pool h r' in
      let pool' := match newr with Some n => pool' ++ [n] | None => pool' end in
      (out, rpos r', r_remaining r', rchunked r') :: rtrace pool' t
    end
  end.
Fixpoint atrace (pool : list astate) (ops : list (nat * rop)) : list robs :=
  match ops with
  | [] => []
  | (h, o) :: t =>
    match nth_error pool h with
    | None => (OErr EType, 0, 0, false) :: atrace pool t
    | Some a =>
      let '(a', out, newa) := astep a o in
      let pool' := upd pool h a' in
      let pool' := match newa with Some n => pool' ++ [n] | None => pool' end in
      (out, apos a', a_remaining a', achunked a') :: atrace pool' t
    end
  end.
Definition rcheck (c : list Z * list (nat * rop) * list robs) : bool :=
  let '(d, ops, obs) := c in listx_eqb robs_eqb (rtrace [initR d] ops) obs.
Definition acheck (c : list Z * list (nat * rop) * list robs) : bool :=
  let '(d, ops, obs) := c in listx_eqb robs_eqb (atrace [initA d] ops) obs.

(* ---- items (C04): writer bytes and reader outputs for an item list ---- *)
Definition items_run (san : bool) (its : list item) : list (res unit) * list Z * list rout :=
  let '(w, rs) := wrun (mkW [] san) (map write_op its) in
  let '(_, outs) := read_items (initR (wdata w)) its in (rs, wdata w, outs).
Definition items_check (c : list item * (list (res unit) * list Z * list rout)) : bool :=
  let '(its, (rs, d, outs)) := c in
  let '(rs', d', outs') := items_run false its in
  listx_eqb (res_eqb unit_eqb) rs' rs && list_eqb d' d && listx_eqb rout_eqb outs' outs.

(* ---- chunks (C06): chunks of items written with sanitisation on, joined by breaks; plans per chunk ---- *)
Definition chunk_bytes (its : list item) : list Z := wdata (fst (wrun (mkW [] true) (map write_op its))).
Definition chunks_run (chunks : list (list item)) (plans : list (list rop)) : list Z * list (list rout) :=
  let d := join_chunks (map chunk_bytes chunks) in
  (d, run_chunks (r_set_chunked (initR d) true) plans).
Definition chunks_check (c : list (list item) * list (list rop) * (list Z * list (list rout))) : bool :=
  let '(chunks, plans, (d, outs)) := c in
  let '(d', outs') := chunks_run chunks plans in
  list_eqb d' d && listx_eqb (listx_eqb rout_eqb) outs' outs.
