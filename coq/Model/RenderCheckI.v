(* The executable comparison used by the harness (tools/gencheck.py render_stream), `__init__` side: the parameter list and the
   statements tools/py2stmt.py (class IParser) parsed from the text of every generated `__init__` against `render_init` of the same
   class's body in `elab tree`, and the static side condition of the theorems of Proofs/RenderInit.v.
   Soundness of the boolean equalities is proved in Proofs/RenderInit.v. *)
From EO Require Import Prelude.Py Prelude.Corr Model.Spec Model.Elab Model.PyStmt Model.PyStmtR Model.RenderDeser Model.RenderCheck Model.RenderInit.
Open Scope string_scope.
Open Scope list_scope.
Open Scope Z_scope.

Fixpoint iexpr_eqb (a b : iexpr) : bool :=
  match a, b with
  | IVar x, IVar y => String.eqb x y
  | ISelf x, ISelf y => String.eqb x y
  | INone, INone => true
  | IInt x, IInt y => x =? y
  | IBool x, IBool y => Bool.eqb x y
  | IStr x, IStr y => String.eqb x y
  | ITuple a1, ITuple b1 => iexpr_eqb a1 b1
  | ILen a1, ILen b1 => iexpr_eqb a1 b1
  | IIsNone a1, IIsNone b1 => iexpr_eqb a1 b1
  | IIsNotNone a1, IIsNotNone b1 => iexpr_eqb a1 b1
  | IIfElse a1 a2 a3, IIfElse b1 b2 b3 => iexpr_eqb a1 b1 && iexpr_eqb a2 b2 && iexpr_eqb a3 b3
  | _, _ => false
  end.
Definition istmt_eqb (a b : istmt) : bool :=
  match a, b with ISetSelf x e, ISetSelf y e' => String.eqb x y && iexpr_eqb e e' end.
Fixpoint istmts_eqb (l1 l2 : list istmt) : bool :=
  match l1, l2 with
  | [], [] => true
  | x :: t1, y :: t2 => istmt_eqb x y && istmts_eqb t1 t2
  | _, _ => false
  end.
Fixpoint iparams_eqb (l1 l2 : iparams) : bool :=
  match l1, l2 with
  | [], [] => true
  | (x, d) :: t1, (y, d') :: t2 => String.eqb x y && Bool.eqb d d' && iparams_eqb t1 t2
  | _, _ => false
  end.
Definition init_eqb (a b : iparams * list istmt) : bool := iparams_eqb (fst a) (fst b) && istmts_eqb (snd a) (snd b).

(* ---- static side condition of the theorems (Proofs/RenderInit.v) on an instruction list ---- *)
(* the slots the constructor assigns, in statement order: every public field, and after a field / array whose length attribute names
   a length field, that length field *)
Definition instr_assigned (i : einstr) : list string :=
  match i with
  | EField f | EArray f _ _ _ =>
    match f_name f with
    | Some n => n :: match f_len f with LRef l => [l] | _ => [] end
    | None => []
    end
  | ESwitch field _ => [(field ++ "_data")%string]
  | _ => []
  end.
Definition assigned (is : list einstr) : list string := flat_map instr_assigned is.
(* - every slot is assigned once: a length field named like a public field, or referenced by two fields (the generator refuses
     both), would be overwritten by the later statement, and neither `init_model` nor `ctor_slots` describes that;
   - no parameter is called `len` or `tuple`: inside such a method the calls `len(..)` / `tuple(..)` do not reach the builtins that
     ILen / ITuple denote (tools/py2stmt.py refuses the method when it contains such a call; a method without one is harmless but
     is kept out as well). *)
Definition init_static_ok (is : list einstr) : bool :=
  dup_free (assigned is) && negb (mem_str "len" (public_names is)) && negb (mem_str "tuple" (public_names is)).

(* ---- the check ---- *)
Definition iparsed := list (string * (iparams * list istmt)).

Definition i_render_class (d : sdef) (pi : iparams * list istmt) : list (string * string) :=
  match render_init (sd_body d) with
  | None => [(sd_name d, "not renderable")]
  | Some ri =>
    if init_eqb pi ri
    then (if init_static_ok (sd_body d) then [] else [(sd_name d, "outside the theorem")])
    else [(sd_name d, "__init__")]
  end.

(* (class, what differs) *)
Definition render_detail_i (files : list rfile) (P : iparsed) : list (string * string) :=
  match elab files with
  | Err _ => [("<elab>", "the model rejects the tree")]
  | Ok p =>
    let E := pk_env p in
    flat_map (fun d => match assoc P (sd_name d) with
                       | None => [(sd_name d, "missing")]
                       | Some pi => i_render_class d pi
                       end) E
    ++ flat_map (fun r => match env_find E (fst r) with Some _ => [] | None => [(fst r, "extra")] end) P
    ++ (if dup_free (map sd_name E) && dup_free (map fst P) then [] else [("<names>", "duplicate class names")])
  end.

(* for diagnosis *)
Definition render_show_i (files : list rfile) (cls : string) : option (option (iparams * list istmt)) :=
  match elab files with
  | Err _ => None
  | Ok p => match env_find (pk_env p) cls with Some d => Some (render_init (sd_body d)) | None => None end
  end.

(* ---- the read-only properties ---- *)
(* `VObj cls flds` carries the PUBLIC fields of an instance; Model/RenderInit.public_fields reads them off the private slots on the
   strength of the templates (object_code_generator.py _generate_get_byte_size, field_code_generator.py generate_field,
   switch_code_generator.py generate_case_data_field): `byte_size` returns self._byte_size, and every constructor parameter x has a
   property x that returns self._x.  tools/py2stmt.py (getters_of) parses the properties of every generated class from the text
   (fail-closed: no setter / deleter, no attribute hook, no __slots__); here they are compared with that table. *)
Definition getters := list (string * string).          (* property name, the slot it returns *)
Definition render_getters (is : list einstr) : getters :=
  ("byte_size", "byte_size") :: map (fun n => (n, n)) (public_names is).
Fixpoint getters_eqb (a b : getters) : bool :=
  match a, b with
  | [], [] => true
  | (x, y) :: a', (x', y') :: b' => String.eqb x x' && String.eqb y y' && getters_eqb a' b'
  | _, _ => false
  end.
Definition gparsed := list (string * getters).
Definition render_detail_g (files : list rfile) (P : gparsed) : list (string * string) :=
  match elab files with
  | Err _ => [("<elab>", "the model rejects the tree")]
  | Ok p =>
    let E := pk_env p in
    flat_map (fun d => match assoc P (sd_name d) with
                       | None => [(sd_name d, "missing properties")]
                       | Some gs => if getters_eqb gs (render_getters (sd_body d)) then [] else [(sd_name d, "properties")]
                       end) E
    ++ flat_map (fun r => match env_find E (fst r) with Some _ => [] | None => [(fst r, "extra properties")] end) P
  end.
(* the public fields of an instance, read through the parsed properties (byte_size aside: `deserialize` sets it afterwards) *)
Definition read_getters (gs : getters) (sl : slots) : list (string * value) :=
  flat_map (fun g => match assoc sl (snd g) with Some v => [(fst g, v)] | None => [] end) gs.
