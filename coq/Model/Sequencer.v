(* Model of src/eolib/packet/packet_sequencer.py (a SequenceStart is abstracted to its .value) *)
From EO Require Import Prelude.Py.
Open Scope Z_scope.

Record seqr := mk_seqr { s_start : Z; s_counter : Z }.
Definition seqr_init (start : Z) : seqr := mk_seqr start 0.
Definition next_sequence (s : seqr) : seqr * Z :=
  (mk_seqr (s_start s) ((s_counter s + 1) mod 10), s_start s + s_counter s).
Definition set_sequence_start (s : seqr) (v : Z) : seqr := mk_seqr v (s_counter s).

Inductive sop := Next | SetStart (v : Z).
(* run a history, collecting the sequence numbers returned *)
Fixpoint run (s : seqr) (ops : list sop) : list Z :=
  match ops with
  | [] => []
  | Next :: t => let '(s', o) := next_sequence s in o :: run s' t
  | SetStart v :: t => run (set_sequence_start s v) t
  end.

(* specification: the n-th request returns (start in force) + n mod 10 *)
Fixpoint spec (cur : Z) (n : Z) (ops : list sop) : list Z :=
  match ops with
  | [] => []
  | Next :: t => (cur + n mod 10) :: spec cur (n + 1) t
  | SetStart v :: t => spec v n t
  end.
