(* Generated protocol objects as immutable snapshots (property C19): a small object/heap model.
   The caller owns mutable cells (lists, bytearrays); a generated class exposes read-only properties; its constructor
   copies array arguments with tuple(...); deserialize builds the object from freshly read values. *)
From EO Require Import Prelude.Py Model.Writer Model.Spec Model.Ser Model.Deser.
Open Scope Z_scope.

(* a Python value as the caller sees it: immutable data, or a reference to a mutable cell of the heap *)
Inductive hval :=
| HImm (v : value)                (* int, bool, str, bytes, None, tuple of immutable values, generated (frozen) object *)
| HCell (c : nat).                (* list / bytearray owned by the caller: its current content is heap[c] *)
Definition heap := list value.    (* content of each cell, as the immutable value a copy of it would be (VList / VBytes) *)
Definition deref (h : heap) (x : hval) : value := match x with HImm v => v | HCell c => nth c h VNone end.

(* an instance: class name and private slots; a slot may alias a caller cell if the constructor stored the argument itself *)
Record inst := mkInst { i_cls : string; i_slots : list (string * hval) }.

Definition is_array_field (body : list einstr) (name : string) : bool :=
  existsb (fun i => match i with EArray f _ _ _ => match f_name f with Some n => String.eqb n name | None => false end | _ => false end) body.

(* the generated __init__: `self._x = tuple(x)` for array parameters (a COPY of the iterable's current content),
   `self._x = x` otherwise *)
Definition construct (body : list einstr) (cls : string) (h : heap) (args : list (string * hval)) : inst :=
  mkInst cls (map (fun a => let '(n, x) := a in
                             if is_array_field body n then (n, HImm (deref h x)) else (n, x)) args).

(* the object as the serializer sees it *)
Definition view (h : heap) (o : inst) : value := VObj (i_cls o) (map (fun s => (fst s, deref h (snd s))) (i_slots o)).

(* the public interface, plus what a caller can do to cells it holds references to *)
Inductive pop :=
| PGet (f : string)                    (* obj.f : returns the slot (the reference itself, if it is a cell) *)
| PSet (f : string) (x : hval)         (* obj.f = x  /  obj.byte_size = x : properties have no setter *)
| PMutate (c : nat) (content : value)  (* the caller mutates a cell it owns or obtained: list.append, bytearray[i] = .. *)
| PSerialize.

Inductive pout := OVal (x : option hval) | OAttrError | ONone | OBytes (r : res unit) (bs : list Z).

Definition heap_set (h : heap) (c : nat) (v : value) : heap := Reader.upd h c v.

Definition pstep (E : env) (h : heap) (o : inst) (op : pop) : heap * inst * pout :=
  match op with
  | PGet f => (h, o, OVal (assoc (i_slots o) f))
  | PSet _ _ => (h, o, OAttrError)
  | PMutate c v => (heap_set h c v, o, ONone)
  | PSerialize => let '(w, r) := serialize E (i_cls o) (view h o) false in (h, o, OBytes r (wdata w))
  end.

Fixpoint prun (E : env) (h : heap) (o : inst) (ops : list pop) : heap * inst * list pout :=
  match ops with
  | [] => (h, o, [])
  | op :: t => let '(h1, o1, out) := pstep E h o op in
               let '(h2, o2, outs) := prun E h1 o1 t in (h2, o2, out :: outs)
  end.

(* no slot refers to a mutable cell *)
Definition frozen (o : inst) : Prop := forall n c, assoc (i_slots o) n <> Some (HCell c).
Definition frozenb (o : inst) : bool := forallb (fun s => match snd s with HCell _ => false | HImm _ => true end) (i_slots o).

(* a deserialized instance: slots are the values deserialize built *)
Definition of_value (v : value) : inst :=
  match v with VObj c flds => mkInst c (map (fun p => (fst p, HImm (snd p))) flds) | _ => mkInst EmptyString [] end.

(* constructor arguments as annotated: iterables (possibly caller-owned mutable lists) for array fields, immutable values otherwise *)
Definition args_typed (body : list einstr) (args : list (string * hval)) : Prop :=
  forall n c, assoc args n = Some (HCell c) -> is_array_field body n = true.
