(* Well-formedness of an elaborated class environment, as a decidable check: the conditions under which the
   reference deserializer can only fail with ValueError (negative fixed-string length) - every name resolves,
   every length reference names an earlier non-optional length field, no later instruction rebinds the name of a length field (the generator rejects redefinitions),
   every break / delimited array sits in a statically chunked region, no zero-size `remaining / size`.  Evaluated on every elaborated tree by the harness. *)
From EO Require Import Prelude.Py Model.Spec Model.Ser.
Open Scope Z_scope.

Definition type_ok (wf_cls : string -> bool -> bool) (m : bool) (ty : etype) : bool :=
  match ty with EStruct n => wf_cls n m | _ => true end.
Definition basic_ty (ty : etype) : bool := match ty with EInt _ | EBool _ | EStr _ => true | _ => false end.
Definition lit_ok (ty : etype) (lit : string) : bool := match lit_value ty lit with Ok _ => true | Err _ => false end.

Definition len_ok (lens : list string) (l : elen) : bool :=
  match l with LNone => true | LLit n => 0 <=? n | LRef f => mem_str f lens end.

(* m = static chunked mode; lens = names of non-optional length fields read so far *)
Fixpoint wf_instrs (wf_cls : string -> bool -> bool) (m : bool) (lens : list string) (is : list einstr) : bool :=
  match is with
  | [] => true
  | i :: t =>
    match i with
    | EField f =>
      type_ok wf_cls m (f_ty f) && len_ok lens (f_len f) &&
      (match f_name f, f_hard f with
       | None, None => false
       | None, Some _ => basic_ty (f_ty f)
       | Some n, Some lit => lit_ok (f_ty f) lit && negb (mem_str n lens)
       | Some n, None => negb (mem_str n lens) end) &&
      wf_instrs wf_cls m lens t
    | EArray f delimited _ count =>
      (match f_name f with Some n => negb (mem_str n lens) | None => false end) &&
      type_ok wf_cls m (f_ty f) && len_ok lens (f_len f) && (negb delimited || m) &&
      (match count with
       | ACExpr => match f_len f with LNone => false | _ => true end
       | ACRemaining sz => 0 <? sz
       | ACWhile => true end) &&
      wf_instrs wf_cls m lens t
    | ELength name _ _ optional _ _ => negb (mem_str name lens) && wf_instrs wf_cls m (if optional then lens else name :: lens) t
    | EDummy ty _ _ => basic_ty ty && wf_instrs wf_cls m lens t
    | ESwitch field cases =>
      negb (mem_str (field ++ "_data")%string lens) &&
      forallb (fun c => match c_cls c with Some cls => wf_cls cls m | None => true end) cases && wf_instrs wf_cls m lens t
    | ESetMode b => wf_instrs wf_cls b lens t
    | EBreak => m && wf_instrs wf_cls m lens t
    end
  end.

Fixpoint wf_class (fuel : nat) (E : env) (cls : string) (m : bool) : bool :=
  match fuel with
  | O => false
  | S f => match env_find E cls with
           | Some d => wf_instrs (wf_class f E) m [] (sd_body d)
           | None => false
           end
  end.

(* every top-level class (struct / packet) is well-formed when entered non-chunked; case classes are checked
   through their switches with the mode in force there *)
Definition top_classes (p : pkg) : list string := flat_map snd (pk_files p).
Definition is_top (p : pkg) (n : string) : bool := mem_str n (top_classes p).
Definition wf_pkg (p : pkg) : bool :=
  forallb (fun d => negb (is_top p (sd_name d)) || match env_find (pk_env p) (sd_name d) with Some _ => true | None => false end) (pk_env p) &&
  forallb (fun n => match env_find (pk_env p) n with
                    | Some _ => wf_class (S (List.length (pk_env p))) (pk_env p) n false
                    | None => true (* enums *) end) (top_classes p).
