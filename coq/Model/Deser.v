(* Reference semantics of generated `deserialize` methods, statement by statement, over the EoReader model R. *)
From EO Require Import Prelude.Py Model.Limits Model.Number Model.StringEnc Model.Cp1252 Model.Reader Model.Spec Model.Ser.
Open Scope Z_scope.

Definition rres (A : Type) := (rstate * res A)%type.

Definition r_get_int_of (t : itype) (r : rstate) : rstate * Z :=
  match t with TByte => r_get_byte r | TChar => r_get_char r | TShort => r_get_short r | TThree => r_get_three r | TInt => r_get_int r end.

Definition local_int (locals : list (string * value)) (n : string) : option Z :=
  match assoc locals n with Some (VInt z) => Some z | _ => None end.

(* the last binding wins (Python rebinding of a local) *)
Fixpoint assoc_last {A} (l : list (string * A)) (k : string) (acc : option A) : option A :=
  match l with [] => acc | (k', v) :: t => assoc_last t k (if String.eqb k' k then Some v else acc) end.

Section WithRec.
  (* Cls.deserialize(reader) one level down *)
  Variable rec : string -> rstate -> rres value.

  (* the read expression for one value of type ty; len = Some n for fixed strings *)
  Definition deser_value (ty : etype) (len : option Z) (padded : bool) (offset : Z) (r : rstate) : rres value :=
    match ty with
    | EInt t => let '(r', z) := r_get_int_of t r in (r', Ok (VInt (z + offset)))
    | EBool t => let '(r', z) := r_get_int_of t r in (r', Ok (VBool (negb (z =? 0))))
    | EEnum _ t => let '(r', z) := r_get_int_of t r in (r', Ok (VInt z))
    | EStr enc =>
      match len with
      | None => let '(r', s) := (if enc then r_get_encoded_string r else r_get_string r) in (r', Ok (VStr s))
      | Some n => match (if enc then r_get_fixed_encoded_string r n padded else r_get_fixed_string r n padded) with
                  | Ok (r', s) => (r', Ok (VStr s))
                  | Err e => (r, Err e)
                  end
      end
    | EBlob => let '(r', b) := r_get_bytes r (r_remaining r) in (r', Ok (VBytes b))
    | EStruct n => rec n r
    end.

  (* for i in range(n): append(read); [if delimited: [if i + 1 < n:] next_chunk()] *)
  Fixpoint deser_for (ty : etype) (delimited trailing : bool) (k : nat) (i n : Z) (acc : list value) (r : rstate) : rres (list value) :=
    match k with
    | O => (r, Ok (rev acc))
    | S k' =>
      let '(r1, v) := deser_value ty None false 0 r in
      match v with Err e => (r1, Err e) | Ok x =>
        if delimited && (trailing || (i + 1 <? n)) then
          match r_next_chunk r1 with
          | Err e => (r1, Err e)
          | Ok r2 => deser_for ty delimited trailing k' (i + 1) n (x :: acc) r2
          end
        else deser_for ty delimited trailing k' (i + 1) n (x :: acc) r1
      end
    end.

  (* while reader.remaining > 0: append(read); [next_chunk()]     fuel = an upper bound on iterations *)
  Fixpoint deser_while (ty : etype) (delimited : bool) (fuel : nat) (acc : list value) (r : rstate) : rres (list value) :=
    if r_remaining r >? 0 then
      match fuel with
      | O => (r, Err EFuel)
      | S f =>
        let '(r1, v) := deser_value ty None false 0 r in
        match v with Err e => (r1, Err e) | Ok x =>
          if delimited then
            match r_next_chunk r1 with
            | Err e => (r1, Err e)
            | Ok r2 => deser_while ty delimited f (x :: acc) r2
            end
          else deser_while ty delimited f (x :: acc) r1
        end
      end
    else (r, Ok (rev acc)).

  Definition len_expr (f : fieldspec) (locals : list (string * value)) : res (option Z) :=
    match f_len f with
    | LNone => Ok None
    | LLit n => Ok (Some n)
    | LRef fld => match assoc_last locals fld None with
                  | Some (VInt z) => Ok (Some z)
                  | Some VNone => Err EType          (* an absent optional length field: get_fixed_string(None) / range(None) raise TypeError *)
                  | _ => Err EUnexpected end
    end.

  Definition deser_instr (start : Z) (i : einstr) (locals : list (string * value)) (r : rstate) : rres (list (string * value)) :=
    match i with
    | EField f =>
      if f_optional f && negb (r_remaining r >? 0) then
        (r, Ok (match f_name f with Some n => locals ++ [(n, VNone)] | None => locals end))
      else
      match len_expr f locals with
      | Err e => (r, Err e)
      | Ok len =>
          let '(r', v) := deser_value (f_ty f) len (f_padded f) 0 r in
          match v with
          | Err e => (r', Err e)
          | Ok x => (r', Ok (match f_name f with Some n => locals ++ [(n, x)] | None => locals end))
          end
      end
    | EArray f delimited trailing count =>
      match f_name f with
      | None => (r, Err EUnexpected)
      | Some name =>
        if f_optional f && negb (r_remaining r >? 0) then (r, Ok (locals ++ [(name, VNone)])) else
        let res :=
          match count with
          | ACExpr =>
            match len_expr f locals with
            | Ok (Some n) => deser_for (f_ty f) delimited trailing (Z.to_nat n) 0 n [] r
            | Ok None => (r, Err EUnexpected)
            | Err e => (r, Err e)
            end
          | ACRemaining size =>
            if size =? 0 then (r, Err EUnexpected) else
            let n := truediv_int (r_remaining r) size in
            deser_for (f_ty f) delimited trailing (Z.to_nat n) 0 n [] r
          | ACWhile => deser_while (f_ty f) delimited (S (List.length (rdata r))) [] r
          end in
        let '(r', v) := res in
        match v with Err e => (r', Err e) | Ok l => (r', Ok (locals ++ [(name, VList l)])) end
      end
    | ELength name t off optional _ _ =>
      if optional && negb (r_remaining r >? 0) then (r, Ok (locals ++ [(name, VNone)])) else
      let '(r', z) := r_get_int_of t r in (r', Ok (locals ++ [(name, VInt (z + off))]))
    | EDummy ty lit guarded =>
      if guarded && negb (rpos r =? start) then (r, Ok locals) else
      let '(r', v) := deser_value ty None false 0 r in
      match v with Err e => (r', Err e) | Ok _ => (r', Ok locals) end
    | ESwitch field cases =>
      let dname := (field ++ "_data")%string in
      let z := match assoc_last locals field None with
               | Some (VInt z) => Some z | Some (VBool b) => Some (if b then 1 else 0) | _ => None end in
      match find_case cases z with
      | None => (r, Ok (locals ++ [(dname, VNone)]))
      | Some c =>
        match c_cls c with
        | None => (r, Ok (locals ++ [(dname, VNone)]))
        | Some cls => let '(r', v) := rec cls r in
                      match v with Err e => (r', Err e) | Ok x => (r', Ok (locals ++ [(dname, x)])) end
        end
      end
    | ESetMode b => (r_set_chunked r b, Ok locals)
    | EBreak => match r_next_chunk r with Ok r' => (r', Ok locals) | Err e => (r, Err e) end
    end.

  Fixpoint deser_instrs (start : Z) (is : list einstr) (locals : list (string * value)) (r : rstate) : rres (list (string * value)) :=
    match is with
    | [] => (r, Ok locals)
    | i :: t => let '(r', v) := deser_instr start i locals r in
                match v with Ok l => deser_instrs start t l r' | Err e => (r', Err e) end
    end.

  (* Cls(name=name, ...): the public fields in declaration order; hardcoded named fields hold their literal *)
  Fixpoint build_fields (is : list einstr) (locals : list (string * value)) : res (list (string * value)) :=
    match is with
    | [] => Ok []
    | i :: t =>
      do rest <- build_fields t locals;
      match i with
      | EField f =>
        match f_name f with
        | None => Ok rest
        | Some n =>
          match f_hard f with
          | Some lit => do v <- lit_value (f_ty f) lit; Ok ((n, v) :: rest)
          | None => match assoc_last locals n None with Some v => Ok ((n, v) :: rest) | None => Err EUnexpected end
          end
        end
      | EArray f _ _ _ =>
        match f_name f with
        | None => Ok rest
        | Some n => match assoc_last locals n None with Some v => Ok ((n, v) :: rest) | None => Err EUnexpected end
        end
      | ESwitch field _ =>
        let dn := (field ++ "_data")%string in
        match assoc_last locals dn None with Some v => Ok ((dn, v) :: rest) | None => Err EUnexpected end
      | _ => Ok rest
      end
    end.

  (* the body of Cls.deserialize(reader) *)
  Definition deser_body (d : sdef) (r : rstate) : rres value :=
    let old := rchunked r in
    let start := rpos r in
    let '(r', v) := deser_instrs start (sd_body d) [] r in
    let res :=
      match v with
      | Err e => Err e
      | Ok locals => do flds <- build_fields (sd_body d) locals;
                     Ok (VObj (sd_name d) (flds ++ [("byte_size"%string, VInt (rpos r' - start))]))
      end in
    (r_set_chunked r' old, res).
End WithRec.

Fixpoint deser_struct (fuel : nat) (E : env) (cls : string) (r : rstate) : rres value :=
  match fuel with
  | O => (r, Err EFuel)
  | S f => match env_find E cls with
           | Some d => deser_body (deser_struct f E) d r
           | None => (r, Err EAttribute)
           end
  end.

(* deserialize from a fresh reader over `data`, entered in the given mode *)
Definition deserialize (E : env) (cls : string) (data : list Z) (chunked : bool) : rres value :=
  let r := initR data in
  let r := if chunked then r_set_chunked r true else r in
  deser_struct (S (List.length E)) E cls r.
