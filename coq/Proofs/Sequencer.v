From EO Require Import Prelude.Py Model.Sequencer.
Open Scope Z_scope.
Set Default Timeout 60.

Lemma run_next s t : run s (Next :: t) = (s_start s + s_counter s) :: run (mk_seqr (s_start s) ((s_counter s + 1) mod 10)) t.
Proof. reflexivity. Qed.

Lemma run_spec_gen : forall ops s n, 0 <= n -> s_counter s = n mod 10 ->
  run s ops = spec (s_start s) n ops.
Proof.
  induction ops as [|o ops IH]; intros s n Hn Hc; [reflexivity|].
  destruct o as [|v].
  - rewrite run_next. cbn [spec]. rewrite Hc. f_equal.
    rewrite (IH _ (n + 1)); cbn [s_start s_counter]; [reflexivity | lia | lia].
  - cbn [run spec]. apply (IH (set_sequence_start s v) n Hn). exact Hc.
Qed.

Lemma run_spec v0 ops : run (seqr_init v0) ops = spec v0 0 ops.
Proof. apply (run_spec_gen ops (seqr_init v0) 0); [lia | reflexivity]. Qed.

(* counter invariant for every reachable state *)
Fixpoint final (s : seqr) (ops : list sop) : seqr :=
  match ops with
  | [] => s
  | Next :: t => final (fst (next_sequence s)) t
  | SetStart v :: t => final (set_sequence_start s v) t
  end.
Definition nexts (ops : list sop) : Z := Z.of_nat (length (filter (fun o => match o with Next => true | _ => false end) ops)).

Lemma final_counter : forall ops s n, 0 <= n -> s_counter s = n mod 10 ->
  s_counter (final s ops) = (n + nexts ops) mod 10.
Proof.
  induction ops as [|o ops IH]; intros s n Hn Hc; cbn [final].
  - unfold nexts. cbn. rewrite Z.add_0_r. exact Hc.
  - destruct o as [|v].
    + rewrite (IH _ (n + 1)); [| lia | cbn [next_sequence fst s_counter]; rewrite Hc; lia].
      f_equal. unfold nexts. cbn [filter length]. lia.
    + rewrite (IH _ n Hn); [| exact Hc]. f_equal.
Qed.

(* the start value in force after a history *)
Fixpoint cur_after (cur : Z) (ops : list sop) : Z :=
  match ops with
  | [] => cur
  | Next :: t => cur_after cur t
  | SetStart v :: t => cur_after v t
  end.

Lemma nexts_cons_next t : nexts (Next :: t) = nexts t + 1.
Proof. unfold nexts. cbn [filter length]. lia. Qed.
Lemma nexts_cons_set v t : nexts (SetStart v :: t) = nexts t.
Proof. reflexivity. Qed.

Lemma spec_app : forall a cur n b,
  spec cur n (a ++ b) = spec cur n a ++ spec (cur_after cur a) (n + nexts a) b.
Proof.
  induction a as [|o a IH]; intros cur n b; cbn [app spec cur_after].
  - unfold nexts. cbn. now rewrite Z.add_0_r.
  - destruct o as [|v].
    + rewrite IH. rewrite nexts_cons_next. cbn [app]. do 3 f_equal. lia.
    + rewrite IH. rewrite nexts_cons_set. reflexivity.
Qed.
