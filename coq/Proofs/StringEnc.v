From EO Require Import Prelude.Py Model.StringEnc.
Open Scope Z_scope.
Set Default Timeout 60.

Lemma inv_byte_outside f c : c < 34 \/ 126 < c -> inv_byte f c = c.
Proof. intros H. unfold inv_byte. destruct (34 <=? c) eqn:A; destruct (c <=? 126) eqn:B; cbn [andb]; lia. Qed.

Lemma inv_byte_inside f c : 34 <= c <= 126 -> 33 <= inv_byte f c <= 125.
Proof.
  intros H. unfold inv_byte. destruct (34 <=? c) eqn:A; destruct (c <=? 126) eqn:B; cbn [andb]; try lia.
  destruct f; [destruct (c >=? 80) eqn:C|]; lia.
Qed.

Lemma inv_byte_invol f c : c <> 126 -> inv_byte f (inv_byte f c) = c.
Proof.
  intros H. unfold inv_byte.
  destruct (34 <=? c) eqn:A; destruct (c <=? 126) eqn:B; cbn [andb].
  2-4: rewrite A, B; reflexivity.
  destruct f.
  - destruct (c >=? 80) eqn:C.
    + destruct (34 <=? 159 - c - -46) eqn:A2; destruct (159 - c - -46 <=? 126) eqn:B2; cbn [andb]; try lia.
      destruct (159 - c - -46 >=? 80) eqn:C2; lia.
    + destruct (34 <=? 159 - c - 46) eqn:A2; destruct (159 - c - 46 <=? 126) eqn:B2; cbn [andb]; try lia.
      destruct (159 - c - 46 >=? 80) eqn:C2; lia.
  - destruct (34 <=? 159 - c - 0) eqn:A2; destruct (159 - c - 0 <=? 126) eqn:B2; cbn [andb]; lia.
Qed.

(* the byte 0x7E is the one value the format cannot carry: it is mapped to 0x21 / 0x4F and stays there *)
Lemma inv_byte_tilde f : inv_byte f (inv_byte f 126) <> 126.
Proof. destruct f; vm_compute; discriminate. Qed.

Lemma inv_byte_break_safe f c b : (b = 0 \/ b = 255) -> (inv_byte f c = b <-> c = b).
Proof.
  intros Hb. split; intros H.
  - destruct (Z_lt_dec c 34) as [L|L]; [rewrite inv_byte_outside in H by lia; exact H|].
    destruct (Z_lt_dec 126 c) as [G|G]; [rewrite inv_byte_outside in H by lia; exact H|].
    pose proof (inv_byte_inside f c ltac:(lia)). lia.
  - subst c. apply inv_byte_outside. lia.
Qed.

Lemma invert_from_length f l : length (invert_from f l) = length l.
Proof. revert f; induction l as [|c l IH]; intros f; cbn [invert_from length]; auto. Qed.

Lemma invert_length l : length (invert l) = length l.
Proof. apply invert_from_length. Qed.

Lemma encode_length l : length (encode_string l) = length l.
Proof. unfold encode_string. now rewrite rev_length, invert_length. Qed.
Lemma decode_length l : length (decode_string l) = length l.
Proof. unfold decode_string. now rewrite invert_length, rev_length. Qed.

(* position i of invert_from: flip state is the initial one xor parity of i *)
Lemma nth_invert_from : forall l f i d, (i < length l)%nat ->
  nth i (invert_from f l) d = inv_byte (xorb f (Nat.odd i)) (nth i l d).
Proof.
  induction l as [|c l IH]; intros f i d Hi; cbn [length] in Hi; [lia|].
  destruct i as [|i]; cbn [invert_from nth].
  - now rewrite xorb_false_r.
  - rewrite IH by lia. f_equal. rewrite Nat.odd_succ, <- Nat.negb_odd. destruct f, (Nat.odd i); reflexivity.
Qed.

(* invert twice = identity except at tilde bytes *)
Lemma invert_from_twice : forall l f i d, (i < length l)%nat -> nth i l d <> 126 ->
  nth i (invert_from f (invert_from f l)) d = nth i l d.
Proof.
  intros l f i d Hi Hn. rewrite nth_invert_from by (now rewrite invert_from_length).
  rewrite nth_invert_from by exact Hi. apply inv_byte_invol. exact Hn.
Qed.

Lemma decode_encode_invert l : decode_string (encode_string l) = invert_from (zlen l mod 2 =? 1) (invert l).
Proof.
  unfold decode_string, encode_string. rewrite rev_involutive. unfold invert at 1.
  unfold zlen. rewrite invert_length. reflexivity.
Qed.

Lemma decode_encode_pos l i d : (i < length l)%nat -> nth i l d <> 126 ->
  nth i (decode_string (encode_string l)) d = nth i l d.
Proof. intros Hi Hn. rewrite decode_encode_invert. unfold invert. apply invert_from_twice; assumption. Qed.

Lemma rev_invert_from_twice l f : ~ In 126 l -> invert_from f (invert_from f l) = l.
Proof.
  revert f; induction l as [|c l IH]; intros f H; cbn [invert_from]; [reflexivity|].
  rewrite inv_byte_invol by (intro; subst; apply H; left; reflexivity).
  rewrite IH by (intro; apply H; right; assumption). reflexivity.
Qed.

Lemma invert_invert_nth r j d : (j < length r)%nat -> nth j r d <> 126 ->
  nth j (invert (invert r)) d = nth j r d.
Proof.
  intros Hj Hn. unfold invert at 1. unfold zlen. rewrite invert_length. fold (zlen r).
  unfold invert. apply invert_from_twice; assumption.
Qed.

Lemma encode_decode_pos l i d : (i < length l)%nat -> nth i l d <> 126 ->
  nth i (encode_string (decode_string l)) d = nth i l d.
Proof.
  intros Hi Hn. unfold encode_string, decode_string.
  assert (Hlen : length (invert (invert (rev l))) = length l) by (now rewrite !invert_length, rev_length).
  rewrite rev_nth by lia. rewrite Hlen.
  assert (Hr : length (rev l) = length l) by apply rev_length.
  rewrite invert_invert_nth.
  - rewrite rev_nth by lia. f_equal. lia.
  - lia.
  - rewrite rev_nth by lia. replace (length l - S (length l - S i))%nat with i by lia. exact Hn.
Qed.

(* shape of encode: position i of the output is the reflected byte of position len-1-i of the input *)
Lemma encode_shape l i d : (i < length l)%nat ->
  nth i (encode_string l) d =
  inv_byte (xorb (zlen l mod 2 =? 1) (Nat.odd (length l - S i))) (nth (length l - S i) l d).
Proof.
  intros Hi. unfold encode_string. rewrite rev_nth by (rewrite invert_length; exact Hi).
  rewrite invert_length. unfold invert. apply nth_invert_from. lia.
Qed.

Lemma decode_shape l i d : (i < length l)%nat ->
  nth i (decode_string l) d =
  inv_byte (xorb (zlen l mod 2 =? 1) (Nat.odd i)) (nth (length l - S i) l d).
Proof.
  intros Hi. unfold decode_string, invert. rewrite nth_invert_from by (now rewrite rev_length).
  rewrite zlen_rev. f_equal. apply rev_nth. exact Hi.
Qed.
