(* Lemma library for C01, stage B: round trip for specifications WITH chunked sections, breaks, delimited arrays
   (side conditions: Model/WireOkB.v).  Architecture as in Proofs/RoundTrip.v (stage A), with
     - a reader view `rv m clean r d p` valid in BOTH modes (section 1): in chunked mode the cached (possibly stale) break
       index is the first 0xFF at or after the position, because no 0xFF lies between the reader's chunk start and its
       position; in non-chunked mode `clean` records whether that is still so (needed to enter a chunked section);
     - continuations `post_ok K post` instead of "last => post = []": what follows is nothing / a break byte / anything;
     - the static mode m threaded through every lemma; leaf values written in a chunked section have the same bytes
       in either mode and hold no 0xFF (section 2), so the stage-A decoding lemmas apply to them;
     - sections 3-6: inversions, sizes/progress in either mode, per-instruction step lemmas, the knot (rt_structB,
       roundtrip_chunked); section 7: valid objects have an encoding; section 8: stage A is included. *)
From EO Require Import Prelude.Py Prelude.Corr Model.Limits Model.Number Model.StringEnc Model.Cp1252 Model.Writer Model.Reader
  Model.Spec Model.Ser Model.Deser Model.Enc Model.ValidDecl Model.WireOk Model.WireOkB Model.GenHarness.
From EO Require Import Proofs.Number Proofs.StringEnc Proofs.Cp1252 Proofs.Items Proofs.EncSer Proofs.Chunks Proofs.RoundTrip.
Open Scope Z_scope.
Set Default Timeout 60.
Ltac Zify.zify_post_hook ::= Z.to_euclidean_division_equations.

(* ====================================================================================================== *)
(* 1. the reader, in either mode                                                                           *)
(* ====================================================================================================== *)
Definition no255 (l : list Z) : Prop := ~ In 255 l.

Lemma no255_nil : no255 [].
Proof. intros []. Qed.
Lemma no255_app a b : no255 a -> no255 b -> no255 (a ++ b).
Proof. intros Ha Hb Hin. apply in_app_iff in Hin as [H|H]; [apply (Ha H) | apply (Hb H)]. Qed.
Lemma no255_app_l a b : no255 (a ++ b) -> no255 a.
Proof. intros H Hin. apply H. apply in_app_iff. left. exact Hin. Qed.

Lemma app_eq_len {A} (a : list A) : forall b x y, a ++ x = b ++ y -> zlen a = zlen b -> a = b /\ x = y.
Proof.
  induction a as [|u a IH]; intros [|v b] x y H L; cbn [app] in *.
  - auto.
  - rewrite zlen_cons in L. pose proof (zlen_nonneg b). change (zlen (@nil A)) with 0 in L. lia.
  - rewrite zlen_cons in L. pose proof (zlen_nonneg a). change (zlen (@nil A)) with 0 in L. lia.
  - injection H as -> H. rewrite !zlen_cons in L. destruct (IH b x y H ltac:(lia)) as [-> ->]. auto.
Qed.

(* no 0xFF between the chunk start cs and the position p *)
Definition cleanat (d : list Z) (cs p : Z) : Prop :=
  exists a b rest, d = a ++ b ++ rest /\ zlen a = cs /\ zlen a + zlen b = p /\ no255 b.

(* r reads d at position p in mode m; the break cache is valid (or still unset, non-chunked only);
   clean: no 0xFF between the chunk start and p - always so in chunked mode *)
Definition rv (m clean : bool) (r : rstate) (d : list Z) (p : Z) : Prop :=
  rdata r = d /\ rpos r = p /\ rchunked r = m /\
  (rbrk r = find_break d (rcstart r) \/ (m = false /\ rbrk r = -1)) /\
  (clean = true -> cleanat d (rcstart r) p) /\ (m = true -> clean = true).

Definition stop (m : bool) (post : list Z) : Prop := if m then framed post else post = [].
Definition headok (m : bool) (out : list Z) : Prop := match out with [] => False | b :: _ => m = true -> b <> 255 end.
Definition post_ok (K : cont) (post : list Z) : Prop :=
  match K with KEnd => post = [] | KBreak => exists t, post = 255 :: t | KOther => True end.

Lemma stop_of_K m K post : stopb m K = true -> post_ok K post -> stop m post.
Proof.
  destruct K; cbn [stopb post_ok]; intros H Hp.
  - subst post. destruct m; [left|]; reflexivity.
  - subst m. right. exact Hp.
  - discriminate H.
Qed.

Lemma headok_pos m out : headok m out -> 0 < zlen out.
Proof. destruct out; [intros [] | intros _; rewrite zlen_cons; pose proof (zlen_nonneg out); lia]. Qed.

Lemma headok_no255 m out : 0 < zlen out -> (m = true -> no255 out) -> headok m out.
Proof.
  destruct out as [|b t]; [change (zlen (@nil Z)) with 0; lia|]. intros _ H Hm Hb. apply (H Hm). left. auto.
Qed.

Lemma headok_app m a b : headok m a -> headok m (a ++ b).
Proof. destruct a; [intros [] | intros H; exact H]. Qed.

Ltac rv_split := unfold rv; cbn [rdata rpos rchunked rcstart rbrk]; split; [|split; [|split; [|split; [|split]]]].

Lemma rv_init d : rv false true (initR d) d 0.
Proof.
  unfold rv, initR. cbn [rdata rpos rchunked rbrk rcstart].
  split; [reflexivity|]. split; [reflexivity|]. split; [reflexivity|]. split; [right; auto|]. split; [|discriminate].
  intros _. exists [], [], d. split; [reflexivity|]. split; [reflexivity|]. split; [reflexivity | apply no255_nil].
Qed.

Lemma rv_weaken m cl r d p : rv m cl r d p -> rv m m r d p.
Proof.
  intros [H1 [H2 [H3 [H4 [H5 H6]]]]]. rv_split; try assumption; [|auto].
  intros ->. apply H5. apply H6. reflexivity.
Qed.

Lemma cleanat_frame d cs p out post : cleanat d cs p -> frame d p out post ->
  exists a b, d = a ++ b ++ out ++ post /\ zlen a = cs /\ zlen a + zlen b = p /\ no255 b.
Proof.
  intros [a [b [rest [Hd [Ha [Hp Hb]]]]]] [pre [Hd' Hp']]. exists a, b.
  assert (H : (a ++ b) ++ rest = pre ++ out ++ post) by (rewrite <- app_assoc, <- Hd; exact Hd').
  apply app_eq_len in H as [_ ->]; [|rewrite zlen_app; lia]. auto.
Qed.

Lemma find_break_clean a b rest : no255 b -> find_break (a ++ b ++ rest) (zlen a) = find_ff rest (zlen a + zlen b).
Proof.
  intros Hb. unfold find_break.
  assert (L : (zlen a <=? zlen (a ++ b ++ rest)) = true) by (rewrite zlen_app; pose proof (zlen_nonneg (b ++ rest)); lia).
  rewrite L, skipn_zlen_app. apply find_ff_app. exact Hb.
Qed.

(* in chunked mode the cached break is the first 0xFF at or after the position *)
Lemma rv_brk cl r d p out post : rv true cl r d p -> frame d p out post -> rbrk r = find_ff (out ++ post) p.
Proof.
  intros [H1 [H2 [H3 [H4 [H5 H6]]]]] Hf. destruct H4 as [H4|[H4 _]]; [|discriminate H4].
  destruct (cleanat_frame _ _ _ _ _ (H5 (H6 eq_refl)) Hf) as [a [b [Hd [Ha [Hp Hb]]]]].
  rewrite H4, <- Ha, Hd, (find_break_clean a b (out ++ post) Hb), Hp. reflexivity.
Qed.

Lemma rv_rem_chunked cl r d p out post : rv true cl r d p -> frame d p out post ->
  r_remaining r = find_ff (out ++ post) p - p.
Proof.
  intros Hr Hf. pose proof (rv_brk _ _ _ _ _ _ Hr Hf) as Hb. destruct Hr as [H1 [H2 [H3 _]]].
  unfold r_remaining. rewrite H3, Hb, H2. pose proof (find_ff_bounds (out ++ post) p). lia.
Qed.

Lemma rv_rem_plain cl r d p out post : rv false cl r d p -> frame d p out post -> r_remaining r = zlen out + zlen post.
Proof.
  intros [H1 [H2 [H3 _]]] Hf. unfold r_remaining. rewrite H3, H1, H2. apply (frame_len _ _ _ _ Hf).
Qed.

Lemma rv_rem_ge m cl r d p out post : rv m cl r d p -> frame d p out post -> (m = true -> no255 out) ->
  zlen out <= r_remaining r.
Proof.
  intros Hr Hf Hn. destruct m.
  - rewrite (rv_rem_chunked _ _ _ _ _ _ Hr Hf), find_ff_app by (apply Hn; reflexivity).
    pose proof (find_ff_bounds post (p + zlen out)). lia.
  - rewrite (rv_rem_plain _ _ _ _ _ _ Hr Hf). pose proof (zlen_nonneg post). lia.
Qed.

Lemma rv_rem_stop m cl r d p out post : rv m cl r d p -> frame d p out post -> (m = true -> no255 out) -> stop m post ->
  r_remaining r = zlen out.
Proof.
  intros Hr Hf Hn Hs. destruct m; cbn [stop] in Hs.
  - rewrite (rv_rem_chunked _ _ _ _ _ _ Hr Hf), find_ff_app by (apply Hn; reflexivity).
    destruct Hs as [->|[t ->]]; cbn [find_ff]; [lia|]. rewrite Z.eqb_refl. lia.
  - rewrite (rv_rem_plain _ _ _ _ _ _ Hr Hf), Hs. change (zlen (@nil Z)) with 0. lia.
Qed.

Lemma rv_rem_zero m cl r d p post : rv m cl r d p -> frame d p [] post -> stop m post -> r_remaining r = 0.
Proof. intros Hr Hf Hs. apply (rv_rem_stop _ _ _ _ _ _ _ Hr Hf (fun _ => no255_nil) Hs). Qed.

Lemma rv_rem_head m cl r d p out post : rv m cl r d p -> frame d p out post -> headok m out -> 0 < r_remaining r.
Proof.
  intros Hr Hf Hh. destruct m.
  - rewrite (rv_rem_chunked _ _ _ _ _ _ Hr Hf). destruct out as [|b t]; [destruct Hh|]. cbn [headok] in Hh.
    cbn [app find_ff]. destruct (b =? 255) eqn:Q; [exfalso; apply (Hh eq_refl); lia|].
    pose proof (find_ff_bounds (t ++ post) (p + 1)). lia.
  - rewrite (rv_rem_plain _ _ _ _ _ _ Hr Hf). pose proof (headok_pos _ _ Hh). pose proof (zlen_nonneg post). lia.
Qed.

Lemma rv_set_pos m cl cl' r d p bs post : rv m cl r d p -> frame d p bs post ->
  (cl' = true -> cl = true /\ no255 bs) -> (m = true -> cl' = true) ->
  rv m cl' (r_set_pos r (p + zlen bs)) d (p + zlen bs).
Proof.
  intros [H1 [H2 [H3 [H4 [H5 H6]]]]] Hf Hc Hm. unfold rv, r_set_pos. cbn [rdata rpos rchunked rcstart rbrk].
  repeat split; try assumption. intros Hcl. destruct (Hc Hcl) as [Hcl0 Hbs].
  destruct (cleanat_frame _ _ _ _ _ (H5 Hcl0) Hf) as [a [b [Hd [Ha [Hp Hb]]]]].
  exists a, (b ++ bs), post. rewrite <- app_assoc. repeat split; try assumption.
  - rewrite zlen_app. lia.
  - apply no255_app; assumption.
Qed.

(* reading k bytes when exactly |bs| of them are available to this read *)
Lemma rv_read_core m cl r d p bs post k : rv m cl r d p -> frame d p bs post -> Z.min k (r_remaining r) = zlen bs ->
  r_read_bytes r k = (r_set_pos r (p + zlen bs), bs).
Proof.
  intros [H1 [H2 _]] [pre [Hd Hp]] Hk. unfold r_read_bytes. cbv zeta. rewrite Hk, H2, H1, Hd, Hp, slice_frame. reflexivity.
Qed.

Lemma rv_read_bytes m cl r d p bs post k : rv m cl r d p -> frame d p bs post -> k = zlen bs -> (m = true -> no255 bs) ->
  r_read_bytes r k = (r_set_pos r (p + zlen bs), bs).
Proof.
  intros Hr Hf -> Hn. apply (rv_read_core _ _ _ _ _ _ _ _ Hr Hf). pose proof (rv_rem_ge _ _ _ _ _ _ _ Hr Hf Hn). lia.
Qed.

Lemma rv_read_rest m cl r d p bs post : rv m cl r d p -> frame d p bs post -> (m = true -> no255 bs) -> stop m post ->
  r_read_bytes r (r_remaining r) = (r_set_pos r (p + zlen bs), bs).
Proof.
  intros Hr Hf Hn Hs. apply (rv_read_core _ _ _ _ _ _ _ _ Hr Hf). rewrite (rv_rem_stop _ _ _ _ _ _ _ Hr Hf Hn Hs). lia.
Qed.

Lemma rv_read_byte m cl r d p b post : rv m cl r d p -> frame d p [b] post -> (m = true -> b <> 255) ->
  r_read_byte r = (r_set_pos r (p + 1), b).
Proof.
  intros Hr Hf Hb. unfold r_read_byte.
  pose proof (rv_rem_head _ _ _ _ _ [b] _ Hr Hf Hb) as Hpos. destruct (r_remaining r >? 0) eqn:Q; [|lia].
  destruct Hr as [H1 [H2 _]]. destruct Hf as [pre [Hd Hp]]. rewrite H2, H1, Hd, Hp. cbn [app]. unfold zlen.
  rewrite zget_app_mid. reflexivity.
Qed.

Lemma rv_get_number m cl r d p bs post k : rv m cl r d p -> frame d p bs post -> k = zlen bs -> (m = true -> no255 bs) ->
  r_get_number r k = (r_set_pos r (p + zlen bs), decode_number bs).
Proof. intros Hr Hf Hk Hn. unfold r_get_number. rewrite (rv_read_bytes _ _ _ _ _ _ _ _ Hr Hf Hk Hn). reflexivity. Qed.

Lemma rv_get_int_of t m cl r d p bs post : rv m cl r d p -> frame d p bs post -> zlen bs = itype_size t ->
  (m = true -> no255 bs) -> r_get_int_of t r = (r_set_pos r (p + zlen bs), int_dec t bs).
Proof.
  intros Hr Hf Hl Hn. destruct t; cbn [r_get_int_of int_dec itype_size] in *.
  - destruct bs as [|b [|b' bs]]; try (unfold zlen in Hl; cbn [List.length] in Hl; lia).
    unfold r_get_byte. rewrite (rv_read_byte _ _ _ _ _ _ _ Hr Hf); [reflexivity|].
    intros Hm Hb. apply (Hn Hm). left. auto.
  - unfold r_get_char. apply (rv_get_number _ _ _ _ _ _ _ _ Hr Hf); [lia | exact Hn].
  - unfold r_get_short. apply (rv_get_number _ _ _ _ _ _ _ _ Hr Hf); [lia | exact Hn].
  - unfold r_get_three. apply (rv_get_number _ _ _ _ _ _ _ _ Hr Hf); [lia | exact Hn].
  - unfold r_get_int. apply (rv_get_number _ _ _ _ _ _ _ _ Hr Hf); [lia | exact Hn].
Qed.

(* the mode setter: entering chunked mode needs a clean reader *)
Lemma rv_set_mode m cl b cl' r d p : rv m cl r d p -> (cl' = true -> cl = true) -> (b = true -> cl' = true) ->
  rv b cl' (r_set_chunked r b) d p.
Proof.
  intros [H1 [H2 [H3 [H4 [H5 H6]]]]] Hc Hb. unfold r_set_chunked. rv_split; [exact H1 | exact H2 | reflexivity | | | exact Hb].
  - left. rewrite H1. destruct H4 as [H4|[_ H4]].
    + destruct (rbrk r =? -1); [reflexivity | exact H4].
    + rewrite H4. reflexivity.
  - intros Hcl. apply H5. apply Hc. exact Hcl.
Qed.

(* next_chunk standing on the break byte *)
Lemma rv_next_chunk cl r d p post : rv true cl r d p -> frame d p [255] post ->
  exists r', r_next_chunk r = Ok r' /\ rv true true r' d (p + 1).
Proof.
  intros Hr Hf. pose proof (rv_brk _ _ _ _ _ _ Hr Hf) as Hb. cbn [app find_ff] in Hb. rewrite Z.eqb_refl in Hb.
  destruct Hr as [H1 [H2 [H3 _]]]. unfold r_next_chunk. rewrite H3, Hb, H1. cbn [negb].
  pose proof (frame_len _ _ _ _ Hf) as Hl. change (zlen [255]) with 1 in Hl. pose proof (zlen_nonneg post).
  destruct (p <? zlen d) eqn:Q; [|lia]. eexists. split; [reflexivity|].
  unfold rv. cbn [rdata rpos rchunked rcstart rbrk]. repeat split; auto.
  intros _. destruct Hf as [pre [Hd Hp]]. exists (pre ++ [255]), [], post. rewrite <- app_assoc. cbn [app].
  repeat split; [exact Hd | | |apply no255_nil]; rewrite zlen_app; change (zlen [255]) with 1; change (zlen (@nil Z)) with 0; lia.
Qed.

(* next_chunk at the very end of the data: the reader stays *)
Lemma rv_next_chunk_end cl r d p : rv true cl r d p -> frame d p [] [] ->
  exists r', r_next_chunk r = Ok r' /\ rv true true r' d p.
Proof.
  intros Hr Hf. pose proof (rv_brk _ _ _ _ _ _ Hr Hf) as Hb. cbn [app find_ff] in Hb.
  destruct Hr as [H1 [H2 [H3 _]]]. unfold r_next_chunk. rewrite H3, Hb, H1. cbn [negb].
  pose proof (frame_len _ _ _ _ Hf) as Hl. change (zlen (@nil Z)) with 0 in Hl.
  destruct (p <? zlen d) eqn:Q; [lia|]. eexists. split; [reflexivity|].
  unfold rv. cbn [rdata rpos rchunked rcstart rbrk]. repeat split; auto.
  intros _. destruct Hf as [pre [Hd Hp]]. exists pre, [], []. repeat split; [exact Hd | lia | change (zlen (@nil Z)) with 0; lia | apply no255_nil].
Qed.

Lemma rv_adv m cl cty r d p bs post : rv m cl r d p -> frame d p bs post ->
  (m = true \/ cty = true -> no255 bs) -> rv m (m || cl && cty) (r_set_pos r (p + zlen bs)) d (p + zlen bs).
Proof.
  intros Hr Hf Hn. apply (rv_set_pos _ _ _ _ _ _ _ _ Hr Hf).
  - intros H. destruct Hr as [_ [_ [_ [_ [_ H6]]]]]. destruct m.
    + split; [apply H6; reflexivity | apply Hn; left; reflexivity].
    + cbn [orb] in H. apply andb_true_iff in H as [H1 H2]. split; [exact H1 | apply Hn; right; exact H2].
  - intros ->. reflexivity.
Qed.

(* ====================================================================================================== *)
(* 2. leaf encodings: free of 0xFF where it matters, and the same bytes in either mode                    *)
(* ====================================================================================================== *)
Lemma enc_int_no255 t z bs : enc_int t z = Some bs -> 0 <= z -> (t = TByte -> z <> 255) -> no255 bs.
Proof.
  intros He Hz Hb. destruct t; cbn [enc_int itype_max] in He;
    try (destruct (z <=? _) eqn:Q; [|discriminate He]; destruct (encode_number z); [|discriminate He]; injection He as <-;
         apply encode_digits_no255; unfold INT_MAX; lia).
  destruct ((0 <=? z) && (z <=? 255)); [|discriminate He]. injection He as <-. intros [H|[]]. apply (Hb eq_refl). auto.
Qed.

Lemma sanitize_id bs : no255 bs -> sanitize true bs = bs.
Proof.
  unfold sanitize. induction bs as [|b bs IH]; intros H; [reflexivity|]. cbn [map].
  destruct (b =? 255) eqn:Q; [exfalso; apply H; left; lia|]. rewrite IH; [reflexivity|]. intros Hin. apply H. right. exact Hin.
Qed.

Lemma no_255_spec s : no_255 s = true -> no255 s.
Proof. unfold no_255. apply forallb_neq_notin. Qed.

Lemma enc_str_mode m enc s len padded : no255 s -> enc_str m enc s len padded = enc_str false enc s len padded.
Proof.
  intros H. destruct m; [|reflexivity]. unfold enc_str. rewrite sanitize_false, sanitize_id; [reflexivity|].
  apply cp_no_255. exact H.
Qed.

Lemma place_no255 enc bs : no255 bs -> no255 (place enc bs).
Proof. destruct enc; cbn [place]; [apply encode_string_no255 | auto]. Qed.

Lemma enc_str_no255 enc s len padded out : no255 s -> (forall n, len = Some n -> padded = true -> zlen s = n) ->
  enc_str false enc s len padded = Some out -> no255 out.
Proof.
  intros Hs Hp. unfold enc_str. rewrite sanitize_false. pose proof (cp_no_255 _ Hs) as Hc. destruct len as [n|].
  - destruct padded.
    + rewrite (Hp n eq_refl eq_refl), Z.leb_refl, Z.sub_diag. intros H. injection H as <-. apply place_no255.
      unfold zrepeat. cbn [Z.to_nat repeat]. rewrite app_nil_r. exact Hc.
    + destruct (zlen s =? n); intros H; [|discriminate H]. injection H as <-. apply place_no255. exact Hc.
  - intros H. injection H as <-. apply place_no255. exact Hc.
Qed.

Definition is_leaf (ty : etype) : Prop := match ty with EStruct _ => False | _ => True end.

Lemma bool_bytes_no255 t (b : bool) bs : enc_int t (if b then 1 else 0) = Some bs -> no255 bs.
Proof. intros He. apply (enc_int_no255 _ _ _ He); destruct b; lia. Qed.

Section Leaf.
  Variable vo : string -> bool -> bool -> value -> bool.
  Variable erec : string -> value -> bool -> option (list Z).

  Lemma leaf_facts m cl ty flen len padded v out : is_leaf ty ->
    obj_valueB vo m cl ty flen padded v = true ->
    (forall n, len = Some n -> flen = LLit n \/ py_len v = Some n) ->
    enc_value erec ty v len padded 0 m = Some out ->
    enc_value erec ty v len padded 0 false = Some out /\ (m = true \/ leaf_clean ty flen padded v = true -> no255 out).
  Proof.
    intros Hl Ho Hlen He. unfold obj_valueB in Ho. apply andb_true_iff in Ho as [Ho Hc].
    assert (Hcv : m = true \/ leaf_clean ty flen padded v = true -> chunk_value ty flen padded v = true).
    { intros [->|H]; [exact Hc|]. destruct ty; try destruct Hl; exact H. }
    clear Hc.
    destruct ty as [t|t|en t|enc| |n]; try destruct Hl; cbn [obj_value enc_value] in *.
    - destruct v as [|z| | | | |]; try discriminate Ho. split; [exact He|]. rewrite Z.sub_0_r in He.
      intros Hm. apply (enc_int_no255 _ _ _ He); [lia|]. intros ->.
      specialize (Hcv Hm). cbn [chunk_value] in Hcv. lia.
    - destruct v as [| |b| | | |]; try discriminate Ho. split; [exact He|]. intros _. cbn [truthy] in He.
      apply (bool_bytes_no255 _ _ _ He).
    - destruct v as [|z| | | | |]; try discriminate Ho. split; [exact He|].
      intros Hm. apply (enc_int_no255 _ _ _ He); [lia|]. intros ->.
      specialize (Hcv Hm). cbn [chunk_value] in Hcv. lia.
    - destruct v as [| | |s| | |]; try discriminate Ho.
      assert (Hs : m = true \/ leaf_clean (EStr enc) flen padded (VStr s) = true ->
                   no255 s /\ forall n, len = Some n -> padded = true -> zlen s = n).
      { intros Hm. specialize (Hcv Hm). cbn [chunk_value] in Hcv. apply andb_true_iff in Hcv as [H255 Hpad].
        apply no_255_spec in H255. split; [exact H255|]. intros n Hn ->. cbn [negb orb] in Hpad.
        destruct (Hlen n Hn) as [Hf|Hf]; [rewrite Hf in Hpad; lia | cbn [py_len] in Hf; injection Hf as Hf; exact Hf]. }
      assert (He0 : enc_str false enc s len padded = Some out).
      { destruct m; [|exact He]. destruct (Hs (or_introl eq_refl)) as [H255 _]. rewrite (enc_str_mode true _ _ _ _ H255) in He. exact He. }
      split; [exact He0|]. intros Hm. destruct (Hs Hm) as [H255 Hpad].
      apply (enc_str_no255 enc s len padded out H255 Hpad He0).
    - destruct v as [| | | |b| |]; try discriminate Ho. split; [exact He|]. injection He as <-.
      intros Hm. specialize (Hcv Hm). cbn [chunk_value] in Hcv. apply no_255_spec. exact Hcv.
  Qed.
End Leaf.

(* ====================================================================================================== *)
(* 3. inversion of the boolean side conditions                                                             *)
(* ====================================================================================================== *)
Section InvB.
  Variable sizef : string -> option Z.
  Variable wcls : string -> bool -> cont -> bool.
  Variable progf : string -> bool.
  Variable vo : string -> bool -> bool -> value -> bool.
  Hypothesis vo_none : forall n m cl, vo n m cl VNone = false.

  Lemma wire_field_invB K m lens pubs f t :
    wire_instrsB sizef wcls progf K m lens pubs (EField f :: t) = true ->
    match f_name f with
    | Some n => pub_fresh n lens pubs = true /\ (forall l, f_len f = LRef l -> ref_ok l n lens = true)
    | None => f_optional f = false /\ (forall l, f_len f <> LRef l) /\
              exists lit, f_hard f = Some lit /\ lit_enc_okB m (f_ty f) (f_len f) (f_padded f) lit = true
    end /\
    (f_optional f = true -> opt_stop m t K = true /\ nonempty_tyB sizef progf (f_ty f) = true) /\
    wire_val wcls m (cont_of t K) (f_ty f) (f_len f) = true /\
    wire_instrsB sizef wcls progf K m lens (match f_name f with Some n => n :: pubs | None => pubs end) t = true.
  Proof using Type.
    clear vo_none. clear vo.
    cbn [wire_instrsB]. intros W. apply andb_true_iff in W as [W Wt]. apply andb_true_iff in W as [W Wv].
    apply andb_true_iff in W as [Wn Wo].
    assert (Hopt : f_optional f = true -> opt_stop m t K = true /\ nonempty_tyB sizef progf (f_ty f) = true /\
                                          exists n, f_name f = Some n).
    { intros Fo. rewrite Fo in Wo. apply andb_true_iff in Wo as [Wo W4]. apply andb_true_iff in Wo as [W1 W3].
      repeat split; try assumption. destruct (f_name f) as [n|]; [eauto | discriminate W3]. }
    split; [|split; [|split; [exact Wv | exact Wt]]].
    - destruct (f_name f) as [n|].
      + apply andb_true_iff in Wn as [W1 W2]. split; [exact W1|]. intros l Hl. rewrite Hl in W2. exact W2.
      + apply andb_true_iff in Wn as [W1 W2]. split; [|split].
        * destruct (f_optional f); [|reflexivity]. destruct (Hopt eq_refl) as [_ [_ [n Hn]]]. discriminate Hn.
        * intros l Hl. rewrite Hl in W2. discriminate W2.
        * destruct (f_hard f) as [lit|]; [eauto | discriminate W1].
    - intros Fo. destruct (Hopt Fo) as [H1 [H2 _]]. auto.
  Qed.

  Lemma obj_valueB_not_none m cl ty flen padded v : obj_valueB vo m cl ty flen padded v = true -> is_none v = false.
  Proof using vo_none.
    unfold obj_valueB. intros H. apply andb_true_iff in H as [H _].
    destruct v; try reflexivity. destruct ty; cbn [obj_value] in H; try discriminate H. rewrite vo_none in H. discriminate H.
  Qed.

  Lemma obj_field_invB em m cl flds f t rmo n : obj_instrsB vo em m cl flds (EField f :: t) rmo = true -> f_name f = Some n ->
    exists v, assoc flds n = Some v /\ hard_agrees f v = true /\
      ((f_optional f = true /\ v = VNone /\ obj_instrsB vo em m cl flds t true = true) \/
       ((f_optional f = true -> rmo = false /\ nonempty_value v = true) /\ valid_len f v = true /\
        obj_valueB vo m cl (f_ty f) (f_len f) (f_padded f) v = true /\
        obj_instrsB vo em m (m || cl && leaf_clean (f_ty f) (f_len f) (f_padded f) v) flds t rmo = true /\ is_none v = false)).
  Proof using vo_none.
    cbn [obj_instrsB]. intros O Fn. rewrite Fn in O. destruct (assoc flds n) as [v|]; [|discriminate O]. exists v.
    apply andb_true_iff in O as [Oh O]. split; [reflexivity|]. split; [exact Oh|].
    destruct (f_optional f).
    - destruct (is_none v) eqn:Hnn.
      + left. destruct v; try discriminate Hnn. auto.
      + right. apply andb_true_iff in O as [O O5]. apply andb_true_iff in O as [O O4]. apply andb_true_iff in O as [O O3].
        apply andb_true_iff in O as [O1 O2]. apply negb_true_iff in O1. repeat split; auto.
    - right. apply andb_true_iff in O as [O O3]. apply andb_true_iff in O as [O1 O2].
      split; [discriminate|]. repeat split; try assumption. apply (obj_valueB_not_none _ _ _ _ _ _ O2).
  Qed.

  Lemma wire_array_invB K m lens pubs f dl tr cnt t :
    wire_instrsB sizef wcls progf K m lens pubs (EArray f dl tr cnt :: t) = true ->
    (dl = true -> m = true) /\ exists n, f_name f = Some n /\ pub_fresh n lens pubs = true /\
    (f_optional f = true -> opt_stop m t K = true /\ nonempty_tyB sizef progf (f_ty f) = true) /\
    (if dl then wire_val wcls true KBreak (f_ty f) LNone = true /\
                (tr = false -> wire_val wcls true (cont_of t K) (f_ty f) LNone = true)
     else wire_val wcls m KOther (f_ty f) LNone = true) /\
    match cnt with
    | ACExpr => match f_len f with LRef l => ref_ok l n lens = true | LLit k => True | LNone => False end
    | ACRemaining sz => dl = false /\ stopb m (cont_of t K) = true /\ 0 < sz /\ elem_sizeB sizef (f_ty f) = Some sz
    | ACWhile => if dl then (if tr then stopb m (cont_of t K) = true else cont_of t K = KEnd) /\ elem_prog progf (f_ty f) = true
                 else stopb m (cont_of t K) = true /\ exists cn, f_ty f = EStruct cn /\ progf cn = true
    end /\
    wire_instrsB sizef wcls progf K m lens (n :: pubs) t = true.
  Proof using Type.
    clear vo_none. clear vo.
    cbn [wire_instrsB]. intros W. apply andb_true_iff in W as [W Wt]. apply andb_true_iff in W as [W Wc].
    apply andb_true_iff in W as [W We]. apply andb_true_iff in W as [W Wo]. apply andb_true_iff in W as [Wd Wn].
    split; [intros ->; exact Wd|].
    destruct (f_name f) as [n|]; [|discriminate Wn]. exists n. split; [reflexivity|]. split; [exact Wn|].
    split; [|split; [|split; [|exact Wt]]].
    - intros Fo. rewrite Fo in Wo. apply andb_true_iff in Wo as [W1 W3]. auto.
    - destruct dl; [|exact We]. apply andb_true_iff in We as [W1 W2]. split; [exact W1|]. intros ->. exact W2.
    - destruct cnt as [|sz|].
      + destruct (f_len f); [discriminate Wc | exact I | exact Wc].
      + apply andb_true_iff in Wc as [Wc W4]. apply andb_true_iff in Wc as [Wc W3]. apply andb_true_iff in Wc as [W1 W2].
        split; [destruct dl; [discriminate W1 | reflexivity]|]. split; [exact W2|]. split; [lia|].
        destruct (elem_sizeB sizef (f_ty f)) as [s|]; [|discriminate W4]. f_equal. lia.
      + destruct dl.
        * apply andb_true_iff in Wc as [W1 W2]. split; [|exact W2]. destruct tr; [exact W1|].
          destruct (cont_of t K); try discriminate W1. reflexivity.
        * apply andb_true_iff in Wc as [W1 W2]. split; [exact W1|]. destruct (f_ty f); try discriminate W2. eauto.
  Qed.

  Lemma obj_array_invB em m cl flds f dl tr cnt t rmo n : obj_instrsB vo em m cl flds (EArray f dl tr cnt :: t) rmo = true -> f_name f = Some n ->
    (assoc flds n = Some VNone /\ f_optional f = true /\ obj_instrsB vo em m cl flds t true = true) \/
    (exists elems, assoc flds n = Some (VList elems) /\ (f_optional f = true -> rmo = false /\ zlen elems <> 0) /\
       valid_len f (VList elems) = true /\ (forall k, f_len f = LLit k -> zlen elems = k) /\
       (dl = true -> is_while cnt = true \/ f_optional f = true -> forallb nonempty_value elems = true) /\
       forallb (obj_valueB vo m m (f_ty f) LNone false) elems = true /\ obj_instrsB vo em m m flds t rmo = true).
  Proof using Type.
    clear vo_none wcls sizef progf.
    cbn [obj_instrsB]. intros O Fn. rewrite Fn in O. destruct (assoc flds n) as [v|]; [|discriminate O].
    destruct v as [| | | | |elems|]; try discriminate O.
    - left. apply andb_true_iff in O as [O1 O2]. auto.
    - right. exists elems. apply andb_true_iff in O as [O O6]. apply andb_true_iff in O as [O O5].
      apply andb_true_iff in O as [O O4]. apply andb_true_iff in O as [O O3]. apply andb_true_iff in O as [O1 O2].
      split; [reflexivity|]. split; [|split; [exact O2|split; [|split; [|split; assumption]]]].
      + intros Fo. rewrite Fo in O1. cbn [negb orb nonempty_value] in O1. apply andb_true_iff in O1 as [Oa Ob].
        apply negb_true_iff in Oa, Ob. split; [exact Oa | lia].
      + intros k Hk. rewrite Hk in O3. lia.
      + intros -> Hw. cbn [negb orb] in O4. apply orb_true_iff in O4 as [O4|O4]; [|exact O4].
        apply negb_true_iff in O4. destruct Hw as [Hw|Hw]; rewrite Hw in O4; [discriminate O4 | rewrite orb_true_r in O4; discriminate O4].
  Qed.
End InvB.

(* ====================================================================================================== *)
(* 4. static sizes in either mode; literals; progress                                                      *)
(* ====================================================================================================== *)
Lemma enc_str_lenB san enc s n padded out : enc_str san enc s (Some n) padded = Some out -> zlen out = n.
Proof.
  unfold enc_str. destruct padded.
  - destruct (zlen s <=? n) eqn:Q; intros H; [|discriminate H]. injection H as <-.
    rewrite zlen_place, zlen_app, zlen_sanitize, zlen_cp_encode, zlen_zrepeat' by lia. lia.
  - destruct (zlen s =? n) eqn:Q; intros H; [|discriminate H]. injection H as <-.
    rewrite zlen_place, zlen_sanitize, zlen_cp_encode. lia.
Qed.

Section EncSizeB.
  Variable erec : string -> value -> bool -> option (list Z).
  Variable sizef : string -> option Z.
  Hypothesis Hsz : forall n s x san out, sizef n = Some s -> erec n x san = Some out -> zlen out = s.

  Lemma enc_value_sizeB ty flen len v padded san out s :
    ty_size sizef ty flen = Some s -> (forall n, flen = LLit n -> len = Some n) ->
    enc_value erec ty v len padded 0 san = Some out -> zlen out = s.
  Proof.
    intros Hs Hlen He. destruct ty as [t|t|en t|enc| |n]; cbn [ty_size enc_value] in *.
    - injection Hs as <-. destruct v; try discriminate He; apply (enc_int_size _ _ _ He).
    - injection Hs as <-. apply (enc_int_size _ _ _ He).
    - injection Hs as <-. destruct v; try discriminate He; apply (enc_int_size _ _ _ He).
    - destruct flen as [|n|l]; try discriminate Hs. injection Hs as <-. rewrite (Hlen n eq_refl) in He.
      destruct v; try discriminate He. apply (enc_str_lenB _ _ _ _ _ _ He).
    - discriminate Hs.
    - apply (Hsz _ _ _ _ _ Hs He).
  Qed.

  Lemma enc_elems_sizeB ty san s : ty_size sizef ty LNone = Some s -> forall elems bodies,
    sequence (map (fun e => enc_value erec ty e None false 0 san) elems) = Some bodies ->
    zlen (List.concat bodies) = zlen elems * s.
  Proof.
    intros Hs. induction elems as [|e elems IH]; intros bodies Hq; cbn [map sequence] in Hq.
    - injection Hq as <-. reflexivity.
    - destruct (enc_value erec ty e None false 0 san) as [b|] eqn:Eb; [|discriminate Hq].
      destruct (sequence _) as [bs|] eqn:Eq; [|discriminate Hq]. injection Hq as <-.
      cbn [List.concat]. rewrite zlen_app, zlen_cons, (IH _ eq_refl).
      rewrite (enc_value_sizeB _ LNone _ _ _ _ _ _ Hs ltac:(discriminate) Eb). lia.
  Qed.

  Lemma enc_instr_sizeB flds i rmo san acc out rmo' s :
    instr_size sizef i = Some s -> enc_instr erec flds i rmo san acc = Some (out, rmo') -> zlen out = s.
  Proof.
    intros Hs He. destruct i as [f|f dl tr cnt|name t off opt of rb|ty lit g|fld cs|b|]; cbn [instr_size] in Hs; try discriminate Hs.
    - destruct (f_optional f) eqn:Fo; [discriminate Hs|]. cbn [enc_instr] in He. unfold enc_field in He.
      destruct (f_name f) as [name|].
      + destruct (assoc flds name) as [v|]; [|discriminate He]. rewrite Fo, RoundTrip.opt_guard_required in He. cbn [negb] in He.
        dm He; [discriminate He|]. destruct (len_ok f v); [|discriminate He].
        destruct (enc_value _ _ _ _ _ _ _) as [o|] eqn:Ev; [|discriminate He]. injection He as <- <-.
        apply (enc_value_sizeB _ _ _ _ _ _ _ _ Hs) in Ev; [exact Ev|]. intros n Hn. unfold field_len. rewrite Hn. reflexivity.
      + destruct (f_hard f) as [lit|]; [|discriminate He]. destruct (lit_value (f_ty f) lit) as [v|]; [|discriminate He].
        destruct (enc_value _ _ _ _ _ _ _) as [o|] eqn:Ev; [|discriminate He]. injection He as <- <-.
        apply (enc_value_sizeB _ _ _ _ _ _ _ _ Hs) in Ev; [exact Ev|]. intros n Hn. rewrite Hn. reflexivity.
    - destruct dl; [discriminate Hs|]. destruct (f_optional f) eqn:Fo; [discriminate Hs|].
      destruct (f_len f) as [|n|l] eqn:Fl; try discriminate Hs.
      destruct (ty_size sizef (f_ty f) LNone) as [es|] eqn:Es; [|discriminate Hs]. injection Hs as <-.
      cbn [enc_instr] in He. unfold enc_array in He. destruct (f_name f) as [name|]; [|discriminate He].
      destruct (assoc flds name) as [v|]; [|discriminate He]. rewrite Fo, RoundTrip.opt_guard_required in He. cbn [negb] in He.
      destruct v as [| | | | |elems|]; try discriminate He. unfold array_count_ok in He. rewrite Fl in He.
      destruct (zlen elems =? n) eqn:Q; [|discriminate He]. unfold enc_elems in He.
      destruct (sequence _) as [bodies|] eqn:Eq; [|discriminate He]. injection He as <- <-.
      cbn [join_elems]. rewrite (enc_elems_sizeB _ _ _ Es _ _ Eq). lia.
    - destruct opt; [discriminate Hs|]. injection Hs as <-. cbn [enc_instr] in He.
      destruct rb as [fr|]; [|discriminate He]. destruct (assoc flds fr) as [fv|]; [|discriminate He].
      destruct (length_slot fv) as [sv|]; [|discriminate He]. rewrite RoundTrip.opt_guard_required in He. cbn [negb] in He.
      destruct sv; try discriminate He. destruct (enc_int t (z - off)) as [o|] eqn:Ei; [|discriminate He].
      injection He as <- <-. apply (enc_int_size _ _ _ Ei).
  Qed.

  Lemma enc_instrs_sizeB flds : forall is rmo san acc out s,
    body_size sizef is = Some s -> enc_instrs erec flds is rmo san acc = Some out -> zlen out = s.
  Proof.
    induction is as [|i t IH]; intros rmo san acc out s Hs He; cbn [body_size enc_instrs] in *.
    - injection Hs as <-. injection He as <-. reflexivity.
    - destruct (instr_size sizef i) as [a|] eqn:Ea; [|discriminate Hs].
      destruct (body_size sizef t) as [b|] eqn:Eb; [|discriminate Hs]. injection Hs as <-.
      destruct (enc_instr erec flds i rmo san acc) as [[o rmo']|] eqn:Ei; [|discriminate He].
      assert (Hm : instr_mode i san = san) by (destruct i; try reflexivity; discriminate Ea). rewrite Hm in He.
      destruct (enc_instrs erec flds t rmo' san (acc ++ o)) as [o'|] eqn:Et; [|discriminate He]. injection He as <-.
      rewrite zlen_app, (enc_instr_sizeB _ _ _ _ _ _ _ _ Ea Ei), (IH _ _ _ _ _ eq_refl Et). reflexivity.
  Qed.
End EncSizeB.

Lemma enc_dummy_bodyB erec flds ty lit rmo san acc out :
  enc_instrs erec flds [EDummy ty lit false] rmo san acc = Some out ->
  exists v, lit_value ty lit = Ok v /\ enc_value erec ty v None false 0 san = Some out.
Proof.
  cbn [enc_instrs enc_instr andb]. destruct (lit_value ty lit) as [v|]; [|discriminate].
  destruct (enc_value erec ty v None false 0 san) as [o|] eqn:Ev; [|discriminate]. intros H. injection H as <-.
  exists v. rewrite app_nil_r. split; [reflexivity | exact Ev].
Qed.

Lemma size_of_encB E : forall n m cls v san out s,
  size_of n E cls = Some s -> enc_struct m E cls v san = Some out -> zlen out = s.
Proof.
  induction n as [|n IH]; intros m cls v san out s Hs He; [discriminate Hs|].
  destruct m as [|m]; [discriminate He|]. cbn [size_of enc_struct] in *.
  destruct (env_find E cls) as [d|]; [|discriminate Hs]. unfold enc_body in He.
  destruct (sole_dummy (sd_body d)) as [[ty lit]|] eqn:Sd.
  - apply sole_dummy_spec in Sd. rewrite Sd in He. destruct v; try discriminate He.
    apply enc_dummy_bodyB in He as [lv [_ He]].
    apply (enc_value_sizeB _ (fun _ => None) ltac:(discriminate) _ LNone _ _ _ _ _ _ Hs ltac:(discriminate) He).
  - destruct v as [| | | | | |c flds].
    7: apply (enc_instrs_sizeB (enc_struct m E) (size_of n E) (fun a b c d e H1 H2 => IH m a c d e b H1 H2) _ _ _ _ _ _ _ Hs He).
    all: destruct (sd_body d); [|discriminate He]; injection He as <-; cbn [body_size] in Hs; injection Hs as <-; reflexivity.
Qed.

(* a literal accepted in mode m: its bytes are free of 0xFF where that matters *)
Lemma lit_facts erec m ty flen padded lit lv out :
  lit_enc_okB m ty flen padded lit = true -> lit_value ty lit = Ok lv ->
  enc_value erec ty lv (match flen with LLit n => Some n | _ => None end) padded 0 m = Some out ->
  (m = true \/ leaf_clean ty flen padded lv = true -> no255 out) /\ 0 <= zlen out.
Proof.
  unfold lit_enc_okB, lit_enc_ok. intros H Hl He. rewrite Hl in H. apply andb_true_iff in H as [H Hm].
  split; [|apply zlen_nonneg].
  destruct ty as [t|t|en t|enc| |n]; cbn [lit_value] in Hl; try discriminate Hl.
  - assert (Hz : exists z, lv = VInt z).
    { destruct (parse_int lit) as [z|]; [|discriminate Hl]. destruct (isdigit lit); [|discriminate Hl]. injection Hl as <-. eauto. }
    destruct Hz as [z ->]. pose proof (lit_int_nonneg t lit z Hl) as Hz. cbn [enc_value] in He. rewrite Z.sub_0_r in He.
    intros Hc. apply (enc_int_no255 _ _ _ He Hz). intros ->. destruct Hc as [Hc|Hc].
    + subst m. cbn [negb orb] in Hm. lia.
    + cbn [leaf_clean chunk_value] in Hc. lia.
  - assert (Hb : exists b, lv = VBool b).
    { destruct (String.eqb lit "true"); [injection Hl as <-; eauto|]. destruct (String.eqb lit "false"); [injection Hl as <-; eauto | discriminate Hl]. }
    destruct Hb as [b ->]. cbn [enc_value truthy] in He. intros _. apply (bool_bytes_no255 _ _ _ He).
  - injection Hl as <-. cbn [enc_value] in He. intros Hc.
    assert (Hbody : no255 (sanitize m (cp_encode (str_cps lit)))).
    { destruct m; [apply sanitize_no255|]. destruct Hc as [Hc|Hc]; [discriminate Hc|]. cbn [leaf_clean chunk_value] in Hc.
      apply andb_true_iff in Hc as [Hc _]. rewrite sanitize_false. apply cp_no_255. apply no_255_spec. exact Hc. }
    assert (Hpad : forall n, flen = LLit n -> padded = true -> zlen (str_cps lit) = n).
    { intros n -> ->. destruct m.
      - cbn [negb orb] in Hm. lia.
      - destruct Hc as [Hc|Hc]; [discriminate Hc|]. cbn [leaf_clean chunk_value] in Hc. apply andb_true_iff in Hc as [_ Hc].
        cbn [negb orb] in Hc. lia. }
    unfold enc_str in He. destruct flen as [|n|l].
    + injection He as <-. apply place_no255. exact Hbody.
    + destruct padded.
      * rewrite (Hpad n eq_refl eq_refl), Z.leb_refl, Z.sub_diag in He. injection He as <-.
        apply place_no255. unfold zrepeat. cbn [Z.to_nat repeat]. rewrite app_nil_r. exact Hbody.
      * destruct (zlen (str_cps lit) =? n); [|discriminate He]. injection He as <-. apply place_no255. exact Hbody.
    + injection He as <-. apply place_no255. exact Hbody.
Qed.

Lemma valid_objB_none f E n m cl : valid_objB f E n m cl VNone = false.
Proof. destruct f; cbn [valid_objB]; [reflexivity|]. destruct (env_find E n); reflexivity. Qed.

Lemma scalar_head erec vo m cl ty flen len padded v out : scalar_ty ty = true ->
  obj_valueB vo m cl ty flen padded v = true -> enc_value erec ty v len padded 0 m = Some out -> headok m out.
Proof.
  intros Hs Ho He.
  assert (Hl : is_leaf ty) by (destruct ty; try exact I; discriminate Hs).
  assert (He' : enc_value erec ty v None padded 0 m = Some out) by (destruct ty; try discriminate Hs; exact He).
  destruct (leaf_facts vo erec m cl ty flen None padded v out Hl Ho ltac:(discriminate) He') as [Hf Hn].
  apply headok_no255; [apply (enc_value_scalar_pos _ _ _ _ _ _ Hf Hs) | intros ->; apply Hn; left; reflexivity].
Qed.

Lemma progress_head E : forall n fw fv fe cls em cl K v out,
  progress_class n E cls = true -> wire_classB fw E cls em K = true -> valid_objB fv E cls em cl v = true ->
  enc_struct fe E cls v em = Some out -> headok em out.
Proof.
  induction n as [|n IH]; intros fw fv fe cls em cl K v out Hp W V He; [discriminate Hp|].
  destruct fw as [|fw]; [discriminate W|]. destruct fv as [|fv]; [discriminate V|]. destruct fe as [|fe]; [discriminate He|].
  cbn [progress_class wire_classB valid_objB enc_struct] in *.
  destruct (env_find E cls) as [d|]; [|discriminate Hp].
  destruct v as [| | | | | |c flds]; try discriminate V.
  apply andb_true_iff in V as [_ O].
  unfold enc_body in He. unfold progress_body in Hp. unfold wire_bodyB in W.
  destruct (sole_dummy (sd_body d)) as [[ty lit]|] eqn:Sd.
  - apply sole_dummy_spec in Sd. rewrite Sd in He. apply enc_dummy_bodyB in He as [lv [Hlv He]].
    destruct ty as [t| | | | |]; try discriminate Hp.
    destruct (lit_facts _ em (EInt t) LNone false lit lv out W Hlv He) as [Hn _].
    apply headok_no255; [|intros ->; apply Hn; left; reflexivity].
    apply (enc_value_scalar_pos (enc_struct fe E) (EInt t) lv None false out He eq_refl).
  - destruct (sd_body d) as [|i t]; [discriminate Hp|].
    cbn [enc_instrs] in He. destruct (enc_instr _ flds i false em []) as [[o rmo']|] eqn:Ei; [|discriminate He].
    destruct (enc_instrs _ flds t rmo' _ _) as [o'|]; [|discriminate He]. injection He as <-. apply headok_app.
    destruct i as [f|f dl tr cnt|name t0 off opt of rb|ty lit g|fld cs|b|]; try discriminate Hp.
    + apply andb_true_iff in Hp as [Fo Hty]. apply negb_true_iff in Fo.
      apply wire_field_invB in W as [Wn [_ [Wv _]]]. cbn [enc_instr] in Ei. unfold enc_field in Ei.
      destruct (f_name f) as [name|] eqn:Fn.
      * destruct (obj_field_invB _ (valid_objB_none fv E) _ _ _ _ _ _ _ _ O Fn) as [v [Fa [_ [[Fo' _]|[_ [_ [Hov [_ Hnn]]]]]]]];
          [rewrite Fo in Fo'; discriminate Fo'|].
        rewrite Fa, Fo, RoundTrip.opt_guard_required in Ei. cbn [negb] in Ei.
        dm Ei; [discriminate Ei|]. destruct (len_ok f v); [|discriminate Ei].
        destruct (enc_value _ _ _ _ _ _ _) as [o1|] eqn:Ev; [|discriminate Ei]. injection Ei as <- <-.
        destruct (f_ty f) as [t0|t0|en t0| | |sn] eqn:Ft; try discriminate Hty;
          try (refine (scalar_head _ _ _ _ _ _ _ _ _ _ _ Hov Ev); reflexivity).
        cbn [wire_val] in Wv. unfold obj_valueB in Hov. apply andb_true_iff in Hov as [Hov _]. cbn [obj_value] in Hov.
        cbn [enc_value] in Ev. apply (IH _ _ _ _ _ _ _ _ _ Hty Wv Hov Ev).
      * destruct Wn as [_ [_ [lit [Fh Hlit]]]]. rewrite Fh in Ei.
        destruct (lit_value (f_ty f) lit) as [lv|] eqn:Elv; [|discriminate Ei].
        destruct (enc_value _ _ _ _ _ _ _) as [o1|] eqn:Ev; [|discriminate Ei]. injection Ei as <- <-.
        destruct (lit_facts _ em _ _ _ lit lv o1 Hlit Elv Ev) as [Hn _].
        assert (Hs : scalar_ty (f_ty f) = true).
        { destruct (f_ty f); try reflexivity; try discriminate Hty. cbn [lit_value] in Elv. discriminate Elv. }
        apply headok_no255; [|intros ->; apply Hn; left; reflexivity].
        assert (Ev' : enc_value (enc_struct fe E) (f_ty f) lv (match f_len f with LLit n0 => Some n0 | _ => None end) (f_padded f) 0 false = Some o1)
          by (destruct (f_ty f); try discriminate Hs; exact Ev).
        apply (enc_value_scalar_pos _ _ _ _ _ _ Ev' Hs).
    + destruct opt; [discriminate Hp|]. cbn [enc_instr] in Ei.
      destruct rb as [fr|]; [|discriminate Ei]. cbn [obj_instrsB] in O.
      destruct (assoc flds fr) as [fv0|]; [|discriminate Ei]. unfold length_slot in Ei.
      destruct (py_len fv0) as [l|]; [|discriminate O]. rewrite RoundTrip.opt_guard_required in Ei. cbn [negb] in Ei.
      destruct (enc_int t0 (l - off)) as [o1|] eqn:E1; [|discriminate Ei]. injection Ei as <- <-.
      apply andb_true_iff in O as [O _]. apply andb_true_iff in O as [O Oc]. apply headok_no255.
      * rewrite (enc_int_size _ _ _ E1). pose proof (itype_size_range t0). lia.
      * intros ->. apply (enc_int_no255 _ _ _ E1); [lia|]. intros ->. cbn [negb orb clean_it] in Oc. lia.
Qed.

Lemma field_len_cases f v n : field_len f v = Some n -> f_len f = LLit n \/ py_len v = Some n.
Proof. unfold field_len. destruct (f_len f); intros H; [discriminate H | left; congruence | right; exact H]. Qed.

(* a class of static size, written inside a chunked section: no 0xFF at all *)
Section SizedNo255.
  Variable E : env.
  Variables fw fv fe : nat.
  Variable sz : string -> option Z.
  Variable sizef0 : string -> option Z.
  Variable progf0 : string -> bool.
  Hypothesis IHc : forall cls cl K v out s, sz cls = Some s -> wire_classB fw E cls true K = true ->
    valid_objB fv E cls true cl v = true -> enc_struct fe E cls v true = Some out -> no255 out.

  Lemma sized_value ty flen len padded cl K v out s : ty_size sz ty flen = Some s ->
    wire_val (wire_classB fw E) true K ty flen = true -> obj_valueB (valid_objB fv E) true cl ty flen padded v = true ->
    (forall n, len = Some n -> flen = LLit n \/ py_len v = Some n) ->
    enc_value (enc_struct fe E) ty v len padded 0 true = Some out -> no255 out.
  Proof.
    intros Hs Hw Ho Hlen2 He. destruct ty as [t|t|en t|enc| |n].
    6: { cbn [ty_size wire_val enc_value] in *. unfold obj_valueB in Ho. apply andb_true_iff in Ho as [Ho _]. cbn [obj_value] in Ho.
         apply (IHc _ _ _ _ _ _ Hs Hw Ho He). }
    all: match type of He with enc_value _ ?ty _ _ _ _ _ = _ =>
           destruct (leaf_facts (valid_objB fv E) (enc_struct fe E) true cl ty flen len padded v out I Ho Hlen2 He) as [_ Hn] end;
         apply Hn; left; reflexivity.
  Qed.

  Lemma sized_instrs flds : forall is em K cl lens pubs rmo rmo_e acc out s,
    body_size sz is = Some s -> wire_instrsB sizef0 (wire_classB fw E) progf0 K true lens pubs is = true ->
    obj_instrsB (valid_objB fv E) em true cl flds is rmo = true -> enc_instrs (enc_struct fe E) flds is rmo_e true acc = Some out -> no255 out.
  Proof.
    induction is as [|i t IHt]; intros em K cl lens pubs rmo rmo_e acc out s Hs W O He; cbn [body_size enc_instrs] in *.
    - injection He as <-. apply no255_nil.
    - destruct (instr_size sz i) as [a|] eqn:Ea; [|discriminate Hs].
      destruct (body_size sz t) as [b|] eqn:Eb; [|discriminate Hs].
      destruct (enc_instr (enc_struct fe E) flds i rmo_e true acc) as [[o rmo']|] eqn:Ei; [|discriminate He].
      assert (Hm : instr_mode i true = true) by (destruct i; try reflexivity; discriminate Ea). rewrite Hm in He.
      destruct (enc_instrs (enc_struct fe E) flds t rmo' true (acc ++ o)) as [o'|] eqn:Et; [|discriminate He]. injection He as <-.
      destruct i as [f|f dl tr cnt|name t0 off opt of rb|ty lit g|fld cs|b0|]; cbn [instr_size] in Ea; try discriminate Ea.
      + destruct (f_optional f) eqn:Fo; [discriminate Ea|]. apply wire_field_invB in W as [Wn [_ [Wv Wt]]].
        cbn [enc_instr] in Ei. unfold enc_field in Ei. destruct (f_name f) as [name|] eqn:Fn.
        * destruct (obj_field_invB _ (valid_objB_none fv E) _ _ _ _ _ _ _ _ O Fn) as [v [Fa [_ [[Fo' _]|[_ [_ [Hov [Ot Hnn]]]]]]]];
            [rewrite Fo in Fo'; discriminate Fo'|].
          rewrite Fa, Fo, RoundTrip.opt_guard_required in Ei. cbn [negb] in Ei.
          dm Ei; [discriminate Ei|]. destruct (len_ok f v); [|discriminate Ei].
          destruct (enc_value _ _ _ _ _ _ _) as [o1|] eqn:Ev; [|discriminate Ei]. injection Ei as <- <-.
          apply no255_app; [|apply (IHt _ _ _ _ _ _ _ _ _ _ eq_refl Wt Ot Et)].
          apply (sized_value _ _ _ _ _ _ _ _ _ Ea Wv Hov (field_len_cases f v) Ev).
        * destruct Wn as [_ [_ [lit [Fh Hlit]]]]. rewrite Fh in Ei. cbn [obj_instrsB] in O. rewrite Fn in O.
          destruct (lit_value (f_ty f) lit) as [lv|] eqn:Elv; [|discriminate Ei].
          destruct (enc_value _ _ _ _ _ _ _) as [o1|] eqn:Ev; [|discriminate Ei]. injection Ei as <- <-.
          destruct (lit_facts _ true _ _ _ lit lv o1 Hlit Elv Ev) as [Hn _].
          apply no255_app; [apply Hn; left; reflexivity | apply (IHt _ _ _ _ _ _ _ _ _ _ eq_refl Wt O Et)].
      + destruct dl; [discriminate Ea|]. destruct (f_optional f) eqn:Fo; [discriminate Ea|].
        destruct (f_len f) as [|k|l] eqn:Fl; try discriminate Ea.
        destruct (ty_size sz (f_ty f) LNone) as [es|] eqn:Es; [|discriminate Ea].
        apply wire_array_invB in W as [_ [n [Fn [_ [_ [Wel [_ Wt]]]]]]].
        destruct (obj_array_invB _ _ _ _ _ _ _ _ _ _ _ _ O Fn) as [[_ [Fo' _]]|[elems [Fa [_ [_ [_ [_ [Hov Ot]]]]]]]];
          [rewrite Fo in Fo'; discriminate Fo'|].
        cbn [enc_instr] in Ei. unfold enc_array in Ei. rewrite Fn, Fa, Fo, RoundTrip.opt_guard_required in Ei. cbn [negb] in Ei.
        destruct (array_count_ok f elems); [|discriminate Ei]. unfold enc_elems in Ei.
        destruct (sequence _) as [bodies|] eqn:Hq; [|discriminate Ei]. injection Ei as <- <-. cbn [join_elems].
        apply no255_app; [|apply (IHt _ _ _ _ _ _ _ _ _ _ eq_refl Wt Ot Et)].
        clear - Hq Hov Es Wel IHc. revert bodies Hq. induction elems as [|e elems IHe]; intros bodies Hq; cbn [map sequence] in Hq.
        * injection Hq as <-. apply no255_nil.
        * destruct (enc_value (enc_struct fe E) (f_ty f) e None false 0 true) as [b1|] eqn:Eb1; [|discriminate Hq].
          destruct (sequence _) as [bs|] eqn:Eq; [|discriminate Hq]. injection Hq as <-.
          cbn [forallb] in Hov. apply andb_true_iff in Hov as [Ho1 Ho2]. cbn [List.concat].
          apply no255_app; [|apply (IHe Ho2 _ eq_refl)].
          apply (sized_value (f_ty f) LNone None false _ _ e b1 es Es Wel Ho1 ltac:(intros k Hk; discriminate Hk) Eb1).
      + destruct opt; [discriminate Ea|]. cbn [wire_instrsB] in W. apply andb_true_iff in W as [_ Wt].
        destruct rb as [fr|]; [|discriminate Wt]. cbn [obj_instrsB] in O.
        cbn [enc_instr] in Ei. destruct (assoc flds fr) as [fv0|]; [|discriminate Ei]. unfold length_slot in Ei.
        destruct (py_len fv0) as [l|]; [|discriminate O]. rewrite RoundTrip.opt_guard_required in Ei. cbn [negb] in Ei.
        destruct (enc_int t0 (l - off)) as [o1|] eqn:E1; [|discriminate Ei]. injection Ei as <- <-.
        apply andb_true_iff in O as [O Ot]. apply andb_true_iff in O as [O Oc].
        apply no255_app; [|apply (IHt _ _ _ _ _ _ _ _ _ _ eq_refl Wt Ot Et)].
        apply (enc_int_no255 _ _ _ E1); [lia|]. intros ->. cbn [negb orb clean_it] in Oc. lia.
  Qed.
End SizedNo255.

Lemma sized_no255 E : forall n fw fv fe cls cl K v out s,
  size_of n E cls = Some s -> wire_classB fw E cls true K = true -> valid_objB fv E cls true cl v = true ->
  enc_struct fe E cls v true = Some out -> no255 out.
Proof.
  induction n as [|n IH]; intros fw fv fe cls cl K v out s Hs W V He; [discriminate Hs|].
  destruct fw as [|fw]; [discriminate W|]. destruct fv as [|fv]; [discriminate V|]. destruct fe as [|fe]; [discriminate He|].
  cbn [size_of wire_classB valid_objB enc_struct] in *.
  destruct (env_find E cls) as [d|]; [|discriminate Hs].
  destruct v as [| | | | | |c flds]; try discriminate V. apply andb_true_iff in V as [_ O].
  unfold enc_body in He. unfold wire_bodyB in W.
  destruct (sole_dummy (sd_body d)) as [[ty lit]|] eqn:Sd.
  - apply sole_dummy_spec in Sd. rewrite Sd in He. apply enc_dummy_bodyB in He as [lv [Hlv He]].
    assert (Hl : lit_enc_okB true ty LNone false lit = true) by (destruct ty; try discriminate W; exact W).
    destruct (lit_facts _ true ty LNone false lit lv out Hl Hlv He) as [Hn _]. apply Hn. left. reflexivity.
  - apply (sized_instrs E fw fv fe (size_of n E) _ _ (fun a b c d0 e0 f0 H1 H2 H3 H4 => IH fw fv fe a b c d0 e0 f0 H1 H2 H3 H4)
             flds _ _ _ _ _ _ _ _ _ _ _ Hs W O He).
Qed.

(* ====================================================================================================== *)
(* 5. one class body, given the round trip of the classes one level down                                  *)
(* ====================================================================================================== *)
Lemma cont_of_post erec flds : forall t K rmo san acc o2 post,
  enc_instrs erec flds t rmo san acc = Some o2 -> post_ok K post -> post_ok (cont_of t K) (o2 ++ post).
Proof.
  induction t as [|i t IHt]; intros K rmo san acc o2 post He Hp; cbn [cont_of enc_instrs] in *.
  - injection He as <-. exact Hp.
  - destruct (enc_instr erec flds i rmo san acc) as [[o1 rmo']|] eqn:Ei; [|discriminate He].
    destruct (enc_instrs erec flds t rmo' (instr_mode i san) (acc ++ o1)) as [o3|] eqn:Et; [|discriminate He]. injection He as <-.
    destruct i; try exact I.
    + cbn [enc_instr] in Ei. injection Ei as <- <-. cbn [app]. apply (IHt _ _ _ _ _ _ Et Hp).
    + cbn [enc_instr] in Ei. injection Ei as <- <-. cbn [app post_ok]. eauto.
Qed.

(* the writer's reached_missing_optional implies the validity check's, unless the next optional restarts the chain *)
Definition rmo_rel (rmo_e rmo_v : bool) (is : list einstr) : Prop := rmo_e = true -> rmo_v = true \/ first_opt_ok is = true.

Lemma rmo_rel_keep rmo_e rmo_v i t : first_opt_ok (i :: t) = first_opt_ok t -> rmo_rel rmo_e rmo_v (i :: t) -> rmo_rel rmo_e rmo_v t.
Proof. intros H R Hr. rewrite <- H. apply R. exact Hr. Qed.

Lemma rmo_rel_true rmo_e t : rmo_rel rmo_e true t.
Proof. intros _. left. reflexivity. Qed.

Lemma rmo_rel_false rmo_v t : rmo_rel false rmo_v t.
Proof. intros H. discriminate H. Qed.

(* at a present optional the writer's guard lets the value through *)
Lemma rmo_rel_present rmo_e rmo_v i t first : rmo_rel rmo_e rmo_v (i :: t) -> rmo_v = false ->
  (first_opt_ok (i :: t) = first) -> (if first then false else rmo_e) = false.
Proof.
  intros R Hv Hf. destruct first; [reflexivity|]. destruct rmo_e; [|reflexivity].
  destruct (R eq_refl) as [H|H]; [rewrite Hv in H; discriminate H | rewrite Hf in H; discriminate H].
Qed.

Section StrReadB.
  Variable drec : string -> rstate -> rres value.

  Lemma deser_str_fixedB enc n padded m cl r d p out post : rv m cl r d p -> frame d p out post -> zlen out = n ->
    (m = true -> no255 out) ->
    deser_value drec (EStr enc) (Some n) padded 0 r = (r_set_pos r (p + zlen out), Ok (VStr (str_dec enc padded out))).
  Proof.
    intros Hr Hf Hl Hn. pose proof (zlen_nonneg out) as Hp. cbn [deser_value]. unfold str_dec. destruct enc.
    - unfold r_get_fixed_encoded_string. destruct (n <? 0) eqn:Q; [lia|].
      rewrite (rv_read_bytes _ _ _ _ _ _ _ _ Hr Hf (eq_sym Hl) Hn). reflexivity.
    - unfold r_get_fixed_string. destruct (n <? 0) eqn:Q; [lia|].
      rewrite (rv_read_bytes _ _ _ _ _ _ _ _ Hr Hf (eq_sym Hl) Hn). reflexivity.
  Qed.

  Lemma deser_str_restB enc padded m cl r d p out post : rv m cl r d p -> frame d p out post ->
    (m = true -> no255 out) -> stop m post ->
    deser_value drec (EStr enc) None padded 0 r = (r_set_pos r (p + zlen out), Ok (VStr (str_dec enc false out))).
  Proof.
    intros Hr Hf Hn Hs. cbn [deser_value]. unfold str_dec. destruct enc.
    - unfold r_get_encoded_string. rewrite (rv_read_rest _ _ _ _ _ _ _ Hr Hf Hn Hs). reflexivity.
    - unfold r_get_string. rewrite (rv_read_rest _ _ _ _ _ _ _ Hr Hf Hn Hs). reflexivity.
  Qed.
End StrReadB.

Section BodyB.
  Variable E : env.
  Variable fuel : nat.
  Local Notation sizef := (size_of (S (List.length E)) E).
  Local Notation progf := (progress_class (S (List.length E)) E).
  Local Notation wcls := (wire_classB fuel E).
  Local Notation vo := (valid_objB fuel E).
  Local Notation erec := (enc_struct fuel E).
  Local Notation drec := (deser_struct fuel E).

  (* the round trip one level down *)
  Hypothesis IH : forall n em cl K x out r d p post,
    wcls n em K = true -> vo n em cl x = true -> erec n x em = Some out -> post_ok K post ->
    rv em cl r d p -> frame d p out post ->
    exists r' x', drec n r = (r', Ok x') /\ strip_bs x' = x /\ rv em em r' d (p + zlen out).

  Lemma wire_val_stop m K ty flen post : is_leaf ty -> wire_val wcls m K ty flen = true ->
    closed_leaf ty flen = false -> post_ok K post -> stop m post.
  Proof.
    intros Hl Hw Hc Hp. destruct ty; try destruct Hl; cbn [wire_val] in Hw; rewrite Hc in Hw; cbn [orb] in Hw;
      apply (stop_of_K _ _ _ Hw Hp).
  Qed.

  (* one value: what was encoded is read back *)
  Lemma rt_valueB m cl ty flen len padded Kc v out r d p post :
    wire_val wcls m Kc ty flen = true ->
    (flen = LNone <-> len = None) -> (forall n, len = Some n -> flen = LLit n \/ py_len v = Some n) ->
    obj_valueB vo m cl ty flen padded v = true ->
    enc_value erec ty v len padded 0 m = Some out ->
    post_ok Kc post -> rv m cl r d p -> frame d p out post ->
    exists r' x, deser_value drec ty len padded 0 r = (r', Ok x) /\ strip_bs x = v /\
                 rv m (m || cl && leaf_clean ty flen padded v) r' d (p + zlen out).
  Proof.
    intros Hw Hlen Hlen2 Ho He Hpost Hr Hf.
    destruct ty as [t|t|en t|enc| |n].
    6: { cbn [wire_val] in Hw. unfold obj_valueB in Ho. apply andb_true_iff in Ho as [Ho _].
         cbn [obj_value enc_value deser_value leaf_clean] in *.
         destruct (IH _ _ _ _ _ _ _ _ _ _ Hw Ho He Hpost Hr Hf) as [r' [x [Hd [Hx Hr']]]]. exists r', x.
         rewrite andb_false_r, orb_false_r. auto. }
    all: pose proof Hw as Hw0;
         match type of He with enc_value _ ?ty _ _ _ _ _ = _ =>
           destruct (leaf_facts vo erec m cl ty flen len padded v out I Ho Hlen2 He) as [He0 Hn] end;
         assert (Hnm : m = true -> no255 out) by (intros Hm; apply Hn; left; exact Hm);
         pose proof (rv_adv m cl _ r d p out post Hr Hf Hn) as Hr';
         unfold obj_valueB in Ho; apply andb_true_iff in Ho as [Ho _]; cbn [obj_value enc_value] in Ho, He0.
    - cbn [deser_value]. destruct v as [|z| | | | |]; try discriminate Ho. rewrite Z.sub_0_r in He0.
      assert (Hz : 0 <= z <= itype_max t) by lia.
      rewrite (rv_get_int_of t _ _ _ _ _ _ _ Hr Hf (enc_int_size _ _ _ He0) Hnm).
      rewrite (int_dec_enc _ _ _ Hz He0), Z.add_0_r. eexists _, _. split; [reflexivity|]. split; [reflexivity | exact Hr'].
    - cbn [deser_value]. destruct v as [| |b| | | |]; try discriminate Ho. cbn [truthy] in He0.
      rewrite (rv_get_int_of t _ _ _ _ _ _ _ Hr Hf (enc_int_size _ _ _ He0) Hnm).
      rewrite (int_dec_enc _ _ _ (bool_range' b t) He0). eexists _, _. split; [reflexivity|].
      split; [destruct b; reflexivity | exact Hr'].
    - cbn [deser_value]. destruct v as [|z| | | | |]; try discriminate Ho.
      assert (Hz : 0 <= z <= itype_max t) by lia.
      rewrite (rv_get_int_of t _ _ _ _ _ _ _ Hr Hf (enc_int_size _ _ _ He0) Hnm).
      rewrite (int_dec_enc _ _ _ Hz He0). eexists _, _. split; [reflexivity|]. split; [reflexivity | exact Hr'].
    - destruct v as [| | |s| | |]; try discriminate Ho.
      apply andb_true_iff in Ho as [Ho H126]. apply andb_true_iff in Ho as [Hcp H255].
      assert (S255 : padded = true -> len <> None -> ~ In 255 s).
      { intros -> Hl. cbn [andb] in H255. destruct flen; [exfalso; apply Hl; apply Hlen; reflexivity | |];
          cbn [negb orb] in H255; apply (forallb_neq_notin _ _ H255). }
      assert (S126 : enc = true -> ~ In 126 s).
      { intros ->. cbn [negb orb] in H126. apply (forallb_neq_notin _ _ H126). }
      pose proof (str_dec_enc _ _ _ _ _ Hcp S255 S126 He0) as Hd. destruct len as [n|].
      + rewrite andb_true_r in Hd. rewrite (deser_str_fixedB drec _ _ _ _ _ _ _ _ _ _ Hr Hf (enc_str_len _ _ _ _ _ He0) Hnm), Hd.
        eexists _, _. split; [reflexivity|]. split; [reflexivity | exact Hr'].
      + rewrite andb_false_r in Hd. assert (Hs : stop m post).
        { apply (wire_val_stop m Kc (EStr enc) flen post I Hw0); [|exact Hpost]. rewrite (proj2 Hlen eq_refl). reflexivity. }
        rewrite (deser_str_restB drec _ _ _ _ _ _ _ _ _ Hr Hf Hnm Hs), Hd.
        eexists _, _. split; [reflexivity|]. split; [reflexivity | exact Hr'].
    - cbn [deser_value]. destruct v as [| | | |b| |]; try discriminate Ho. injection He0 as <-.
      assert (Hs : stop m post) by (apply (wire_val_stop m Kc EBlob flen post I Hw0); [reflexivity | exact Hpost]).
      unfold r_get_bytes. rewrite (rv_read_rest _ _ _ _ _ _ _ Hr Hf Hnm Hs).
      eexists _, _. split; [reflexivity|]. split; [reflexivity | exact Hr'].
  Qed.

  (* a literal whose value the deserializer throws away: only the bytes consumed matter *)
  Lemma skip_valueB m cl ty flen padded lit lv Kc out r d p post :
    lit_enc_okB m ty flen padded lit = true -> lit_value ty lit = Ok lv ->
    wire_val wcls m Kc ty flen = true -> (forall l, flen <> LRef l) ->
    enc_value erec ty lv (match flen with LLit n => Some n | _ => None end) padded 0 m = Some out ->
    post_ok Kc post -> rv m cl r d p -> frame d p out post ->
    exists r' x, deser_value drec ty (match flen with LLit n => Some n | _ => None end) padded 0 r = (r', Ok x) /\
                 rv m (m || cl && leaf_clean ty flen padded lv) r' d (p + zlen out).
  Proof.
    intros Hlit Hlv Hw Hnr He Hpost Hr Hf.
    destruct (lit_facts erec m ty flen padded lit lv out Hlit Hlv He) as [Hn _].
    assert (Hnm : m = true -> no255 out) by (intros Hm; apply Hn; left; exact Hm).
    pose proof (rv_adv m cl _ r d p out post Hr Hf Hn) as Hr'.
    destruct ty as [t|t|en t|enc| |n]; cbn [lit_value] in Hlv; try discriminate Hlv; cbn [enc_value] in He.
    - cbn [deser_value]. assert (Hs : zlen out = itype_size t) by (destruct lv; try discriminate He; apply (enc_int_size _ _ _ He)).
      rewrite (rv_get_int_of t _ _ _ _ _ _ _ Hr Hf Hs Hnm). eexists _, _. split; [reflexivity | exact Hr'].
    - cbn [deser_value]. rewrite (rv_get_int_of t _ _ _ _ _ _ _ Hr Hf (enc_int_size _ _ _ He) Hnm).
      eexists _, _. split; [reflexivity | exact Hr'].
    - injection Hlv as <-. destruct flen as [|n|l].
      + assert (Hs : stop m post) by (apply (wire_val_stop m Kc (EStr enc) LNone post I Hw); [reflexivity | exact Hpost]).
        rewrite (deser_str_restB drec _ _ _ _ _ _ _ _ _ Hr Hf Hnm Hs). eexists _, _. split; [reflexivity | exact Hr'].
      + rewrite (deser_str_fixedB drec _ _ _ _ _ _ _ _ _ _ Hr Hf (enc_str_lenB _ _ _ _ _ _ He) Hnm).
        eexists _, _. split; [reflexivity | exact Hr'].
      + exfalso. apply (Hnr l). reflexivity.
  Qed.

  (* a present optional value, an element of an unlengthed delimited array: its first byte exists and is not the break byte *)
  Lemma nonempty_encB m cl K ty flen len padded v out :
    match ty with EStr _ | EBlob => nonempty_value v = true | _ => True end ->
    obj_valueB vo m cl ty flen padded v = true -> nonempty_tyB sizef progf ty = true ->
    wire_val wcls m K ty flen = true -> (forall n, len = Some n -> flen = LLit n \/ py_len v = Some n) ->
    enc_value erec ty v len padded 0 m = Some out -> headok m out.
  Proof.
    intros Hne Ho Hty Hw Hlen2 He. destruct ty as [t|t|en t|enc| |n].
    - refine (scalar_head _ _ _ _ _ _ _ _ _ _ _ Ho He). reflexivity.
    - refine (scalar_head _ _ _ _ _ _ _ _ _ _ _ Ho He). reflexivity.
    - refine (scalar_head _ _ _ _ _ _ _ _ _ _ _ Ho He). reflexivity.
    - destruct (leaf_facts vo erec m cl (EStr enc) flen len padded v out I Ho Hlen2 He) as [He0 Hn].
      apply headok_no255; [|intros ->; apply Hn; left; reflexivity].
      unfold obj_valueB in Ho. apply andb_true_iff in Ho as [Ho _]. cbn [obj_value] in Ho.
      destruct v as [| | |s| | |]; try discriminate Ho. cbn [nonempty_value enc_value] in *.
      apply negb_true_iff in Hne. destruct len as [k|].
      + rewrite (enc_str_len _ _ _ _ _ He0). unfold enc_str in He0. destruct padded.
        * destruct (zlen s <=? k) eqn:Q; [|discriminate He0]. pose proof (zlen_nonneg s). lia.
        * destruct (zlen s =? k) eqn:Q; [|discriminate He0]. pose proof (zlen_nonneg s). lia.
      + unfold enc_str in He0. injection He0 as <-. rewrite zlen_place; rewrite ?zlen_sanitize; rewrite ?sanitize_false; rewrite zlen_cp_encode.
        pose proof (zlen_nonneg s). lia.
    - destruct (leaf_facts vo erec m cl EBlob flen len padded v out I Ho Hlen2 He) as [He0 Hn].
      apply headok_no255; [|intros ->; apply Hn; left; reflexivity].
      unfold obj_valueB in Ho. apply andb_true_iff in Ho as [Ho _]. cbn [obj_value] in Ho.
      destruct v as [| | | |b| |]; try discriminate Ho. cbn [nonempty_value enc_value] in *. injection He0 as <-.
      apply negb_true_iff in Hne. pose proof (zlen_nonneg b). lia.
    - cbn [nonempty_tyB wire_val enc_value] in *. unfold obj_valueB in Ho. apply andb_true_iff in Ho as [Ho _]. cbn [obj_value] in Ho.
      apply orb_true_iff in Hty as [Hty|Hty].
      + apply (progress_head E _ _ _ _ _ _ _ _ _ _ Hty Hw Ho He).
      + destruct (sizef n) as [s|] eqn:Es; [|discriminate Hty]. apply headok_no255.
        * rewrite (size_of_encB _ _ _ _ _ _ _ _ Es He). lia.
        * intros ->. apply (sized_no255 E _ _ _ _ _ _ _ _ _ _ Es Hw Ho He).
  Qed.


  (* ---------------- arrays ---------------- *)
  Lemma frame_app3 d p a b c post : frame d p (a ++ b ++ c) post ->
    frame d p a (b ++ c ++ post) /\ frame d (p + zlen a) b (c ++ post) /\ frame d (p + zlen a + zlen b) c post.
  Proof.
    intros Hf. split; [|split].
    - apply frame_split1 in Hf. rewrite <- app_assoc in Hf. exact Hf.
    - apply frame_split2 in Hf. apply frame_split1 in Hf. exact Hf.
    - apply frame_split2 in Hf. apply frame_split2 in Hf. exact Hf.
  Qed.

  (* an element of an array read in mode m (the reader clean iff chunked), followed by Ke *)
  Lemma rt_elemB m Ke ty v out r d p post : wire_val wcls m Ke ty LNone = true ->
    obj_valueB vo m m ty LNone false v = true -> enc_value erec ty v None false 0 m = Some out ->
    post_ok Ke post -> rv m m r d p -> frame d p out post ->
    exists r' x, deser_value drec ty None false 0 r = (r', Ok x) /\ strip_bs x = v /\ rv m m r' d (p + zlen out).
  Proof.
    intros Hw Ho He Hp Hr Hf.
    destruct (rt_valueB m m ty LNone None false Ke v out r d p post Hw ltac:(split; reflexivity)
                ltac:(intros n Hn; discriminate Hn) Ho He Hp Hr Hf) as [r' [x [Hd [Hx Hr']]]].
    exists r', x. split; [exact Hd|]. split; [exact Hx|]. apply (rv_weaken _ _ _ _ _ Hr').
  Qed.

  Lemma rt_forB m ty trailing : wire_val wcls m KOther ty LNone = true -> forall elems bodies acc i n r d p post,
    forallb (obj_valueB vo m m ty LNone false) elems = true ->
    sequence (map (fun e => enc_value erec ty e None false 0 m) elems) = Some bodies ->
    rv m m r d p -> frame d p (List.concat bodies) post ->
    exists r' xs, deser_for drec ty false trailing (List.length elems) i n acc r = (r', Ok (rev acc ++ xs)) /\
                  map strip_bs xs = elems /\ rv m m r' d (p + zlen (List.concat bodies)).
  Proof.
    intros Hw. induction elems as [|e elems IHe]; intros bodies acc i n r d p post Ho Hq Hr Hf; cbn [map sequence] in Hq.
    - injection Hq as <-. cbn [List.length deser_for List.concat]. exists r, []. rewrite app_nil_r.
      change (zlen (@nil Z)) with 0. rewrite Z.add_0_r. split; [reflexivity|]. split; [reflexivity | exact Hr].
    - destruct (enc_value erec ty e None false 0 m) as [b|] eqn:Eb; [|discriminate Hq].
      destruct (sequence _) as [bs|] eqn:Eq; [|discriminate Hq]. injection Hq as <-.
      cbn [forallb] in Ho. apply andb_true_iff in Ho as [Ho1 Ho2]. cbn [List.concat] in Hf |- *.
      destruct (rt_elemB _ _ _ _ _ _ _ _ _ Hw Ho1 Eb I Hr (frame_split1 _ _ _ _ _ Hf)) as [r1 [x [Hd [Hx Hr1]]]].
      cbn [List.length deser_for andb]. rewrite Hd.
      destruct (IHe bs (x :: acc) (i + 1) n r1 d (p + zlen b) post Ho2 eq_refl Hr1 (frame_split2 _ _ _ _ _ Hf))
        as [r2 [xs [Hd2 [Hxs Hr2]]]].
      rewrite Hd2. exists r2, (x :: xs). cbn [rev map]. rewrite <- app_assoc. cbn [app].
      split; [reflexivity|]. split; [now rewrite Hx, Hxs|]. rewrite zlen_app, Z.add_assoc. exact Hr2.
  Qed.

  Lemma deser_while_doneB ty dl fl acc r : r_remaining r = 0 -> deser_while drec ty dl fl acc r = (r, Ok (rev acc)).
  Proof. intros H. destruct fl; cbn [deser_while]; rewrite H; reflexivity. Qed.

  Lemma rem_gtb r : 0 < r_remaining r -> (r_remaining r >? 0) = true.
  Proof. lia. Qed.

  Lemma rt_whileB m n : wcls n m KOther = true -> progf n = true -> forall elems bodies fl acc r d p post,
    forallb (obj_valueB vo m m (EStruct n) LNone false) elems = true ->
    sequence (map (fun e => enc_value erec (EStruct n) e None false 0 m) elems) = Some bodies ->
    rv m m r d p -> frame d p (List.concat bodies) post -> stop m post -> zlen (List.concat bodies) <= Z.of_nat fl ->
    exists r' xs, deser_while drec (EStruct n) false fl acc r = (r', Ok (rev acc ++ xs)) /\
                  map strip_bs xs = elems /\ rv m m r' d (p + zlen (List.concat bodies)).
  Proof.
    intros Hw Hp. induction elems as [|e elems IHe]; intros bodies fl acc r d p post Ho Hq Hr Hf Hs Hfl; cbn [map sequence] in Hq.
    - injection Hq as <-. cbn [List.concat] in *. rewrite deser_while_doneB by (apply (rv_rem_zero _ _ _ _ _ _ Hr Hf Hs)).
      exists r, []. rewrite app_nil_r. change (zlen (@nil Z)) with 0. rewrite Z.add_0_r. split; [reflexivity|]. split; [reflexivity | exact Hr].
    - destruct (enc_value erec (EStruct n) e None false 0 m) as [b|] eqn:Eb; [|discriminate Hq].
      destruct (sequence _) as [bs|] eqn:Eq; [|discriminate Hq]. injection Hq as <-.
      cbn [forallb] in Ho. apply andb_true_iff in Ho as [Ho1 Ho2]. cbn [List.concat] in Hf, Hfl |- *.
      assert (Hb : headok m b).
      { pose proof Ho1 as Ho1'. unfold obj_valueB in Ho1'. apply andb_true_iff in Ho1' as [Ho1' _]. cbn [obj_value] in Ho1'.
        cbn [enc_value] in Eb. apply (progress_head E _ _ _ _ _ _ _ _ _ _ Hp Hw Ho1' Eb). }
      pose proof (headok_pos _ _ Hb) as Hbp. rewrite zlen_app in Hfl. pose proof (zlen_nonneg (List.concat bs)) as Hbs.
      destruct fl as [|fl]; [lia|]. cbn [deser_while].
      rewrite (rem_gtb _ (rv_rem_head _ _ _ _ _ _ _ Hr Hf (headok_app _ _ _ Hb))).
      destruct (rt_elemB _ _ (EStruct n) _ _ _ _ _ _ Hw Ho1 Eb I Hr (frame_split1 _ _ _ _ _ Hf)) as [r1 [x [Hd [Hx Hr1]]]].
      rewrite Hd.
      destruct (IHe bs fl (x :: acc) r1 d (p + zlen b) post Ho2 eq_refl Hr1 (frame_split2 _ _ _ _ _ Hf) Hs ltac:(lia))
        as [r2 [xs [Hd2 [Hxs Hr2]]]].
      rewrite Hd2. exists r2, (x :: xs). cbn [rev map]. rewrite <- app_assoc. cbn [app].
      split; [reflexivity|]. split; [now rewrite Hx, Hxs|]. rewrite ?zlen_app, Z.add_assoc. exact Hr2.
  Qed.


  (* ---------------- delimited arrays (chunked mode) ---------------- *)
  Local Notation trail bodies := (List.concat (map (fun b : list Z => b ++ [255]) bodies)).

  Lemma intercalate_cons2 {A} (sep x y : list A) t : intercalate sep (x :: y :: t) = x ++ sep ++ intercalate sep (y :: t).
  Proof. reflexivity. Qed.

  Lemma post_break (rest post : list Z) : post_ok KBreak ([255] ++ rest ++ post).
  Proof. cbn [app post_ok]. eauto. Qed.

  Ltac zl := rewrite ?zlen_app, ?zlen_cons; change (zlen (@nil Z)) with 0; lia.

  Lemma rt_for_trail ty : wire_val wcls true KBreak ty LNone = true -> forall elems bodies acc i n r d p post,
    forallb (obj_valueB vo true true ty LNone false) elems = true ->
    sequence (map (fun e => enc_value erec ty e None false 0 true) elems) = Some bodies ->
    rv true true r d p -> frame d p (trail bodies) post ->
    exists r' xs, deser_for drec ty true true (List.length elems) i n acc r = (r', Ok (rev acc ++ xs)) /\
                  map strip_bs xs = elems /\ rv true true r' d (p + zlen (trail bodies)).
  Proof.
    intros Hw. induction elems as [|e elems IHe]; intros bodies acc i n r d p post Ho Hq Hr Hf; cbn [map sequence] in Hq.
    - injection Hq as <-. cbn [List.length deser_for List.concat map]. exists r, []. rewrite app_nil_r.
      change (zlen (@nil Z)) with 0. rewrite Z.add_0_r. split; [reflexivity|]. split; [reflexivity | exact Hr].
    - destruct (enc_value erec ty e None false 0 true) as [b|] eqn:Eb; [|discriminate Hq].
      destruct (sequence _) as [bs|] eqn:Eq; [|discriminate Hq]. injection Hq as <-.
      cbn [forallb] in Ho. apply andb_true_iff in Ho as [Ho1 Ho2]. cbn [List.concat map] in Hf |- *.
      rewrite <- app_assoc in Hf. destruct (frame_app3 _ _ _ _ _ _ Hf) as [Hf1 [Hf2 Hf3]].
      destruct (rt_elemB _ _ _ _ _ _ _ _ _ Hw Ho1 Eb (post_break _ _) Hr Hf1) as [r1 [x [Hd [Hx Hr1]]]].
      destruct (rv_next_chunk _ _ _ _ _ Hr1 Hf2) as [r2 [Hnc Hr2]].
      cbn [List.length deser_for andb orb]. rewrite Hd, Hnc. change (zlen [255]) with 1 in Hf3.
      destruct (IHe bs (x :: acc) (i + 1) n r2 d (p + zlen b + 1) post Ho2 eq_refl Hr2 Hf3) as [r3 [xs [Hd3 [Hxs Hr3]]]].
      rewrite Hd3. exists r3, (x :: xs). cbn [rev map]. rewrite <- app_assoc. cbn [app].
      split; [reflexivity|]. split; [now rewrite Hx, Hxs|]. rewrite !zlen_app. change (zlen [255]) with 1.
      replace (p + (zlen b + 1 + zlen (trail bs))) with (p + zlen b + 1 + zlen (trail bs)) by lia. exact Hr3.
  Qed.

  Lemma deser_for_S ty dl tr k i n acc r : deser_for drec ty dl tr (S k) i n acc r =
    let '(r1, v) := deser_value drec ty None false 0 r in
    match v with
    | Err e => (r1, Err e)
    | Ok x => if dl && (tr || (i + 1 <? n))
              then match r_next_chunk r1 with Err e => (r1, Err e) | Ok r2 => deser_for drec ty dl tr k (i + 1) n (x :: acc) r2 end
              else deser_for drec ty dl tr k (i + 1) n (x :: acc) r1
    end.
  Proof. reflexivity. Qed.

  Lemma rt_for_sep ty Kc : wire_val wcls true KBreak ty LNone = true -> wire_val wcls true Kc ty LNone = true ->
    forall elems bodies acc i n r d p post, i + zlen elems = n ->
    forallb (obj_valueB vo true true ty LNone false) elems = true ->
    sequence (map (fun e => enc_value erec ty e None false 0 true) elems) = Some bodies -> post_ok Kc post ->
    rv true true r d p -> frame d p (intercalate [255] bodies) post ->
    exists r' xs, deser_for drec ty true false (List.length elems) i n acc r = (r', Ok (rev acc ++ xs)) /\
                  map strip_bs xs = elems /\ rv true true r' d (p + zlen (intercalate [255] bodies)).
  Proof.
    intros Hw Hwl. induction elems as [|e elems IHe]; intros bodies acc i n r d p post Hin Ho Hq Hpost Hr Hf; cbn [map sequence] in Hq.
    - injection Hq as <-. cbn [List.length deser_for intercalate]. exists r, []. rewrite app_nil_r.
      change (zlen (@nil Z)) with 0. rewrite Z.add_0_r. split; [reflexivity|]. split; [reflexivity | exact Hr].
    - destruct (enc_value erec ty e None false 0 true) as [b|] eqn:Eb; [|discriminate Hq].
      destruct (sequence _) as [bs|] eqn:Eq; [|discriminate Hq]. injection Hq as <-.
      cbn [forallb] in Ho. apply andb_true_iff in Ho as [Ho1 Ho2]. rewrite zlen_cons in Hin.
      destruct elems as [|e2 elems].
      + cbn [map sequence] in Eq. injection Eq as <-. cbn [intercalate] in Hf |- *.
        destruct (rt_elemB _ _ _ _ _ _ _ _ _ Hwl Ho1 Eb Hpost Hr Hf) as [r1 [x [Hd [Hx Hr1]]]].
        cbn [List.length deser_for andb orb]. rewrite Hd. change (zlen (@nil value)) with 0 in Hin.
        destruct (i + 1 <? n) eqn:Q; [lia|]. exists r1, [x]. cbn [rev map]. split; [reflexivity|]. split; [now rewrite Hx | exact Hr1].
      + assert (Hbs : exists b2 bs', bs = b2 :: bs').
        { cbn [map sequence] in Eq. destruct (enc_value erec ty e2 None false 0 true); [|discriminate Eq].
          destruct (sequence _); [|discriminate Eq]. injection Eq as <-. eauto. }
        destruct Hbs as [b2 [bs' ->]]. rewrite intercalate_cons2 in Hf |- *.
        destruct (frame_app3 _ _ _ _ _ _ Hf) as [Hf1 [Hf2 Hf3]].
        destruct (rt_elemB _ _ _ _ _ _ _ _ _ Hw Ho1 Eb (post_break _ _) Hr Hf1) as [r1 [x [Hd [Hx Hr1]]]].
        destruct (rv_next_chunk _ _ _ _ _ Hr1 Hf2) as [r2 [Hnc Hr2]].
        cbn [List.length]. rewrite deser_for_S, Hd. cbn [andb orb]. rewrite zlen_cons in Hin. pose proof (zlen_nonneg elems) as Hz.
        destruct (i + 1 <? n) eqn:Q; [|lia]. rewrite Hnc. change (zlen [255]) with 1 in Hf3.
        destruct (IHe (b2 :: bs') (x :: acc) (i + 1) n r2 d (p + zlen b + 1) post ltac:(rewrite zlen_cons; lia) Ho2 eq_refl Hpost Hr2 Hf3)
          as [r3 [xs [Hd3 [Hxs Hr3]]]].
        cbn [List.length] in Hd3. rewrite Hd3. exists r3, (x :: xs). cbn [rev map]. rewrite <- app_assoc. cbn [app].
        split; [reflexivity|]. split; [now rewrite Hx, Hxs|]. match goal with |- rv _ _ _ _ ?q => replace q with (p + zlen b + 1 + zlen (intercalate [255] (b2 :: bs'))) by zl end.
        exact Hr3.
  Qed.

  Lemma elem_headB ty K e b : wire_val wcls true K ty LNone = true -> nonempty_tyB sizef progf ty = true ->
    obj_valueB vo true true ty LNone false e = true -> nonempty_value e = true ->
    enc_value erec ty e None false 0 true = Some b -> headok true b.
  Proof.
    intros Hw Hne Ho Hnv Eb. apply (nonempty_encB true true K ty LNone None false e b); try assumption.
    - destruct ty; try exact I; exact Hnv.
    - intros n Hn. discriminate Hn.
  Qed.

  Lemma rt_while_trail ty : wire_val wcls true KBreak ty LNone = true -> nonempty_tyB sizef progf ty = true ->
    forall elems bodies fl acc r d p post,
    forallb (obj_valueB vo true true ty LNone false) elems = true -> forallb nonempty_value elems = true ->
    sequence (map (fun e => enc_value erec ty e None false 0 true) elems) = Some bodies ->
    rv true true r d p -> frame d p (trail bodies) post -> stop true post -> zlen (trail bodies) <= Z.of_nat fl ->
    exists r' xs, deser_while drec ty true fl acc r = (r', Ok (rev acc ++ xs)) /\
                  map strip_bs xs = elems /\ rv true true r' d (p + zlen (trail bodies)).
  Proof.
    intros Hw Hne. induction elems as [|e elems IHe]; intros bodies fl acc r d p post Ho Hnv Hq Hr Hf Hs Hfl; cbn [map sequence] in Hq.
    - injection Hq as <-. cbn [List.concat map] in *. rewrite deser_while_doneB by (apply (rv_rem_zero _ _ _ _ _ _ Hr Hf Hs)).
      exists r, []. rewrite app_nil_r. change (zlen (@nil Z)) with 0. rewrite Z.add_0_r. split; [reflexivity|]. split; [reflexivity | exact Hr].
    - destruct (enc_value erec ty e None false 0 true) as [b|] eqn:Eb; [|discriminate Hq].
      destruct (sequence _) as [bs|] eqn:Eq; [|discriminate Hq]. injection Hq as <-.
      cbn [forallb] in Ho, Hnv. apply andb_true_iff in Ho as [Ho1 Ho2]. apply andb_true_iff in Hnv as [Hnv1 Hnv2].
      cbn [List.concat map] in Hf, Hfl |- *.
      pose proof (elem_headB _ _ _ _ Hw Hne Ho1 Hnv1 Eb) as Hb. pose proof (headok_pos _ _ Hb) as Hbp.
      rewrite !zlen_app in Hfl. change (zlen [255]) with 1 in Hfl. pose proof (zlen_nonneg (trail bs)) as Hbs.
      destruct fl as [|fl]; [lia|]. cbn [deser_while].
      rewrite (rem_gtb _ (rv_rem_head _ _ _ _ _ _ _ Hr Hf (headok_app _ _ _ (headok_app _ _ _ Hb)))).
      rewrite <- app_assoc in Hf. destruct (frame_app3 _ _ _ _ _ _ Hf) as [Hf1 [Hf2 Hf3]].
      destruct (rt_elemB _ _ _ _ _ _ _ _ _ Hw Ho1 Eb (post_break _ _) Hr Hf1) as [r1 [x [Hd [Hx Hr1]]]].
      destruct (rv_next_chunk _ _ _ _ _ Hr1 Hf2) as [r2 [Hnc Hr2]]. rewrite Hd, Hnc. change (zlen [255]) with 1 in Hf3.
      destruct (IHe bs fl (x :: acc) r2 d (p + zlen b + 1) post Ho2 Hnv2 eq_refl Hr2 Hf3 Hs ltac:(lia)) as [r3 [xs [Hd3 [Hxs Hr3]]]].
      rewrite Hd3. exists r3, (x :: xs). cbn [rev map]. rewrite <- app_assoc. cbn [app].
      split; [reflexivity|]. split; [now rewrite Hx, Hxs|]. rewrite !zlen_app. change (zlen [255]) with 1.
      replace (p + (zlen b + 1 + zlen (trail bs))) with (p + zlen b + 1 + zlen (trail bs)) by lia. exact Hr3.
  Qed.

  Lemma rt_while_sep ty : wire_val wcls true KBreak ty LNone = true -> wire_val wcls true KEnd ty LNone = true ->
    nonempty_tyB sizef progf ty = true -> forall elems bodies fl acc r d p,
    forallb (obj_valueB vo true true ty LNone false) elems = true -> forallb nonempty_value elems = true ->
    sequence (map (fun e => enc_value erec ty e None false 0 true) elems) = Some bodies ->
    rv true true r d p -> frame d p (intercalate [255] bodies) [] -> zlen (intercalate [255] bodies) <= Z.of_nat fl ->
    exists r' xs, deser_while drec ty true fl acc r = (r', Ok (rev acc ++ xs)) /\
                  map strip_bs xs = elems /\ rv true true r' d (p + zlen (intercalate [255] bodies)).
  Proof.
    intros Hw Hwl Hne. induction elems as [|e elems IHe]; intros bodies fl acc r d p Ho Hnv Hq Hr Hf Hfl; cbn [map sequence] in Hq.
    - injection Hq as <-. cbn [intercalate] in *. rewrite deser_while_doneB by (apply (rv_rem_zero _ _ _ _ _ _ Hr Hf); left; reflexivity).
      exists r, []. rewrite app_nil_r. change (zlen (@nil Z)) with 0. rewrite Z.add_0_r. split; [reflexivity|]. split; [reflexivity | exact Hr].
    - destruct (enc_value erec ty e None false 0 true) as [b|] eqn:Eb; [|discriminate Hq].
      destruct (sequence _) as [bs|] eqn:Eq; [|discriminate Hq]. injection Hq as <-.
      cbn [forallb] in Ho, Hnv. apply andb_true_iff in Ho as [Ho1 Ho2]. apply andb_true_iff in Hnv as [Hnv1 Hnv2].
      pose proof (elem_headB _ _ _ _ Hw Hne Ho1 Hnv1 Eb) as Hb. pose proof (headok_pos _ _ Hb) as Hbp.
      destruct elems as [|e2 elems].
      + cbn [map sequence] in Eq. injection Eq as <-. cbn [intercalate] in Hf, Hfl |- *.
        destruct fl as [|fl]; [lia|]. cbn [deser_while].
        rewrite (rem_gtb _ (rv_rem_head _ _ _ _ _ _ _ Hr Hf Hb)).
        destruct (rt_elemB _ _ _ _ _ _ _ _ _ Hwl Ho1 Eb eq_refl Hr Hf) as [r1 [x [Hd [Hx Hr1]]]]. rewrite Hd.
        assert (Hf' : frame d (p + zlen b) [] []).
        { pose proof (frame_split2 _ _ _ _ _ (eq_ind_r (fun l => frame d p l []) Hf (app_nil_r b))) as H. exact H. }
        destruct (rv_next_chunk_end _ _ _ _ Hr1 Hf') as [r2 [Hnc Hr2]]. rewrite Hnc.
        rewrite deser_while_doneB by (apply (rv_rem_zero _ _ _ _ _ _ Hr2 Hf'); left; reflexivity).
        exists r2, [x]. cbn [rev map]. split; [reflexivity|]. split; [now rewrite Hx | exact Hr2].
      + assert (Hbs : exists b2 bs', bs = b2 :: bs').
        { cbn [map sequence] in Eq. destruct (enc_value erec ty e2 None false 0 true); [|discriminate Eq].
          destruct (sequence _); [|discriminate Eq]. injection Eq as <-. eauto. }
        destruct Hbs as [b2 [bs' ->]]. rewrite intercalate_cons2 in Hf, Hfl |- *.
        rewrite !zlen_app in Hfl. change (zlen [255]) with 1 in Hfl. pose proof (zlen_nonneg (intercalate [255] (b2 :: bs'))) as Hbs.
        destruct fl as [|fl]; [lia|]. cbn [deser_while].
        rewrite (rem_gtb _ (rv_rem_head _ _ _ _ _ _ _ Hr Hf (headok_app _ _ _ Hb))).
        destruct (frame_app3 _ _ _ _ _ _ Hf) as [Hf1 [Hf2 Hf3]]. rewrite app_nil_r in Hf1, Hf2.
        destruct (rt_elemB _ _ _ _ _ _ _ _ _ Hw Ho1 Eb (post_break _ []) Hr ltac:(rewrite app_nil_r; exact Hf1)) as [r1 [x [Hd [Hx Hr1]]]].
        destruct (rv_next_chunk _ _ _ _ _ Hr1 Hf2) as [r2 [Hnc Hr2]]. rewrite Hd, Hnc. change (zlen [255]) with 1 in Hf3.
        destruct (IHe (b2 :: bs') fl (x :: acc) r2 d (p + zlen b + 1) Ho2 Hnv2 eq_refl Hr2 Hf3 ltac:(lia)) as [r3 [xs [Hd3 [Hxs Hr3]]]].
        rewrite Hd3. exists r3, (x :: xs). cbn [rev map]. rewrite <- app_assoc. cbn [app].
        split; [reflexivity|]. split; [now rewrite Hx, Hxs|]. match goal with |- rv _ _ _ _ ?q => replace q with (p + zlen b + 1 + zlen (intercalate [255] (b2 :: bs'))) by zl end.
        exact Hr3.
  Qed.


  (* ---------------- the step invariant ---------------- *)
  Definition step_postB (flds : list (string * value)) (start : Z) (t : list einstr) (em : bool) (K : cont) (pubs : list string)
      (i : einstr) (m : bool) (rmo_e' : bool) (o1 : list Z) (locals : list (string * value)) (r : rstate) (d : list Z) (p : Z) : Prop :=
    exists r1 locals1 cl1 lens1 pubs1 rmo_v1,
      deser_instr drec start i locals r = (r1, Ok locals1) /\ rv (instr_mode i m) cl1 r1 d (p + zlen o1) /\
      wire_instrsB sizef wcls progf K (instr_mode i m) lens1 pubs1 t = true /\
      obj_instrsB vo em (instr_mode i m) cl1 flds t rmo_v1 = true /\
      rmo_rel rmo_e' rmo_v1 t /\ lens_inv flds locals1 lens1 /\ pubs_inv flds locals1 pubs1 /\
      (forall n, In n (pub_names (i :: t) ++ pubs) -> In n (pub_names t ++ pubs1)).

  Lemma rv_flag m cl cl' r d p : rv m cl r d p -> (cl' = true -> cl = true) -> (m = true -> cl' = true) -> rv m cl' r d p.
  Proof.
    intros [H1 [H2 [H3 [H4 [H5 H6]]]]] Hc Hm. rv_split; try assumption. intros Hcl. apply H5. apply Hc. exact Hcl.
  Qed.

  Lemma rv_flag_step m cl cty r d p : rv m cl r d p -> rv m (m || cl && cty) r d p.
  Proof.
    intros Hr. apply (rv_flag _ _ _ _ _ _ Hr).
    - intros H. destruct Hr as [_ [_ [_ [_ [_ H6]]]]]. destruct m; [apply H6; reflexivity|].
      cbn [orb] in H. apply andb_true_iff in H as [H _]. exact H.
    - intros ->. reflexivity.
  Qed.

  (* once an optional is absent, nothing more is written up to the next break *)
  Lemma absent_segB flds em K post : post_ok K post -> forall t m cl lens pubs rmo_e acc out K',
    wire_instrsB sizef wcls progf K m lens pubs t = true -> opt_cont t K = Some K' ->
    obj_instrsB vo em m cl flds t true = true -> enc_instrs erec flds t rmo_e m acc = Some out -> post_ok K' (out ++ post).
  Proof.
    intros Hpost. induction t as [|i t IHt]; intros m cl lens pubs rmo_e acc out K' W Hoc O He.
    - cbn [enc_instrs] in He. injection He as <-. cbn [opt_cont] in Hoc. injection Hoc as <-. exact Hpost.
    - cbn [enc_instrs] in He.
      destruct (enc_instr erec flds i rmo_e m acc) as [[o1 rmo']|] eqn:Ei; [|discriminate He].
      destruct i as [f|f dl tr cnt|name t0 off opt of rb|ty lit g|fld cs|b|]; cbn [opt_cont is_optional_instr is_set_mode orb] in Hoc;
        try discriminate Hoc; cbn [instr_mode] in He.
      + rewrite orb_false_r in Hoc. destruct (f_optional f) eqn:Hi; [|discriminate Hoc].
        apply wire_field_invB in W as [Wn [_ [_ Wt]]]. destruct (f_name f) as [n|] eqn:Fn;
          [|destruct Wn as [Wn _]; congruence].
        destruct (obj_field_invB _ (valid_objB_none fuel E) _ _ _ _ _ _ _ _ O Fn) as [v [Fa [_ [[_ [-> Ot]]|[Hopt _]]]]];
          [|destruct (Hopt Hi) as [Hx _]; discriminate Hx].
        cbn [enc_instr] in Ei. unfold enc_field in Ei. rewrite Fn, Fa, Hi in Ei. unfold opt_guard in Ei.
        cbn [is_none] in Ei. rewrite orb_true_r in Ei. cbn [negb] in Ei. injection Ei as <- <-.
        destruct (enc_instrs erec flds t true m (acc ++ [])) as [o'|] eqn:Et; [|discriminate He]. injection He as <-.
        cbn [app]. apply (IHt _ _ _ _ _ _ _ _ Wt Hoc Ot Et).
      + rewrite orb_false_r in Hoc. destruct (f_optional f) eqn:Hi; [|discriminate Hoc].
        apply wire_array_invB in W as [_ [n [Fn [_ [_ [_ [_ Wt]]]]]]].
        destruct (obj_array_invB _ _ _ _ _ _ _ _ _ _ _ _ O Fn) as [[Fa [_ Ot]]|[elems [_ [Hopt _]]]];
          [|destruct (Hopt Hi) as [Hx _]; discriminate Hx].
        cbn [enc_instr] in Ei. unfold enc_array in Ei. rewrite Fn, Fa, Hi in Ei. unfold opt_guard in Ei.
        cbn [is_none] in Ei. rewrite orb_true_r in Ei. cbn [negb] in Ei. injection Ei as <- <-.
        destruct (enc_instrs erec flds t true m (acc ++ [])) as [o'|] eqn:Et; [|discriminate He]. injection He as <-.
        cbn [app]. apply (IHt _ _ _ _ _ _ _ _ Wt Hoc Ot Et).
      + cbn [enc_instr] in Ei. injection Ei as <- <-. cbn [wire_instrsB] in W.
        cbn [obj_instrsB] in O. apply andb_true_iff in O as [_ O].
        destruct (enc_instrs erec flds t rmo_e b (acc ++ [])) as [o'|] eqn:Et; [|discriminate He]. injection He as <-.
        cbn [app]. apply (IHt _ _ _ _ _ _ _ _ W Hoc O Et).
      + injection Hoc as <-. cbn [enc_instr] in Ei. injection Ei as <- <-.
        destruct (enc_instrs erec flds t rmo_e m (acc ++ [255])) as [o'|]; [|discriminate He]. injection He as <-.
        cbn [app post_ok]. eauto.
  Qed.

  Lemma opt_stop_spec m t K : opt_stop m t K = true -> exists K', opt_cont t K = Some K' /\ stopb m K' = true.
  Proof. unfold opt_stop. destruct (opt_cont t K) as [K'|]; [eauto | discriminate]. Qed.

  (* ---------------- fields ---------------- *)
  Lemma rt_step_fieldB flds start f t em K m cl lens pubs rmo_e rmo_v acc o1 rmo_e' o2 locals r d p post :
    wire_instrsB sizef wcls progf K m lens pubs (EField f :: t) = true ->
    obj_instrsB vo em m cl flds (EField f :: t) rmo_v = true ->
    enc_instr erec flds (EField f) rmo_e m acc = Some (o1, rmo_e') ->
    enc_instrs erec flds t rmo_e' m (acc ++ o1) = Some o2 ->
    rmo_rel rmo_e rmo_v (EField f :: t) -> post_ok K post ->
    rv m cl r d p -> frame d p (o1 ++ o2) post -> lens_inv flds locals lens -> pubs_inv flds locals pubs ->
    step_postB flds start t em K pubs (EField f) m rmo_e' o1 locals r d p.
  Proof.
    intros W O Ei Et Hrmo Hpost Hr Hf Li Pi. apply wire_field_invB in W as [Wn [Wo [Wty Wt]]].
    cbn [enc_instr] in Ei. unfold enc_field in Ei. unfold step_postB. cbn [pub_names pub_name instr_mode].
    pose proof (cont_of_post _ _ _ _ _ _ _ _ _ Et Hpost) as Hpost'.
    destruct (f_name f) as [n|] eqn:Fn.
    - destruct Wn as [Wfr Wref]. apply pub_fresh_spec in Wfr as [Wbs Wfr].
      destruct (obj_field_invB _ (valid_objB_none fuel E) _ _ _ _ _ _ _ _ O Fn) as [v [Fa [Hh [[Fo [-> Ot]]|[Hopt [Hvl [Hov [Ot Hnn]]]]]]]]; rewrite Fa in Ei.
      + (* an absent optional *)
        destruct (Wo Fo) as [Hl Hne]. apply opt_stop_spec in Hl as [K' [Hoc Hl]]. rewrite Fo in Ei. unfold opt_guard in Ei. cbn [is_none] in Ei.
        rewrite orb_true_r in Ei. cbn [negb] in Ei. injection Ei as <- <-.
        pose proof (absent_segB _ _ _ _ Hpost _ _ _ _ _ _ _ _ _ Wt Hoc Ot Et) as Hp2. cbn [app] in Hf. apply frame_nil_l in Hf.
        exists r, (locals ++ [(n, VNone)]), cl, lens, (n :: pubs), true.
        cbn [deser_instr]. rewrite Fo, (rv_rem_zero _ _ _ _ _ _ Hr Hf (stop_of_K _ _ _ Hl Hp2)), Fn.
        change (zlen (@nil Z)) with 0. rewrite !Z.add_0_r.
        split; [reflexivity|]. split; [exact Hr|]. split; [exact Wt|]. split; [exact Ot|]. split; [apply rmo_rel_true|].
        split; [apply (lens_inv_bind _ _ _ _ _ _ Wfr Li)|]. split; [apply (pubs_inv_bind _ _ _ _ _ VNone _ Wfr Pi Fa eq_refl)|].
        intros k. apply in_pubs_cons.
      + (* a value is written *)
        assert (Hcore : enc_value erec (f_ty f) v (field_len f v) (f_padded f) 0 m = Some o1 /\
                        rmo_rel rmo_e' rmo_v t /\ (f_optional f = true -> headok m o1)).
        { unfold opt_guard in Ei. rewrite Hnn, !andb_false_r, orb_false_r in Ei. destruct (f_optional f) eqn:Fo.
          - destruct (Hopt eq_refl) as [Hrv Hne]. destruct (Wo eq_refl) as [_ Hnt].
            assert (Hb : (if f_opt_first f then false else rmo_e) = false).
            { apply (rmo_rel_present _ _ _ _ _ Hrmo Hrv). cbn [first_opt_ok]. rewrite Fo. reflexivity. }
            rewrite Hb in Ei. cbn [negb] in Ei. dm Ei; [|discriminate Ei]. dm Ei; [|discriminate Ei]. injection Ei as <- <-.
            split; [reflexivity|]. split; [apply rmo_rel_false|]. intros _.
            apply (nonempty_encB m cl (cont_of t K) (f_ty f) (f_len f) (field_len f v) (f_padded f) v l); try assumption.
            + destruct (f_ty f); try exact I; exact Hne.
            + apply field_len_cases.
          - cbn [negb] in Ei. dm Ei; [|discriminate Ei]. dm Ei; [|discriminate Ei]. injection Ei as <- <-.
            split; [reflexivity|]. split; [|discriminate]. apply (rmo_rel_keep _ _ (EField f) t); [|exact Hrmo].
            cbn [first_opt_ok]. rewrite Fo. reflexivity. }
        destruct Hcore as [Ev [Hrmo' Hpos]].
        destruct (len_expr_ok _ _ _ _ _ _ Fa Hvl Wref Li) as [Hle Hlen].
        destruct (rt_valueB m cl (f_ty f) (f_len f) (field_len f v) (f_padded f) (cont_of t K) v o1 r d p (o2 ++ post)
                    Wty Hlen (field_len_cases f v) Hov Ev Hpost' Hr (frame_split1 _ _ _ _ _ Hf)) as [r1 [x [Hd [Hx Hr1]]]].
        exists r1, (locals ++ [(n, x)]), (m || cl && leaf_clean (f_ty f) (f_len f) (f_padded f) v), lens, (n :: pubs), rmo_v.
        cbn [deser_instr]. rewrite Fn, Hle, Hd.
        assert (Hrem : f_optional f && negb (r_remaining r >? 0) = false).
        { destruct (f_optional f); [|reflexivity]. specialize (Hpos eq_refl).
          pose proof (rv_rem_head _ _ _ _ _ _ _ Hr Hf (headok_app _ _ _ Hpos)). cbn [andb]. apply negb_false_iff. lia. }
        rewrite Hrem. split; [reflexivity|]. split; [exact Hr1|]. split; [exact Wt|]. split; [exact Ot|]. split; [exact Hrmo'|].
        split; [apply (lens_inv_bind _ _ _ _ _ _ Wfr Li)|]. split; [apply (pubs_inv_bind _ _ _ _ _ _ _ Wfr Pi Fa Hx)|].
        intros k. apply in_pubs_cons.
    - (* an unnamed hardcoded field *)
      destruct Wn as [Fo [Wnr [lit [Fh Hlit]]]]. cbn [obj_instrsB] in O. rewrite Fn in O. rewrite Fh in Ei.
      destruct (lit_value (f_ty f) lit) as [lv|] eqn:Elv; [|discriminate Ei].
      destruct (enc_value erec (f_ty f) lv _ (f_padded f) 0 m) as [ob|] eqn:Q; [|discriminate Ei]. injection Ei as -> ->.
      assert (Hle : len_expr f locals = Ok (match f_len f with LLit n => Some n | _ => None end)).
      { unfold len_expr. destruct (f_len f) as [|k|l0] eqn:Fl; try reflexivity. exfalso. apply (Wnr l0). reflexivity. }
      destruct (skip_valueB m cl (f_ty f) (f_len f) (f_padded f) lit lv (cont_of t K) o1 r d p (o2 ++ post) Hlit Elv Wty Wnr Q Hpost' Hr
                  (frame_split1 _ _ _ _ _ Hf)) as [r1 [x [Hd Hr1]]].
      exists r1, locals, (m || cl && lit_clean f), lens, pubs, rmo_v. cbn [deser_instr]. rewrite Fo, Hle, Hd, Fn. cbn [andb].
      split; [reflexivity|]. split; [unfold lit_clean; rewrite Fh, Elv; exact Hr1|]. split; [exact Wt|]. split; [exact O|].
      split; [apply (rmo_rel_keep _ _ (EField f) t); [cbn [first_opt_ok]; rewrite Fo; reflexivity | exact Hrmo]|].
      split; [exact Li|]. split; [exact Pi|]. intros k Hk. exact Hk.
  Qed.


  (* ---------------- arrays ---------------- *)
  Lemma join_head m dl tr b bs : headok m b -> headok m (join_elems dl tr (b :: bs)).
  Proof.
    intros Hb. unfold join_elems. destruct dl; [destruct tr|].
    - cbn [map List.concat]. apply headok_app. apply headok_app. exact Hb.
    - destruct bs as [|b2 bs]; [exact Hb|]. rewrite intercalate_cons2. apply headok_app. exact Hb.
    - cbn [List.concat]. apply headok_app. exact Hb.
  Qed.

  Lemma rt_step_arrayB flds start f dl tr cnt t em K m cl lens pubs rmo_e rmo_v acc o1 rmo_e' o2 locals r d p post :
    wire_instrsB sizef wcls progf K m lens pubs (EArray f dl tr cnt :: t) = true ->
    obj_instrsB vo em m cl flds (EArray f dl tr cnt :: t) rmo_v = true ->
    enc_instr erec flds (EArray f dl tr cnt) rmo_e m acc = Some (o1, rmo_e') ->
    enc_instrs erec flds t rmo_e' m (acc ++ o1) = Some o2 ->
    rmo_rel rmo_e rmo_v (EArray f dl tr cnt :: t) -> post_ok K post ->
    rv m cl r d p -> frame d p (o1 ++ o2) post -> lens_inv flds locals lens -> pubs_inv flds locals pubs ->
    step_postB flds start t em K pubs (EArray f dl tr cnt) m rmo_e' o1 locals r d p.
  Proof.
    intros W O Ei Et Hrmo Hpost Hr Hf Li Pi.
    apply wire_array_invB in W as [Wdl [n [Fn [Wfr [Wo [Wel [Wc Wt]]]]]]].
    apply pub_fresh_spec in Wfr as [Wbs Wfr].
    pose proof (cont_of_post _ _ _ _ _ _ _ _ _ Et Hpost) as Hpost'.
    cbn [enc_instr] in Ei. unfold enc_array in Ei. rewrite Fn in Ei. unfold step_postB. cbn [pub_names pub_name instr_mode]. rewrite Fn.
    destruct (obj_array_invB _ _ _ _ _ _ _ _ _ _ _ _ O Fn) as [[Fa [Fo Ot]]|[elems [Fa [Hopt [Hvl [Hlit [Hnv [Hov Ot]]]]]]]]; rewrite Fa in Ei.
    - (* an absent optional *)
      destruct (Wo Fo) as [Hl Hne]. apply opt_stop_spec in Hl as [K' [Hoc Hl]]. rewrite Fo in Ei. unfold opt_guard in Ei. cbn [is_none] in Ei.
      rewrite orb_true_r in Ei. cbn [negb] in Ei. injection Ei as <- <-.
      pose proof (absent_segB _ _ _ _ Hpost _ _ _ _ _ _ _ _ _ Wt Hoc Ot Et) as Hp2. cbn [app] in Hf. apply frame_nil_l in Hf.
      exists r, (locals ++ [(n, VNone)]), cl, lens, (n :: pubs), true.
      cbn [deser_instr]. rewrite Fn, Fo, (rv_rem_zero _ _ _ _ _ _ Hr Hf (stop_of_K _ _ _ Hl Hp2)).
      change (zlen (@nil Z)) with 0. rewrite !Z.add_0_r.
      split; [reflexivity|]. split; [exact Hr|]. split; [exact Wt|]. split; [exact Ot|]. split; [apply rmo_rel_true|].
      split; [apply (lens_inv_bind _ _ _ _ _ _ Wfr Li)|]. split; [apply (pubs_inv_bind _ _ _ _ _ VNone _ Wfr Pi Fa eq_refl)|].
      intros k. apply in_pubs_cons.
    - (* the elements are written *)
      assert (Hwe : exists Ke, wire_val wcls m Ke (f_ty f) LNone = true).
      { destruct dl; [rewrite (Wdl eq_refl); destruct Wel as [Wel _]|]; eauto. }
      assert (Hcore : exists bodies, sequence (map (fun e => enc_value erec (f_ty f) e None false 0 m) elems) = Some bodies /\
                        o1 = join_elems dl tr bodies /\ rmo_rel rmo_e' rmo_v t /\ (f_optional f = true -> headok m o1)).
      { unfold opt_guard in Ei. cbn [is_none] in Ei. rewrite orb_false_r in Ei. unfold enc_elems in Ei.
        assert (Hpos : forall bodies, f_optional f = true ->
                  sequence (map (fun e => enc_value erec (f_ty f) e None false 0 m) elems) = Some bodies ->
                  headok m (join_elems dl tr bodies)).
        { intros bodies Fo Hq. destruct (Hopt Fo) as [_ Hz]. destruct (Wo Fo) as [_ Hnt].
          destruct elems as [|e elems]; [exfalso; apply Hz; reflexivity|]. cbn [map sequence] in Hq.
          destruct (enc_value erec (f_ty f) e None false 0 m) as [b|] eqn:Eb; [|discriminate Hq].
          destruct (sequence (map _ elems)) as [bs|]; [|discriminate Hq]. injection Hq as <-. apply join_head.
          cbn [forallb] in Hov. apply andb_true_iff in Hov as [Hov1 _]. destruct Hwe as [Ke Hwe].
          apply (nonempty_encB m m Ke (f_ty f) LNone None false e b); try assumption; [|intros k Hk; discriminate Hk].
          destruct (f_ty f) eqn:Ft; try exact I.
          - destruct dl.
            + specialize (Hnv eq_refl (or_intror Fo)). cbn [forallb] in Hnv. apply andb_true_iff in Hnv as [Hnv _]. exact Hnv.
            + cbn [wire_val closed_leaf stopb orb] in Wel. discriminate Wel.
          - destruct dl.
            + specialize (Hnv eq_refl (or_intror Fo)). cbn [forallb] in Hnv. apply andb_true_iff in Hnv as [Hnv _]. exact Hnv.
            + cbn [wire_val closed_leaf stopb orb] in Wel. discriminate Wel. }
        destruct (f_optional f) eqn:Fo.
        - destruct (Hopt eq_refl) as [Hrv Hz].
          assert (Hb : (if f_opt_first f then false else rmo_e) = false).
          { apply (rmo_rel_present _ _ _ _ _ Hrmo Hrv). cbn [first_opt_ok]. rewrite Fo. reflexivity. }
          rewrite Hb in Ei. cbn [negb] in Ei. dm Ei; [|discriminate Ei].
          destruct (sequence _) as [bodies|] eqn:Hq; [|discriminate Ei]. injection Ei as <- <-.
          exists bodies. split; [reflexivity|]. split; [reflexivity|]. split; [apply rmo_rel_false|]. intros _. apply (Hpos _ eq_refl eq_refl).
        - cbn [negb] in Ei. dm Ei; [|discriminate Ei].
          destruct (sequence _) as [bodies|] eqn:Hq; [|discriminate Ei]. injection Ei as <- <-.
          exists bodies. split; [reflexivity|]. split; [reflexivity|]. split; [|discriminate].
          apply (rmo_rel_keep _ _ (EArray f dl tr cnt) t); [|exact Hrmo]. cbn [first_opt_ok]. rewrite Fo. reflexivity. }
      destruct Hcore as [bodies [Hq [-> [Hrmo' Hpos]]]].
      assert (Hrem : f_optional f && negb (r_remaining r >? 0) = false).
      { destruct (f_optional f); [|reflexivity]. specialize (Hpos eq_refl).
        pose proof (rv_rem_head _ _ _ _ _ _ _ Hr Hf (headok_app _ _ _ Hpos)). cbn [andb]. apply negb_false_iff. lia. }
      assert (Hlenid : Z.to_nat (zlen elems) = List.length elems) by (unfold zlen; apply Nat2Z.id).
      pose proof (rv_weaken _ _ _ _ _ Hr) as Hrm. pose proof (frame_split1 _ _ _ _ _ Hf) as Hf1.
      assert (Hlen_expr : cnt = ACExpr -> len_expr f locals = Ok (Some (zlen elems))).
      { intros ->. unfold len_expr. destruct (f_len f) as [|k|l] eqn:Fl; [destruct Wc | rewrite (Hlit k eq_refl); reflexivity |].
        apply ref_ok_In in Wc. destruct (Li _ _ Wc) as [fv [len [H1 [H2 H3]]]]. rewrite Fa in H1. injection H1 as <-.
        cbn [py_len] in H2. injection H2 as <-. rewrite H3. reflexivity. }
      assert (Hfuel : zlen (join_elems dl tr bodies) <= Z.of_nat (S (List.length (rdata r)))).
      { pose proof (frame_len _ _ _ _ Hf1) as Hfl. destruct Hr as [Hrd _]. rewrite Hrd.
        destruct Hf1 as [pre [_ Hpp]]. pose proof (zlen_nonneg pre). pose proof (zlen_nonneg (o2 ++ post)). unfold zlen in *. lia. }
      (* every way of finding the count comes down to a loop over the elements *)
      assert (Hloop : exists r1 xs,
                match cnt with
                | ACExpr =>
                  match len_expr f locals with
                  | Ok (Some n) => deser_for drec (f_ty f) dl tr (Z.to_nat n) 0 n [] r
                  | Ok None => (r, Err EUnexpected)
                  | Err e => (r, Err e)
                  end
                | ACRemaining size =>
                  if size =? 0 then (r, Err EUnexpected) else
                  deser_for drec (f_ty f) dl tr (Z.to_nat (truediv_int (r_remaining r) size)) 0 (truediv_int (r_remaining r) size) [] r
                | ACWhile => deser_while drec (f_ty f) dl (S (List.length (rdata r))) [] r
                end = (r1, Ok xs) /\ map strip_bs xs = elems /\ rv m m r1 d (p + zlen (join_elems dl tr bodies))).
      { destruct dl.
        - (* delimited: chunked mode *)
          pose proof (Wdl eq_refl) as ->. destruct Wel as [Wel Wlast]. cbn [join_elems] in *. destruct cnt as [|sz|].
          + rewrite (Hlen_expr eq_refl), Hlenid. destruct tr.
            * destruct (rt_for_trail _ Wel elems bodies [] 0 (zlen elems) r d p (o2 ++ post) Hov Hq Hrm Hf1) as [r1 [xs [Hd [Hxs Hr1]]]].
              exists r1, xs. cbn [rev app] in Hd. auto.
            * destruct (rt_for_sep _ _ Wel (Wlast eq_refl) elems bodies [] 0 (zlen elems) r d p (o2 ++ post) ltac:(lia) Hov Hq Hpost' Hrm Hf1)
                as [r1 [xs [Hd [Hxs Hr1]]]]. exists r1, xs. cbn [rev app] in Hd. auto.
          + destruct Wc as [Hx _]. discriminate Hx.
          + destruct Wc as [Wk Wp]. specialize (Hnv eq_refl (or_introl eq_refl)).
            assert (Hne : nonempty_tyB sizef progf (f_ty f) = true).
            { unfold elem_prog in Wp. unfold nonempty_tyB. destruct (f_ty f); try reflexivity. rewrite Wp. reflexivity. }
            destruct tr.
            * destruct (rt_while_trail _ Wel Hne elems bodies _ [] r d p (o2 ++ post) Hov Hnv Hq Hrm Hf1 (stop_of_K _ _ _ Wk Hpost') Hfuel)
                as [r1 [xs [Hd [Hxs Hr1]]]]. exists r1, xs. cbn [rev app] in Hd. auto.
            * rewrite Wk in Hpost', Wlast. cbn [post_ok] in Hpost'. rewrite Hpost' in Hf1.
              destruct (rt_while_sep _ Wel (Wlast eq_refl) Hne elems bodies _ [] r d p Hov Hnv Hq Hrm Hf1 Hfuel)
                as [r1 [xs [Hd [Hxs Hr1]]]]. exists r1, xs. cbn [rev app] in Hd. auto.
        - cbn [join_elems] in *. destruct cnt as [|sz|].
          + rewrite (Hlen_expr eq_refl), Hlenid.
            destruct (rt_forB m _ tr Wel elems bodies [] 0 (zlen elems) r d p (o2 ++ post) Hov Hq Hrm Hf1)
              as [r1 [xs [Hd [Hxs Hr1]]]]. exists r1, xs. cbn [rev app] in Hd. auto.
          + destruct Wc as [_ [Wk [Hsz Hes]]]. pose proof (stop_of_K _ _ _ Wk Hpost') as Hstop.
            destruct (sz =? 0) eqn:Qz; [lia|]. cbv zeta. unfold elem_sizeB in Hes.
            pose proof (enc_elems_sizeB _ _ (fun a b c d0 e0 H1 H2 => size_of_encB _ _ _ _ _ _ _ _ H1 H2) _ _ _ Hes _ _ Hq) as Hcz.
            assert (Hno : m = true -> no255 (List.concat bodies)).
            { intros ->. clear - Hq Hov Hes Wel. revert bodies Hq. induction elems as [|e elems IHe]; intros bodies Hq; cbn [map sequence] in Hq.
              - injection Hq as <-. apply no255_nil.
              - destruct (enc_value erec (f_ty f) e None false 0 true) as [b|] eqn:Eb; [|discriminate Hq].
                destruct (sequence _) as [bs|] eqn:Eq; [|discriminate Hq]. injection Hq as <-.
                cbn [forallb] in Hov. apply andb_true_iff in Hov as [Ho1 Ho2]. cbn [List.concat].
                apply no255_app; [|apply (IHe Ho2 _ eq_refl)].
                destruct (f_ty f) as [t0|t0|en t0|enc| |sn] eqn:Ft; try discriminate Hes.
                all: try (match type of Eb with enc_value _ ?ty _ _ _ _ _ = _ =>
                       destruct (leaf_facts vo erec true true ty LNone None false e b I Ho1 ltac:(intros k Hk; discriminate Hk) Eb) as [_ Hn] end;
                       apply Hn; left; reflexivity).
                unfold obj_valueB in Ho1. apply andb_true_iff in Ho1 as [Ho1 _]. cbn [obj_value ty_size wire_val enc_value] in *.
                apply (sized_no255 E _ _ _ _ _ _ _ _ _ _ Hes Wel Ho1 Eb). }
            rewrite (rv_rem_stop _ _ _ _ _ _ _ Hrm Hf1 Hno Hstop).
            rewrite Hcz. unfold truediv_int. rewrite Z.quot_mul by lia. rewrite Hlenid.
            destruct (rt_forB m _ tr Wel elems bodies [] 0 (zlen elems) r d p (o2 ++ post) Hov Hq Hrm Hf1)
              as [r1 [xs [Hd [Hxs Hr1]]]]. exists r1, xs. cbn [rev app] in Hd. rewrite <- Hcz. auto.
          + destruct Wc as [Wk [cn [Hty Hpr]]]. pose proof (stop_of_K _ _ _ Wk Hpost') as Hstop.
            rewrite Hty in *. cbn [wire_val] in Wel.
            destruct (rt_whileB m cn Wel Hpr elems bodies _ [] r d p (o2 ++ post) Hov Hq Hrm Hf1 Hstop Hfuel) as [r1 [xs [Hd [Hxs Hr1]]]].
            exists r1, xs. cbn [rev app] in Hd. auto. }
      destruct Hloop as [r1 [xs [Hd [Hxs Hr1]]]].
      exists r1, (locals ++ [(n, VList xs)]), m, lens, (n :: pubs), rmo_v.
      cbn [deser_instr]. rewrite Fn, Hrem, Hd.
      split; [reflexivity|]. split; [exact Hr1|]. split; [exact Wt|]. split; [exact Ot|]. split; [exact Hrmo'|].
      split; [apply (lens_inv_bind _ _ _ _ _ _ Wfr Li)|].
      split; [apply (pubs_inv_bind _ _ _ _ _ (VList xs) _ Wfr Pi Fa); cbn [strip_bs]; now rewrite Hxs|].
      intros k. apply in_pubs_cons.
  Qed.


  (* ---------------- length fields ---------------- *)
  Lemma rt_step_lengthB flds start name lt off opt of rb t em K m cl lens pubs rmo_e rmo_v acc o1 rmo_e' o2 locals r d p post :
    wire_instrsB sizef wcls progf K m lens pubs (ELength name lt off opt of rb :: t) = true ->
    obj_instrsB vo em m cl flds (ELength name lt off opt of rb :: t) rmo_v = true ->
    enc_instr erec flds (ELength name lt off opt of rb) rmo_e m acc = Some (o1, rmo_e') ->
    enc_instrs erec flds t rmo_e' m (acc ++ o1) = Some o2 ->
    rmo_rel rmo_e rmo_v (ELength name lt off opt of rb :: t) -> post_ok K post ->
    rv m cl r d p -> frame d p (o1 ++ o2) post -> lens_inv flds locals lens -> pubs_inv flds locals pubs ->
    step_postB flds start t em K pubs (ELength name lt off opt of rb) m rmo_e' o1 locals r d p.
  Proof.
    intros W O Ei Et Hrmo Hpost Hr Hf Li Pi. cbn [wire_instrsB] in W.
    apply andb_true_iff in W as [W Wt]. apply andb_true_iff in W as [Wopt Wfr].
    destruct opt; [discriminate Wopt|]. destruct rb as [fr|]; [|discriminate Wt].
    cbn [obj_instrsB] in O.
    destruct (assoc flds fr) as [fv|] eqn:Fa; [|discriminate O]. destruct (py_len fv) as [l|] eqn:Fl; [|discriminate O].
    apply andb_true_iff in O as [O Ot]. apply andb_true_iff in O as [O Oc].
    cbn [enc_instr] in Ei. rewrite Fa in Ei. unfold length_slot in Ei. rewrite Fl in Ei. rewrite RoundTrip.opt_guard_required in Ei.
    cbn [negb] in Ei. destruct (enc_int lt (l - off)) as [ob|] eqn:Eb; [|discriminate Ei]. injection Ei as -> ->.
    assert (Hz : 0 <= l - off <= itype_max lt) by lia.
    assert (Hn : m = true \/ (clean_it lt || negb (l - off =? 255)) = true -> no255 o1).
    { intros Hm. apply (enc_int_no255 _ _ _ Eb); [lia|]. intros ->. destruct Hm as [->|Hm].
      - cbn [negb orb clean_it] in Oc. lia.
      - cbn [orb clean_it] in Hm. lia. }
    pose proof (frame_split1 _ _ _ _ _ Hf) as Hf1.
    unfold step_postB. cbn [instr_mode].
    exists (r_set_pos r (p + zlen o1)), (locals ++ [(name, VInt l)]), (m || cl && (clean_it lt || negb (l - off =? 255))), ((name, fr) :: lens), pubs, rmo_v.
    cbn [deser_instr andb].
    rewrite (rv_get_int_of lt _ _ _ _ _ _ _ Hr Hf1 (enc_int_size _ _ _ Eb) (fun Hm => Hn (or_introl Hm))).
    rewrite (int_dec_enc _ _ _ Hz Eb). replace (l - off + off) with l by lia.
    split; [reflexivity|]. split; [apply (rv_adv _ _ _ _ _ _ _ _ Hr Hf1 Hn)|]. split; [exact Wt|]. split; [exact Ot|]. split; [exact Hrmo|].
    split; [apply (lens_inv_len _ _ _ _ _ _ _ _ Wfr Li Fa Fl)|]. split; [apply (pubs_inv_keep _ _ _ _ _ _ Wfr Pi)|].
    intros k Hk. exact Hk.
  Qed.

  (* ---------------- switches ---------------- *)
  Lemma rt_step_switchB flds start fld cases t em K m cl lens pubs rmo_e rmo_v acc o1 rmo_e' o2 locals r d p post :
    wire_instrsB sizef wcls progf K m lens pubs (ESwitch fld cases :: t) = true ->
    obj_instrsB vo em m cl flds (ESwitch fld cases :: t) rmo_v = true ->
    enc_instr erec flds (ESwitch fld cases) rmo_e m acc = Some (o1, rmo_e') ->
    enc_instrs erec flds t rmo_e' m (acc ++ o1) = Some o2 ->
    rmo_rel rmo_e rmo_v (ESwitch fld cases :: t) -> post_ok K post ->
    rv m cl r d p -> frame d p (o1 ++ o2) post -> lens_inv flds locals lens -> pubs_inv flds locals pubs ->
    step_postB flds start t em K pubs (ESwitch fld cases) m rmo_e' o1 locals r d p.
  Proof.
    intros W O Ei Et Hrmo Hpost Hr Hf Li Pi. cbn [wire_instrsB] in W.
    apply andb_true_iff in W as [W Wt]. apply andb_true_iff in W as [W Wc]. apply andb_true_iff in W as [Wm Wfr].
    apply pub_fresh_spec in Wfr as [Wbs Wfr]. apply mem_str_In in Wm.
    pose proof (cont_of_post _ _ _ _ _ _ _ _ _ Et Hpost) as Hpost'.
    cbn [obj_instrsB] in O.
    destruct (assoc flds fld) as [fv|] eqn:Fa; [|discriminate O]. destruct fv as [|z| | | | |]; try discriminate O.
    destruct (assoc flds (fld ++ "_data")) as [dv|] eqn:Fd; [|discriminate O].
    cbn [enc_instr] in Ei. rewrite Fa, Fd in Ei.
    destruct (Pi _ Wm) as [x [v' [Hx1 [Hx2 Hx3]]]]. rewrite Fa in Hx2. injection Hx2 as <-. apply strip_bs_int in Hx3. subst x.
    unfold step_postB. cbn [pub_names pub_name instr_mode]. cbn [deser_instr]. rewrite Hx1.
    assert (Hnone : is_none dv && obj_instrsB vo em m cl flds t rmo_v = true ->
              (if is_none dv then Some (@nil Z, rmo_e) else None) = Some (o1, rmo_e') ->
              exists (r1 : rstate) (locals1 : list (string * value)) (cl1 : bool) (lens1 : list (string * string)) (pubs1 : list string) (rmo_v1 : bool),
                (r, Ok (locals ++ [((fld ++ "_data")%string, VNone)])) = (r1, Ok locals1) /\ rv m cl1 r1 d (p + zlen o1) /\
                wire_instrsB sizef wcls progf K m lens1 pubs1 t = true /\ obj_instrsB vo em m cl1 flds t rmo_v1 = true /\
                rmo_rel rmo_e' rmo_v1 t /\ lens_inv flds locals1 lens1 /\ pubs_inv flds locals1 pubs1 /\
                (forall n, In n (((fld ++ "_data")%string :: pub_names t) ++ pubs) -> In n (pub_names t ++ pubs1))).
    { intros Hdo Hei. apply andb_true_iff in Hdo as [Hdn Ot]. rewrite Hdn in Hei. injection Hei as <- <-. apply is_none_spec in Hdn. subst dv.
      exists r, (locals ++ [((fld ++ "_data")%string, VNone)]), cl, lens, ((fld ++ "_data")%string :: pubs), rmo_v.
      change (zlen (@nil Z)) with 0. rewrite Z.add_0_r.
      split; [reflexivity|]. split; [exact Hr|]. split; [exact Wt|]. split; [exact Ot|]. split; [exact Hrmo|].
      split; [apply (lens_inv_bind _ _ _ _ _ _ Wfr Li)|]. split; [apply (pubs_inv_bind _ _ _ _ _ VNone _ Wfr Pi Fd eq_refl)|].
      intros k. apply in_pubs_cons. }
    destruct (find_case cases (Some z)) as [c|] eqn:Fc; [|apply (Hnone O Ei)].
    destruct (c_cls c) as [cls|] eqn:Cc; [|apply (Hnone O Ei)].
    destruct (obj_class dv) as [c'|] eqn:Oc; [|discriminate O]. apply andb_true_iff in O as [O Ot]. apply andb_true_iff in O as [Oeq Ov].
    rewrite Oeq in Ei.
    destruct (erec cls dv m) as [ob|] eqn:Eb; [|discriminate Ei]. injection Ei as -> ->.
    assert (Wcls : wcls cls m (cont_of t K) = true).
    { rewrite forallb_forall in Wc. specialize (Wc c (find_case_In' _ _ _ Fc)). rewrite Cc in Wc. exact Wc. }
    destruct (IH _ _ _ _ _ _ _ _ _ _ Wcls Ov Eb Hpost' Hr (frame_split1 _ _ _ _ _ Hf)) as [r1 [x [Hd [Hx Hr1]]]]. rewrite Hd.
    exists r1, (locals ++ [((fld ++ "_data")%string, x)]), m, lens, ((fld ++ "_data")%string :: pubs), rmo_v.
    split; [reflexivity|]. split; [exact Hr1|]. split; [exact Wt|]. split; [exact Ot|]. split; [exact Hrmo|].
    split; [apply (lens_inv_bind _ _ _ _ _ _ Wfr Li)|]. split; [apply (pubs_inv_bind _ _ _ _ _ _ _ Wfr Pi Fd Hx)|].
    intros k. apply in_pubs_cons.
  Qed.

  (* ---------------- mode switches and breaks ---------------- *)
  Lemma rt_step_modeB flds start b t em K m cl lens pubs rmo_e rmo_v acc o1 rmo_e' locals r d p :
    wire_instrsB sizef wcls progf K m lens pubs (ESetMode b :: t) = true ->
    obj_instrsB vo em m cl flds (ESetMode b :: t) rmo_v = true ->
    enc_instr erec flds (ESetMode b) rmo_e m acc = Some (o1, rmo_e') ->
    rmo_rel rmo_e rmo_v (ESetMode b :: t) -> (m = true -> cl = true) ->
    rv m cl r d p -> lens_inv flds locals lens -> pubs_inv flds locals pubs ->
    step_postB flds start t em K pubs (ESetMode b) m rmo_e' o1 locals r d p.
  Proof.
    intros W O Ei Hrmo Hmc Hr Li Pi. cbn [wire_instrsB] in W.
    cbn [obj_instrsB] in O. apply andb_true_iff in O as [Ob Ot]. cbn [enc_instr] in Ei. injection Ei as <- <-.
    unfold step_postB. cbn [instr_mode pub_names pub_name deser_instr].
    exists (r_set_chunked r b), locals, (b || m || cl), lens, pubs, rmo_v.
    change (zlen (@nil Z)) with 0. rewrite Z.add_0_r.
    split; [reflexivity|]. split.
    - apply (rv_set_mode _ _ _ _ _ _ _ Hr).
      + intros H. destruct b; [cbn [negb orb] in Ob; destruct m; [apply Hmc; reflexivity | exact Ob]|].
        cbn [orb] in H. destruct m; [apply Hmc; reflexivity | exact H].
      + intros ->. reflexivity.
    - split; [exact W|]. split; [exact Ot|]. split; [exact Hrmo|]. split; [exact Li|]. split; [exact Pi|]. intros k Hk. exact Hk.
  Qed.

  Lemma rt_step_breakB flds start t em K m cl lens pubs rmo_e rmo_v acc o1 rmo_e' o2 locals r d p post :
    wire_instrsB sizef wcls progf K m lens pubs (EBreak :: t) = true ->
    obj_instrsB vo em m cl flds (EBreak :: t) rmo_v = true ->
    enc_instr erec flds EBreak rmo_e m acc = Some (o1, rmo_e') ->
    rmo_rel rmo_e rmo_v (EBreak :: t) ->
    rv m cl r d p -> frame d p (o1 ++ o2) post -> lens_inv flds locals lens -> pubs_inv flds locals pubs ->
    step_postB flds start t em K pubs EBreak m rmo_e' o1 locals r d p.
  Proof.
    intros W O Ei Hrmo Hr Hf Li Pi. cbn [wire_instrsB] in W. apply andb_true_iff in W as [Wm Wt]. apply andb_true_iff in Wm as [Wm Wfo]. subst m.
    cbn [obj_instrsB orb] in O. cbn [enc_instr] in Ei. injection Ei as <- <-.
    destruct (rv_next_chunk _ _ _ _ _ Hr (frame_split1 _ _ _ _ _ Hf)) as [r1 [Hnc Hr1]].
    unfold step_postB. cbn [instr_mode pub_names pub_name deser_instr]. rewrite Hnc.
    exists r1, locals, true, lens, pubs, false. change (zlen [255]) with 1.
    split; [reflexivity|]. split; [exact Hr1|]. split; [exact Wt|]. split; [exact O|]. split; [intros _; right; exact Wfo|].
    split; [exact Li|]. split; [exact Pi|]. intros k Hk. exact Hk.
  Qed.

  (* ---------------- an instruction list ---------------- *)
  Lemma rt_instrsB flds start em K : forall is m cl lens pubs rmo_e rmo_v acc out locals r d p post,
    wire_instrsB sizef wcls progf K m lens pubs is = true ->
    obj_instrsB vo em m cl flds is rmo_v = true ->
    enc_instrs erec flds is rmo_e m acc = Some out ->
    rmo_rel rmo_e rmo_v is -> post_ok K post -> (m = true -> cl = true) ->
    rv m cl r d p -> frame d p out post -> lens_inv flds locals lens -> pubs_inv flds locals pubs ->
    exists r' locals' m' cl', deser_instrs drec start is locals r = (r', Ok locals') /\ rv m' cl' r' d (p + zlen out) /\
                       (em = true -> m' = true \/ cl' = true) /\
                       pubs_inv flds locals' (pub_names is ++ pubs).
  Proof.
    induction is as [|i t IHt]; intros m cl lens pubs rmo_e rmo_v acc out locals r d p post W O He Hrmo Hpost Hmc Hr Hf Li Pi.
    - cbn [enc_instrs] in He. injection He as <-. exists r, locals, m, cl. cbn [deser_instrs pub_names app].
      change (zlen (@nil Z)) with 0. rewrite Z.add_0_r. split; [reflexivity|]. split; [exact Hr|]. split; [|exact Pi].
      intros ->. cbn [obj_instrsB negb orb] in O. apply orb_true_iff in O. exact O.
    - cbn [enc_instrs] in He. destruct (enc_instr erec flds i rmo_e m acc) as [[o1 rmo_e']|] eqn:Ei; [|discriminate He].
      destruct (enc_instrs erec flds t rmo_e' (instr_mode i m) (acc ++ o1)) as [o2|] eqn:Et; [|discriminate He]. injection He as <-.
      assert (Hstep : step_postB flds start t em K pubs i m rmo_e' o1 locals r d p).
      { destruct i as [f|f dl tr cnt|name lt off opt of rb|ty lit g|fld cs|b|]; cbn [instr_mode] in Et.
        - apply (rt_step_fieldB _ _ _ _ _ _ _ _ _ _ _ _ _ _ _ _ _ _ _ _ _ W O Ei Et Hrmo Hpost Hr Hf Li Pi).
        - apply (rt_step_arrayB _ _ _ _ _ _ _ _ _ _ _ _ _ _ _ _ _ _ _ _ _ _ _ _ W O Ei Et Hrmo Hpost Hr Hf Li Pi).
        - apply (rt_step_lengthB _ _ _ _ _ _ _ _ _ _ _ _ _ _ _ _ _ _ _ _ _ _ _ _ _ _ W O Ei Et Hrmo Hpost Hr Hf Li Pi).
        - discriminate W.
        - apply (rt_step_switchB _ _ _ _ _ _ _ _ _ _ _ _ _ _ _ _ _ _ _ _ _ _ W O Ei Et Hrmo Hpost Hr Hf Li Pi).
        - apply (rt_step_modeB _ _ _ _ _ _ _ _ _ _ _ _ _ _ _ _ _ _ _ W O Ei Hrmo Hmc Hr Li Pi).
        - apply (rt_step_breakB _ _ _ _ _ _ _ _ _ _ _ _ _ _ _ _ _ _ _ _ W O Ei Hrmo Hr Hf Li Pi). }
      destruct Hstep as [r1 [locals1 [cl1 [lens1 [pubs1 [rmo_v1 [Hd [Hr1 [Wt [Ot [Hrmo1 [Li1 [Pi1 Hincl]]]]]]]]]]]]].
      assert (Hmc1 : instr_mode i m = true -> cl1 = true) by (destruct Hr1 as [_ [_ [_ [_ [_ H6]]]]]; exact H6).
      destruct (IHt (instr_mode i m) cl1 lens1 pubs1 rmo_e' rmo_v1 (acc ++ o1) o2 locals1 r1 d (p + zlen o1) post Wt Ot Et Hrmo1 Hpost Hmc1 Hr1
                    (frame_split2 _ _ _ _ _ Hf) Li1 Pi1) as [r2 [locals2 [m2 [cl2 [Hd2 [Hr2 [Hend Pi2]]]]]]].
      exists r2, locals2, m2, cl2. cbn [deser_instrs]. rewrite Hd, Hd2. split; [reflexivity|].
      split; [rewrite zlen_app, Z.add_assoc; exact Hr2|]. split; [exact Hend|]. intros k Hk. apply Pi2. apply Hincl. exact Hk.
  Qed.

  (* ---------------- rebuilding the object ---------------- *)
  Lemma obj_instrs_tailB flds em i t m cl rmo : obj_instrsB vo em m cl flds (i :: t) rmo = true ->
    exists m' cl' rmo', obj_instrsB vo em m' cl' flds t rmo' = true.
  Proof.
    intros O. destruct i as [f|f dl tr cnt|name lt off opt of rb|ty lit g|fld cs|b|].
    - destruct (f_name f) as [n|] eqn:Fn.
      + destruct (obj_field_invB _ (valid_objB_none fuel E) _ _ _ _ _ _ _ _ O Fn) as [v [_ [_ [[_ [_ Ot]]|[_ [_ [_ [Ot _]]]]]]]]; eauto.
      + cbn [obj_instrsB] in O. rewrite Fn in O. eauto.
    - destruct (f_name f) as [n|] eqn:Fn.
      + destruct (obj_array_invB _ _ _ _ _ _ _ _ _ _ _ _ O Fn) as [[_ [_ Ot]]|[elems [_ [_ [_ [_ [_ [_ Ot]]]]]]]]; eauto.
      + cbn [obj_instrsB] in O. rewrite Fn in O. discriminate O.
    - cbn [obj_instrsB] in O. destruct rb as [fr|]; [|discriminate O]. destruct (assoc flds fr) as [fv|]; [|discriminate O].
      destruct (py_len fv); [|discriminate O]. apply andb_true_iff in O as [_ Ot]. eauto.
    - cbn [obj_instrsB] in O. eauto.
    - cbn [obj_instrsB] in O. destruct (assoc flds fld) as [fv|]; [|discriminate O]. destruct fv; try discriminate O.
      destruct (assoc flds (fld ++ "_data")) as [dv|]; [|discriminate O].
      destruct (find_case cs (Some z)) as [c|]; [|apply andb_true_iff in O as [_ Ot]; eauto].
      destruct (c_cls c); [|apply andb_true_iff in O as [_ Ot]; eauto].
      destruct (obj_class dv); [|discriminate O]. apply andb_true_iff in O as [_ Ot]. eauto.
    - cbn [obj_instrsB] in O. apply andb_true_iff in O as [_ Ot]. eauto.
    - cbn [obj_instrsB] in O. eauto.
  Qed.

  Lemma build_stripB flds locals em : forall t fsuf m cl rmo,
    obj_instrsB vo em m cl flds t rmo = true -> map fst fsuf = pub_names t ->
    (forall k v, In (k, v) fsuf -> k <> "byte_size"%string /\ assoc flds k = Some v /\
                                   exists x, assoc_last locals k None = Some x /\ strip_bs x = v) ->
    exists fl, build_fields t locals = Ok fl /\ strip_fields fl = fsuf /\ map fst fl = map fst fsuf.
  Proof.
    induction t as [|i t IHt]; intros fsuf m cl rmo O Hm Hall.
    - cbn [pub_names] in Hm. destruct fsuf; [|discriminate Hm]. exists []. auto.
    - destruct (obj_instrs_tailB _ _ _ _ _ _ _ O) as [m' [cl' [rmo' Ot]]]. cbn [pub_names] in Hm. cbn [build_fields].
      assert (Hpub : forall n (g : list (string * value) -> res (list (string * value))),
                pub_name i = Some n ->
                (forall v, assoc flds n = Some v -> (exists x, assoc_last locals n None = Some x /\ strip_bs x = v) ->
                           exists y, (forall rest, g rest = Ok ((n, y) :: rest)) /\ strip_bs y = v) ->
                exists fl, rbind (build_fields t locals) g = Ok fl /\ strip_fields fl = fsuf /\ map fst fl = map fst fsuf).
      { intros n g Hn Hg. rewrite Hn in Hm. destruct fsuf as [|[k v] fsuf]; [discriminate Hm|]. cbn [map fst] in Hm.
        injection Hm as -> Hm. destruct (Hall n v (or_introl eq_refl)) as [Hbs [Ha Hx]].
        destruct (IHt fsuf m' cl' rmo' Ot Hm (fun k' v' Hin => Hall k' v' (or_intror Hin))) as [fl [Hb [Hs Hf]]].
        destruct (Hg v Ha Hx) as [y [Hy Hsy]]. rewrite Hb. cbn [rbind]. rewrite Hy. exists ((n, y) :: fl).
        split; [reflexivity|]. cbn [strip_fields map fst]. apply String.eqb_neq in Hbs. rewrite Hbs, Hsy, Hs, Hf. auto. }
      assert (Hnop : pub_name i = None -> forall g, (forall rest, g rest = Ok rest) ->
                exists fl, rbind (build_fields t locals) g = Ok fl /\ strip_fields fl = fsuf /\ map fst fl = map fst fsuf).
      { intros Hn g Hg. rewrite Hn in Hm. destruct (IHt fsuf m' cl' rmo' Ot Hm Hall) as [fl [Hb [Hs Hf]]].
        rewrite Hb. cbn [rbind]. rewrite Hg. eauto. }
      destruct i as [f|f dl tr cnt|name lt off opt of rb|ty lit g|fld cs|b|]; cbn [pub_name] in *;
        try (apply Hnop; [reflexivity | intros rest; reflexivity]).
      + destruct (f_name f) as [n|] eqn:Fn; [|apply Hnop; [reflexivity | intros rest; reflexivity]].
        apply (Hpub n); [reflexivity|]. intros v Ha [x [Hx1 Hx2]].
        destruct (obj_field_invB _ (valid_objB_none fuel E) _ _ _ _ _ _ _ _ O Fn) as [v0 [Fa [Hh _]]]. rewrite Ha in Fa. injection Fa as <-.
        unfold hard_agrees in Hh. destruct (f_hard f) as [lit|].
        * destruct (lit_value (f_ty f) lit) as [lv|]; [|discriminate Hh]. apply lit_eqb_eq in Hh as [<- Hs].
          exists v. split; [intros rest; reflexivity | exact Hs].
        * exists x. rewrite Hx1. split; [intros rest; reflexivity | exact Hx2].
      + destruct (f_name f) as [n|] eqn:Fn; [|apply Hnop; [reflexivity | intros rest; reflexivity]].
        apply (Hpub n); [reflexivity|]. intros v Ha [x [Hx1 Hx2]]. exists x. rewrite Hx1.
        split; [intros rest; reflexivity | exact Hx2].
      + apply (Hpub (fld ++ "_data")%string); [reflexivity|]. intros v Ha [x [Hx1 Hx2]]. exists x. rewrite Hx1.
        split; [intros rest; reflexivity | exact Hx2].
  Qed.

  (* the public names of a wire-unambiguous body are distinct, new, and none is "byte_size" *)
  Lemma wire_namesB K : forall is m lens pubs, wire_instrsB sizef wcls progf K m lens pubs is = true ->
    NoDup (pub_names is) /\ forall n, In n (pub_names is) -> n <> "byte_size"%string /\ ~ In n pubs.
  Proof.
    induction is as [|i t IHt]; intros m lens pubs W; cbn [pub_names].
    - split; [constructor | intros n []].
    - assert (Hpub : forall n, pub_name i = Some n -> pub_fresh n lens pubs = true ->
                (exists m' lens', wire_instrsB sizef wcls progf K m' lens' (n :: pubs) t = true) ->
                NoDup (n :: pub_names t) /\ forall k, In k (n :: pub_names t) -> k <> "byte_size"%string /\ ~ In k pubs).
      { intros n _ Hfr [m' [lens' Wt]]. destruct (IHt _ _ _ Wt) as [ND Hall]. apply pub_fresh_spec in Hfr as [Hbs Hfr].
        apply fresh_spec in Hfr as [_ Hfr]. split.
        - constructor; [|exact ND]. intros Hin. destruct (Hall n Hin) as [_ Hx]. apply Hx. left. reflexivity.
        - intros k [<-|Hk]; [auto|]. destruct (Hall k Hk) as [H1 H2]. split; [exact H1|]. intros Hin. apply H2. right. exact Hin. }
      destruct i as [f|f dl tr cnt|name lt off opt of rb|ty lit g|fld cs|b|]; cbn [pub_name] in *.
      + apply wire_field_invB in W as [Wn [_ [_ Wt]]]. destruct (f_name f) as [n|].
        * destruct Wn as [Wfr _]. apply (Hpub n eq_refl Wfr). eauto.
        * apply (IHt _ _ _ Wt).
      + apply wire_array_invB in W as [_ [n [Fn [Wfr [_ [_ [_ Wt]]]]]]]. rewrite Fn in *. apply (Hpub n eq_refl Wfr). eauto.
      + cbn [wire_instrsB] in W. apply andb_true_iff in W as [_ Wt]. destruct rb as [fr|]; [|discriminate Wt]. apply (IHt _ _ _ Wt).
      + discriminate W.
      + cbn [wire_instrsB] in W. apply andb_true_iff in W as [W Wt]. apply andb_true_iff in W as [W _].
        apply andb_true_iff in W as [_ Wfr]. apply (Hpub _ eq_refl Wfr). eauto.
      + cbn [wire_instrsB] in W. apply (IHt _ _ _ W).
      + cbn [wire_instrsB] in W. apply andb_true_iff in W as [_ Wt]. apply (IHt _ _ _ Wt).
  Qed.

  (* ---------------- one class body ---------------- *)
  Lemma rt_bodyB sd em cl K c flds out r d p post :
    wire_bodyB sizef wcls progf em K (sd_body sd) = true ->
    map fst flds = pub_names (sd_body sd) -> obj_instrsB vo em em (em || cl) flds (sd_body sd) false = true ->
    enc_body erec sd (VObj c flds) em = Some out -> post_ok K post ->
    rv em cl r d p -> frame d p out post ->
    exists r' fl, deser_body drec sd r = (r', Ok (VObj (sd_name sd) (fl ++ [("byte_size"%string, VInt (zlen out))]))) /\
                  strip_fields fl = flds /\ ~ In "byte_size"%string (map fst fl) /\ rv em em r' d (p + zlen out).
  Proof.
    intros W Hm O He Hpost Hr Hf. unfold wire_bodyB in W. unfold enc_body in He. unfold deser_body.
    destruct (Hr) as [Hrd [Hrp [Hrc _]]]. rewrite Hrc, Hrp.
    destruct (sole_dummy (sd_body sd)) as [[ty lit]|] eqn:Sd.
    - apply sole_dummy_spec in Sd. rewrite Sd in *. cbn [pub_names pub_name] in Hm. destruct flds; [|discriminate Hm].
      apply enc_dummy_bodyB in He as [lv [Hlv Ev]].
      assert (Hl : lit_enc_okB em ty LNone false lit = true) by (destruct ty; try discriminate W; exact W).
      assert (Hwv : wire_val wcls em K ty LNone = true) by (destruct ty; try discriminate W; reflexivity).
      destruct (skip_valueB em cl ty LNone false lit lv K out r d p post Hl Hlv Hwv ltac:(intros l Hx; discriminate Hx) Ev Hpost Hr Hf)
        as [r1 [x [Hd Hr1]]].
      cbn [deser_instrs deser_instr andb]. rewrite Hd. cbn [build_fields rbind].
      exists (r_set_chunked r1 em), []. destruct (Hr1) as [H1 [H2 _]]. rewrite H2. replace (p + zlen out - p) with (zlen out) by lia.
      split; [reflexivity|]. split; [reflexivity|]. split; [intros []|].
      apply (rv_set_mode _ _ _ _ _ _ _ Hr1); [|auto]. intros ->. reflexivity.
    - assert (Hmc : em = true -> (em || cl) = true) by (intros ->; reflexivity).
      assert (Hr0 : rv em (em || cl) r d p).
      { apply (rv_flag em cl (em || cl) r d p Hr); [|exact Hmc]. intros H.
        destruct em; [destruct Hr as [_ [_ [_ [_ [_ H6]]]]]; apply H6; reflexivity | exact H]. }
      destruct (rt_instrsB flds p em K (sd_body sd) em (em || cl) [] [] false false [] out [] r d p post W O He (rmo_rel_false _ _) Hpost Hmc Hr0 Hf)
        as [r1 [locals1 [m1 [cl1 [Hd [Hr1 [Hend Pi1]]]]]]].
      + intros l fr [].
      + intros n [].
      + rewrite Hd. rewrite app_nil_r in Pi1. destruct (wire_namesB _ _ _ _ _ W) as [ND Hnames].
        destruct (build_stripB flds locals1 em (sd_body sd) flds em (em || cl) false O Hm) as [fl [Hb [Hs Hf1]]].
        { intros k v Hin. assert (Hk : In k (pub_names (sd_body sd))).
          { rewrite <- Hm. apply in_map_iff. exists (k, v). split; [reflexivity | exact Hin]. }
          destruct (Hnames k Hk) as [Hbs _]. split; [exact Hbs|].
          assert (Ha : assoc flds k = Some v) by (apply assoc_nodup; [rewrite Hm; exact ND | exact Hin]).
          split; [exact Ha|]. destruct (Pi1 k Hk) as [x [v' [Hx1 [Hx2 Hx3]]]]. rewrite Ha in Hx2. injection Hx2 as <-. eauto. }
        rewrite Hb. cbn [rbind]. exists (r_set_chunked r1 em), fl. destruct (Hr1) as [H1 [H2 [_ [_ [_ H6]]]]]. rewrite H2.
        replace (p + zlen out - p) with (zlen out) by lia.
        split; [reflexivity|]. split; [exact Hs|]. split.
        * rewrite Hf1, Hm. intros Hin. destruct (Hnames _ Hin) as [Hbs _]. apply Hbs. reflexivity.
        * apply (rv_set_mode _ _ _ _ _ _ _ Hr1); [|auto]. intros ->. destruct (Hend eq_refl) as [Hx|Hx]; [apply H6; exact Hx | exact Hx].
  Qed.
End BodyB.

(* ====================================================================================================== *)
(* 6. the knot: classes of any nesting depth                                                              *)
(* ====================================================================================================== *)
Theorem rt_structB E : forall fuel cls em cl K v out r d p post,
  wire_classB fuel E cls em K = true -> valid_objB fuel E cls em cl v = true -> enc_struct fuel E cls v em = Some out ->
  post_ok K post -> rv em cl r d p -> frame d p out post ->
  exists r' v', deser_struct fuel E cls r = (r', Ok v') /\ strip_bs v' = v /\ rv em em r' d (p + zlen out) /\
                top_byte_size v' = Some (zlen out).
Proof.
  induction fuel as [|fuel IHf]; intros cls em cl K v out r d p post W V He Hpost Hr Hf; [discriminate W|].
  cbn [wire_classB valid_objB enc_struct deser_struct] in *.
  destruct (env_find E cls) as [sd|] eqn:Ef; [|discriminate W]. destruct v as [| | | | | |c flds]; try discriminate V.
  apply andb_true_iff in V as [V O]. apply andb_true_iff in V as [Vc Vm]. apply String.eqb_eq in Vc. apply strs_eqb_eq in Vm.
  assert (IH' : forall n em cl K x out r d p post,
            wire_classB fuel E n em K = true -> valid_objB fuel E n em cl x = true -> enc_struct fuel E n x em = Some out ->
            post_ok K post -> rv em cl r d p -> frame d p out post ->
            exists r' x', deser_struct fuel E n r = (r', Ok x') /\ strip_bs x' = x /\ rv em em r' d (p + zlen out)).
  { intros n em0 cl0 K0 x o r0 d0 p0 post0 H1 H2 H3 H4 H5 H6.
    destruct (IHf n em0 cl0 K0 x o r0 d0 p0 post0 H1 H2 H3 H4 H5 H6) as [r' [x' [A [B [C _]]]]]. eauto. }
  destruct (rt_bodyB E fuel IH' sd em cl K c flds out r d p post W Vm O He Hpost Hr Hf) as [r' [fl [Hd [Hs [Hbs Hr']]]]].
  rewrite Hd. eexists _, _. split; [reflexivity|]. rewrite (env_find_name _ _ _ Ef), Vc.
  split; [|split; [exact Hr'|]].
  - rewrite strip_bs_obj, strip_fields_app, Hs. cbn [strip_fields]. rewrite String.eqb_refl, app_nil_r. reflexivity.
  - cbn [top_byte_size]. rewrite (assoc_app_notin _ _ _ Hbs). cbn [assoc]. rewrite String.eqb_refl. reflexivity.
Qed.

Theorem roundtrip_chunked E cls v w :
  wire_okB E cls = true -> valid_objB (S (List.length E)) E cls false true v = true ->
  serialize E cls v false = (w, Ok tt) ->
  exists r v', deserialize E cls (wdata w) false = (r, Ok v') /\
               strip_bs v' = v /\ rpos r = zlen (wdata w) /\ top_byte_size v' = Some (zlen (wdata w)).
Proof.
  intros W V S. apply serialize_is_encode in S as [out [He ->]]. cbn [wdata]. unfold wire_okB in W. unfold encode in He.
  unfold deserialize.
  destruct (rt_structB E _ cls false true KEnd v out (initR out) out 0 [] W V He eq_refl (rv_init out) (frame_whole out))
    as [r' [v' [Hd [Hs [Hr Hb]]]]].
  exists r', v'. split; [exact Hd|]. split; [exact Hs|]. split; [|exact Hb]. destruct Hr as [_ [Hp _]]. rewrite Hp. lia.
Qed.

(* ====================================================================================================== *)
(* 7. valid objects of wire-unambiguous classes have an encoding                                           *)
(* ====================================================================================================== *)
Lemma lit_enc_valueB erec m ty flen padded lit lv :
  lit_enc_okB m ty flen padded lit = true -> lit_value ty lit = Ok lv ->
  exists out, enc_value erec ty lv (match flen with LLit n => Some n | _ => None end) padded 0 m = Some out.
Proof.
  unfold lit_enc_okB, lit_enc_ok. intros H Hl. apply andb_true_iff in H as [H _]. rewrite Hl in H.
  destruct ty as [t|t|en t|enc| |n]; cbn [lit_value] in Hl; try discriminate Hl.
  - assert (Hz : exists z, lv = VInt z).
    { destruct (parse_int lit) as [z|]; [|discriminate Hl]. destruct (isdigit lit); [|discriminate Hl]. injection Hl as <-. eauto. }
    destruct Hz as [z ->]. pose proof (lit_int_nonneg t lit z Hl) as Hz.
    cbn [enc_value]. rewrite Z.sub_0_r. apply enc_int_ok. lia.
  - assert (Hb : exists b, lv = VBool b).
    { destruct (String.eqb lit "true"); [injection Hl as <-; eauto|]. destruct (String.eqb lit "false"); [injection Hl as <-; eauto | discriminate Hl]. }
    destruct Hb as [b ->]. cbn [enc_value truthy]. apply enc_int_ok. apply bool_range'.
  - injection Hl as <-. cbn [enc_value]. unfold enc_str. destruct flen as [|n|l]; eauto.
    destruct padded; rewrite H; eauto.
Qed.

Lemma field_len_strB f s n : valid_len f (VStr s) = true -> field_len f (VStr s) = Some n ->
  if f_padded f then zlen s <= n else zlen s = n.
Proof.
  unfold valid_len, field_len. cbn [py_len]. destruct (f_len f) as [|k|l]; [discriminate | |]; intros H Hn; injection Hn as <-.
  - destruct (f_padded f); lia.
  - destruct (f_padded f); lia.
Qed.

Section EncOkB.
  Variable E : env.
  Variable fuel : nat.
  Local Notation sizef := (size_of (S (List.length E)) E).
  Local Notation progf := (progress_class (S (List.length E)) E).
  Local Notation wcls := (wire_classB fuel E).
  Local Notation vo := (valid_objB fuel E).
  Local Notation erec := (enc_struct fuel E).
  Hypothesis IH : forall n em cl K x, wcls n em K = true -> vo n em cl x = true -> exists out, erec n x em = Some out.

  Lemma enc_value_okB m cl ty flen len padded v :
    obj_valueB vo m cl ty flen padded v = true ->
    (forall n, ty = EStruct n -> exists K, wcls n m K = true) ->
    (forall s n, v = VStr s -> len = Some n -> if padded then zlen s <= n else zlen s = n) ->
    exists out, enc_value erec ty v len padded 0 m = Some out.
  Proof.
    intros Ho Hw Hs. unfold obj_valueB in Ho. apply andb_true_iff in Ho as [Ho _].
    destruct ty as [t|t|en t|enc| |n]; cbn [obj_value enc_value] in *.
    - destruct v as [|z| | | | |]; try discriminate Ho. rewrite Z.sub_0_r. apply enc_int_ok. lia.
    - destruct v as [| |b| | | |]; try discriminate Ho. cbn [truthy]. apply enc_int_ok. apply bool_range'.
    - destruct v as [|z| | | | |]; try discriminate Ho. apply enc_int_ok. lia.
    - destruct v as [| | |s| | |]; try discriminate Ho. unfold enc_str. destruct len as [n|]; [|eauto].
      specialize (Hs s n eq_refl eq_refl). destruct padded.
      + destruct (zlen s <=? n) eqn:Q; [eauto | lia].
      + destruct (zlen s =? n) eqn:Q; [eauto | lia].
    - destruct v as [| | | |b| |]; try discriminate Ho. eauto.
    - destruct (Hw n eq_refl) as [K Hl]. apply (IH _ _ _ _ _ Hl Ho).
  Qed.

  Definition enc_stepB (flds : list (string * value)) (i : einstr) (t : list einstr) (em : bool) (K : cont) (m : bool) (rmo_e : bool) (acc : list Z) : Prop :=
    exists o1 rmo_e' cl1 lens1 pubs1 rmo_v1,
      enc_instr erec flds i rmo_e m acc = Some (o1, rmo_e') /\
      wire_instrsB sizef wcls progf K (instr_mode i m) lens1 pubs1 t = true /\ obj_instrsB vo em (instr_mode i m) cl1 flds t rmo_v1 = true /\
      rmo_rel rmo_e' rmo_v1 t.

  Lemma enc_step_fieldB flds f t em K m cl lens pubs rmo_e rmo_v acc :
    wire_instrsB sizef wcls progf K m lens pubs (EField f :: t) = true ->
    obj_instrsB vo em m cl flds (EField f :: t) rmo_v = true -> rmo_rel rmo_e rmo_v (EField f :: t) ->
    enc_stepB flds (EField f) t em K m rmo_e acc.
  Proof.
    intros W O Hrmo. apply wire_field_invB in W as [Wn [Wo [Wty Wt]]]. unfold enc_stepB. cbn [enc_instr instr_mode]. unfold enc_field.
    destruct (f_name f) as [n|] eqn:Fn.
    - destruct (obj_field_invB _ (valid_objB_none fuel E) _ _ _ _ _ _ _ _ O Fn) as [v [Fa [Hh [[Fo [-> Ot]]|[Hopt [Hvl [Hov [Ot Hnn]]]]]]]]; rewrite Fa.
      + rewrite Fo. unfold opt_guard. cbn [is_none]. rewrite orb_true_r. cbn [negb]. eexists _, _, _, _, _, true.
        split; [reflexivity|]. split; [exact Wt|]. split; [exact Ot | apply rmo_rel_true].
      + assert (Hv : exists o1, enc_value erec (f_ty f) v (field_len f v) (f_padded f) 0 m = Some o1).
        { apply (enc_value_okB m cl _ (f_len f)); [exact Hov | |].
          - intros cn Hc. rewrite Hc in Wty. cbn [wire_val] in Wty. eauto.
          - intros s k -> Hk. apply (field_len_strB _ _ _ Hvl Hk). }
        destruct Hv as [o1 Ev]. rewrite Hnn, !andb_false_r, (valid_len_check _ _ Hvl), Ev. unfold opt_guard. rewrite Hnn, orb_false_r.
        destruct (f_optional f) eqn:Fo.
        * destruct (Hopt eq_refl) as [Hrv _].
          assert (Hb : (if f_opt_first f then false else rmo_e) = false).
          { apply (rmo_rel_present _ _ _ _ _ Hrmo Hrv). cbn [first_opt_ok]. rewrite Fo. reflexivity. }
          rewrite Hb. cbn [negb]. eexists _, _, _, _, _, rmo_v. split; [reflexivity|]. split; [exact Wt|]. split; [exact Ot | apply rmo_rel_false].
        * cbn [negb]. eexists _, _, _, _, _, rmo_v. split; [reflexivity|]. split; [exact Wt|]. split; [exact Ot|].
          apply (rmo_rel_keep _ _ (EField f) t); [|exact Hrmo]. cbn [first_opt_ok]. rewrite Fo. reflexivity.
    - destruct Wn as [Fo [Wnr [lit [Fh Hlit]]]]. cbn [obj_instrsB] in O. rewrite Fn in O. rewrite Fh.
      destruct (lit_value (f_ty f) lit) as [lv|] eqn:Elv;
        [|unfold lit_enc_okB, lit_enc_ok in Hlit; rewrite Elv in Hlit; discriminate Hlit].
      destruct (lit_enc_valueB erec _ _ _ _ _ _ Hlit Elv) as [o1 Ev]. rewrite Ev.
      eexists _, _, _, _, _, rmo_v. split; [reflexivity|]. split; [exact Wt|]. split; [exact O|].
      apply (rmo_rel_keep _ _ (EField f) t); [|exact Hrmo]. cbn [first_opt_ok]. rewrite Fo. reflexivity.
  Qed.

  Lemma enc_step_arrayB flds f dl tr cnt t em K m cl lens pubs rmo_e rmo_v acc :
    wire_instrsB sizef wcls progf K m lens pubs (EArray f dl tr cnt :: t) = true ->
    obj_instrsB vo em m cl flds (EArray f dl tr cnt :: t) rmo_v = true -> rmo_rel rmo_e rmo_v (EArray f dl tr cnt :: t) ->
    enc_stepB flds (EArray f dl tr cnt) t em K m rmo_e acc.
  Proof.
    intros W O Hrmo. apply wire_array_invB in W as [Wdl [n [Fn [Wfr [Wo [Wel [Wc Wt]]]]]]].
    unfold enc_stepB. cbn [enc_instr instr_mode]. unfold enc_array. rewrite Fn.
    destruct (obj_array_invB _ _ _ _ _ _ _ _ _ _ _ _ O Fn) as [[Fa [Fo Ot]]|[elems [Fa [Hopt [Hvl [Hlit [_ [Hov Ot]]]]]]]]; rewrite Fa.
    - rewrite Fo. unfold opt_guard. cbn [is_none]. rewrite orb_true_r. cbn [negb]. eexists _, _, _, _, _, true.
      split; [reflexivity|]. split; [exact Wt|]. split; [exact Ot | apply rmo_rel_true].
    - assert (Hc : array_count_ok f elems = true).
      { unfold array_count_ok. unfold valid_len in Hvl. cbn [py_len] in Hvl. destruct (f_len f) as [|k|l]; [reflexivity | |].
        - rewrite (Hlit k eq_refl). apply Z.eqb_refl.
        - exact Hvl. }
      assert (Hwe : exists Ke, wire_val wcls m Ke (f_ty f) LNone = true).
      { destruct dl; [rewrite (Wdl eq_refl); destruct Wel as [Wel _]|]; eauto. }
      destruct Hwe as [Ke Hwe].
      assert (Hq : exists bodies, sequence (map (fun e => enc_value erec (f_ty f) e None false 0 m) elems) = Some bodies).
      { apply sequence_ok. intros e Hin. rewrite forallb_forall in Hov. apply (enc_value_okB m m _ LNone); [apply (Hov e Hin) | |].
        - intros cn Hcn. rewrite Hcn in Hwe. cbn [wire_val] in Hwe. eauto.
        - intros s k _ Hk. discriminate Hk. }
      destruct Hq as [bodies Hq]. rewrite Hc. unfold enc_elems. rewrite Hq. unfold opt_guard. cbn [is_none]. rewrite orb_false_r.
      destruct (f_optional f) eqn:Fo.
      + destruct (Hopt eq_refl) as [Hrv _].
        assert (Hb : (if f_opt_first f then false else rmo_e) = false).
        { apply (rmo_rel_present _ _ _ _ _ Hrmo Hrv). cbn [first_opt_ok]. rewrite Fo. reflexivity. }
        rewrite Hb. cbn [negb]. eexists _, _, _, _, _, rmo_v. split; [reflexivity|]. split; [exact Wt|]. split; [exact Ot | apply rmo_rel_false].
      + cbn [negb]. eexists _, _, _, _, _, rmo_v. split; [reflexivity|]. split; [exact Wt|]. split; [exact Ot|].
        apply (rmo_rel_keep _ _ (EArray f dl tr cnt) t); [|exact Hrmo]. cbn [first_opt_ok]. rewrite Fo. reflexivity.
  Qed.

  Lemma enc_instrs_okB flds em K : forall is m cl lens pubs rmo_e rmo_v acc,
    wire_instrsB sizef wcls progf K m lens pubs is = true -> obj_instrsB vo em m cl flds is rmo_v = true ->
    rmo_rel rmo_e rmo_v is -> exists out, enc_instrs erec flds is rmo_e m acc = Some out.
  Proof.
    induction is as [|i t IHt]; intros m cl lens pubs rmo_e rmo_v acc W O Hrmo; cbn [enc_instrs]; [eauto|].
    assert (Hstep : enc_stepB flds i t em K m rmo_e acc).
    { destruct i as [f|f dl tr cnt|name lt off opt of rb|ty lit g|fld cs|b|]; try discriminate W.
      - apply (enc_step_fieldB _ _ _ _ _ _ _ _ _ _ _ _ W O Hrmo).
      - apply (enc_step_arrayB _ _ _ _ _ _ _ _ _ _ _ _ _ _ _ W O Hrmo).
      - cbn [wire_instrsB] in W. apply andb_true_iff in W as [W Wt]. apply andb_true_iff in W as [Wopt Wfr].
        destruct opt; [discriminate Wopt|]. destruct rb as [fr|]; [|discriminate Wt].
        cbn [obj_instrsB] in O.
        destruct (assoc flds fr) as [fv|] eqn:Fa; [|discriminate O]. destruct (py_len fv) as [l|] eqn:Fl; [|discriminate O].
        apply andb_true_iff in O as [O Ot]. apply andb_true_iff in O as [O _].
        unfold enc_stepB. cbn [enc_instr instr_mode]. rewrite Fa. unfold length_slot. rewrite Fl, RoundTrip.opt_guard_required. cbn [negb].
        destruct (enc_int_ok lt (l - off) ltac:(lia)) as [ob Eb]. rewrite Eb. eexists _, _, _, _, _, rmo_v. eauto.
      - cbn [wire_instrsB] in W. apply andb_true_iff in W as [W Wt]. apply andb_true_iff in W as [W Wc].
        cbn [obj_instrsB] in O.
        destruct (assoc flds fld) as [fv|] eqn:Fa; [|discriminate O]. destruct fv as [|z| | | | |]; try discriminate O.
        destruct (assoc flds (fld ++ "_data")) as [dv|] eqn:Fd; [|discriminate O].
        unfold enc_stepB. cbn [enc_instr instr_mode]. rewrite Fa, Fd.
        destruct (find_case cs (Some z)) as [c|] eqn:Fc;
          [|apply andb_true_iff in O as [O Ot]; rewrite O; eexists _, _, _, _, _, rmo_v; eauto].
        destruct (c_cls c) as [cls|] eqn:Cc;
          [|apply andb_true_iff in O as [O Ot]; rewrite O; eexists _, _, _, _, _, rmo_v; eauto].
        destruct (obj_class dv) as [c'|]; [|discriminate O]. apply andb_true_iff in O as [O Ot]. apply andb_true_iff in O as [Oeq Ov]. rewrite Oeq.
        rewrite forallb_forall in Wc. specialize (Wc c (find_case_In' _ _ _ Fc)). rewrite Cc in Wc.
        destruct (IH _ _ _ _ _ Wc Ov) as [ob Eb]. rewrite Eb. eexists _, _, _, _, _, rmo_v. eauto.
      - cbn [wire_instrsB] in W. cbn [obj_instrsB] in O. apply andb_true_iff in O as [_ Ot].
        unfold enc_stepB. cbn [enc_instr instr_mode]. eexists _, _, _, _, _, rmo_v. eauto.
      - cbn [wire_instrsB] in W. apply andb_true_iff in W as [W Wt]. apply andb_true_iff in W as [_ Wfo]. cbn [obj_instrsB] in O.
        unfold enc_stepB. cbn [enc_instr instr_mode]. eexists _, _, _, _, _, false.
        split; [reflexivity|]. split; [exact Wt|]. split; [exact O|]. intros _. right. exact Wfo. }
    destruct Hstep as [o1 [rmo_e' [cl1 [lens1 [pubs1 [rmo_v1 [Ei [Wt [Ot Hrmo1]]]]]]]]]. rewrite Ei.
    destruct (IHt (instr_mode i m) cl1 lens1 pubs1 rmo_e' rmo_v1 (acc ++ o1) Wt Ot Hrmo1) as [o2 Et]. rewrite Et. eauto.
  Qed.
End EncOkB.

Theorem enc_struct_okB E : forall fuel cls em cl K v,
  wire_classB fuel E cls em K = true -> valid_objB fuel E cls em cl v = true -> exists out, enc_struct fuel E cls v em = Some out.
Proof.
  induction fuel as [|fuel IHf]; intros cls em cl K v W V; [discriminate W|].
  cbn [wire_classB valid_objB enc_struct] in *.
  destruct (env_find E cls) as [sd|] eqn:Ef; [|discriminate W]. destruct v as [| | | | | |c flds]; try discriminate V.
  apply andb_true_iff in V as [V O]. unfold enc_body. unfold wire_bodyB in W.
  destruct (sole_dummy (sd_body sd)) as [[ty lit]|] eqn:Sd.
  - apply sole_dummy_spec in Sd. rewrite Sd. cbn [enc_instrs enc_instr andb].
    assert (Hlit : lit_enc_okB em ty LNone false lit = true) by (destruct ty; try discriminate W; exact W).
    destruct (lit_value ty lit) as [lv|] eqn:Elv;
      [|unfold lit_enc_okB, lit_enc_ok in Hlit; rewrite Elv in Hlit; discriminate Hlit].
    destruct (lit_enc_valueB (enc_struct fuel E) _ _ _ _ _ _ Hlit Elv) as [o1 Ev]. rewrite Ev. eauto.
  - apply (enc_instrs_okB E fuel IHf flds em K _ _ _ _ _ _ _ _ W O (rmo_rel_false _ _)).
Qed.

Theorem valid_serializesB E cls v :
  wire_okB E cls = true -> valid_objB (S (List.length E)) E cls false true v = true -> exists w, serialize E cls v false = (w, Ok tt).
Proof.
  intros W V. destruct (enc_struct_okB E _ cls false true KEnd v W V) as [out He].
  exists (mkW out false). apply serialize_is_encode. exists out. split; [exact He | reflexivity].
Qed.

Theorem round_ok_holdsB E cls v :
  wire_okB E cls = true -> valid_objB (S (List.length E)) E cls false true v = true -> round_ok E cls v = true.
Proof.
  intros W V. destruct (valid_serializesB E cls v W V) as [w S].
  destruct (roundtrip_chunked E cls v w W V S) as [r [v' [Hd [Hs [Hp Hb]]]]].
  unfold round_ok, run_ser, run_deser. rewrite S, Hd, Hs, Hp, Hb, value_eqb_refl, Z.eqb_refl.
  cbn [opt_eqb andb]. apply Z.eqb_refl.
Qed.

(* ====================================================================================================== *)
(* 8. stage A is included                                                                                  *)
(* ====================================================================================================== *)
Definition Kof (last : bool) : cont := if last then KEnd else KOther.

Lemma stopb_Kof last : stopb false (Kof last) = last.
Proof. destruct last; reflexivity. Qed.

Lemma only_optionals_cont t K : only_optionals t = true -> opt_cont t K = Some K.
Proof.
  unfold only_optionals. induction t as [|i t IHt]; intros H; [reflexivity|]. cbn [forallb] in H. apply andb_true_iff in H as [Hi Ht].
  destruct i; try discriminate Hi; cbn [opt_cont is_optional_instr] in *; rewrite Hi; cbn [orb]; apply (IHt Ht).
Qed.

Lemma only_optionals_stop t last : only_optionals t = true -> opt_stop false t (Kof last) = last.
Proof. intros H. unfold opt_stop. rewrite (only_optionals_cont _ _ H). apply stopb_Kof. Qed.

Section Included.
  Variable sizef : string -> option Z.
  Variable wcls : string -> bool -> bool.
  Variable wclsB : string -> bool -> cont -> bool.
  Variable progf : string -> bool.
  Hypothesis Hcls : forall n last, wcls n last = true -> wclsB n false (Kof last) = true.

  Lemma cont_of_Kof last lens pubs t : wire_instrs sizef wcls progf last lens pubs t = true ->
    cont_of t (Kof last) = Kof (last && match t with [] => true | _ => false end).
  Proof.
    destruct t as [|i t]; [rewrite andb_true_r; reflexivity|]. rewrite andb_false_r.
    destruct i; cbn [wire_instrs cont_of]; try reflexivity; discriminate.
  Qed.

  Lemma wire_val_included final ty len :
    match ty with EStruct n => wcls n final = true | _ => closed_ty wcls ty len || final = true end ->
    wire_val wclsB false (Kof final) ty len = true.
  Proof.
    destruct ty; cbn [wire_val closed_ty closed_leaf]; rewrite ?stopb_Kof; try (intros H; exact H).
    intros H. apply Hcls. exact H.
  Qed.

  Lemma wire_instrs_included : forall is last lens pubs, wire_instrs sizef wcls progf last lens pubs is = true ->
    wire_instrsB sizef wclsB progf (Kof last) false lens pubs is = true.
  Proof.
    induction is as [|i t IHt]; intros last lens pubs W; [reflexivity|].
    destruct i as [f|f dl tr cnt|name lt off opt of rb|ty lit g|fld cs|b|]; try discriminate W.
    - cbn [wire_instrs] in W. apply andb_true_iff in W as [W Wt]. apply andb_true_iff in W as [Wn Wo].
      cbn [wire_instrsB]. rewrite (cont_of_Kof _ _ _ _ Wt). apply andb_true_iff. split; [|apply (IHt _ _ _ Wt)].
      apply andb_true_iff. split; [apply andb_true_iff; split|].
      + destruct (f_name f); [exact Wn|]. unfold lit_enc_okB. cbn [negb orb]. destruct (f_hard f); [|exact Wn].
        rewrite andb_true_r. exact Wn.
      + destruct (f_optional f); [|reflexivity].
        apply andb_true_iff in Wo as [Wo W6]. apply andb_true_iff in Wo as [Wo W5]. apply andb_true_iff in Wo as [Wo W4].
        apply andb_true_iff in Wo as [Wo W3]. apply andb_true_iff in Wo as [W1 W2].
        rewrite (only_optionals_stop _ _ W2), W1, W3. cbn [andb]. exact W6.
      + apply wire_val_included. destruct (f_optional f).
        * apply andb_true_iff in Wo as [Wo W6]. apply andb_true_iff in Wo as [Wo W5]. apply andb_true_iff in Wo as [Wo W4].
          destruct (f_ty f); try exact W4. exact W5.
        * destruct (f_ty f); exact Wo.
    - cbn [wire_instrs] in W. apply andb_true_iff in W as [W Wt]. apply andb_true_iff in W as [W Wc].
      apply andb_true_iff in W as [W We]. apply andb_true_iff in W as [W Wo]. apply andb_true_iff in W as [Wd Wn].
      destruct dl; [discriminate Wd|]. cbn [wire_instrsB negb orb andb]. rewrite (cont_of_Kof _ _ _ _ Wt), Wn. cbn [andb].
      apply andb_true_iff. split; [|apply (IHt _ _ _ Wt)].
      apply andb_true_iff. split; [apply andb_true_iff; split|].
      + destruct (f_optional f); [|reflexivity].
        apply andb_true_iff in Wo as [Wo W3]. apply andb_true_iff in Wo as [W1 W2].
        rewrite (only_optionals_stop _ _ W2), W1. cbn [andb]. exact W3.
      + apply (wire_val_included false). destruct (f_ty f); try (rewrite orb_false_r; exact We). exact We.
      + destruct cnt as [|sz|]; [exact Wc | |]; rewrite stopb_Kof; exact Wc.
    - cbn [wire_instrs] in W. apply andb_true_iff in W as [W Wt]. cbn [wire_instrsB]. rewrite W. cbn [andb].
      destruct rb as [fr|]; [|discriminate Wt]. apply (IHt _ _ _ Wt).
    - cbn [wire_instrs] in W. apply andb_true_iff in W as [W Wt]. apply andb_true_iff in W as [W Wc].
      cbn [wire_instrsB]. rewrite W, (cont_of_Kof _ _ _ _ Wt). cbn [andb]. apply andb_true_iff. split; [|apply (IHt _ _ _ Wt)].
      rewrite forallb_forall in *. intros c Hc. specialize (Wc c Hc). destruct (c_cls c); [|reflexivity]. apply Hcls. exact Wc.
  Qed.

  Variable vo : string -> value -> bool.
  Variable voB : string -> bool -> bool -> value -> bool.
  Hypothesis Hvo : forall n last cl x, wcls n last = true -> vo n x = true -> voB n false cl x = true.

  Lemma obj_value_included cl ty len padded v : (forall n, ty = EStruct n -> exists last, wcls n last = true) ->
    obj_value vo ty len padded v = true -> obj_valueB voB false cl ty len padded v = true.
  Proof.
    intros Hw Ho. unfold obj_valueB. cbn [negb orb]. rewrite andb_true_r.
    destruct ty; try exact Ho. cbn [obj_value] in *. destruct (Hw _ eq_refl) as [last Hl]. apply (Hvo _ _ _ _ Hl Ho).
  Qed.

  (* no chunked section anywhere: the clean flag is never consulted *)
  Lemma obj_instrs_included flds : forall is last lens pubs cl rmo, wire_instrs sizef wcls progf last lens pubs is = true ->
    obj_instrs vo flds is rmo = true -> obj_instrsB voB false false cl flds is rmo = true.
  Proof.
    induction is as [|i t IHt]; intros last lens pubs cl rmo W O; [reflexivity|].
    destruct i as [f|f dl tr cnt|name lt off opt of rb|ty lit g|fld cs|b|]; try discriminate W.
    - cbn [wire_instrs] in W. apply andb_true_iff in W as [W Wt]. apply andb_true_iff in W as [Wn Wo].
      assert (Hty : forall n, f_ty f = EStruct n -> exists last, wcls n last = true).
      { intros n Hn. rewrite Hn in Wo. destruct (f_optional f); [|eauto].
        apply andb_true_iff in Wo as [Wo _]. apply andb_true_iff in Wo as [_ W5]. eauto. }
      cbn [obj_instrs obj_instrsB orb] in *. destruct (f_name f) as [n|]; [|apply (IHt _ _ _ _ _ Wt O)].
      destruct (assoc flds n) as [v|]; [|discriminate O]. apply andb_true_iff in O as [Oh O]. rewrite Oh. cbn [andb].
      destruct (f_optional f).
      + destruct (is_none v); [apply (IHt _ _ _ _ _ Wt O)|].
        apply andb_true_iff in O as [O O5]. apply andb_true_iff in O as [O O4]. rewrite O. cbn [andb].
        rewrite (obj_value_included _ _ _ _ _ Hty O4). apply (IHt _ _ _ _ _ Wt O5).
      + apply andb_true_iff in O as [O O3]. apply andb_true_iff in O as [O1 O2]. rewrite O1, (obj_value_included _ _ _ _ _ Hty O2).
        apply (IHt _ _ _ _ _ Wt O3).
    - cbn [wire_instrs] in W. apply andb_true_iff in W as [W Wt]. apply andb_true_iff in W as [W Wc].
      apply andb_true_iff in W as [W We]. apply andb_true_iff in W as [W Wo]. apply andb_true_iff in W as [Wd Wn].
      destruct dl; [discriminate Wd|].
      assert (Hty : forall n, f_ty f = EStruct n -> exists last, wcls n last = true) by (intros n Hn; rewrite Hn in We; eauto).
      cbn [obj_instrs obj_instrsB negb orb] in *. destruct (f_name f) as [n|]; [|discriminate O].
      destruct (assoc flds n) as [v|]; [|discriminate O]. destruct v as [| | | | |elems|]; try discriminate O.
      + apply andb_true_iff in O as [O1 O2]. rewrite O1. apply (IHt _ _ _ _ _ Wt O2).
      + apply andb_true_iff in O as [O O5]. apply andb_true_iff in O as [O O4]. rewrite O. cbn [andb].
        rewrite (IHt _ _ _ _ _ Wt O5), andb_true_r. rewrite forallb_forall in *. intros e He.
        apply (obj_value_included _ _ _ _ _ Hty (O4 e He)).
    - cbn [wire_instrs] in W. apply andb_true_iff in W as [_ Wt]. destruct rb as [fr|]; [|discriminate Wt].
      cbn [obj_instrs obj_instrsB negb orb] in *. apply andb_true_iff in O as [O Ot].
      destruct (assoc flds fr); [|discriminate O]. destruct (py_len v); [|discriminate O].
      rewrite (IHt _ _ _ _ _ Wt Ot), !andb_true_r. exact O.
    - cbn [wire_instrs] in W. apply andb_true_iff in W as [W Wt]. apply andb_true_iff in W as [_ Wc].
      cbn [obj_instrs obj_instrsB] in *. apply andb_true_iff in O as [O Ot].
      destruct (assoc flds fld) as [fv|]; [|discriminate O]. destruct fv; try discriminate O.
      destruct (assoc flds (fld ++ "_data")) as [dv|]; [|discriminate O].
      destruct (find_case cs (Some z)) as [c|] eqn:Fc; [|rewrite O; apply (IHt _ _ _ _ _ Wt Ot)].
      destruct (c_cls c) as [cls|] eqn:Cc; [|rewrite O; apply (IHt _ _ _ _ _ Wt Ot)].
      destruct (obj_class dv); [|discriminate O]. apply andb_true_iff in O as [O1 O2]. rewrite O1. cbn [andb].
      rewrite forallb_forall in Wc. specialize (Wc c (find_case_In' _ _ _ Fc)). rewrite Cc in Wc.
      rewrite (Hvo _ _ _ _ Wc O2). apply (IHt _ _ _ _ _ Wt Ot).
  Qed.
End Included.

Theorem wire_class_included E : forall fuel cls last,
  wire_class fuel E cls last = true -> wire_classB fuel E cls false (Kof last) = true.
Proof.
  induction fuel as [|fuel IHf]; intros cls last W; [discriminate W|]. cbn [wire_class wire_classB] in *.
  destruct (env_find E cls) as [d|]; [|discriminate W]. unfold wire_body in W. unfold wire_bodyB.
  destruct (sole_dummy (sd_body d)) as [[ty lit]|].
  - unfold lit_enc_okB. cbn [negb orb]. destruct ty; try discriminate W; rewrite andb_true_r; exact W.
  - apply (wire_instrs_included _ _ _ _ IHf _ _ _ _ W).
Qed.

Theorem valid_obj_included E : forall fuel cls last cl v,
  wire_class fuel E cls last = true -> valid_obj fuel E cls v = true -> valid_objB fuel E cls false cl v = true.
Proof.
  induction fuel as [|fuel IHf]; intros cls last cl v W V; [discriminate W|]. cbn [wire_class valid_obj valid_objB] in *.
  destruct (env_find E cls) as [d|]; [|discriminate W]. destruct v as [| | | | | |c flds]; try discriminate V.
  apply andb_true_iff in V as [V O]. rewrite V. cbn [andb]. unfold wire_body in W.
  destruct (sole_dummy (sd_body d)) as [[ty lit]|] eqn:Sd.
  - apply sole_dummy_spec in Sd. rewrite Sd. reflexivity.
  - apply (obj_instrs_included _ _ _ _ _ (fun n l c x H1 H2 => IHf n l c x H1 H2) flds _ _ _ _ _ _ W O).
Qed.
