From EO Require Import Prelude.Py Model.Cp1252.
Open Scope Z_scope.
Set Default Timeout 60.

Lemma tfind_spec c : forall t i b, tfind c t i = Some b ->
  i <= b < i + zlen t /\ nth (Z.to_nat (b - i)) t None = Some c.
Proof.
  induction t as [|[x|] t IH]; intros i b H; cbn [tfind] in H; [discriminate| |].
  - destruct (x =? c) eqn:E.
    + injection H as <-. rewrite zlen_cons. pose proof (zlen_nonneg t). split; [lia|].
      rewrite Z.sub_diag. cbn. f_equal. lia.
    + apply IH in H as [H1 H2]. rewrite zlen_cons. split; [lia|].
      replace (Z.to_nat (b - i)) with (S (Z.to_nat (b - (i + 1)))) by lia. exact H2.
  - apply IH in H as [H1 H2]. rewrite zlen_cons. split; [lia|].
    replace (Z.to_nat (b - i)) with (S (Z.to_nat (b - (i + 1)))) by lia. exact H2.
Qed.

Lemma cp_enc_byte c : 0 <= cp_enc c <= 255.
Proof.
  unfold cp_enc. destruct ((0 <=? c) && (c <? 128)) eqn:A; [lia|].
  destruct ((160 <=? c) && (c <=? 255)) eqn:B; [lia|].
  destruct (tfind c cp_table 128) as [b|] eqn:F; [|lia].
  apply tfind_spec in F as [F _]. change (zlen cp_table) with 32 in F. lia.
Qed.

Lemma cp_dec_enc c : cp_dec (cp_enc c) = cp_image c.
Proof.
  unfold cp_enc, cp_image, cp_encodable. destruct ((0 <=? c) && (c <? 128)) eqn:A.
  - cbn [orb]. unfold cp_dec. destruct (c <? 128) eqn:L; [reflexivity | lia].
  - destruct ((160 <=? c) && (c <=? 255)) eqn:B.
    + cbn [orb]. unfold cp_dec. destruct (c <? 128) eqn:L; [lia|]. destruct (160 <=? c) eqn:G; [reflexivity | lia].
    + cbn [orb]. destruct (tfind c cp_table 128) as [b|] eqn:F.
      * apply tfind_spec in F as [F1 F2]. change (zlen cp_table) with 32 in F1. unfold cp_dec.
        destruct (b <? 128) eqn:L; [lia|]. destruct (160 <=? b) eqn:G; [lia|]. now rewrite F2.
      * reflexivity.
Qed.

Lemma cp_decode_encode s : cp_decode (cp_encode s) = map cp_image s.
Proof. unfold cp_decode, cp_encode. rewrite map_map. apply map_ext. apply cp_dec_enc. Qed.

Lemma cp_encode_length s : length (cp_encode s) = length s.
Proof. apply map_length. Qed.
Lemma cp_decode_length s : length (cp_decode s) = length s.
Proof. apply map_length. Qed.
Lemma cp_encode_bytes s : bytes_ok (cp_encode s).
Proof. unfold bytes_ok, cp_encode. apply Forall_forall. intros b H. apply in_map_iff in H as [c [<- _]]. apply cp_enc_byte. Qed.

(* the only code point whose byte is 0xFF is U+00FF *)
Lemma cp_enc_255 c : cp_enc c = 255 <-> c = 255.
Proof.
  split; [|intros ->; reflexivity]. unfold cp_enc.
  destruct ((0 <=? c) && (c <? 128)) eqn:A; [lia|]. destruct ((160 <=? c) && (c <=? 255)) eqn:B; [lia|].
  destruct (tfind c cp_table 128) as [b|] eqn:F; [|lia]. apply tfind_spec in F as [F _]. change (zlen cp_table) with 32 in F. lia.
Qed.
(* the only code point whose byte is '~' (0x7E) is '~' *)
Lemma cp_enc_126 c : cp_enc c = 126 <-> c = 126.
Proof.
  split; [|intros ->; reflexivity]. unfold cp_enc.
  destruct ((0 <=? c) && (c <? 128)) eqn:A; [lia|]. destruct ((160 <=? c) && (c <=? 255)) eqn:B; [lia|].
  destruct (tfind c cp_table 128) as [b|] eqn:F; [|lia]. apply tfind_spec in F as [F _]. change (zlen cp_table) with 32 in F. lia.
Qed.
