(* Generator acceptance implies the static side conditions of the "way 1" theorems (Properties/C02R.v, C03R.v, C19R.v) and the
   slot condition (Proofs/Shaped.v), under decidable hypotheses that say which identifiers of the specification collide with
   names the generated code uses itself.

   Structure (in the style of Proofs/ElabSound.v):
   (A) `gen_ok body` - a decidable, position-aware description of what Model/Elab.v guarantees about one class body (fresh
       declared names, length attributes naming an EARLIER length field that no earlier NAMED field references, literals that
       fit their type, switch on an earlier field, first case not `default`, element counts agreeing with the length attribute);
   (B) ONE induction over `elab_instrs` (EI_PG) proves it for every emitted instruction list, from an invariant relating the
       elaboration context (cx_fields, cx_lenmap) to the instructions emitted so far in the class;
   (C) every class of `pk_env p` is such a body (elab_classes);
   (D) the four goals are then facts about lists: `gen_ok body -> <hypothesis> body -> goal body` (D1 serialize, D4 slot condition,
       D3 constructor, D2 deserialize); (E) states them per class of an accepted specification;
   (F) each hypothesis is decidable and shown necessary by an accepted tree evaluated by the kernel (Module WitnessS);
   (G) conversely the goals imply the hypotheses: for a generated body, all goals <-> all hypotheses (elab_goals_iff_hyps). *)
From EO Require Import Prelude.Py Model.Spec Model.Ser Model.Elab Model.WfEnv Model.Progress Model.NonDegen.
From EO Require Import Model.PyStmt Model.PyStmtR Model.RenderSer Model.RenderDeser Model.RenderInit
     Model.RenderCheck Model.RenderCheckD Model.RenderCheckI.
From EO Require Import Proofs.ElabAttr Proofs.Reject Proofs.ElabSound Proofs.Shaped.
From Coq Require Import Permutation.
Open Scope string_scope.
Open Scope list_scope.
Open Scope Z_scope.

Set Default Timeout 60.

(* ================================================================ (A) what acceptance guarantees, as a checker *)
Definition is_str (ty : etype) : bool := match ty with EStr _ => true | _ => false end.
(* check_unnamed_literal, on the elaborated type *)
Definition lit_fits (ty : etype) (lit : string) : bool :=
  match ty with
  | EInt _ => isdigit lit
  | EBool _ => String.eqb lit "false" || String.eqb lit "true"
  | EStr _ => true
  | _ => false
  end.

(* the names a class body declares (cx_fields): named fields, arrays, length fields *)
Definition instr_decl (i : einstr) : list string :=
  match i with
  | EField f | EArray f _ _ _ => match f_name f with Some n => [n] | None => [] end
  | ELength n _ _ _ _ _ => [n]
  | _ => []
  end.
Definition decl_names (es : list einstr) : list string := flat_map instr_decl es.
(* the length fields referenced by a NAMED field / array (the marked entries of cx_lenmap) *)
Definition instr_nref (i : einstr) : list string :=
  match i with
  | EField f | EArray f _ _ _ => match f_name f, f_len f with Some _, LRef l => [l] | _, _ => [] end
  | _ => []
  end.
Definition named_refs (es : list einstr) : list string := flat_map instr_nref es.

Definition lref_gen (pre : list einstr) (named : bool) (l : elen) : bool :=
  match l with
  | LRef x => mem_str x (lnames pre) && (negb named || negb (mem_str x (named_refs pre)))
  | _ => true
  end.
Definition count_agrees (l : elen) (cnt : acount) : bool :=
  match l, cnt with
  | LNone, ACExpr => false
  | LNone, _ => true
  | _, ACExpr => true
  | _, _ => false
  end.
(* instruction i, emitted after the instructions `pre` of the same class *)
Definition instr_gen (pre : list einstr) (i : einstr) : bool :=
  match i with
  | EField f =>
    (match f_name f with
     | Some n => negb (mem_str n (decl_names pre))
     | None => negb (f_optional f) && is_some (f_hard f)
     end)
    && (match f_hard f with Some lit => lit_fits (f_ty f) lit | None => true end)
    && (match f_len f with LNone => true | _ => is_str (f_ty f) end)
    && lref_gen pre (is_some (f_name f)) (f_len f)
  | EArray f _ _ cnt =>
    (match f_name f with Some n => negb (mem_str n (decl_names pre)) | None => false end)
    && negb (is_some (f_hard f))
    && lref_gen pre true (f_len f)
    && count_agrees (f_len f) cnt
  | ELength n _ _ _ _ _ => negb (mem_str n (decl_names pre))
  | EDummy ty lit _ => lit_fits ty lit
  | ESwitch f cases =>
    match cases with
    | [] => true
    | c :: _ => mem_str f (decl_names pre) && (match c_key c with CKDefault => false | CKValue _ => true end)
    end
  | ESetMode _ | EBreak => true
  end.
Fixpoint gen_from (pre es : list einstr) : bool :=
  match es with [] => true | i :: t => instr_gen pre i && gen_from (pre ++ [i]) t end.
Definition gen_ok (body : list einstr) : bool := gen_from [] body.

Lemma decl_names_app a b : decl_names (a ++ b) = decl_names a ++ decl_names b.
Proof. unfold decl_names. apply flat_map_app. Qed.
Lemma named_refs_app a b : named_refs (a ++ b) = named_refs a ++ named_refs b.
Proof. unfold named_refs. apply flat_map_app. Qed.
Lemma lnames_app a b : lnames (a ++ b) = lnames a ++ lnames b.
Proof. unfold lnames. apply flat_map_app. Qed.

Lemma gen_from_app : forall a b pre, gen_from pre (a ++ b) = gen_from pre a && gen_from (pre ++ a) b.
Proof.
  induction a as [|i a IH]; intros b pre; cbn [app gen_from].
  - rewrite app_nil_r. reflexivity.
  - rewrite IH, <- app_assoc. cbn [app]. rewrite andb_assoc. reflexivity.
Qed.

Lemma instr_gen_ext pre pre' i :
  decl_names pre = decl_names pre' -> lnames pre = lnames pre' -> named_refs pre = named_refs pre' ->
  instr_gen pre i = instr_gen pre' i.
Proof. intros H1 H2 H3. unfold instr_gen, lref_gen. rewrite H1, H2, H3. reflexivity. Qed.

(* the positional reading *)
Lemma gen_from_split : forall es pre p1 i p2, gen_from pre es = true -> es = p1 ++ i :: p2 -> instr_gen (pre ++ p1) i = true.
Proof.
  intros es pre p1 i p2 H ->. rewrite gen_from_app in H. apply andb_true_iff in H as [_ H].
  cbn [gen_from] in H. apply andb_true_iff in H as [H _]. exact H.
Qed.
Lemma gen_ok_split body p1 i p2 : gen_ok body = true -> body = p1 ++ i :: p2 -> instr_gen p1 i = true.
Proof. intros H E. exact (gen_from_split body [] p1 i p2 H E). Qed.
Lemma gen_ok_prefix body p1 p2 : gen_ok body = true -> body = p1 ++ p2 -> gen_ok p1 = true.
Proof. unfold gen_ok. intros H ->. rewrite gen_from_app in H. apply andb_true_iff in H as [H _]. exact H. Qed.

Lemma lnames_decl : forall es, incl (lnames es) (decl_names es).
Proof.
  induction es as [|i t IH]; [intros x []|]. unfold lnames, decl_names. cbn [flat_map]. fold (lnames t) (decl_names t).
  intros x Hx. apply in_or_app. apply in_app_or in Hx as [Hx|Hx]; [left | right; exact (IH x Hx)].
  destruct i; try (destruct Hx; fail). exact Hx.
Qed.

(* fix_refs (Model/Elab.v) only rewrites the last component of ELength: the checker does not look at it *)
Lemma decl_names_fix all : forall es, decl_names (map (fix1 all) es) = decl_names es.
Proof. induction es as [|i t IH]; [reflexivity|]. unfold decl_names in *. cbn [map flat_map]. rewrite IH. destruct i; reflexivity. Qed.
Lemma lnames_fix all : forall es, lnames (map (fix1 all) es) = lnames es.
Proof. induction es as [|i t IH]; [reflexivity|]. unfold lnames in *. cbn [map flat_map]. rewrite IH. destruct i; reflexivity. Qed.
Lemma named_refs_fix all : forall es, named_refs (map (fix1 all) es) = named_refs es.
Proof. induction es as [|i t IH]; [reflexivity|]. unfold named_refs in *. cbn [map flat_map]. rewrite IH. destruct i; reflexivity. Qed.
Lemma gen_from_fix all : forall es pre, gen_from (map (fix1 all) pre) (map (fix1 all) es) = gen_from pre es.
Proof.
  induction es as [|i t IH]; intros pre; [reflexivity|]. cbn [map gen_from].
  replace (map (fix1 all) pre ++ [fix1 all i]) with (map (fix1 all) (pre ++ [i])) by (rewrite map_app; reflexivity).
  rewrite IH. f_equal.
  rewrite (instr_gen_ext (map (fix1 all) pre) pre); [destruct i; reflexivity | apply decl_names_fix | apply lnames_fix | apply named_refs_fix].
Qed.

(* ================================================================ (B) the invariant over elab_instrs *)
Lemma get_type_len_str T fuel tn l t : get_type T fuel tn (Some l) = Ok t -> is_str (ti_ty t) = true.
Proof.
  destruct fuel as [|fuel]; [discriminate|]. cbn [get_type]. destruct (is_string_name tn); [|discriminate].
  intros H. injection H as <-. reflexivity.
Qed.

Lemma literal_fits t lit : check_unnamed_literal t lit = Ok tt -> lit_fits (ti_ty t) lit = true.
Proof.
  intros H. apply check_unnamed_literal_ok_inv in H. unfold lit_fits. destruct (ti_ty t); try contradiction.
  - exact H.
  - destruct H as [-> | ->]; reflexivity.
  - reflexivity.
Qed.

Lemma elab_len_inv c len l maxlen : elab_len c len = Ok (l, maxlen) ->
  match l with
  | LNone => len = None
  | LLit _ => exists s, len = Some s
  | LRef x => len = Some x /\ isdigit x = false
  end.
Proof.
  unfold elab_len. destruct len as [s|]; intros H.
  - destruct (isdigit s) eqn:D.
    + injection H as <- _. eauto.
    + destruct (assoc (cx_fields c) s) as [fd|]; [|discriminate H]. destruct (is_integer (fd_ti fd)); [|discriminate H].
      injection H as <- _. auto.
  - injection H as <- _. reflexivity.
Qed.

Section Local.
  Variable T : tenv.
  Variable tfuel : nat.
  Notation EI := (elab_instrs T tfuel).
  Notation EH := (elab_head T tfuel).

  (* the context, against the instructions emitted so far in the class *)
  Definition rel (c : ctx) (pre : list einstr) : Prop :=
    map fst (cx_fields c) = decl_names pre /\
    (forall l, assoc (cx_lenmap c) l = Some false -> In l (lnames pre) /\ ~ In l (named_refs pre)) /\
    incl (named_refs pre) (lnames pre).

  Definition PG (c : ctx) (es : list einstr) (c' : ctx) : Prop :=
    forall pre, rel c pre -> gen_from pre es = true /\ rel c' (pre ++ es).

  Lemma rel_fresh c pre n : rel c pre -> assoc (cx_fields c) n = None -> mem_str n (decl_names pre) = false.
  Proof.
    intros [R1 _] Hn. destruct (mem_str n (decl_names pre)) eqn:M; [|reflexivity].
    apply mem_str_In in M. rewrite <- R1 in M. apply assoc_none_iff in Hn. contradiction.
  Qed.
  Lemma rel_bound c pre n fd : rel c pre -> assoc (cx_fields c) n = Some fd -> mem_str n (decl_names pre) = true.
  Proof.
    intros [R1 _] Hn. apply mem_str_In. rewrite <- R1.
    destruct (in_dec string_dec n (map fst (cx_fields c))) as [Hi|Hi]; [exact Hi|].
    apply assoc_none_iff in Hi. congruence.
  Qed.

  (* a length attribute that became LRef names an unmarked entry of the length map *)
  Lemma rel_lref c pre len x maxlen named :
    rel c pre -> elab_len c len = Ok (LRef x, maxlen) -> check_length_attr c len = Ok tt ->
    len = Some x /\ lref_gen pre named (LRef x) = true.
  Proof.
    intros (R1 & R2 & R3) Hel Hc. apply elab_len_inv in Hel. destruct Hel as [-> Hd]. split; [reflexivity|].
    apply check_length_attr_ok_inv in Hc. destruct Hc as [[Hc|[b Hb]] Hm]; [congruence|].
    destruct b; [contradiction|]. destruct (R2 x Hb) as [I1 I2]. cbn [lref_gen].
    apply (proj2 (mem_str_In x (lnames pre))) in I1. rewrite I1. cbn [andb].
    destruct named; [|reflexivity]. cbn [negb orb].
    destruct (mem_str x (named_refs pre)) eqn:M; [|reflexivity]. apply mem_str_In in M. contradiction.
  Qed.

  (* what a step does to the invariant: declare a name, and / or mark a length *)
  Lemma rel_step c pre i c' :
    rel c pre ->
    map fst (cx_fields c') = map fst (cx_fields c) ++ instr_decl i ->
    (forall l, assoc (cx_lenmap c') l = Some false ->
       (assoc (cx_lenmap c) l = Some false /\ ~ In l (instr_nref i)) \/
       (In l (instr_decl i) /\ In l (lnames [i]) /\ assoc (cx_fields c) l = None)) ->
    (forall l, In l (instr_nref i) -> In l (lnames pre)) ->
    rel c' (pre ++ [i]).
  Proof.
    intros (R1 & R2 & R3) H1 H2 H3. unfold rel. rewrite decl_names_app, named_refs_app, lnames_app.
    assert (D1 : decl_names [i] = instr_decl i) by (unfold decl_names; cbn [flat_map]; apply app_nil_r).
    assert (D2 : named_refs [i] = instr_nref i) by (unfold named_refs; cbn [flat_map]; apply app_nil_r).
    rewrite D1, D2. split; [rewrite H1, R1; reflexivity|]. split.
    - intros l Hl. destruct (H2 l Hl) as [[A B]|(A & B & C)].
      + destruct (R2 l A) as [I1 I2]. split; [apply in_or_app; left; exact I1|].
        intros Hin. apply in_app_or in Hin as [Hin|Hin]; contradiction.
      + split; [apply in_or_app; right; exact B|]. intros Hin. apply in_app_or in Hin as [Hin|Hin].
        * apply R3, lnames_decl in Hin. rewrite <- R1 in Hin. apply assoc_none_iff in C. contradiction.
        * (* a length field is not a field / array: instr_decl i and instr_nref i cannot both be inhabited by lnames [i] *)
          destruct i; try (destruct B; fail); destruct Hin.
    - intros l Hin. apply in_or_app. apply in_app_or in Hin as [Hin|Hin]; [left; exact (R3 l Hin) | left; exact (H3 l Hin)].
  Qed.

  Lemma rel_same c pre i c' :
    rel c pre -> cx_fields c' = cx_fields c -> cx_lenmap c' = cx_lenmap c ->
    instr_decl i = [] -> instr_nref i = [] -> rel c' (pre ++ [i]).
  Proof.
    intros R H1 H2 H3 H4. apply rel_step with c; [exact R | rewrite H1, H3, app_nil_r; reflexivity | | rewrite H4; intros l []].
    intros l Hl. left. rewrite H2 in Hl. rewrite H4. split; [exact Hl | intros []].
  Qed.

  Lemma rel_ctx c c' pre : rel c pre -> cx_fields c' = cx_fields c -> cx_lenmap c' = cx_lenmap c -> rel c' pre.
  Proof. intros (R1 & R2 & R3) H1 H2. unfold rel. rewrite H1, H2. auto. Qed.

  Lemma gen_one pre i : gen_from pre [i] = instr_gen pre i.
  Proof. cbn [gen_from]. apply andb_true_r. Qed.

  Lemma mark_false m k l : assoc (lenmap_mark m k) l = Some false -> assoc m l = Some false /\ k <> l.
  Proof.
    rewrite assoc_lenmap_mark. destruct (String.eqb k l) eqn:Q.
    - destruct (assoc m l); discriminate.
    - apply String.eqb_neq in Q. auto.
  Qed.

  Lemma PG_app c es1 c1 es2 c2 : PG c es1 c1 -> PG c1 es2 c2 -> PG c (es1 ++ es2) c2.
  Proof.
    intros B1 B2 pre R. destruct (B1 pre R) as [G1 R1]. destruct (B2 _ R1) as [G2 R2].
    rewrite gen_from_app, G1, G2, app_assoc. split; [reflexivity | exact R2].
  Qed.

  Lemma cases_first f' cls iface fname c cs ro rd ecs defs ro' rd' :
    elab_cases (EI f') cls iface fname c cs true ro rd = Ok (ecs, defs, ro', rd') ->
    match ecs with
    | [] => True
    | e :: _ => (exists fd, assoc (cx_fields c) fname = Some fd) /\ c_key e <> CKDefault
    end.
  Proof.
    destruct cs as [|[v d b] more]; intros H.
    - cbn [elab_cases] in H. injection H as <- _ _ _. exact I.
    - cbn [elab_cases] in H. fold (elab_cases (EI f') cls iface fname c) in H.
      bind_inv H suffix Es. bind_inv H u Eg. bind_inv H key Ek. bind_inv H x Ex. destruct x as [[c1 ocls] defs1].
      bind_inv H tlr Et. destruct tlr as [[[ecs2 defs2] ro2] rd2]. injection H as <- _ _ _.
      apply guard_ok in Eg. rewrite andb_true_r in Eg. apply negb_true_iff in Eg. rewrite Eg in Ek.
      bind_inv Ek z Ez. injection Ek as <-. cbn [c_key]. split; [|discriminate].
      apply case_value_ok_inv in Ez. destruct Ez as (fd & val & Hfd & _). eauto.
  Qed.

  Lemma dummy_lit c ty text c' es :
    elab_dummy T tfuel c ty text = Ok (c', es) ->
    exists lit t, check_unnamed_literal t lit = Ok tt /\ es = [EDummy (ti_ty t) lit (cx_emitted c)] /\
                  c' = mkCtx (cx_chunked c) (cx_ropt c) true (cx_fields c) (cx_lenmap c) true.
  Proof.
    unfold elab_dummy, gt. intros H.
    bind_inv H tn Etn. bind_inv H lit El. bind_inv H t Et. bind_inv H u0 E0. bind_inv H u1 E1. destruct u1.
    exists lit, t. injection H as <- <-. auto.
  Qed.

  Lemma PG_head f' :
    (forall cls c is c' es aux, EI f' cls c is = Ok (c', es, aux) -> PG c es c') ->
    forall cls c i c' es aux, EH (EI f') cls c i = Ok (c', es, aux) -> PG c es c'.
  Proof.
    intros IH cls c i c' es aux H. destruct i as [n ty l p o tx|n ty l o d tr|n ty off o|ty tx|field cases|body|].
    - apply EH_field_inv in H. pose proof (elab_field_ok_inv _ _ _ _ _ _ _ _ _ _ _ H) as (tn0 & t0 & lm0 & _ & _ & Hunn0 & _).
      apply field_full in H.
      destruct H as (tn & t & le & maxlen & Hgt & Hel & Hlen & Hunn & Hlit & Hdup & -> & ->).
      intros pre R. rewrite gen_one. split.
      + cbn [instr_gen f_name f_hard f_ty f_len f_optional].
        assert (G1 : (match n with
                      | Some n0 => negb (mem_str n0 (decl_names pre))
                      | None => negb (bool_attr o false) && is_some tx end) = true).
        { destruct n as [nm|].
          - rewrite (rel_fresh _ _ _ R (Hdup nm eq_refl)). reflexivity.
          - destruct (Hunn0 eq_refl) as [Ho Ht]. unfold flag_attr in Ho. rewrite Ho. destruct tx; [reflexivity | contradiction]. }
        assert (G2 : (match tx with Some lit => lit_fits (ti_ty t) lit | None => true end) = true).
        { destruct tx as [lit|]; [|reflexivity]. apply literal_fits. exact (proj2 (Hlit lit eq_refl)). }
        assert (G3 : (match le with LNone => true | _ => is_str (ti_ty t) end) = true).
        { pose proof (elab_len_inv _ _ _ _ Hel) as Hi. destruct le as [|k|x]; [reflexivity| |].
          - destruct Hi as [s ->]. exact (get_type_len_str _ _ _ _ _ Hgt).
          - destruct Hi as [-> _]. exact (get_type_len_str _ _ _ _ _ Hgt). }
        assert (G4 : lref_gen pre (is_some n) le = true).
        { destruct le as [|k|x]; [reflexivity | reflexivity|]. exact (proj2 (rel_lref _ _ _ _ _ (is_some n) R Hel Hlen)). }
        rewrite G1, G2, G3, G4. reflexivity.
      + apply rel_step with c; [exact R | | |]; cbn [cx_fields cx_lenmap instr_decl instr_nref f_name f_len].
        * destruct n as [nm|]; [rewrite map_app; reflexivity | rewrite app_nil_r; reflexivity].
        * intros k Hk. left. destruct n as [nm|]; [|split; [exact Hk | intros []]].
          destruct l as [ln|].
          -- apply mark_false in Hk. destruct Hk as [Hk Hne]. split; [exact Hk|].
             destruct le as [|z|x]; [intros [] | intros [] |]. pose proof (proj1 (rel_lref _ _ _ _ _ true R Hel Hlen)) as Hq.
             injection Hq as ->. intros [<-|[]]. apply Hne. reflexivity.
          -- split; [exact Hk|]. apply elab_len_inv in Hel. destruct le as [|z|x]; [intros [] | intros [] |].
             destruct Hel as [Hel _]. discriminate Hel.
        * intros k Hk. destruct n as [nm|]; [|destruct Hk]. destruct le as [|z|x]; try (destruct Hk; fail).
          destruct Hk as [<-|[]]. pose proof (proj2 (rel_lref _ _ _ _ _ false R Hel Hlen)) as Hg. cbn [lref_gen] in Hg.
          apply andb_true_iff in Hg as [Hg _]. apply mem_str_In. exact Hg.
    - apply EH_array_inv in H. apply array_full in H.
      destruct H as (nm & tn & t & le & maxlen & Hgt & Hel & Hlen & Hdup & Hdel & -> & ->).
      intros pre R. rewrite gen_one. split.
      + cbn [instr_gen f_name f_hard f_ty f_len f_optional is_some negb andb].
        rewrite (rel_fresh _ _ _ R Hdup). cbn [negb andb].
        assert (G4 : lref_gen pre true le = true).
        { destruct le as [|k|x]; [reflexivity | reflexivity|]. exact (proj2 (rel_lref _ _ _ _ _ true R Hel Hlen)). }
        rewrite G4. cbn [andb]. destruct le; [|reflexivity|reflexivity].
        cbn [count_agrees]. destruct (flag_attr d); [reflexivity|]. destruct (ti_fixed t); reflexivity.
      + apply rel_step with c; [exact R | | |]; cbn [cx_fields cx_lenmap instr_decl instr_nref f_name f_len].
        * rewrite map_app. reflexivity.
        * intros k Hk. left. destruct l as [ln|].
          -- apply mark_false in Hk. destruct Hk as [Hk Hne]. split; [exact Hk|].
             destruct le as [|z|x]; [intros [] | intros [] |]. pose proof (proj1 (rel_lref _ _ _ _ _ true R Hel Hlen)) as Hq.
             injection Hq as ->. intros [<-|[]]. apply Hne. reflexivity.
          -- split; [exact Hk|]. apply elab_len_inv in Hel. destruct le as [|z|x]; [intros [] | intros [] |].
             destruct Hel as [Hel _]. discriminate Hel.
        * intros k Hk. destruct le as [|z|x]; try (destruct Hk; fail).
          destruct Hk as [<-|[]]. pose proof (proj2 (rel_lref _ _ _ _ _ false R Hel Hlen)) as Hg. cbn [lref_gen] in Hg.
          apply andb_true_iff in Hg as [Hg _]. apply mem_str_In. exact Hg.
    - apply EH_length_inv in H. apply length_full in H. destruct H as (nm & t & i & off' & Hdup & -> & ->).
      intros pre R. rewrite gen_one. split.
      + cbn [instr_gen]. rewrite (rel_fresh _ _ _ R Hdup). reflexivity.
      + apply rel_step with c; [exact R | | |]; cbn [cx_fields cx_lenmap instr_decl instr_nref].
        * rewrite map_app. reflexivity.
        * intros k Hk. rewrite assoc_snoc in Hk. destruct (assoc (cx_lenmap c) k) as [b|] eqn:Hb.
          -- left. split; [exact Hk | intros []].
          -- right. destruct (String.eqb nm k) eqn:Q; [|discriminate Hk]. apply String.eqb_eq in Q. subst k.
             split; [left; reflexivity|]. split; [left; reflexivity | exact Hdup].
        * intros k [].
    - apply EH_dummy_inv in H. apply dummy_lit in H. destruct H as (lit & t & Hlit & -> & ->).
      intros pre R. rewrite gen_one. split.
      + cbn [instr_gen]. apply literal_fits. exact Hlit.
      + apply rel_same with c; [exact R | reflexivity | reflexivity | reflexivity | reflexivity].
    - cbn [elab_head] in H. bind_inv H fname Ef. bind_inv H x Ex. destruct x as [[[ecs defs] ro] rd].
      injection H as <- <- <-. intros pre R. rewrite gen_one. split.
      + cbn [instr_gen]. pose proof (cases_first _ _ _ _ _ _ _ _ _ _ _ _ Ex) as Hf. destruct ecs as [|e ecs]; [reflexivity|].
        destruct Hf as [[fd Hfd] Hk]. rewrite (rel_bound _ _ _ _ R Hfd). cbn [andb]. destruct (c_key e); [reflexivity | congruence].
      + apply rel_same with c; [exact R | reflexivity | reflexivity | reflexivity | reflexivity].
    - cbn [elab_head] in H. bind_inv H x Ex. destruct x as [[c2 es2] aux2]. injection H as <- <- <-.
      pose proof (IH _ _ _ _ _ _ Ex) as B. intros pre R.
      destruct (cx_chunked c) eqn:Hc.
      + destruct (B pre (rel_ctx c _ pre R eq_refl eq_refl)) as [G R']. split; [exact G|].
        exact (rel_ctx c2 _ _ R' eq_refl eq_refl).
      + assert (R1 : rel (mkCtx true (cx_ropt c) (cx_rdummy c) (cx_fields c) (cx_lenmap c) (cx_emitted c || negb false)) (pre ++ [ESetMode true])).
        { apply rel_same with c; [exact R | reflexivity | reflexivity | reflexivity | reflexivity]. }
        destruct (B _ R1) as [G R']. split.
        * cbn [gen_from instr_gen andb]. rewrite gen_from_app, G. cbn [gen_from instr_gen andb]. reflexivity.
        * replace (pre ++ ESetMode true :: es2 ++ [ESetMode false]) with (((pre ++ [ESetMode true]) ++ es2) ++ [ESetMode false])
            by (rewrite <- !app_assoc; reflexivity).
          apply rel_same with c2; [exact R' | reflexivity | reflexivity | reflexivity | reflexivity].
    - cbn [elab_head] in H. bind_inv H u Eg. injection H as <- <- <-. intros pre R. rewrite gen_one. split; [reflexivity|].
      apply rel_same with c; [exact R | reflexivity | reflexivity | reflexivity | reflexivity].
  Qed.

  Lemma EI_PG : forall f cls c is c' es aux, EI f cls c is = Ok (c', es, aux) -> PG c es c'.
  Proof.
    induction f as [|f IH]; intros cls c is c' es aux H; [discriminate H|].
    destruct is as [|i rest].
    - apply EI_nil_inv in H. injection H as -> -> ->. intros pre R. rewrite app_nil_r. split; [reflexivity | exact R].
    - apply EI_cons_inv in H. destruct H as (f' & c1 & es1 & aux1 & c2 & es2 & aux2 & Hf & Hd & Hh & Hr & Hres).
      injection Hf as <-. injection Hres as -> -> ->.
      apply PG_app with c1; [exact (PG_head f IH _ _ _ _ _ _ Hh) | exact (IH _ _ _ _ _ _ Hr)].
  Qed.

  (* ---------- (C) every auxiliary (case-data) class is itself an elaborated body, from an empty field context ---------- *)
  Definition Elabd (d : sdef) : Prop :=
    exists fuel c body c' aux, cx_fields c = [] /\ cx_lenmap c = [] /\ EI fuel (sd_name d) c body = Ok (c', sd_body d, aux).

  Lemma cases_aux f' :
    (forall cls c is c' es aux, EI f' cls c is = Ok (c', es, aux) -> forall d, In d aux -> Elabd d) ->
    forall cls iface fname c cs start ro rd ecs defs ro' rd',
    elab_cases (EI f') cls iface fname c cs start ro rd = Ok (ecs, defs, ro', rd') -> forall d, In d defs -> Elabd d.
  Proof.
    intros IH cls iface fname c. induction cs as [|[v d0 b] more IHc]; intros start ro rd ecs defs ro' rd' H d Hin.
    - cbn [elab_cases] in H. injection H as _ <- _ _. destruct Hin.
    - cbn [elab_cases] in H. fold (elab_cases (EI f') cls iface fname c) in H.
      bind_inv H suffix Es. bind_inv H u Eg. bind_inv H key Ek. bind_inv H x Ex. destruct x as [[c1 ocls] defs1].
      bind_inv H tlr Et. destruct tlr as [[[ecs2 defs2] ro2] rd2]. injection H as _ <- _ _.
      apply in_app_or in Hin as [Hin|Hin]; [|exact (IHc _ _ _ _ _ _ _ Et d Hin)].
      destruct b as [|i0 b0]; [injection Ex as _ _ <-; destruct Hin|].
      bind_inv Ex y Ey. destruct y as [[cy esy] auxy]. injection Ex as _ _ <-. destruct Hin as [<-|Hin].
      + exists f', (mkCtx (cx_chunked c) (cx_ropt c) (cx_rdummy c) [] [] false), (i0 :: b0), cy, auxy. cbn [sd_name sd_body cx_fields cx_lenmap].
        repeat split. exact Ey.
      + exact (IH _ _ _ _ _ _ Ey d Hin).
  Qed.

  Lemma EI_aux : forall f cls c is c' es aux, EI f cls c is = Ok (c', es, aux) -> forall d, In d aux -> Elabd d.
  Proof.
    induction f as [|f IH]; intros cls c is c' es aux H d Hin; [discriminate H|].
    destruct is as [|i rest].
    - apply EI_nil_inv in H. injection H as _ _ ->. destruct Hin.
    - apply EI_cons_inv in H. destruct H as (f' & c1 & es1 & aux1 & c2 & es2 & aux2 & Hf & Hd & Hh & Hr & Hres).
      injection Hf as <-. injection Hres as _ _ ->. apply in_app_or in Hin as [Hin|Hin]; [|exact (IH _ _ _ _ _ _ Hr d Hin)].
      destruct i as [n ty l p o tx|n ty l o dl tr|n ty off o|ty tx|field cases|body|]; cbn [elab_head] in Hh.
      + bind_inv Hh x Ex. injection Hh as _ _ <-. destruct Hin.
      + bind_inv Hh x Ex. injection Hh as _ _ <-. destruct Hin.
      + bind_inv Hh x Ex. injection Hh as _ _ <-. destruct Hin.
      + bind_inv Hh x Ex. injection Hh as _ _ <-. destruct Hin.
      + bind_inv Hh fname Ef. bind_inv Hh x Ex. destruct x as [[[ecs defs] ro] rd]. injection Hh as _ _ <-.
        exact (cases_aux f IH _ _ _ _ _ _ _ _ _ _ _ _ Ex d Hin).
      + bind_inv Hh x Ex. destruct x as [[cx esx] auxx]. injection Hh as _ _ <-. exact (IH _ _ _ _ _ _ Ex d Hin).
      + bind_inv Hh u Eg. injection Hh as _ _ <-. destruct Hin.
  Qed.

  Lemma Elabd_gen d : Elabd d -> gen_ok (sd_body (fix_def d)) = true.
  Proof.
    intros (fuel & c & body & c' & aux & Hf & Hl & He). unfold fix_def, gen_ok. cbn [sd_body]. rewrite fix_refs_map.
    change (@nil einstr) with (map (fix1 (sd_body d)) []). rewrite gen_from_fix.
    refine (proj1 (EI_PG _ _ _ _ _ _ _ He [] _)). unfold rel. rewrite Hf, Hl. split; [reflexivity|]. split; [intros l Hl'; discriminate Hl' | intros x []].
  Qed.

  Lemma elab_object_gen cls body ds : elab_object T tfuel cls body = Ok ds -> forall d, In d ds -> gen_ok (sd_body d) = true.
  Proof.
    intros H d Hin. apply elab_object_inv in H. destruct H as (c' & es & aux & He & ->).
    apply in_map_iff in Hin as [d0 [<- Hin]]. apply Elabd_gen. destruct Hin as [<-|Hin].
    - exists (body_fuel body), ctx0, body, c', aux. cbn [sd_name sd_body]. repeat split. exact He.
    - exact (EI_aux _ _ _ _ _ _ _ He d0 Hin).
  Qed.
End Local.

Lemma gen_file_env T tfuel f defs es ps names : gen_file T tfuel f = Ok (defs, es, ps, names) ->
  forall d, In d defs -> exists cls body ds, elab_object T tfuel cls body = Ok ds /\ In d ds.
Proof.
  unfold gen_file. intros H. bind_inv H es0 E1. bind_inv H ss0 E2. bind_inv H ps0 E3. destruct ps0 as [[pd pp] pn].
  injection H as <- _ _ _. clear E1.
  assert (HS : forall d, In d (fst ss0) -> exists cls body ds, elab_object T tfuel cls body = Ok ds /\ In d ds).
  { clear E3. revert ss0 E2.
    match goal with |- forall ss0, ?P (rf_structs f) = _ -> _ =>
      assert (HP : forall l ss0, P l = Ok ss0 ->
                forall d, In d (fst ss0) -> exists cls body ds, elab_object T tfuel cls body = Ok ds /\ In d ds) end.
    { induction l as [|s0 l IHl]; intros ss0 H d Hin.
      - injection H as <-. destruct Hin.
      - bind_inv H n En. bind_inv H ti Eti. bind_inv H u Eu. bind_inv H ds Ed. bind_inv H tlr Etl.
        injection H as <-. cbn [fst] in Hin. apply in_app_or in Hin as [Hin|Hin]; [|exact (IHl _ Etl d Hin)].
        exists n, (rs_body s0), ds. split; assumption. }
    intros ss0 E2. exact (HP _ _ E2). }
  assert (HPk : forall d, In d pd -> exists cls body ds, elab_object T tfuel cls body = Ok ds /\ In d ds).
  { clear E2 HS. revert pd pp pn E3.
    match goal with |- forall pd pp pn, ?P (rf_packets f) = _ -> _ =>
      assert (HP : forall l pd pp pn, P l = Ok (pd, pp, pn) ->
                forall d, In d pd -> exists cls body ds, elab_object T tfuel cls body = Ok ds /\ In d ds) end.
    { induction l as [|p0 l IHl]; intros pd pp pn H d Hin.
      - injection H as <- _ _. destruct Hin.
      - bind_inv H suffix Es. bind_inv H fa Ef. bind_inv H ac Ea. bind_inv H fam Efam. bind_inv H u1 Ec1.
        bind_inv H act Eact. bind_inv H u2 Ec2. bind_inv H fv Efv. bind_inv H av Eav. bind_inv H dfs Ed.
        bind_inv H tlr Etl. destruct tlr as [[ds ps'] ns]. injection H as <- _ _.
        apply in_app_or in Hin as [Hin|Hin]; [|exact (IHl _ _ _ Etl d Hin)].
        exists (fa ++ ac ++ suffix)%string, (rp_body p0), dfs. split; assumption. }
    intros pd pp pn E3. exact (HP _ _ _ _ E3). }
  intros d Hin. apply in_app_or in Hin as [Hin|Hin]; [exact (HS d Hin) | exact (HPk d Hin)].
Qed.

Lemma elab_env_objs fs p : elab fs = Ok p ->
  exists T tfuel, forall d, In d (pk_env p) -> exists cls body ds, elab_object T tfuel cls body = Ok ds /\ In d ds.
Proof.
  unfold elab. intros H. bind_inv H T ET. exists T, (S (S (List.length T))).
  revert p H.
  match goal with |- forall p, ?G fs = _ -> _ =>
    assert (HG : forall l p, G l = Ok p ->
      forall d, In d (pk_env p) -> exists cls body ds, elab_object T (S (S (List.length T))) cls body = Ok ds /\ In d ds) end.
  { induction l as [|f0 l IHl]; intros p H d Hin.
    - injection H as <-. destruct Hin.
    - bind_inv H x Ex. destruct x as [[[defs es] ps] names]. bind_inv H p' Ep. injection H as <-.
      cbn [pk_env] in Hin. apply in_app_or in Hin as [Hin|Hin]; [exact (gen_file_env _ _ _ _ _ _ _ Ex d Hin) | exact (IHl _ Ep d Hin)]. }
  intros p H. exact (HG _ _ H).
Qed.

(* every class of an accepted specification has the generated form *)
Theorem elab_gen_ok fs p d : elab fs = Ok p -> In d (pk_env p) -> gen_ok (sd_body d) = true.
Proof.
  intros He Hin. destruct (elab_env_objs fs p He) as (T & tfuel & H). destruct (H d Hin) as (cls & body & ds & Ho & Hd).
  exact (elab_object_gen T tfuel cls body ds Ho d Hd).
Qed.

(* the component `ref_by` of a length field is what fix_refs computes (the other thing acceptance guarantees about a class) *)
Definition refs_fixed (body : list einstr) : bool :=
  forallb (fun i => match i with ELength n _ _ _ _ rb => opt_str_eqb rb (find_ref n body) | _ => true end) body.

Lemma find_ref_fix all n : forall es, find_ref n (map (fix1 all) es) = find_ref n es.
Proof. induction es as [|i t IH]; [reflexivity|]. destruct i; cbn [map fix1 find_ref]; rewrite ?IH; reflexivity. Qed.

Lemma opt_str_eqb_refl a : opt_str_eqb a a = true.
Proof. destruct a; cbn [opt_str_eqb]; [apply String.eqb_refl | reflexivity]. Qed.

Lemma fix_def_refs_fixed d : refs_fixed (sd_body (fix_def d)) = true.
Proof.
  unfold fix_def, refs_fixed. cbn [sd_body]. rewrite fix_refs_map. apply forallb_forall. intros i Hi.
  apply in_map_iff in Hi as [i0 [<- _]]. destruct i0; cbn [fix1]; try reflexivity. rewrite find_ref_fix. apply opt_str_eqb_refl.
Qed.

Theorem elab_refs_fixed fs p d : elab fs = Ok p -> In d (pk_env p) -> refs_fixed (sd_body d) = true.
Proof.
  intros He Hin. destruct (elab_env_objs fs p He) as (T & tfuel & H). destruct (H d Hin) as (cls & body & ds & Ho & Hd).
  apply elab_object_inv in Ho. destruct Ho as (c' & es & aux & _ & ->). apply in_map_iff in Hd as [d0 [<- _]]. apply fix_def_refs_fixed.
Qed.

(* ================================================================ (D0) lists *)
Lemma dup_free_NoDup l : dup_free l = true <-> NoDup l.
Proof.
  induction l as [|x t IH]; cbn [dup_free]; [split; [constructor | reflexivity]|].
  rewrite andb_true_iff, negb_true_iff, IH. split.
  - intros [H1 H2]. constructor; [|exact H2]. intros Hin. apply mem_str_In in Hin. congruence.
  - intros H. inversion H as [|y ys Hy Hys]; subst. split; [|exact Hys].
    destruct (mem_str x t) eqn:M; [|reflexivity]. apply mem_str_In in M. contradiction.
Qed.

Lemma mem_str_false x l : mem_str x l = false <-> ~ In x l.
Proof. rewrite <- (mem_str_In x l). split; intros H; [intros H'; congruence | destruct (mem_str x l); [exfalso; apply H; reflexivity | reflexivity]]. Qed.

Lemma NoDup_snoc {A} (l : list A) x : NoDup l -> ~ In x l -> NoDup (l ++ [x]).
Proof. intros H Hx. apply NoDup_app_intro; [exact H | repeat constructor; intros [] |]. intros y Hy [<-|[]]. contradiction. Qed.

Lemma flat_map_split {A B} (a b : A -> list B) : forall l,
  Permutation (flat_map (fun i => a i ++ b i) l) (flat_map a l ++ flat_map b l).
Proof.
  induction l as [|i t IH]; cbn [flat_map]; [constructor|].
  rewrite <- !app_assoc. apply Permutation_app_head.
  rewrite IH. apply Permutation_app_swap_app.
Qed.

(* induction along the emitted prefix *)
Lemma gen_from_ind (P : list einstr -> Prop) :
  (forall pre i, P pre -> instr_gen pre i = true -> P (pre ++ [i])) ->
  forall es pre, gen_from pre es = true -> P pre -> P (pre ++ es).
Proof.
  intros Hs. induction es as [|i t IH]; intros pre H HP; [rewrite app_nil_r; exact HP|].
  cbn [gen_from] in H. apply andb_true_iff in H as [H1 H2].
  replace (pre ++ i :: t) with ((pre ++ [i]) ++ t) by (rewrite <- app_assoc; reflexivity).
  apply IH; [exact H2 | exact (Hs pre i HP H1)].
Qed.
Lemma gen_ok_ind (P : list einstr -> Prop) :
  P [] -> (forall pre i, P pre -> instr_gen pre i = true -> P (pre ++ [i])) -> forall body, gen_ok body = true -> P body.
Proof. intros H0 Hs body H. exact (gen_from_ind P Hs body [] H H0). Qed.

Lemma gen_ok_in body i : gen_ok body = true -> In i body -> exists p1 p2, body = p1 ++ i :: p2 /\ instr_gen p1 i = true.
Proof.
  intros H Hin. apply in_split in Hin as (p1 & p2 & E). exists p1, p2. split; [exact E | exact (gen_ok_split body p1 i p2 H E)].
Qed.

Lemma one_decl i : decl_names [i] = instr_decl i.
Proof. unfold decl_names. cbn [flat_map]. apply app_nil_r. Qed.
Lemma one_nref i : named_refs [i] = instr_nref i.
Proof. unfold named_refs. cbn [flat_map]. apply app_nil_r. Qed.

(* the structural facts: declared names distinct; named references distinct, each an earlier length field *)
Definition structural (pre : list einstr) : Prop :=
  NoDup (decl_names pre) /\ NoDup (named_refs pre) /\ incl (named_refs pre) (lnames pre).

Lemma gen_structural body : gen_ok body = true -> structural body.
Proof.
  apply gen_ok_ind.
  - split; [constructor|]. split; [constructor | intros x []].
  - intros pre i (S1 & S2 & S3) G. unfold structural. rewrite decl_names_app, named_refs_app, lnames_app, one_decl, one_nref.
    assert (A1 : NoDup (decl_names pre ++ instr_decl i)).
    { destruct i as [f|f dl tr cnt|n t off o o1 rb|ty lit g|fld cases|b|]; cbn [instr_decl]; try (rewrite app_nil_r; exact S1); cbn [instr_gen] in G.
      - destruct (f_name f) as [n|]; [|rewrite app_nil_r; exact S1]. apply NoDup_snoc; [exact S1|].
        apply andb_true_iff in G as [G _]. apply andb_true_iff in G as [G _]. apply andb_true_iff in G as [G _].
        apply negb_true_iff in G. apply mem_str_false. exact G.
      - destruct (f_name f) as [n|]; [|rewrite app_nil_r; exact S1]. apply NoDup_snoc; [exact S1|].
        apply andb_true_iff in G as [G _]. apply andb_true_iff in G as [G _]. apply andb_true_iff in G as [G _].
        apply negb_true_iff in G. apply mem_str_false. exact G.
      - apply NoDup_snoc; [exact S1|]. apply negb_true_iff in G. apply mem_str_false. exact G. }
    assert (A2 : forall l, In l (instr_nref i) -> In l (lnames pre) /\ ~ In l (named_refs pre)).
    { intros l Hl. destruct i as [f|f dl tr cnt|n t off o o1 rb|ty lit g|fld cases|b|]; cbn [instr_nref] in Hl; try (destruct Hl; fail);
        cbn [instr_gen] in G.
      - destruct (f_name f) as [n|]; [|destruct Hl]. destruct (f_len f) as [|z|x] eqn:El; try (destruct Hl; fail). destruct Hl as [<-|[]].
        apply andb_true_iff in G as [_ G]. cbn [is_some lref_gen negb orb] in G. apply andb_true_iff in G as [G1 G2].
        split; [apply mem_str_In; exact G1 | apply mem_str_false, negb_true_iff; exact G2].
      - destruct (f_name f) as [n|]; [|destruct Hl]. destruct (f_len f) as [|z|x] eqn:El; try (destruct Hl; fail). destruct Hl as [<-|[]].
        apply andb_true_iff in G as [G _]. apply andb_true_iff in G as [_ G]. cbn [lref_gen negb orb] in G. apply andb_true_iff in G as [G1 G2].
        split; [apply mem_str_In; exact G1 | apply mem_str_false, negb_true_iff; exact G2]. }
    split; [exact A1|]. split.
    + apply NoDup_app_intro; [exact S2 | |].
      * destruct i as [f|f dl tr cnt| | | | |]; cbn [instr_nref]; try constructor;
          (destruct (f_name f); [|constructor]; destruct (f_len f); try constructor; [intros [] | constructor]).
      * intros x Hx Hi. exact (proj2 (A2 x Hi) Hx).
    + intros x Hx. apply in_or_app. left. apply in_app_or in Hx as [Hx|Hx]; [exact (S3 x Hx) | exact (proj1 (A2 x Hx))].
Qed.

(* named fields / arrays (the public attributes that are not case data) *)
Definition instr_fa (i : einstr) : list string :=
  match i with EField f | EArray f _ _ _ => match f_name f with Some n => [n] | None => [] end | _ => [] end.
Definition fa_names (es : list einstr) : list string := flat_map instr_fa es.
Definition instr_sd (i : einstr) : list string := match i with ESwitch f _ => [(f ++ "_data")%string] | _ => [] end.

Lemma decl_perm es : Permutation (decl_names es) (fa_names es ++ lnames es).
Proof.
  unfold decl_names, fa_names, lnames. rewrite <- flat_map_split.
  rewrite (flat_map_ext instr_decl (fun i => instr_fa i ++ match i with ELength n _ _ _ _ _ => [n] | _ => [] end)); [reflexivity|].
  intros i. destruct i as [f|f ? ? ?| | | | |]; cbn [instr_decl instr_fa]; try reflexivity; destruct (f_name f); reflexivity.
Qed.

Lemma fa_decl es : incl (fa_names es) (decl_names es).
Proof. intros x Hx. apply (Permutation_in x (Permutation_sym (decl_perm es))). apply in_or_app. left. exact Hx. Qed.

Lemma fa_lnames_disjoint es x : NoDup (decl_names es) -> In x (fa_names es) -> In x (lnames es) -> False.
Proof. intros H. apply (NoDup_app_disjoint (fa_names es) (lnames es) x). exact (Permutation_NoDup (decl_perm es) H). Qed.

(* ================================================================ (D1) serialize: static_ok, render_serialize *)
(* H1a: no UNNAMED (hardcoded) field takes its length from a length field *)
Definition unnamed_lens_literal (body : list einstr) : bool :=
  forallb (fun i => match i with EField f => match f_name f, f_len f with None, LRef _ => false | _, _ => true end | _ => true end) body.
(* H1b: a `default` case is the last case of its switch *)
Fixpoint default_last (cases : list ecase) : bool :=
  match cases with
  | [] => true
  | c :: t => (match c_key c with CKDefault => match t with [] => true | _ => false end | CKValue _ => true end) && default_last t
  end.
Definition defaults_last (body : list einstr) : bool :=
  forallb (fun i => match i with ESwitch _ cs => default_last cs | _ => true end) body.
(* H1c: the class has at least one instruction *)
Definition nonempty (body : list einstr) : bool := match body with [] => false | _ => true end.

Theorem gen_static_ok body : gen_ok body = true -> unnamed_lens_literal body = true -> static_ok body = true.
Proof.
  intros G H. unfold static_ok. apply forallb_forall. intros i Hi. unfold unnamed_lens_literal in H. rewrite forallb_forall in H.
  specialize (H i Hi). destruct i as [f|f dl tr cnt| | | | |]; cbn [instr_static_ok]; try reflexivity; [exact H|].
  destruct (gen_ok_in body _ G Hi) as (p1 & p2 & _ & Gi). cbn [instr_gen] in Gi.
  apply andb_true_iff in Gi as [Gi _]. apply andb_true_iff in Gi as [Gi _]. apply andb_true_iff in Gi as [_ Gi].
  destruct (f_hard f); [discriminate Gi | reflexivity].
Qed.

Lemma lit_fits_expr ty lit : lit_fits ty lit = true -> exists e, lit_expr ty lit = Some e.
Proof.
  destruct ty; cbn [lit_fits lit_expr]; intros H; try discriminate H.
  - rewrite H. eauto.
  - destruct (String.eqb lit "false"); [eauto|]. cbn [orb] in H. rewrite H. eauto.
  - eauto.
Qed.

Lemma named_fieldlike_ne f n w : w <> [] -> named_fieldlike f n w <> [].
Proof.
  intros Hw. unfold named_fieldlike, opt_wrap. destruct (f_optional f); [discriminate|].
  intros E. apply app_eq_nil in E as [_ E]. apply app_eq_nil in E as [_ E]. contradiction.
Qed.

Lemma case_chain_some field dn : forall cs, default_last cs = true -> exists l, case_chain field dn cs = Some l /\ l <> [].
Proof.
  induction cs as [|c t IH]; cbn [default_last case_chain]; intros H.
  - eexists. split; [reflexivity | discriminate].
  - apply andb_true_iff in H as [H1 H2]. destruct (c_key c).
    + destruct (IH H2) as [l [-> _]]. eexists. split; [reflexivity | discriminate].
    + destruct t; [|discriminate H1]. eexists. split; [reflexivity|]. unfold case_body. destruct (c_cls c); discriminate.
Qed.

Lemma render_instr_some pre i : instr_gen pre i = true ->
  (match i with ESwitch _ cs => default_last cs = true | _ => True end) ->
  exists a, render_instr i = Some a /\ a <> [].
Proof.
  intros G HD. destruct i as [f|f dl tr cnt|n t off o o1 rb|ty lit g|fld cases|b|]; cbn [instr_gen] in G; cbn [render_instr].
  - apply andb_true_iff in G as [G _]. apply andb_true_iff in G as [G _]. apply andb_true_iff in G as [G1 G2].
    unfold fieldlike. destruct (f_name f) as [n|].
    + eexists. split; [reflexivity|]. apply named_fieldlike_ne. discriminate.
    + apply andb_true_iff in G1 as [Go Gh]. apply negb_true_iff in Go. rewrite Go. cbn [orb].
      destruct (f_hard f) as [lit|]; [|discriminate Gh]. destruct (lit_fits_expr _ _ G2) as [e ->].
      eexists. split; [reflexivity | discriminate].
  - apply andb_true_iff in G as [G _]. apply andb_true_iff in G as [G _]. apply andb_true_iff in G as [G _].
    destruct (f_name f) as [n|] eqn:En; [|discriminate G]. unfold fieldlike. rewrite En.
    eexists. split; [reflexivity|]. apply named_fieldlike_ne. unfold array_loop. discriminate.
  - unfold fieldlike. cbn [f_name]. eexists. split; [reflexivity|]. apply named_fieldlike_ne. discriminate.
  - unfold fieldlike. cbn [f_name f_optional f_hard f_ty orb]. destruct (lit_fits_expr _ _ G) as [e ->].
    eexists. split; [reflexivity|]. destruct g; discriminate.
  - destruct cases as [|c cs].
    + exact (case_chain_some fld _ [] eq_refl).
    + apply andb_true_iff in G as [_ G]. destruct (c_key c) eqn:Ek; [|discriminate G]. exact (case_chain_some fld _ (c :: cs) HD).
  - eexists. split; [reflexivity | discriminate].
  - eexists. split; [reflexivity | discriminate].
Qed.

Lemma render_ser_some : forall es, (forall i, In i es -> exists a, render_instr i = Some a /\ a <> []) ->
  exists b, render_ser es = Some b /\ (es <> [] -> b <> []).
Proof.
  induction es as [|i t IH]; intros H; cbn [render_ser].
  - eexists. split; [reflexivity | intros E; now destruct E].
  - destruct (H i (or_introl eq_refl)) as [a [-> Ha]]. destruct (IH (fun j Hj => H j (or_intror Hj))) as [b [-> _]].
    eexists. split; [reflexivity|]. intros _ E. apply app_eq_nil in E as [E _]. contradiction.
Qed.

Theorem gen_render_serialize body :
  gen_ok body = true -> defaults_last body = true -> nonempty body = true -> render_serialize body <> None.
Proof.
  intros G HD HN. unfold render_serialize.
  destruct (render_ser_some body) as [b [-> Hb]].
  - intros i Hi. destruct (gen_ok_in body _ G Hi) as (p1 & p2 & _ & Gi). apply (render_instr_some p1 i Gi).
    unfold defaults_last in HD. rewrite forallb_forall in HD. specialize (HD i Hi). destruct i; try exact I. exact HD.
  - destruct b as [|s b]; [|discriminate]. exfalso. apply Hb; [|reflexivity]. destruct body; [discriminate HN | discriminate].
Qed.

(* ================================================================ (D4) the slot condition: body_static / shape_static *)
Definition switch_fields (es : list einstr) : list string :=
  flat_map (fun i => match i with ESwitch f _ => [f] | _ => [] end) es.
(* H4a: no length field is called byte_size, is switched on, or is called like the `<field>_data` attribute of a switch *)
Definition len_names_clean (body : list einstr) : bool :=
  forallb (fun n => negb (mem_str n (BYTE_SIZE :: switch_fields body ++ switch_data_names body))) (lnames body).
(* H4b: an optional length field that follows another optional field is referenced by a named field / array *)
Definition opt_lens_referenced (body : list einstr) : bool :=
  forallb (fun i => match i with
                    | ELength n _ _ opt of _ => negb (opt && negb of) || is_some (find_ref n body)
                    | _ => true end) body.

Lemma nodupb_dup_free l : nodupb l = dup_free l.
Proof. induction l as [|x t IH]; [reflexivity|]. cbn [nodupb dup_free]. rewrite IH. reflexivity. Qed.

Lemma keys_in body k : In k (keys body) -> In k (fa_names body) \/ In k (switch_fields body ++ switch_data_names body).
Proof.
  unfold keys, fa_names, switch_fields, switch_data_names. intros H. apply in_flat_map in H as [i [Hi Hk]].
  destruct i as [f|f ? ? ?| | |fld cases| |]; cbn [instr_keys] in Hk; try (destruct Hk; fail).
  - left. apply in_flat_map. exists (EField f). split; [exact Hi | exact Hk].
  - left. apply in_flat_map. exists (EArray f delimited trailing count). split; [exact Hi | exact Hk].
  - right. apply in_or_app. destruct Hk as [<-|[<-|[]]].
    + left. apply in_flat_map. exists (ESwitch fld cases). split; [exact Hi | left; reflexivity].
    + right. apply in_flat_map. exists (ESwitch fld cases). split; [exact Hi | left; reflexivity].
Qed.

Lemma find_ref_app n : forall a b, find_ref n (a ++ b) = match find_ref n a with Some x => Some x | None => find_ref n b end.
Proof.
  induction a as [|i a IH]; intros b; [reflexivity|]. cbn [app].
  destruct i as [f|f ? ? ?| | | | |]; cbn [find_ref]; try apply IH;
    (destruct (f_len f); try apply IH; destruct (f_name f); try apply IH; destruct (String.eqb field n); [reflexivity | apply IH]).
Qed.

Lemma find_ref_none n : forall es, ~ In n (named_refs es) -> find_ref n es = None.
Proof.
  induction es as [|i t IH]; intros H; [reflexivity|]. unfold named_refs in H. cbn [flat_map] in H. fold (named_refs t) in H.
  assert (Ht : find_ref n t = None) by (apply IH; intros Hin; apply H; apply in_or_app; right; exact Hin).
  destruct i as [f|f ? ? ?| | | | |]; cbn [find_ref]; try exact Ht; cbn [instr_nref] in H;
    (destruct (f_len f) as [| |l]; try exact Ht; destruct (f_name f); try exact Ht;
     destruct (String.eqb l n) eqn:Q; [|exact Ht]; apply String.eqb_eq in Q; subst l; exfalso; apply H; left; reflexivity).
Qed.

Lemma field_static_gen body p1 i p2 f array :
  body = p1 ++ i :: p2 -> (i = EField f /\ array = false \/ exists dl tr cnt, i = EArray f dl tr cnt /\ array = true) ->
  instr_gen p1 i = true -> structural p1 -> field_static body f array = true.
Proof.
  intros E Hi G (S1 & S2 & S3). unfold field_static. destruct (f_name f) as [n|] eqn:En; [|reflexivity].
  apply andb_true_iff. split.
  - destruct (f_len f) as [| |lf] eqn:El; try reflexivity.
    assert (Hl : mem_str lf (lnames p1) = true /\ mem_str lf (named_refs p1) = false).
    { destruct Hi as [[-> _]|(dl & tr & cnt & -> & _)]; cbn [instr_gen] in G; rewrite En, El in G.
      - apply andb_true_iff in G as [_ G]. cbn [is_some lref_gen negb orb] in G. apply andb_true_iff in G as [G1 G2].
        split; [exact G1 | apply negb_true_iff; exact G2].
      - apply andb_true_iff in G as [G _]. apply andb_true_iff in G as [_ G]. cbn [lref_gen negb orb] in G. apply andb_true_iff in G as [G1 G2].
        split; [exact G1 | apply negb_true_iff; exact G2]. }
    destruct Hl as [L1 L2]. apply andb_true_iff. split.
    + apply mem_str_In. rewrite E, lnames_app. apply in_or_app. left. apply mem_str_In. exact L1.
    + rewrite E, find_ref_app, (find_ref_none lf p1); [|apply mem_str_false; exact L2].
      destruct Hi as [[-> _]|(dl & tr & cnt & -> & _)]; cbn [find_ref]; rewrite El, En, String.eqb_refl; cbn [opt_str_eqb]; apply String.eqb_refl.
  - destruct Hi as [[-> ->]|(dl & tr & cnt & -> & ->)]; [|reflexivity]. cbn [orb instr_gen] in *.
    apply andb_true_iff in G as [G _]. apply andb_true_iff in G as [G _]. apply andb_true_iff in G as [_ G].
    destruct (f_ty f); try reflexivity. destruct (f_hard f); [discriminate G|]. cbn [is_some negb]. apply orb_true_r.
Qed.

Theorem gen_body_static body :
  gen_ok body = true -> refs_fixed body = true -> len_names_clean body = true -> opt_lens_referenced body = true ->
  body_static body = true.
Proof.
  intros G RF HL HO. pose proof (gen_structural body G) as (S1 & S2 & S3).
  pose proof (Permutation_NoDup (decl_perm body) S1) as ND.
  unfold body_static. apply andb_true_iff. split; [apply andb_true_iff; split|].
  - rewrite nodupb_dup_free. apply dup_free_NoDup. exact (NoDup_app_r _ _ ND).
  - apply forallb_forall. intros n Hn. apply negb_true_iff, mem_str_false. intros Hin.
    unfold len_names_clean in HL. rewrite forallb_forall in HL. specialize (HL n Hn). apply negb_true_iff, mem_str_false in HL.
    destruct Hin as [<-|Hin]; [apply HL; left; reflexivity|]. apply keys_in in Hin as [Hin|Hin].
    + exact (fa_lnames_disjoint body n S1 Hin Hn).
    + apply HL. right. exact Hin.
  - apply forallb_forall. intros i Hi. destruct (gen_ok_in body _ G Hi) as (p1 & p2 & E & Gi).
    assert (SP : structural p1) by (apply gen_structural; exact (gen_ok_prefix body p1 (i :: p2) G E)).
    destruct i as [f|f dl tr cnt|n t off o o1 rb|ty lit g|fld cases|b|]; cbn [instr_static]; try reflexivity.
    + apply (field_static_gen body p1 _ p2 f false E); [left; split; reflexivity | exact Gi | exact SP].
    + apply (field_static_gen body p1 _ p2 f true E); [right; exists dl, tr, cnt; split; reflexivity | exact Gi | exact SP].
    + unfold refs_fixed in RF. rewrite forallb_forall in RF. specialize (RF _ Hi). cbn beta iota in RF.
      unfold opt_lens_referenced in HO. rewrite forallb_forall in HO. specialize (HO _ Hi). cbn beta iota in HO.
      rewrite RF. cbn [andb]. apply opt_str_eqb_eq in RF. rewrite RF. exact HO.
Qed.

(* ================================================================ (D3) the constructor: init_static_ok, render_init *)
(* H3a: the `<field>_data` attributes of the switches of a class are distinct from each other (no two switches on one field) and
   from every name the class declares *)
Definition sdata_fresh (body : list einstr) : bool :=
  dup_free (switch_data_names body) && forallb (fun s => negb (mem_str s (decl_names body))) (switch_data_names body).
(* H3b: no constructor parameter is called self, len or tuple *)
Definition init_names_clean (body : list einstr) : bool :=
  forallb (fun r => negb (mem_str r (public_names body))) ["self"; "len"; "tuple"].

Lemma sd_names_eq es : switch_data_names es = flat_map instr_sd es.
Proof. reflexivity. Qed.

Lemma assigned_perm es : Permutation (assigned es) (fa_names es ++ named_refs es ++ switch_data_names es).
Proof.
  rewrite sd_names_eq. unfold assigned, fa_names, named_refs. rewrite <- flat_map_split, <- flat_map_split.
  rewrite (flat_map_ext instr_assigned (fun i => instr_fa i ++ instr_nref i ++ instr_sd i)); [reflexivity|].
  intros i. destruct i as [f|f ? ? ?| | | | |]; cbn [instr_assigned instr_fa instr_nref instr_sd app]; try reflexivity;
    (destruct (f_name f); [|reflexivity]; destruct (f_len f); reflexivity).
Qed.

Lemma public_perm es : Permutation (public_names es) (fa_names es ++ switch_data_names es).
Proof.
  rewrite sd_names_eq. unfold public_names, fa_names. rewrite <- flat_map_split.
  rewrite (flat_map_ext instr_public (fun i => instr_fa i ++ instr_sd i)); [reflexivity|].
  intros i. destruct i as [f|f ? ? ?| | | | |]; cbn [instr_public instr_fa instr_sd app]; try reflexivity;
    (destruct (f_name f); reflexivity).
Qed.

Lemma sdata_fresh_inv body : sdata_fresh body = true ->
  NoDup (switch_data_names body) /\ forall s, In s (switch_data_names body) -> ~ In s (decl_names body).
Proof.
  unfold sdata_fresh. intros H. apply andb_true_iff in H as [H1 H2]. split; [apply dup_free_NoDup; exact H1|].
  intros s Hs. rewrite forallb_forall in H2. apply mem_str_false, negb_true_iff. exact (H2 s Hs).
Qed.

Lemma names_nodup body : gen_ok body = true -> sdata_fresh body = true ->
  NoDup (fa_names body ++ named_refs body ++ switch_data_names body).
Proof.
  intros G HS. pose proof (gen_structural body G) as (S1 & S2 & S3). destruct (sdata_fresh_inv body HS) as [D1 D2].
  pose proof (Permutation_NoDup (decl_perm body) S1) as ND.
  apply NoDup_app_intro; [exact (NoDup_app_l _ _ ND) | |].
  - apply NoDup_app_intro; [exact S2 | exact D1|]. intros x Hx Hs. apply (D2 x Hs). apply lnames_decl, S3, Hx.
  - intros x Hx Hin. apply in_app_or in Hin as [Hin|Hin].
    + exact (fa_lnames_disjoint body x S1 Hx (S3 x Hin)).
    + apply (D2 x Hin). apply fa_decl. exact Hx.
Qed.

Lemma public_nodup body : gen_ok body = true -> sdata_fresh body = true -> NoDup (public_names body).
Proof.
  intros G HS. apply (Permutation_NoDup (Permutation_sym (public_perm body))).
  pose proof (names_nodup body G HS) as H. apply NoDup_app_intro.
  - exact (NoDup_app_l _ _ H).
  - exact (NoDup_app_r _ _ (NoDup_app_r _ _ H)).
  - intros x Hx Hs. apply (NoDup_app_disjoint _ _ x H Hx). apply in_or_app. right. exact Hs.
Qed.

Theorem gen_init_static_ok body :
  gen_ok body = true -> sdata_fresh body = true -> init_names_clean body = true -> init_static_ok body = true.
Proof.
  intros G HS HN. unfold init_static_ok. unfold init_names_clean in HN. cbn [forallb] in HN.
  apply andb_true_iff in HN as [_ HN]. apply andb_true_iff in HN as [H1 HN]. apply andb_true_iff in HN as [H2 _].
  rewrite H1, H2, !andb_true_r. apply dup_free_NoDup.
  exact (Permutation_NoDup (Permutation_sym (assigned_perm body)) (names_nodup body G HS)).
Qed.

Lemma lit_fits_hard ty lit : lit_fits ty lit = true -> exists e, hard_expr ty lit = Some e.
Proof.
  destruct ty; cbn [lit_fits hard_expr]; intros H; try discriminate H.
  - rewrite H. eauto.
  - destruct (String.eqb lit "true"); [eauto|]. rewrite orb_false_r in H. rewrite H. eauto.
  - eauto.
Qed.

Lemma init_instr_some pre i : instr_gen pre i = true ->
  exists ps ss, init_instr i = Some (ps, ss) /\ map fst ps = instr_public i.
Proof.
  intros G. destruct i as [f|f dl tr cnt|n t off o o1 rb|ty lit g|fld cases|b|]; cbn [instr_gen] in G; cbn [init_instr instr_public];
    try (eexists; eexists; split; reflexivity).
  - apply andb_true_iff in G as [G _]. apply andb_true_iff in G as [G _]. apply andb_true_iff in G as [_ G].
    unfold init_fieldlike, field_expr. destruct (f_name f) as [n|]; [|eexists; eexists; split; reflexivity].
    destruct (f_hard f) as [lit|]; [destruct (lit_fits_hard _ _ G) as [e ->]|]; eexists; eexists; split; reflexivity.
  - apply andb_true_iff in G as [G _]. apply andb_true_iff in G as [G _]. apply andb_true_iff in G as [G1 G2].
    unfold init_fieldlike, field_expr. destruct (f_name f) as [n|]; [|discriminate G1].
    destruct (f_hard f); [discriminate G2|]. eexists; eexists; split; reflexivity.
Qed.

Lemma render_init_from_some : forall es,
  (forall i, In i es -> exists ps ss, init_instr i = Some (ps, ss) /\ map fst ps = instr_public i) ->
  exists ps ss, render_init_from es = Some (ps, ss) /\ map fst ps = public_names es.
Proof.
  induction es as [|i t IH]; intros H; cbn [render_init_from].
  - exists [], []. split; reflexivity.
  - destruct (H i (or_introl eq_refl)) as (p1 & s1 & -> & E1). destruct (IH (fun j Hj => H j (or_intror Hj))) as (p2 & s2 & -> & E2).
    exists (p1 ++ p2), (s1 ++ s2). split; [reflexivity|]. rewrite map_app, E1, E2. reflexivity.
Qed.

Theorem gen_render_init body :
  gen_ok body = true -> sdata_fresh body = true -> init_names_clean body = true -> render_init body <> None.
Proof.
  intros G HS HN. unfold render_init. destruct (render_init_from_some body) as (ps & ss & -> & E).
  - intros i Hi. destruct (gen_ok_in body _ G Hi) as (p1 & p2 & _ & Gi). exact (init_instr_some p1 i Gi).
  - rewrite E. unfold init_names_clean in HN. cbn [forallb] in HN. apply andb_true_iff in HN as [H0 _].
    cbn [dup_free]. rewrite H0. cbn [andb]. rewrite (proj2 (dup_free_NoDup _) (public_nodup body G HS)). discriminate.
Qed.

(* ================================================================ (D2) deserialize: static_ok_d, render_deserialize *)
Definition binds (es : list einstr) : tctx := flat_map instr_binds es.
Definition bound_names (es : list einstr) : list string := map fst (binds es).
(* a `for i in range(..)` array *)
Definition counted (i : einstr) : bool :=
  match i with EArray _ _ _ ACWhile => false | EArray _ _ _ _ => true | _ => false end.
(* the instructions up to and including the last counted array *)
Fixpoint loop_prefix (es : list einstr) : list einstr :=
  match es with
  | [] => []
  | i :: t => match loop_prefix t with [] => if counted i then [i] else [] | r => i :: r end
  end.
(* the instructions before the one that declares n *)
Fixpoint before (n : string) (es : list einstr) : list einstr :=
  match es with [] => [] | i :: t => if mem_str n (instr_decl i) then [] else i :: before n t end.
(* H2 (with sdata_fresh): no name the method assigns is reader_start_position or old_chunked_reading_mode; no constructor argument is
   byte_size; no name assigned up to the last `for i in range(..)` array is `i` (a field `i` AFTER the last loop is harmless);
   no name assigned BEFORE an array xs whose count is computed from reader.remaining is `<xs>_length` *)
Definition deser_names_clean (body : list einstr) : bool :=
  forallb (fun r => negb (mem_str r (bound_names body))) [D_RSP; D_OCRM]
  && negb (mem_str "byte_size" (public_names body))
  && negb (mem_str D_LOOP (bound_names (loop_prefix body)))
  && forallb (fun i => match i with
                       | EArray f _ _ (ACRemaining _) =>
                         match f_name f with Some n => negb (mem_str (rem_len_name n) (bound_names (before n body))) | None => true end
                       | _ => true end) body.

Lemma before_split n i p2 : mem_str n (instr_decl i) = true -> forall p1, mem_str n (decl_names p1) = false -> before n (p1 ++ i :: p2) = p1.
Proof.
  intros Hi. induction p1 as [|a p1 IH]; intros Hn; cbn [app before]; [rewrite Hi; reflexivity|].
  unfold decl_names in Hn. cbn [flat_map] in Hn. fold (decl_names p1) in Hn. apply mem_str_false in Hn.
  assert (Ha : mem_str n (instr_decl a) = false) by (apply mem_str_false; intros H; apply Hn, in_or_app; left; exact H).
  rewrite Ha, IH; [reflexivity|]. apply mem_str_false. intros H. apply Hn, in_or_app. right. exact H.
Qed.

Lemma loop_prefix_split i p2 : counted i = true -> forall p1, loop_prefix (p1 ++ i :: p2) = p1 ++ i :: loop_prefix p2.
Proof.
  intros Hc. induction p1 as [|a p1 IH]; cbn [app loop_prefix].
  - rewrite Hc. destruct (loop_prefix p2); reflexivity.
  - rewrite IH. destruct p1; reflexivity.
Qed.

Lemma binds_app a b : binds (a ++ b) = binds a ++ binds b.
Proof. unfold binds. apply flat_map_app. Qed.
Lemma bound_names_app a b : bound_names (a ++ b) = bound_names a ++ bound_names b.
Proof. unfold bound_names. rewrite binds_app. apply map_app. Qed.

Lemma map_flat_map {A B C} (g : B -> C) (f : A -> list B) : forall l, map g (flat_map f l) = flat_map (fun x => map g (f x)) l.
Proof. induction l as [|x t IH]; [reflexivity|]. cbn [flat_map]. rewrite map_app, IH. reflexivity. Qed.

Lemma bound_perm es : Permutation (bound_names es) (decl_names es ++ switch_data_names es).
Proof.
  rewrite sd_names_eq. unfold bound_names, binds, decl_names. rewrite map_flat_map, <- flat_map_split.
  rewrite (flat_map_ext (fun x => map fst (instr_binds x)) (fun i => instr_decl i ++ instr_sd i)); [reflexivity|].
  intros i. destruct i as [f|f ? ? ?| | | | |]; cbn [instr_binds instr_decl instr_sd app map fst]; try reflexivity;
    (destruct (f_name f); reflexivity).
Qed.

Lemma bound_nodup body : gen_ok body = true -> sdata_fresh body = true -> NoDup (bound_names body).
Proof.
  intros G HS. apply (Permutation_NoDup (Permutation_sym (bound_perm body))).
  pose proof (gen_structural body G) as (S1 & _). destruct (sdata_fresh_inv body HS) as [D1 D2].
  apply NoDup_app_intro; [exact S1 | exact D1|]. intros x Hx Hs. exact (D2 x Hs Hx).
Qed.

Lemma decl_bound es x : In x (decl_names es) -> In x (bound_names es).
Proof. intros H. apply (Permutation_in x (Permutation_sym (bound_perm es))). apply in_or_app. left. exact H. Qed.

(* the typing context static_ok_from has built after the instructions `pre` *)
Definition tb (pre : list einstr) : tctx := flat_map instr_binds (rev pre).
Lemma tb_snoc pre i : tb (pre ++ [i]) = instr_binds i ++ tb pre.
Proof. unfold tb. rewrite rev_app_distr. reflexivity. Qed.
Lemma tb_in pre x : In x (tb pre) <-> In x (binds pre).
Proof.
  unfold tb, binds. rewrite !in_flat_map. split; intros [i [Hi Hx]]; exists i; (split; [|exact Hx]); [apply in_rev; exact Hi | apply in_rev in Hi; exact Hi].
Qed.
Lemma tb_names pre n : In n (map fst (tb pre)) <-> In n (bound_names pre).
Proof.
  unfold bound_names. rewrite !in_map_iff. split; intros [x [Hx Hin]]; exists x; (split; [exact Hx|]); [apply (proj1 (tb_in pre x)) | apply (proj2 (tb_in pre x))]; exact Hin.
Qed.
Lemma unbound_iff T n : unbound T n = true <-> ~ In n (map fst T).
Proof. unfold unbound. rewrite <- assoc_none_iff. destruct (assoc T n); split; intros H; try reflexivity; try discriminate; reflexivity. Qed.

Lemma static_ok_from_pos : forall es pre,
  (forall p1 i p2, es = p1 ++ i :: p2 -> instr_static_ok_d (tb (pre ++ p1)) i = true) -> static_ok_from (tb pre) es = true.
Proof.
  induction es as [|i t IH]; intros pre H; [reflexivity|]. cbn [static_ok_from]. apply andb_true_iff. split.
  - specialize (H [] i t eq_refl). rewrite app_nil_r in H. exact H.
  - rewrite <- tb_snoc. apply IH. intros p1 j p2 E. rewrite <- app_assoc. cbn [app]. apply (H (i :: p1) j p2). rewrite E. reflexivity.
Qed.

Lemma nodup_fst_unique {A} (L : list (string * A)) l k k' : NoDup (map fst L) -> In (l, k) L -> In (l, k') L -> k = k'.
Proof.
  intros ND H1 H2. pose proof (assoc_nodup_in L l k ND H1) as E1. pose proof (assoc_nodup_in L l k' ND H2) as E2. congruence.
Qed.
Lemma assoc_unique {A} (T : list (string * A)) l k : In (l, k) T -> (forall k', In (l, k') T -> k' = k) -> assoc T l = Some k.
Proof.
  induction T as [|[l0 k0] T IH]; intros Hin Hu; [destruct Hin|]. cbn [assoc]. destruct (String.eqb l0 l) eqn:Q.
  - apply String.eqb_eq in Q. subst l0. rewrite (Hu k0 (or_introl eq_refl)). reflexivity.
  - apply IH; [|intros k' Hk; apply Hu; right; exact Hk]. destruct Hin as [Hin|Hin]; [|exact Hin].
    injection Hin as -> _. rewrite String.eqb_refl in Q. discriminate Q.
Qed.

Lemma lnames_binds es x : In x (lnames es) -> In (x, KLen) (binds es).
Proof.
  unfold lnames, binds. rewrite !in_flat_map. intros [i [Hi Hx]]. exists i. split; [exact Hi|].
  destruct i; try (destruct Hx; fail). destruct Hx as [<-|[]]. left. reflexivity.
Qed.

(* strings: <n>_length is none of the other names of the frame *)
Lemma str_length_app a b : String.length (a ++ b) = (String.length a + String.length b)%nat.
Proof. induction a as [|c a IH]; [reflexivity|]. cbn [append String.length]. rewrite IH. reflexivity. Qed.
Fixpoint last_char (s : string) : ascii :=
  match s with EmptyString => "000"%char | String c EmptyString => c | String _ t => last_char t end.
Lemma last_char_app c t : forall a, last_char (a ++ String c t) = last_char (String c t).
Proof.
  induction a as [|x a IH]; [reflexivity|]. cbn [append]. change (last_char (String x (a ++ String c t))) with
    (match (a ++ String c t)%string with EmptyString => x | _ => last_char (a ++ String c t) end).
  destruct (a ++ String c t)%string eqn:E; [destruct a; discriminate E|]. exact IH.
Qed.
Lemma rem_len_name_clean n : mem_str (rem_len_name n) [D_RSP; D_OCRM; D_LOOP; n] = false.
Proof.
  apply mem_str_false. unfold rem_len_name. intros [H|[H|[H|[H|[]]]]].
  - apply (f_equal last_char) in H. rewrite last_char_app in H. discriminate H.
  - apply (f_equal last_char) in H. rewrite last_char_app in H. discriminate H.
  - apply (f_equal String.length) in H. rewrite str_length_app in H. cbn [String.length D_LOOP] in H. lia.
  - apply (f_equal String.length) in H. rewrite str_length_app in H. cbn [String.length] in H. lia.
Qed.

Lemma instr_static_d body p1 i p2 :
  body = p1 ++ i :: p2 -> instr_gen p1 i = true -> NoDup (bound_names body) -> deser_names_clean body = true ->
  instr_static_ok_d (tb p1) i = true.
Proof.
  intros E G ND HC. unfold deser_names_clean in HC.
  apply andb_true_iff in HC as [HC HC4]. apply andb_true_iff in HC as [HC HC3]. apply andb_true_iff in HC as [HC1 _].
  cbn [forallb] in HC1. apply andb_true_iff in HC1 as [Hrsp HC1]. apply andb_true_iff in HC1 as [Hocrm _].
  apply negb_true_iff, mem_str_false in Hrsp, Hocrm, HC3.
  assert (Ebn : bound_names body = bound_names p1 ++ map fst (instr_binds i) ++ bound_names p2).
  { rewrite E, bound_names_app. f_equal. change (i :: p2) with ([i] ++ p2). rewrite bound_names_app. f_equal.
    unfold bound_names, binds. cbn [flat_map]. rewrite app_nil_r. reflexivity. }
  assert (F1 : forall n, In n (map fst (instr_binds i)) -> fresh (tb p1) n = true).
  { intros n Hn. assert (Hb : In n (bound_names body)) by (rewrite Ebn; apply in_or_app; right; apply in_or_app; left; exact Hn).
    unfold fresh. apply andb_true_iff. split.
    - apply negb_true_iff, mem_str_false. intros [<-|[<-|[]]]; contradiction.
    - apply unbound_iff. rewrite tb_names. intros Hp. rewrite Ebn in ND.
      apply (NoDup_app_disjoint _ _ n ND Hp). apply in_or_app. left. exact Hn. }
  assert (ND1 : NoDup (map fst (binds p1))) by (rewrite Ebn in ND; exact (NoDup_app_l _ _ ND)).
  assert (F2 : forall x, mem_str x (lnames p1) = true -> len_ok (tb p1) (LRef x) = true).
  { intros x Hx. apply mem_str_In, lnames_binds in Hx. cbn [len_ok]. rewrite (assoc_unique (tb p1) x KLen); [reflexivity | apply (proj2 (tb_in p1 _)); exact Hx|].
    intros k' Hk. apply (proj1 (tb_in p1 _)) in Hk. exact (nodup_fst_unique (binds p1) x k' KLen ND1 Hk Hx). }
  assert (F3 : forall l named, lref_gen p1 named l = true -> len_ok (tb p1) l = true).
  { intros l named Hl. destruct l as [|z|x]; [reflexivity | reflexivity|]. cbn [lref_gen] in Hl. apply andb_true_iff in Hl as [Hl _]. exact (F2 x Hl). }
  destruct i as [f|f dl tr cnt|n t off o o1 rb|ty lit g|fld cases|b|]; cbn [instr_gen] in G; cbn [instr_static_ok_d]; try reflexivity.
  - apply andb_true_iff in G as [G G4]. apply andb_true_iff in G as [G G3]. apply andb_true_iff. split.
    + destruct (f_name f) as [n|] eqn:En; [|reflexivity]. apply F1. cbn [instr_binds]. rewrite En. left. reflexivity.
    + destruct (f_len f) as [|z|x] eqn:El; [reflexivity| |]; (destruct (f_ty f); try discriminate G3); cbn [andb]; [reflexivity|].
      exact (F3 _ _ G4).
  - apply andb_true_iff in G as [G G4]. apply andb_true_iff in G as [G G3]. apply andb_true_iff in G as [G _].
    destruct (f_name f) as [n|] eqn:En; [|discriminate G]. apply negb_true_iff in G.
    assert (Hn : fresh (tb p1) n = true) by (apply F1; cbn [instr_binds]; rewrite En; left; reflexivity).
    rewrite Hn, (F3 _ _ G3). cbn [andb].
    assert (Hloop : cnt <> ACWhile -> unbound (tb p1) D_LOOP && negb (String.eqb n D_LOOP) = true).
    { intros Hcnt. assert (Hc : counted (EArray f dl tr cnt) = true) by (destruct cnt; [reflexivity | reflexivity | contradiction]).
      rewrite E, (loop_prefix_split _ p2 Hc p1), bound_names_app in HC3. apply andb_true_iff. split.
      - apply unbound_iff. rewrite tb_names. intros Hp. apply HC3. apply in_or_app. left. exact Hp.
      - apply negb_true_iff, String.eqb_neq. intros ->. apply HC3. apply in_or_app. right.
        unfold bound_names, binds. cbn [flat_map instr_binds]. rewrite En. left. reflexivity. }
    destruct cnt as [|sz|]; cbn beta iota.
    + rewrite Hloop by discriminate. reflexivity.
    + rewrite Hloop by discriminate. cbn [andb]. rewrite rem_len_name_clean. cbn [negb]. rewrite andb_true_r.
      apply unbound_iff. rewrite tb_names. intros Hp.
      rewrite forallb_forall in HC4. assert (Hi : In (EArray f dl tr (ACRemaining sz)) body) by (rewrite E; apply in_or_app; right; left; reflexivity).
      specialize (HC4 _ Hi). cbn beta iota in HC4. rewrite En in HC4. apply negb_true_iff, mem_str_false in HC4.
      apply HC4. rewrite E, before_split; [exact Hp | cbn [instr_decl]; rewrite En; cbn [mem_str]; rewrite String.eqb_refl; reflexivity | exact G].
    + reflexivity.
  - apply F1. left. reflexivity.
  - apply andb_true_iff. split; [apply F1; left; reflexivity|]. destruct cases as [|c cs]; [reflexivity|].
    apply andb_true_iff in G as [G _]. apply negb_true_iff. destruct (unbound (tb p1) fld) eqn:U; [|reflexivity].
    apply unbound_iff in U. exfalso. apply U. apply (proj2 (tb_names p1 fld)), decl_bound, mem_str_In. exact G.
Qed.

Theorem gen_static_ok_d body :
  gen_ok body = true -> sdata_fresh body = true -> deser_names_clean body = true -> static_ok_d body = true.
Proof.
  intros G HS HC. unfold static_ok_d. apply andb_true_iff. split.
  - change (@nil (string * kind)) with (tb []). apply static_ok_from_pos. intros p1 i p2 E. cbn [app].
    exact (instr_static_d body p1 i p2 E (gen_ok_split body p1 i p2 G E) (bound_nodup body G HS) HC).
  - unfold deser_names_clean in HC. apply andb_true_iff in HC as [HC _]. apply andb_true_iff in HC as [HC _].
    apply andb_true_iff in HC as [_ HC]. exact HC.
Qed.

Lemma d_case_chain_some field dn : forall cs, default_last cs = true -> exists l, d_case_chain field dn cs = Some l.
Proof.
  induction cs as [|c t IH]; cbn [default_last d_case_chain]; intros H; [eauto|].
  apply andb_true_iff in H as [H1 H2]. destruct (c_key c).
  - destruct (IH H2) as [l ->]. eauto.
  - destruct t; [eauto | discriminate H1].
Qed.

Lemma d_render_instr_some pre i : instr_gen pre i = true ->
  (match i with ESwitch _ cs => default_last cs = true | _ => True end) -> exists a, d_render_instr i = Some a.
Proof.
  intros G HD. destruct i as [f|f dl tr cnt|n t off o o1 rb|ty lit g|fld cases|b|]; cbn [instr_gen] in G; cbn [d_render_instr]; eauto.
  - destruct (f_name f) as [n|]; [eauto|]. apply andb_true_iff in G as [G _]. apply andb_true_iff in G as [G _]. apply andb_true_iff in G as [G _].
    apply andb_true_iff in G as [G _]. apply negb_true_iff in G. rewrite G. eauto.
  - apply andb_true_iff in G as [G G4]. apply andb_true_iff in G as [G _]. apply andb_true_iff in G as [G _].
    destruct (f_name f) as [n|]; [|discriminate G]. unfold array_core.
    destruct (f_len f), cnt; cbn [count_agrees] in G4; try discriminate G4; cbn [d_len_expr]; eauto.
  - destruct cases as [|c cs]; [eauto|]. apply andb_true_iff in G as [_ G]. destruct (c_key c) eqn:Ek; [|discriminate G].
    destruct (d_case_chain_some fld (fld ++ "_data") (c :: cs) HD) as [l ->]. eauto.
Qed.

Lemma render_deser_some : forall es, (forall i, In i es -> exists a, d_render_instr i = Some a) -> exists b, render_deser es = Some b.
Proof.
  induction es as [|i t IH]; intros H; cbn [render_deser]; [eauto|].
  destruct (H i (or_introl eq_refl)) as [a ->]. destruct (IH (fun j Hj => H j (or_intror Hj))) as [b ->]. eauto.
Qed.

Theorem gen_render_deserialize cls body :
  gen_ok body = true -> defaults_last body = true -> render_deserialize cls body <> None.
Proof.
  intros G HD. unfold render_deserialize. destruct (render_deser_some body) as [b ->]; [|discriminate].
  intros i Hi. destruct (gen_ok_in body _ G Hi) as (p1 & p2 & _ & Gi). apply (d_render_instr_some p1 i Gi).
  unfold defaults_last in HD. rewrite forallb_forall in HD. specialize (HD i Hi). destruct i; try exact I. exact HD.
Qed.

(* ================================================================ (E) the theorems, per class of an accepted specification *)
Definition all_classes (P : list einstr -> bool) (p : pkg) : bool := forallb (fun d => P (sd_body d)) (pk_env p).

(* (1) serialize *)
Theorem elab_static_ok fs p d : elab fs = Ok p -> In d (pk_env p) ->
  unnamed_lens_literal (sd_body d) = true -> static_ok (sd_body d) = true.
Proof. intros He Hd. apply gen_static_ok. exact (elab_gen_ok fs p d He Hd). Qed.

Theorem elab_render_serialize fs p d : elab fs = Ok p -> In d (pk_env p) ->
  defaults_last (sd_body d) = true -> nonempty (sd_body d) = true -> render_serialize (sd_body d) <> None.
Proof. intros He Hd. apply gen_render_serialize. exact (elab_gen_ok fs p d He Hd). Qed.

(* (2) deserialize *)
Theorem elab_static_ok_d fs p d : elab fs = Ok p -> In d (pk_env p) ->
  sdata_fresh (sd_body d) = true -> deser_names_clean (sd_body d) = true -> static_ok_d (sd_body d) = true.
Proof. intros He Hd. apply gen_static_ok_d. exact (elab_gen_ok fs p d He Hd). Qed.

Theorem elab_render_deserialize fs p d : elab fs = Ok p -> In d (pk_env p) ->
  defaults_last (sd_body d) = true -> render_deserialize (sd_name d) (sd_body d) <> None.
Proof. intros He Hd. apply gen_render_deserialize. exact (elab_gen_ok fs p d He Hd). Qed.

(* (3) __init__ *)
Theorem elab_init_static_ok fs p d : elab fs = Ok p -> In d (pk_env p) ->
  sdata_fresh (sd_body d) = true -> init_names_clean (sd_body d) = true -> init_static_ok (sd_body d) = true.
Proof. intros He Hd. apply gen_init_static_ok. exact (elab_gen_ok fs p d He Hd). Qed.

Theorem elab_render_init fs p d : elab fs = Ok p -> In d (pk_env p) ->
  sdata_fresh (sd_body d) = true -> init_names_clean (sd_body d) = true -> render_init (sd_body d) <> None.
Proof. intros He Hd. apply gen_render_init. exact (elab_gen_ok fs p d He Hd). Qed.

(* (4) the slot condition *)
Theorem elab_body_static fs p d : elab fs = Ok p -> In d (pk_env p) ->
  len_names_clean (sd_body d) = true -> opt_lens_referenced (sd_body d) = true -> body_static (sd_body d) = true.
Proof. intros He Hd. apply gen_body_static; [exact (elab_gen_ok fs p d He Hd) | exact (elab_refs_fixed fs p d He Hd)]. Qed.

Theorem elab_shape_static fs p : elab fs = Ok p ->
  all_classes len_names_clean p = true -> all_classes opt_lens_referenced p = true -> shape_static (pk_env p) = true.
Proof.
  intros He H1 H2. unfold shape_static. unfold all_classes in H1, H2. rewrite forallb_forall in H1, H2 |- *.
  intros d Hd. exact (elab_body_static fs p d He Hd (H1 d Hd) (H2 d Hd)).
Qed.

(* all of it, under the two package-level hypotheses:
   names_clean - no identifier of the specification collides with a name the generated code uses itself;
   forms_clean - no class body has one of the four accepted forms for which the generator emits text that is not Python, or that
                 the theorems do not describe (unnamed field whose length is a length field; `default` before another case; empty
                 class; optional length field after another optional field that nothing references). *)
Definition body_names_clean (b : list einstr) : bool :=
  sdata_fresh b && init_names_clean b && deser_names_clean b && len_names_clean b.
Definition body_forms_clean (b : list einstr) : bool :=
  unnamed_lens_literal b && defaults_last b && nonempty b && opt_lens_referenced b.
Definition names_clean (p : pkg) : bool := all_classes body_names_clean p.
Definition forms_clean (p : pkg) : bool := all_classes body_forms_clean p.

Theorem elab_static fs p : elab fs = Ok p -> names_clean p = true -> forms_clean p = true ->
  shape_static (pk_env p) = true /\
  forall d, In d (pk_env p) ->
    (static_ok (sd_body d) = true /\ render_serialize (sd_body d) <> None) /\
    (static_ok_d (sd_body d) = true /\ render_deserialize (sd_name d) (sd_body d) <> None) /\
    (init_static_ok (sd_body d) = true /\ render_init (sd_body d) <> None).
Proof.
  intros He HN HF. unfold names_clean, forms_clean, all_classes in HN, HF. rewrite forallb_forall in HN, HF.
  assert (H : forall d, In d (pk_env p) ->
    (sdata_fresh (sd_body d) = true /\ init_names_clean (sd_body d) = true /\ deser_names_clean (sd_body d) = true /\ len_names_clean (sd_body d) = true) /\
    (unnamed_lens_literal (sd_body d) = true /\ defaults_last (sd_body d) = true /\ nonempty (sd_body d) = true /\ opt_lens_referenced (sd_body d) = true)).
  { intros d Hd. specialize (HN d Hd). specialize (HF d Hd). unfold body_names_clean in HN. unfold body_forms_clean in HF.
    apply andb_true_iff in HN as [HN N4]. apply andb_true_iff in HN as [HN N3]. apply andb_true_iff in HN as [N1 N2].
    apply andb_true_iff in HF as [HF F4]. apply andb_true_iff in HF as [HF F3]. apply andb_true_iff in HF as [F1 F2]. auto 10. }
  split.
  - apply (elab_shape_static fs p He); unfold all_classes; apply forallb_forall; intros d Hd; destruct (H d Hd) as [(_ & _ & _ & N4) (_ & _ & _ & F4)]; assumption.
  - intros d Hd. destruct (H d Hd) as [(N1 & N2 & N3 & N4) (F1 & F2 & F3 & F4)]. repeat split.
    + exact (elab_static_ok fs p d He Hd F1).
    + exact (elab_render_serialize fs p d He Hd F2 F3).
    + exact (elab_static_ok_d fs p d He Hd N1 N3).
    + exact (elab_render_deserialize fs p d He Hd F2).
    + exact (elab_init_static_ok fs p d He Hd N1 N2).
    + exact (elab_render_init fs p d He Hd N1 N2).
Qed.

(* ================================================================ (F) every hypothesis is necessary: accepted trees, evaluated by the kernel.
   `report tree cls` = (the eight hypotheses, the seven goals) of class cls of the accepted tree. *)
Module WitnessS.
  Definition fld n t := RField (Some n) (Some t) None None None None.
  Definition arr n t l := RArray (Some n) (Some t) l None None None.
  Definition len n := RLength (Some n) (Some "char") None None.
  Definition sw f cs := RSwitch (Some f) cs.
  Definition cs v := RCase (Some v) None [].
  Definition st n b := mkRStruct (Some n) b.
  Definition one b := [mkRFile "" [] [st "A" b] []].
  (* forms: unnamed_lens_literal, defaults_last, nonempty, opt_lens_referenced; names: sdata_fresh, init_names_clean,
     deser_names_clean, len_names_clean *)
  Definition hyps (b : list einstr) : list bool :=
    [unnamed_lens_literal b; defaults_last b; nonempty b; opt_lens_referenced b;
     sdata_fresh b; init_names_clean b; deser_names_clean b; len_names_clean b].
  (* static_ok, render_serialize; static_ok_d, render_deserialize; init_static_ok, render_init; body_static *)
  Definition goals (d : sdef) : list bool :=
    [static_ok (sd_body d); is_some (render_serialize (sd_body d));
     static_ok_d (sd_body d); is_some (render_deserialize (sd_name d) (sd_body d));
     init_static_ok (sd_body d); is_some (render_init (sd_body d)); body_static (sd_body d)].
  Definition report (fs : list rfile) : option (list bool * list bool) :=
    match elab fs with
    | Err _ => None
    | Ok p => match env_find (pk_env p) "A" with Some d => Some (hyps (sd_body d), goals d) | None => None end
    end.
  Notation T := true.
  Notation F := false.

  (* ---- forms ---- *)
  (* length n; an UNNAMED hardcoded string of length n: serialize is outside the theorem *)
  Example unnamed_lens_literal_needed :
    report (one [len "n"; RField None (Some "string") (Some "n") None None (Some "ab")]) = Some ([F;T;T;T; T;T;T;T], [F;T; T;T; T;T; T]).
  Proof. vm_compute. reflexivity. Qed.
  (* `default` followed by another case: `elif` after `else` in serialize and deserialize *)
  Example defaults_last_needed :
    report (one [fld "x" "char"; sw "x" [cs "1"; RCase None (Some "true") []; cs "2"]]) = Some ([T;F;T;T; T;T;T;T], [T;F; T;F; T;T; T]).
  Proof. vm_compute. reflexivity. Qed.
  (* a struct without instructions: `try:` with an empty body in serialize *)
  Example nonempty_needed : report (one []) = Some ([T;T;F;T; T;T;T;T], [T;F; T;T; T;T; T]).
  Proof. vm_compute. reflexivity. Qed.
  (* an optional field, then an optional length field that nothing references *)
  Example opt_lens_referenced_needed :
    report (one [RField (Some "a") (Some "char") None None (Some "true") None; RLength (Some "n") (Some "char") None (Some "true")])
    = Some ([T;T;T;F; T;T;T;T], [T;T; T;T; T;T; F]).
  Proof. vm_compute. reflexivity. Qed.

  (* ---- names ---- *)
  (* two switches on one field: x_data assigned twice, two constructor parameters x_data *)
  Example sdata_fresh_needed_two_switches :
    report (one [fld "x" "char"; sw "x" [cs "1"]; sw "x" [cs "2"]]) = Some ([T;T;T;T; F;T;T;T], [T;T; F;T; F;F; T]).
  Proof. vm_compute. reflexivity. Qed.
  (* a field called like the case-data attribute of a switch *)
  Example sdata_fresh_needed_field :
    report (one [fld "x" "char"; fld "x_data" "char"; sw "x" [cs "1"]]) = Some ([T;T;T;T; F;T;T;T], [T;T; F;T; F;F; T]).
  Proof. vm_compute. reflexivity. Qed.
  Example init_names_clean_needed_self : report (one [fld "self" "char"]) = Some ([T;T;T;T; T;F;T;T], [T;T; T;T; T;F; T]).
  Proof. vm_compute. reflexivity. Qed.
  Example init_names_clean_needed_len : report (one [fld "len" "char"]) = Some ([T;T;T;T; T;F;T;T], [T;T; T;T; F;T; T]).
  Proof. vm_compute. reflexivity. Qed.
  Example init_names_clean_needed_tuple : report (one [fld "tuple" "char"]) = Some ([T;T;T;T; T;F;T;T], [T;T; T;T; F;T; T]).
  Proof. vm_compute. reflexivity. Qed.
  Example deser_names_clean_needed_rsp : report (one [fld "reader_start_position" "char"]) = Some ([T;T;T;T; T;T;F;T], [T;T; F;T; T;T; T]).
  Proof. vm_compute. reflexivity. Qed.
  Example deser_names_clean_needed_ocrm : report (one [fld "old_chunked_reading_mode" "char"]) = Some ([T;T;T;T; T;T;F;T], [T;T; F;T; T;T; T]).
  Proof. vm_compute. reflexivity. Qed.
  Example deser_names_clean_needed_byte_size : report (one [fld "byte_size" "char"]) = Some ([T;T;T;T; T;T;F;T], [T;T; F;T; T;T; T]).
  Proof. vm_compute. reflexivity. Qed.
  (* a field i BEFORE a `for i in range(..)` array, an array called i; a field i after the last such array is fine *)
  Example deser_names_clean_needed_loop_var : report (one [fld "i" "char"; arr "xs" "char" (Some "2")]) = Some ([T;T;T;T; T;T;F;T], [T;T; F;T; T;T; T]).
  Proof. vm_compute. reflexivity. Qed.
  Example deser_names_clean_needed_loop_array : report (one [arr "i" "char" (Some "2")]) = Some ([T;T;T;T; T;T;F;T], [T;T; F;T; T;T; T]).
  Proof. vm_compute. reflexivity. Qed.
  Example loop_var_after_is_clean : report (one [arr "xs" "char" (Some "2"); fld "i" "char"]) = Some ([T;T;T;T; T;T;T;T], [T;T; T;T; T;T; T]).
  Proof. vm_compute. reflexivity. Qed.
  (* a field xs_length BEFORE the array xs whose count is reader.remaining / size; after it is fine *)
  Example deser_names_clean_needed_rem_len : report (one [fld "xs_length" "char"; arr "xs" "char" None]) = Some ([T;T;T;T; T;T;F;T], [T;T; F;T; T;T; T]).
  Proof. vm_compute. reflexivity. Qed.
  Example rem_len_after_is_clean : report (one [arr "xs" "char" None; fld "xs_length" "char"]) = Some ([T;T;T;T; T;T;T;T], [T;T; T;T; T;T; T]).
  Proof. vm_compute. reflexivity. Qed.
  (* a switch on a length field; a length field called byte_size *)
  Example len_names_clean_needed_switch : report (one [len "n"; sw "n" [cs "1"]]) = Some ([T;T;T;T; T;T;T;F], [T;T; T;T; T;T; F]).
  Proof. vm_compute. reflexivity. Qed.
  Example len_names_clean_needed_byte_size :
    report (one [len "byte_size"; RField (Some "s") (Some "string") (Some "byte_size") None None None]) = Some ([T;T;T;T; T;T;T;F], [T;T; T;T; T;T; F]).
  Proof. vm_compute. reflexivity. Qed.
End WitnessS.

(* the four goals of the task, stated without hypotheses, are therefore false: *)
Example static_goals_refuted :
  (exists fs p d, elab fs = Ok p /\ In d (pk_env p) /\ static_ok (sd_body d) = false) /\
  (exists fs p d, elab fs = Ok p /\ In d (pk_env p) /\ render_serialize (sd_body d) = None) /\
  (exists fs p d, elab fs = Ok p /\ In d (pk_env p) /\ static_ok_d (sd_body d) = false) /\
  (exists fs p d, elab fs = Ok p /\ In d (pk_env p) /\ render_deserialize (sd_name d) (sd_body d) = None) /\
  (exists fs p d, elab fs = Ok p /\ In d (pk_env p) /\ init_static_ok (sd_body d) = false) /\
  (exists fs p d, elab fs = Ok p /\ In d (pk_env p) /\ render_init (sd_body d) = None) /\
  (exists fs p, elab fs = Ok p /\ shape_static (pk_env p) = false).
Proof.
  repeat split.
  - exists (WitnessS.one [WitnessS.len "n"; RField None (Some "string") (Some "n") None None (Some "ab")]). eexists. eexists.
    split; [vm_compute; reflexivity|]. split; [left; reflexivity | vm_compute; reflexivity].
  - exists (WitnessS.one []). eexists. eexists. split; [vm_compute; reflexivity|]. split; [left; reflexivity | vm_compute; reflexivity].
  - exists (WitnessS.one [WitnessS.fld "i" "char"; WitnessS.arr "xs" "char" (Some "2")]). eexists. eexists.
    split; [vm_compute; reflexivity|]. split; [left; reflexivity | vm_compute; reflexivity].
  - exists (WitnessS.one [WitnessS.fld "x" "char"; WitnessS.sw "x" [WitnessS.cs "1"; RCase None (Some "true") []; WitnessS.cs "2"]]). eexists. eexists.
    split; [vm_compute; reflexivity|]. split; [left; reflexivity | vm_compute; reflexivity].
  - exists (WitnessS.one [WitnessS.fld "len" "char"]). eexists. eexists.
    split; [vm_compute; reflexivity|]. split; [left; reflexivity | vm_compute; reflexivity].
  - exists (WitnessS.one [WitnessS.fld "self" "char"]). eexists. eexists.
    split; [vm_compute; reflexivity|]. split; [left; reflexivity | vm_compute; reflexivity].
  - exists (WitnessS.one [WitnessS.len "n"; WitnessS.sw "n" [WitnessS.cs "1"]]). eexists. split; vm_compute; reflexivity.
Qed.

(* ================================================================ (G) the hypotheses are not stronger than the goals: for a body of the
   generated form, the seven goals together imply the eight hypotheses *)
Lemma static_ok_conv body : static_ok body = true -> unnamed_lens_literal body = true.
Proof.
  unfold static_ok, unnamed_lens_literal. rewrite !forallb_forall. intros H i Hi. specialize (H i Hi). destruct i; try reflexivity. exact H.
Qed.

Lemma render_ser_inv : forall es b, render_ser es = Some b -> forall i, In i es -> render_instr i <> None.
Proof.
  induction es as [|a es IH]; intros b H i Hi; [destruct Hi|]. cbn [render_ser] in H.
  destruct (render_instr a) eqn:Ea; [|discriminate H]. destruct (render_ser es) eqn:Eb; [|discriminate H].
  destruct Hi as [<-|Hi]; [congruence | exact (IH _ eq_refl i Hi)].
Qed.
Lemma case_chain_inv f dn : forall cs l, case_chain f dn cs = Some l -> default_last cs = true.
Proof.
  induction cs as [|c cs IH]; cbn [case_chain default_last]; intros l H; [reflexivity|]. destruct (c_key c).
  - destruct (case_chain f dn cs) eqn:E; [|discriminate H]. exact (IH _ eq_refl).
  - destruct cs; [reflexivity | discriminate H].
Qed.
Lemma render_serialize_conv body : render_serialize body <> None -> defaults_last body = true /\ nonempty body = true.
Proof.
  unfold render_serialize. destruct (render_ser body) as [b|] eqn:E; [|intros H; now destruct H]. intros H. split.
  - unfold defaults_last. apply forallb_forall. intros i Hi. pose proof (render_ser_inv body b E i Hi) as Hr.
    destruct i as [| | | |fld cases| |]; try reflexivity. cbn [render_instr] in Hr. destruct cases as [|c cs]; [reflexivity|].
    destruct (c_key c) eqn:Ek; [|now destruct Hr]. destruct (case_chain fld (fld ++ "_data") (c :: cs)) eqn:Ec; [|now destruct Hr].
    exact (case_chain_inv _ _ _ _ Ec).
  - destruct body; [|reflexivity]. cbn [render_ser] in E. injection E as <-. now destruct H.
Qed.

Lemma body_static_conv body : refs_fixed body = true -> body_static body = true ->
  len_names_clean body = true /\ opt_lens_referenced body = true.
Proof.
  intros RF H. unfold body_static in H. apply andb_true_iff in H as [H H3]. apply andb_true_iff in H as [_ H2]. split.
  - unfold len_names_clean. rewrite forallb_forall in H2 |- *. intros n Hn. specialize (H2 n Hn).
    apply negb_true_iff, mem_str_false in H2. apply negb_true_iff, mem_str_false. intros Hin. apply H2.
    destruct Hin as [<-|Hin]; [left; reflexivity|]. right. unfold keys. apply in_flat_map. apply in_app_or in Hin as [Hin|Hin].
    + unfold switch_fields in Hin. apply in_flat_map in Hin as [i [Hi Hk]]. exists i. split; [exact Hi|].
      destruct i; try (destruct Hk; fail). destruct Hk as [<-|[]]. left. reflexivity.
    + unfold switch_data_names in Hin. apply in_flat_map in Hin as [i [Hi Hk]]. exists i. split; [exact Hi|].
      destruct i; try (destruct Hk; fail). destruct Hk as [<-|[]]. right. left. reflexivity.
  - unfold opt_lens_referenced, refs_fixed in *. rewrite forallb_forall in H3, RF |- *. intros i Hi. specialize (H3 i Hi). specialize (RF i Hi).
    destruct i; try reflexivity. cbn [instr_static] in H3. apply andb_true_iff in H3 as [_ H3]. apply opt_str_eqb_eq in RF. rewrite <- RF. exact H3.
Qed.

Lemma init_conv body : gen_ok body = true -> init_static_ok body = true -> render_init body <> None -> init_names_clean body = true.
Proof.
  intros G H1 H2. unfold init_static_ok in H1. apply andb_true_iff in H1 as [H1 Ht]. apply andb_true_iff in H1 as [_ Hl].
  unfold init_names_clean. cbn [forallb]. rewrite Hl, Ht, !andb_true_r.
  unfold render_init in H2. destruct (render_init_from_some body) as (ps & ss & E & Ep).
  - intros i Hi. destruct (gen_ok_in body _ G Hi) as (p1 & p2 & _ & Gi). exact (init_instr_some p1 i Gi).
  - rewrite E, Ep in H2. cbn [dup_free] in H2. destruct (negb (mem_str "self" (public_names body))); [reflexivity|]. now destruct H2.
Qed.

Lemma static_ok_from_pos_inv : forall es pre, static_ok_from (tb pre) es = true ->
  forall p1 i p2, es = p1 ++ i :: p2 -> instr_static_ok_d (tb (pre ++ p1)) i = true.
Proof.
  induction es as [|a es IH]; intros pre H p1 i p2 E; [destruct p1; discriminate E|].
  cbn [static_ok_from] in H. apply andb_true_iff in H as [H1 H2]. destruct p1 as [|a' p1]; cbn [app] in E; injection E as -> ->.
  - rewrite app_nil_r. exact H1.
  - rewrite <- tb_snoc in H2. pose proof (IH (pre ++ [a']) H2 p1 i p2 eq_refl) as H. rewrite <- app_assoc in H. exact H.
Qed.

Lemma prefix_ind (Q : list einstr -> einstr -> Prop) (P : list einstr -> Prop) :
  P [] -> (forall pre i, P pre -> Q pre i -> P (pre ++ [i])) ->
  forall body, (forall p1 i p2, body = p1 ++ i :: p2 -> Q p1 i) -> P body.
Proof.
  intros H0 Hs. induction body as [|x body IH] using rev_ind; intros HQ; [exact H0|]. apply Hs.
  - apply IH. intros p1 i p2 E. apply (HQ p1 i (p2 ++ [x])). rewrite E, <- app_assoc. reflexivity.
  - apply (HQ body x []). reflexivity.
Qed.

Lemma static_d_fresh T i n : instr_static_ok_d T i = true -> In n (map fst (instr_binds i)) -> fresh T n = true.
Proof.
  intros H Hn. destruct i as [f|f dl tr cnt|nm t off o o1 rb|ty lit g|fld cases|b|]; cbn [instr_binds] in Hn; cbn [instr_static_ok_d] in H;
    try (destruct Hn; fail).
  - destruct (f_name f); [|destruct Hn]. destruct Hn as [<-|[]]. apply andb_true_iff in H as [H _]. exact H.
  - destruct (f_name f); [|destruct Hn]. destruct Hn as [<-|[]].
    apply andb_true_iff in H as [H _]. apply andb_true_iff in H as [H _]. apply andb_true_iff in H as [H _]. exact H.
  - destruct Hn as [<-|[]]. exact H.
  - destruct Hn as [<-|[]]. apply andb_true_iff in H as [H _]. exact H.
Qed.

Lemma one_binds_nodup i : NoDup (map fst (instr_binds i)).
Proof.
  destruct i as [f|f ? ? ?| | | | |]; cbn [instr_binds]; try (destruct (f_name f)); cbn [map]; repeat constructor; intros [].
Qed.

Lemma loop_prefix_last : forall body,
  loop_prefix body = [] \/ exists p1 i p2, body = p1 ++ i :: p2 /\ counted i = true /\ loop_prefix body = p1 ++ [i].
Proof.
  induction body as [|a t IH]; [left; reflexivity|]. cbn [loop_prefix]. destruct IH as [E|(p1 & i & p2 & E & Hc & El)].
  - rewrite E. destruct (counted a) eqn:Ca; [|left; reflexivity]. right. exists [], a, t. auto.
  - right. exists (a :: p1), i, p2. rewrite El. split; [rewrite E; reflexivity|]. split; [exact Hc|]. destruct p1; reflexivity.
Qed.

Lemma static_d_conv body : gen_ok body = true -> static_ok_d body = true ->
  sdata_fresh body = true /\ deser_names_clean body = true.
Proof.
  intros G H. unfold static_ok_d in H. apply andb_true_iff in H as [H Hbs].
  assert (HQ : forall p1 i p2, body = p1 ++ i :: p2 -> instr_static_ok_d (tb p1) i = true).
  { intros p1 i p2 E. exact (static_ok_from_pos_inv body [] H p1 i p2 E). }
  assert (HP : NoDup (bound_names body) /\ forall n, In n (bound_names body) -> ~ In n [D_RSP; D_OCRM]).
  { revert HQ. apply (prefix_ind (fun p1 i => instr_static_ok_d (tb p1) i = true)
                                 (fun pre => NoDup (bound_names pre) /\ forall n, In n (bound_names pre) -> ~ In n [D_RSP; D_OCRM])).
    - split; [constructor | intros n []].
    - intros pre i [P1 P2] Q. rewrite bound_names_app.
      assert (E1 : bound_names [i] = map fst (instr_binds i)) by (unfold bound_names, binds; cbn [flat_map]; rewrite app_nil_r; reflexivity).
      rewrite E1. split.
      + apply NoDup_app_intro; [exact P1 | apply one_binds_nodup|]. intros x Hx Hi.
        pose proof (static_d_fresh _ _ _ Q Hi) as Hf. unfold fresh in Hf. apply andb_true_iff in Hf as [_ Hf].
        apply unbound_iff in Hf. apply Hf. apply (proj2 (tb_names pre x)). exact Hx.
      + intros n Hn. apply in_app_or in Hn as [Hn|Hn]; [exact (P2 n Hn)|].
        pose proof (static_d_fresh _ _ _ Q Hn) as Hf. unfold fresh in Hf. apply andb_true_iff in Hf as [Hf _].
        apply mem_str_false, negb_true_iff. exact Hf. }
  destruct HP as [ND HR]. split.
  - pose proof (Permutation_NoDup (bound_perm body) ND) as ND'. unfold sdata_fresh. apply andb_true_iff. split.
    + apply dup_free_NoDup. exact (NoDup_app_r _ _ ND').
    + apply forallb_forall. intros x Hx. apply negb_true_iff, mem_str_false. intros Hd. exact (NoDup_app_disjoint _ _ x ND' Hd Hx).
  - unfold deser_names_clean. rewrite Hbs. cbn [forallb].
    assert (A1 : negb (mem_str D_RSP (bound_names body)) = true).
    { apply negb_true_iff, mem_str_false. intros Hin. apply (HR _ Hin). left. reflexivity. }
    assert (A2 : negb (mem_str D_OCRM (bound_names body)) = true).
    { apply negb_true_iff, mem_str_false. intros Hin. apply (HR _ Hin). right. left. reflexivity. }
    rewrite A1, A2. cbn [andb]. apply andb_true_iff. split.
    + apply negb_true_iff, mem_str_false. destruct (loop_prefix_last body) as [->|(p1 & i & p2 & E & Hc & ->)]; [intros []|].
      pose proof (HQ p1 i p2 E) as Q. destruct i as [|f dl tr cnt| | | | |]; try discriminate Hc. cbn [instr_static_ok_d] in Q.
      destruct (f_name f) as [n|] eqn:En; [|discriminate Q].
      apply andb_true_iff in Q as [Q _]. apply andb_true_iff in Q as [_ Q].
      assert (Q' : unbound (tb p1) D_LOOP && negb (String.eqb n D_LOOP) = true) by (destruct cnt; [exact Q | exact Q | discriminate Hc]).
      apply andb_true_iff in Q' as [Q1 Q2]. apply unbound_iff in Q1. apply negb_true_iff, String.eqb_neq in Q2.
      rewrite bound_names_app. intros Hin. apply in_app_or in Hin as [Hin|Hin].
      * apply Q1. apply (proj2 (tb_names p1 _)). exact Hin.
      * unfold bound_names, binds in Hin. cbn [flat_map instr_binds] in Hin. rewrite En in Hin. destruct Hin as [Hin|[]]. apply Q2. exact Hin.
    + apply forallb_forall. intros i Hi. destruct (gen_ok_in body _ G Hi) as (p1 & p2 & E & Gi). pose proof (HQ p1 i p2 E) as Q.
      destruct i as [|f dl tr cnt| | | | |]; try reflexivity. destruct cnt as [|sz|]; try reflexivity.
      cbn [instr_static_ok_d] in Q. cbn [instr_gen] in Gi. destruct (f_name f) as [n|] eqn:En; [|reflexivity].
      apply andb_true_iff in Q as [_ Q]. apply andb_true_iff in Q as [Q _]. apply unbound_iff in Q.
      apply andb_true_iff in Gi as [Gi _]. apply andb_true_iff in Gi as [Gi _]. apply andb_true_iff in Gi as [Gi _]. apply negb_true_iff in Gi.
      apply negb_true_iff, mem_str_false. rewrite E at 1. rewrite before_split; [| cbn [instr_decl]; rewrite En; cbn [mem_str]; rewrite String.eqb_refl; reflexivity | exact Gi].
      intros Hin. apply Q. apply (proj2 (tb_names p1 _)). exact Hin.
Qed.

(* for a body of the generated form: the goals hold together iff the hypotheses hold together *)
Theorem gen_goals_iff_hyps cls body : gen_ok body = true -> refs_fixed body = true ->
  ((static_ok body = true /\ render_serialize body <> None) /\
   (static_ok_d body = true /\ render_deserialize cls body <> None) /\
   (init_static_ok body = true /\ render_init body <> None) /\
   body_static body = true)
  <-> (body_names_clean body = true /\ body_forms_clean body = true).
Proof.
  intros G RF. split.
  - intros ((A1 & A2) & (B1 & _) & (C1 & C2) & D).
    pose proof (static_ok_conv body A1) as F1. destruct (render_serialize_conv body A2) as [F2 F3].
    destruct (body_static_conv body RF D) as [N4 F4]. destruct (static_d_conv body G B1) as [N1 N3].
    pose proof (init_conv body G C1 C2) as N2.
    unfold body_names_clean, body_forms_clean. rewrite N1, N2, N3, N4, F1, F2, F3, F4. split; reflexivity.
  - intros [HN HF]. unfold body_names_clean in HN. unfold body_forms_clean in HF.
    apply andb_true_iff in HN as [HN N4]. apply andb_true_iff in HN as [HN N3]. apply andb_true_iff in HN as [N1 N2].
    apply andb_true_iff in HF as [HF F4]. apply andb_true_iff in HF as [HF F3]. apply andb_true_iff in HF as [F1 F2].
    repeat split.
    + exact (gen_static_ok body G F1).
    + exact (gen_render_serialize body G F2 F3).
    + exact (gen_static_ok_d body G N1 N3).
    + exact (gen_render_deserialize cls body G F2).
    + exact (gen_init_static_ok body G N1 N2).
    + exact (gen_render_init body G N1 N2).
    + exact (gen_body_static body G RF N4 F4).
Qed.

(* ... hence, for every class of an accepted specification *)
Theorem elab_goals_iff_hyps fs p d : elab fs = Ok p -> In d (pk_env p) ->
  ((static_ok (sd_body d) = true /\ render_serialize (sd_body d) <> None) /\
   (static_ok_d (sd_body d) = true /\ render_deserialize (sd_name d) (sd_body d) <> None) /\
   (init_static_ok (sd_body d) = true /\ render_init (sd_body d) <> None) /\
   body_static (sd_body d) = true)
  <-> (body_names_clean (sd_body d) = true /\ body_forms_clean (sd_body d) = true).
Proof. intros He Hd. exact (gen_goals_iff_hyps (sd_name d) (sd_body d) (elab_gen_ok fs p d He Hd) (elab_refs_fixed fs p d He Hd)). Qed.

(* REMAINING: nothing of the four goals is left unproved, and the hypotheses cannot be weakened as a whole: for every class of an
   accepted specification the seven goals hold together IFF the eight hypotheses do (elab_goals_iff_hyps; section (F) has, per
   hypothesis, an accepted tree violating exactly that one).  `nondegenerate p` is not needed for any of the goals (the statements
   are per class `d` of `pk_env p`, not per class NAME).  Not done:
   - the hypotheses are evaluated on the class bodies of `elab tree`, like `nondegenerate`; a reformulation on the raw XML attributes
     ("no field is named i ..") was not attempted.
   - goal by goal the hypotheses are sufficient but not each necessary for each goal it is used for: sdata_fresh is slightly stronger
     than init_static_ok / render_init alone need (a length field called `<x>_data` that no named field references is not assigned by
     the constructor); static_ok_d needs it in full, which is why the equivalence is stated for the goals together. *)

Print Assumptions elab_gen_ok.
Print Assumptions elab_static.
Print Assumptions elab_goals_iff_hyps.
Print Assumptions elab_shape_static.
Print Assumptions static_goals_refuted.
