(* Chunk framing (C06): a chunked EoReader positioned inside chunk k of `join_chunks chunks` behaves, for every
   plan operation, exactly like a stand-alone non-chunked reader over the bytes of chunk k alone. *)
From EO Require Import Prelude.Py Model.Limits Model.Number Model.StringEnc Model.Cp1252 Model.Writer Model.Reader Model.Items
  Proofs.Number Proofs.StringEnc Proofs.Cp1252.
Open Scope Z_scope.
Set Default Timeout 60.
Ltac Zify.zify_post_hook ::= Z.to_euclidean_division_equations.

(* ---------------------------------------------------------------------------------------------- *)
(* 1. list facts                                                                                    *)

Lemma In_firstn {A} (x : A) : forall n l, In x (firstn n l) -> In x l.
Proof.
  induction n as [|n IH]; intros l H; destruct l as [|y l]; cbn [firstn] in H; try contradiction.
  destruct H as [H|H]; [left; exact H | right; apply IH; exact H].
Qed.

Lemma In_skipn {A} (x : A) : forall n l, In x (skipn n l) -> In x l.
Proof.
  induction n as [|n IH]; intros l H; destruct l as [|y l]; cbn [skipn] in H; try contradiction; try exact H.
  right. apply IH. exact H.
Qed.

Lemma In_slice {A} (x : A) l a b : In x (slice l a b) -> In x l.
Proof. unfold slice. intros H. apply In_firstn in H. apply In_skipn in H. exact H. Qed.

Lemma skipn_zlen_app {A} (pre l : list A) : skipn (Z.to_nat (zlen pre)) (pre ++ l) = l.
Proof.
  unfold zlen. rewrite Nat2Z.id. rewrite skipn_app. rewrite skipn_all. rewrite Nat.sub_diag. reflexivity.
Qed.

(* a window inside the chunk c of pre ++ c ++ post is the same window of c *)
Lemma slice_chunk {A} (pre c post : list A) q n : 0 <= q -> 0 <= n -> q + n <= zlen c ->
  slice (pre ++ c ++ post) (zlen pre + q) (zlen pre + q + n) = slice c q (q + n).
Proof.
  intros Hq Hn Hle. unfold slice.
  replace (zlen pre + q + n - (zlen pre + q)) with n by lia. replace (q + n - q) with n by lia.
  replace (Z.to_nat (zlen pre + q)) with (length pre + Z.to_nat q)%nat by (unfold zlen; lia).
  rewrite skipn_app. rewrite skipn_all2 by lia. cbn [app].
  replace (length pre + Z.to_nat q - length pre)%nat with (Z.to_nat q) by lia.
  rewrite skipn_app. rewrite firstn_app. rewrite skipn_length.
  replace (Z.to_nat n - (length c - Z.to_nat q))%nat with 0%nat by (unfold zlen in *; lia).
  rewrite firstn_O, app_nil_r. reflexivity.
Qed.

Lemma zget_chunk (pre c post : list Z) q : 0 <= q < zlen c ->
  zget (pre ++ c ++ post) (zlen pre + q) = zget c q.
Proof.
  intros Hq. unfold zget.
  replace (Z.to_nat (zlen pre + q)) with (length pre + Z.to_nat q)%nat by (unfold zlen; lia).
  rewrite app_nth2 by lia. replace (length pre + Z.to_nat q - length pre)%nat with (Z.to_nat q) by lia.
  rewrite app_nth1 by (unfold zlen in *; lia). reflexivity.
Qed.

(* ---------------------------------------------------------------------------------------------- *)
(* 2. find_ff / find_break                                                                          *)

Lemma find_ff_hit post i : find_ff (255 :: post) i = i.
Proof. reflexivity. Qed.

Lemma find_ff_app c : forall post i, ~ In 255 c -> find_ff (c ++ post) i = find_ff post (i + zlen c).
Proof.
  induction c as [|x c IH]; intros post i H; cbn [app find_ff].
  - f_equal. unfold zlen. cbn [length]. lia.
  - destruct (x =? 255) eqn:E; [exfalso; apply H; left; lia|].
    rewrite IH by (intro K; apply H; right; exact K). f_equal. rewrite zlen_cons. lia.
Qed.

Lemma find_ff_no255 c i : ~ In 255 c -> find_ff c i = i + zlen c.
Proof. intros H. rewrite <- (app_nil_r c) at 1. rewrite find_ff_app by exact H. reflexivity. Qed.

Lemma find_ff_break c post i : ~ In 255 c -> find_ff (c ++ 255 :: post) i = i + zlen c.
Proof. intros H. rewrite find_ff_app by exact H. reflexivity. Qed.

(* find_ff always lands inside [i, i + len] and on a break byte unless it ran off the end *)
Lemma find_ff_bounds l : forall i, i <= find_ff l i <= i + zlen l.
Proof.
  induction l as [|x l IH]; intros i; cbn [find_ff].
  - unfold zlen; cbn [length]; lia.
  - rewrite zlen_cons. pose proof (zlen_nonneg l). destruct (x =? 255); [lia|]. specialize (IH (i + 1)). lia.
Qed.

Definition framed (post : list Z) : Prop := post = [] \/ exists t, post = 255 :: t.

Lemma find_break_chunk pre c post : ~ In 255 c -> framed post ->
  find_break (pre ++ c ++ post) (zlen pre) = zlen pre + zlen c.
Proof.
  intros Hc Hp. unfold find_break.
  assert (L : (zlen pre <=? zlen (pre ++ c ++ post)) = true).
  { rewrite zlen_app. pose proof (zlen_nonneg (c ++ post)). lia. }
  rewrite L. rewrite skipn_zlen_app.
  destruct Hp as [-> | [t ->]].
  - rewrite app_nil_r. apply find_ff_no255. exact Hc.
  - apply find_ff_break. exact Hc.
Qed.

Lemma find_break_end d : find_break d (zlen d) = zlen d.
Proof.
  unfold find_break. rewrite Z.leb_refl. unfold zlen at 1. rewrite Nat2Z.id. rewrite skipn_all. reflexivity.
Qed.

(* ---------------------------------------------------------------------------------------------- *)
(* 3. the two readers                                                                               *)

(* chunked reader over pre ++ c ++ post, inside chunk c at offset q, break index cached *)
Definition inchunk (pre c post : list Z) (q : Z) : rstate :=
  mkR (pre ++ c ++ post) (zlen pre + q) true (zlen pre) (zlen pre + zlen c).
(* stand-alone, non-chunked reader over c at offset q, exactly as initR c leaves the other fields *)
Definition alone (c : list Z) (q : Z) : rstate := mkR c q false 0 (-1).

Lemma alone_init c : initR c = alone c 0.
Proof. reflexivity. Qed.

Lemma inchunk_start pre c post :
  mkR (pre ++ c ++ post) (zlen pre) true (zlen pre) (zlen pre + zlen c) = inchunk pre c post 0.
Proof. unfold inchunk. f_equal. lia. Qed.

Section Step.
Variables pre c post : list Z.

Lemma rem_in q : 0 <= q <= zlen c -> r_remaining (inchunk pre c post q) = zlen c - q.
Proof. intros Hq. unfold r_remaining, inchunk. cbn [rchunked rbrk rpos]. lia. Qed.

Lemma rem_alone q : r_remaining (alone c q) = zlen c - q.
Proof. reflexivity. Qed.

Lemma read_bytes_in q n : 0 <= q <= zlen c -> 0 <= n ->
  r_read_bytes (inchunk pre c post q) n =
  (inchunk pre c post (q + Z.min n (zlen c - q)), slice c q (q + Z.min n (zlen c - q))).
Proof.
  intros Hq Hn. unfold r_read_bytes. rewrite rem_in by exact Hq.
  set (k := Z.min n (zlen c - q)). cbv zeta.
  unfold r_set_pos, inchunk. cbn [rdata rpos rchunked rcstart rbrk]. f_equal.
  - f_equal. lia.
  - apply slice_chunk; lia.
Qed.

Lemma read_bytes_alone q n :
  r_read_bytes (alone c q) n = (alone c (q + Z.min n (zlen c - q)), slice c q (q + Z.min n (zlen c - q))).
Proof. unfold r_read_bytes. rewrite rem_alone. reflexivity. Qed.

Lemma read_byte_in q : 0 <= q <= zlen c ->
  r_read_byte (inchunk pre c post q) =
  if zlen c - q >? 0 then (inchunk pre c post (q + 1), zget c q) else (inchunk pre c post q, 0).
Proof.
  intros Hq. unfold r_read_byte. rewrite rem_in by exact Hq.
  destruct (zlen c - q >? 0) eqn:E; [|reflexivity].
  unfold r_set_pos, inchunk. cbn [rdata rpos rchunked rcstart rbrk]. f_equal.
  - f_equal. lia.
  - apply zget_chunk. lia.
Qed.

Lemma read_byte_alone q :
  r_read_byte (alone c q) = if zlen c - q >? 0 then (alone c (q + 1), zget c q) else (alone c q, 0).
Proof. unfold r_read_byte. rewrite rem_alone. destruct (zlen c - q >? 0); reflexivity. Qed.

Ltac finish := do 2 eexists; split; [reflexivity | split; [reflexivity | lia]].

(* one plan operation: same output, same offset, still inside the chunk.
   No hypothesis on the contents of c is needed here: once the break index is cached, reads are confined. *)
Lemma step_corr o q : plan_op o = true -> 0 <= q <= zlen c ->
  exists q' out,
    rstep (inchunk pre c post q) o = (inchunk pre c post q', out, None) /\
    rstep (alone c q) o = (alone c q', out, None) /\
    0 <= q' <= zlen c.
Proof.
  intros Hp Hq. destruct o as [|n| | | | | |n pad| |n pad|b| | | | |i l]; cbn [plan_op] in Hp; try discriminate Hp;
    unfold rstep, r_get_byte, r_get_bytes, r_get_char, r_get_short, r_get_three, r_get_int, r_get_number,
           r_get_string, r_get_encoded_string, r_get_fixed_string, r_get_fixed_encoded_string.
  - (* RByte *)
    rewrite read_byte_in by exact Hq. rewrite read_byte_alone. destruct (zlen c - q >? 0) eqn:E; finish.
  - (* RBytes *)
    destruct (n <? 0) eqn:E; [finish|].
    rewrite read_bytes_in by lia. rewrite read_bytes_alone. finish.
  - rewrite read_bytes_in by lia. rewrite read_bytes_alone. finish.
  - rewrite read_bytes_in by lia. rewrite read_bytes_alone. finish.
  - rewrite read_bytes_in by lia. rewrite read_bytes_alone. finish.
  - rewrite read_bytes_in by lia. rewrite read_bytes_alone. finish.
  - (* RString *)
    rewrite rem_in by exact Hq. rewrite rem_alone.
    rewrite read_bytes_in by lia. rewrite read_bytes_alone. finish.
  - (* RFixed *)
    destruct (n <? 0) eqn:E; [finish|].
    rewrite read_bytes_in by lia. rewrite read_bytes_alone. finish.
  - (* REnc *)
    rewrite rem_in by exact Hq. rewrite rem_alone.
    rewrite read_bytes_in by lia. rewrite read_bytes_alone. finish.
  - (* RFixedEnc *)
    destruct (n <? 0) eqn:E; [finish|].
    rewrite read_bytes_in by lia. rewrite read_bytes_alone. finish.
  - (* RRemaining *)
    rewrite rem_in by exact Hq. rewrite rem_alone. finish.
Qed.

Lemma run_plan_corr : forall p q, forallb plan_op p = true -> 0 <= q <= zlen c ->
  exists q' outs,
    run_plan (inchunk pre c post q) p = (inchunk pre c post q', outs) /\
    run_plan (alone c q) p = (alone c q', outs) /\
    0 <= q' <= zlen c.
Proof.
  induction p as [|o p IH]; intros q Hp Hq.
  - exists q, []. repeat split; lia.
  - cbn [forallb] in Hp. apply andb_true_iff in Hp as [Ho Hp].
    destruct (step_corr o q Ho Hq) as [q1 [out [E1 [E2 Hq1]]]].
    destruct (IH q1 Hp Hq1) as [q2 [outs [F1 [F2 Hq2]]]].
    exists q2, (out :: outs). cbn [run_plan]. rewrite E1, E2, F1, F2. repeat split; lia.
Qed.

(* the reader stays in [chunk start, break]; cached break, chunk start, mode and data are untouched *)
Lemma run_plan_confined p q : forallb plan_op p = true -> 0 <= q <= zlen c ->
  let r' := fst (run_plan (inchunk pre c post q) p) in
  zlen pre <= rpos r' <= zlen pre + zlen c /\ rcstart r' = zlen pre /\ rbrk r' = zlen pre + zlen c /\
  rchunked r' = true /\ rdata r' = pre ++ c ++ post.
Proof.
  intros Hp Hq. destruct (run_plan_corr p q Hp Hq) as [q' [outs [E [_ Hq']]]].
  rewrite E. cbn [fst inchunk rpos rcstart rbrk rchunked rdata]. unfold inchunk.
  cbn [rpos rcstart rbrk rchunked rdata]. repeat split; lia.
Qed.

End Step.

(* ---------------------------------------------------------------------------------------------- *)
(* 4. next_chunk                                                                                    *)

Lemma next_chunk_in pre c c' post' q : ~ In 255 c' -> framed post' ->
  r_next_chunk (inchunk pre c (255 :: c' ++ post') q) = Ok (inchunk (pre ++ c ++ [255]) c' post' 0).
Proof.
  intros Hc Hp. unfold r_next_chunk, inchunk. cbn [rchunked negb rbrk rdata].
  assert (D : pre ++ c ++ 255 :: c' ++ post' = (pre ++ c ++ [255]) ++ c' ++ post').
  { rewrite <- !app_assoc. reflexivity. }
  assert (Z1 : zlen (pre ++ c ++ [255]) = zlen pre + zlen c + 1).
  { rewrite !zlen_app. change (zlen [255]) with 1. lia. }
  assert (L : (zlen pre + zlen c <? zlen (pre ++ c ++ 255 :: c' ++ post')) = true).
  { rewrite !zlen_app, zlen_cons. pose proof (zlen_nonneg (c' ++ post')). lia. }
  rewrite L. rewrite D. rewrite <- Z1. rewrite find_break_chunk by assumption.
  f_equal. f_equal. lia.
Qed.

Lemma next_chunk_ok pre c post q : exists r, r_next_chunk (inchunk pre c post q) = Ok r.
Proof. unfold r_next_chunk, inchunk. cbn [rchunked negb]. eexists. reflexivity. Qed.

(* after the last chunk next_chunk parks the reader at the end of the data with an empty chunk *)
Lemma next_chunk_last pre c q :
  r_next_chunk (inchunk pre c [] q) = Ok (inchunk (pre ++ c) [] [] 0).
Proof.
  unfold r_next_chunk, inchunk. cbn [rchunked negb rbrk rdata]. rewrite !app_nil_r.
  assert (L : (zlen pre + zlen c <? zlen (pre ++ c)) = false) by (rewrite zlen_app; lia).
  rewrite L. rewrite <- zlen_app. rewrite find_break_end. f_equal. f_equal.
  - lia.
  - unfold zlen at 3. cbn [length]. lia.
Qed.

(* ---------------------------------------------------------------------------------------------- *)
(* 5. joined chunks                                                                                 *)

Definition tail_of (chunks : list (list Z)) : list Z :=
  match chunks with [] => [] | _ => 255 :: join_chunks chunks end.

Lemma join_cons c chunks : join_chunks (c :: chunks) = c ++ tail_of chunks.
Proof. destruct chunks as [|c2 t]; cbn [join_chunks tail_of]; [now rewrite app_nil_r | reflexivity]. Qed.

Lemma tail_of_framed chunks : framed (tail_of chunks).
Proof. destruct chunks as [|c2 t]; [left; reflexivity | right; eexists; reflexivity]. Qed.

Definition alone_out (cp : list Z * list rop) : list rout := snd (run_plan (initR (fst cp)) (snd cp)).

Lemma run_chunks_corr : forall chunks c plans pre,
  Forall (fun c => ~ In 255 c) (c :: chunks) -> length plans = length (c :: chunks) ->
  Forall (fun p => forallb plan_op p = true) plans ->
  run_chunks (inchunk pre c (tail_of chunks) 0) plans = map alone_out (combine (c :: chunks) plans).
Proof.
  induction chunks as [|c2 t IH]; intros c plans pre Hc Hl Hp.
  - destruct plans as [|p [|p2 ps]]; cbn [length] in Hl; try discriminate Hl.
    inversion Hp as [|p' ps' Hp1 _]; subst.
    pose proof (zlen_nonneg c) as Hz.
    destruct (run_plan_corr pre c (tail_of []) p 0 Hp1 ltac:(lia)) as [q' [outs [E1 [E2 _]]]].
    cbn [run_chunks combine map]. rewrite E1. unfold alone_out. cbn [fst snd]. rewrite alone_init, E2. cbn [snd].
    destruct (r_next_chunk (inchunk pre c (tail_of []) q')); reflexivity.
  - destruct plans as [|p ps]; cbn [length] in Hl; [discriminate Hl|].
    inversion Hp as [|p' ps' Hp1 Hps]; subst. inversion Hc as [|c' l' Hc1 Hcs]; subst.
    pose proof (zlen_nonneg c) as Hz.
    destruct (run_plan_corr pre c (tail_of (c2 :: t)) p 0 Hp1 ltac:(lia)) as [q' [outs [E1 [E2 _]]]].
    cbn [run_chunks]. rewrite E1.
    change (tail_of (c2 :: t)) with (255 :: join_chunks (c2 :: t)). rewrite join_cons.
    rewrite next_chunk_in; [| inversion Hcs; assumption | apply tail_of_framed].
    rewrite IH; [| exact Hcs | cbn [length] in *; lia | exact Hps].
    cbn [combine map]. f_equal. unfold alone_out. cbn [fst snd]. rewrite alone_init, E2. reflexivity.
Qed.

Lemma set_chunked_init c chunks : ~ In 255 c ->
  r_set_chunked (initR (join_chunks (c :: chunks))) true = inchunk [] c (tail_of chunks) 0.
Proof.
  intros Hc. unfold r_set_chunked, initR. cbn [rdata rpos rcstart rbrk]. rewrite Z.eqb_refl.
  rewrite join_cons. change (c ++ tail_of chunks) with ([] ++ c ++ tail_of chunks).
  change 0 with (zlen (@nil Z)) at 2.
  rewrite find_break_chunk by (try exact Hc; apply tail_of_framed). reflexivity.
Qed.

Lemma run_chunks_isolated chunks plans :
  Forall (fun c => ~ In 255 c) chunks -> length plans = length chunks ->
  Forall (fun p => forallb plan_op p = true) plans ->
  run_chunks (r_set_chunked (initR (join_chunks chunks)) true) plans = map alone_out (combine chunks plans).
Proof.
  intros Hc Hl Hp. destruct chunks as [|c chunks].
  - destruct plans; [reflexivity | discriminate Hl].
  - rewrite set_chunked_init by (inversion Hc; assumption). apply run_chunks_corr; assumption.
Qed.

Lemma nth_alone_out chunks plans k : length plans = length chunks ->
  nth k (map alone_out (combine chunks plans)) [] = alone_out (nth k chunks [], nth k plans []).
Proof.
  intros Hl. change (@nil rout) with (alone_out ([], [])) at 1. rewrite map_nth.
  rewrite combine_nth by (symmetry; exact Hl). reflexivity.
Qed.

(* ---------------------------------------------------------------------------------------------- *)
(* 6. no break byte inside chunk fields                                                             *)

Lemma sanitize_no255 bs : ~ In 255 (sanitize true bs).
Proof.
  unfold sanitize. intros H. apply in_map_iff in H as [b [Hb _]]. destruct (b =? 255) eqn:E; lia.
Qed.

Lemma invert_from_no255 l : forall f, ~ In 255 l -> ~ In 255 (invert_from f l).
Proof.
  induction l as [|x l IH]; intros f H; cbn [invert_from]; [exact H|].
  intros [K|K].
  - apply (inv_byte_break_safe f x 255) in K; [|right; reflexivity]. apply H. left. exact K.
  - revert K. apply IH. intro K. apply H. right. exact K.
Qed.

Lemma encode_string_no255 l : ~ In 255 l -> ~ In 255 (encode_string l).
Proof.
  intros H K. unfold encode_string in K. apply in_rev in K. revert K. apply invert_from_no255. exact H.
Qed.

Lemma encode_digits_no255 n a b : 0 <= n < INT_MAX -> ~ In 255 (slice (encode_digits n) a b).
Proof.
  intros Hn K. apply In_slice in K. pose proof (encode_digits_range n Hn) as F.
  rewrite Forall_forall in F. specialize (F 255 K). lia.
Qed.

Lemma add_number_no255 n lim size : in_range n lim = true -> lim <= INT_MAX ->
  ~ In 255 (wdata (fst (w_add_number (mkW [] true) n lim size))).
Proof.
  intros Hr Hl. unfold in_range in Hr. unfold w_add_number.
  destruct (check_number_size n (lim - 1)); [|intros []].
  rewrite encode_number_ok by lia. cbn [fst w_extend wdata app]. apply encode_digits_no255. lia.
Qed.

Lemma item_bytes_no255 it : chunk_field it = true -> ~ In 255 (item_bytes true it).
Proof.
  intros H. destruct it as [b|bs|n|n|n|n|s|s len|s|s len|s|s|bs]; cbn [chunk_field valid] in H; try discriminate H;
    unfold item_bytes; cbn [write_op wstep].
  - apply add_number_no255; [exact H | unfold CHAR_MAX, INT_MAX; lia].
  - apply add_number_no255; [exact H | unfold SHORT_MAX, INT_MAX; lia].
  - apply add_number_no255; [exact H | unfold THREE_MAX, INT_MAX; lia].
  - apply add_number_no255; [exact H | lia].
  - unfold w_add_fixed_string. destruct (check_string_length s (zlen s) false); [|intros []].
    cbn [w_add_bytes w_extend wdata wsan fst app]. apply sanitize_no255.
  - unfold w_add_fixed_encoded_string. destruct (check_string_length s (zlen s) false); [|intros []].
    cbn [w_add_bytes w_extend wdata wsan fst app]. apply encode_string_no255, sanitize_no255.
  - unfold w_add_string. cbn [w_add_bytes w_extend wdata wsan fst app]. apply sanitize_no255.
  - unfold w_add_encoded_string. cbn [w_add_bytes w_extend wdata wsan fst app].
    apply encode_string_no255, sanitize_no255.
Qed.

Lemma concat_no255 (ls : list (list Z)) : Forall (fun l => ~ In 255 l) ls -> ~ In 255 (concat ls).
Proof.
  intros F K. apply in_concat in K as [l [Hl Hx]]. rewrite Forall_forall in F. exact (F l Hl Hx).
Qed.
