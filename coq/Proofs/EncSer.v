(* Refinement between the statement-level semantics of generated serializers (Model/Ser.v) and the declarative
   wire format (Model/Enc.v).
   Plan: `okw` forgets the error kind of a writer result; `put w o` is "append o's bytes to w, mode unchanged".
   Every layer is one equation   okw (ser_X ... w) = put w (enc_X ... (wsan w))   which is rewritten upwards:
   integers -> strings -> values -> array loops (loop form `join_from`, then closed form) -> fields/arrays ->
   instructions (the only place the mode moves: ESetMode) -> instruction lists (invariant: wdata w = base ++ acc)
   -> bodies (mode restored) -> fuelled knot. *)
From EO Require Import Prelude.Py Model.Limits Model.Number Model.StringEnc Model.Cp1252 Model.Writer Model.Spec Model.Ser
  Model.Enc Proofs.Number Proofs.StringEnc Proofs.Cp1252 Proofs.Writer.
Open Scope Z_scope.
Set Default Timeout 60.
Ltac Zify.zify_post_hook ::= Z.to_euclidean_division_equations.

(* ---------------- vocabulary ---------------- *)
Definition okw (r : wres) : option wstate := match r with (w', Ok _) => Some w' | (_, Err _) => None end.
Definition put (w : wstate) (o : option (list Z)) : option wstate :=
  match o with Some out => Some (mkW (wdata w ++ out) (wsan w)) | None => None end.

Definition okw3 (r : wstate * res unit * bool) : option (wstate * bool) :=
  match r with (w', Ok _, b) => Some (w', b) | (_, Err _, _) => None end.
(* append, and set the mode to m *)
Definition put3 (w : wstate) (m : bool) (o : option (list Z * bool)) : option (wstate * bool) :=
  match o with Some (out, b) => Some (mkW (wdata w ++ out) m, b) | None => None end.

Definition refines (rs : string -> value -> wstate -> wres) (re : string -> value -> bool -> option (list Z)) : Prop :=
  forall n v w, okw (rs n v w) = put w (re n v (wsan w)).

Lemma w_nil w : mkW (wdata w ++ []) (wsan w) = w.
Proof. destruct w as [d s]. cbn [wdata wsan]. now rewrite app_nil_r. Qed.

Lemma okw_ok r w' : r = (w', Ok tt) <-> okw r = Some w'.
Proof.
  destruct r as [w1 [[]|e]]; cbn [okw]; split; intros H; try discriminate; congruence.
Qed.

Lemma okw3_lift (X : wres) (b : bool) :
  okw3 (let '(w', r) := X in (w', r, b)) = match okw X with Some w' => Some (w', b) | None => None end.
Proof. destruct X as [w' [u|e]]; reflexivity. Qed.

(* ---------------- integers ---------------- *)
Lemma okw_add_number w z lim k :
  okw (w_add_number w z lim k) =
  put w (if z <=? lim - 1 then match encode_number z with Ok _ => Some (slice (encode_digits z) 0 k) | Err _ => None end else None).
Proof.
  rewrite w_add_number_factor. unfold num_emit.
  destruct (z >? lim - 1) eqn:A; destruct (z <=? lim - 1) eqn:B; try lia; [reflexivity|].
  destruct (encode_number z) as [bs|e] eqn:E; [|reflexivity].
  apply encode_number_inv in E. subst bs. reflexivity.
Qed.

Lemma okw_add_int_of t w z : okw (w_add_int_of t w z) = put w (enc_int t z).
Proof.
  destruct t; cbn [w_add_int_of enc_int].
  - unfold w_add_byte, check_number_size.
    destruct (z >? 255) eqn:A; destruct ((0 <=? z) && (z <=? 255)) eqn:B; try reflexivity. lia.
  - unfold w_add_char. rewrite okw_add_number. reflexivity.
  - unfold w_add_short. rewrite okw_add_number. reflexivity.
  - unfold w_add_three. rewrite okw_add_number. reflexivity.
  - unfold w_add_int. rewrite okw_add_number. reflexivity.
Qed.

Lemma w_add_byte_255 w : w_add_byte w 255 = (mkW (wdata w ++ [255]) (wsan w), Ok tt).
Proof. reflexivity. Qed.

(* ---------------- strings ---------------- *)
Lemma okw_fixed_string w s n p :
  okw (w_add_fixed_string w s n p) = put w (enc_str (wsan w) false s (Some n) p).
Proof.
  unfold w_add_fixed_string, check_string_length, enc_str, place. destruct p.
  - destruct (n >=? zlen s) eqn:A; destruct (zlen s <=? n) eqn:B; try lia; [|reflexivity].
    rewrite add_padding_eq. unfold pad255. rewrite zlen_str_bytes. reflexivity.
  - destruct (zlen s =? n) eqn:A; reflexivity.
Qed.

Lemma okw_fixed_encoded_string w s n p :
  okw (w_add_fixed_encoded_string w s n p) = put w (enc_str (wsan w) true s (Some n) p).
Proof.
  unfold w_add_fixed_encoded_string, check_string_length, enc_str, place. destruct p.
  - destruct (n >=? zlen s) eqn:A; destruct (zlen s <=? n) eqn:B; try lia; [|reflexivity].
    rewrite add_padding_eq. unfold pad255. rewrite zlen_str_bytes. reflexivity.
  - destruct (zlen s =? n) eqn:A; reflexivity.
Qed.

Lemma okw_str w (enc : bool) s (len : option Z) p :
  okw (match len with
       | None => if enc then w_add_encoded_string w s else w_add_string w s
       | Some n => if enc then w_add_fixed_encoded_string w s n p else w_add_fixed_string w s n p
       end) = put w (enc_str (wsan w) enc s len p).
Proof.
  destruct len as [n|]; destruct enc.
  - apply okw_fixed_encoded_string.
  - apply okw_fixed_string.
  - reflexivity.
  - reflexivity.
Qed.

(* ---------------- the loop form of array joining ---------------- *)
Fixpoint join_from (d t started : bool) (bodies : list (list Z)) : list Z :=
  match bodies with
  | [] => []
  | b :: rest => (if d && negb t && started then [255] else []) ++ b ++ (if d && t then [255] else []) ++ join_from d t true rest
  end.

Lemma join_from_plain started bodies : join_from false false started bodies = List.concat bodies.
Proof.
  revert started; induction bodies as [|b rest IH]; intros started; cbn [join_from List.concat andb app]; [reflexivity|].
  now rewrite IH.
Qed.

Lemma join_from_trailing started bodies : join_from true true started bodies = List.concat (map (fun b => b ++ [255]) bodies).
Proof.
  revert started; induction bodies as [|b rest IH]; intros started; cbn [join_from List.concat map andb negb app]; [reflexivity|].
  rewrite IH. now rewrite <- app_assoc.
Qed.

Lemma join_from_sep_started bodies : join_from true false true bodies = List.concat (map (fun b => 255 :: b) bodies).
Proof.
  induction bodies as [|b rest IH]; cbn [join_from List.concat map andb negb app]; [reflexivity|].
  rewrite IH. reflexivity.
Qed.

Lemma intercalate_cons {A} (sep : list A) x l : intercalate sep (x :: l) = x ++ List.concat (map (fun b => sep ++ b) l).
Proof.
  revert x; induction l as [|y l IH]; intros x.
  - cbn [intercalate map List.concat]. now rewrite app_nil_r.
  - change (intercalate sep (x :: y :: l)) with (x ++ sep ++ intercalate sep (y :: l)).
    rewrite IH. cbn [map List.concat]. now rewrite <- app_assoc.
Qed.

Lemma join_from_separating bodies : join_from true false false bodies = intercalate [255] bodies.
Proof.
  destruct bodies as [|b rest]; [reflexivity|].
  rewrite intercalate_cons. cbn [join_from andb negb app]. rewrite join_from_sep_started. reflexivity.
Qed.

Lemma join_from_closed d t bodies : join_from d t false bodies = join_elems d t bodies.
Proof.
  unfold join_elems. destruct d; destruct t.
  - apply join_from_trailing.
  - apply join_from_separating.
  - assert (H : forall st, join_from false true st bodies = List.concat bodies).
    { induction bodies as [|b rest IH]; intros st; cbn [join_from List.concat andb app]; [reflexivity|]. now rewrite IH. }
    apply H.
  - apply join_from_plain.
Qed.

Section Refine.
  Variable rs : string -> value -> wstate -> wres.
  Variable re : string -> value -> bool -> option (list Z).
  Hypothesis Hrec : refines rs re.

  (* ---------------- values ---------------- *)
  Lemma ser_value_refines ty v len p off w :
    okw (ser_value rs ty v len p off w) = put w (enc_value re ty v len p off (wsan w)).
  Proof.
    destruct ty as [t|t|en t|enc| |n]; cbn [ser_value enc_value].
    - destruct v; try reflexivity; apply okw_add_int_of.
    - apply okw_add_int_of.
    - destruct v; try reflexivity; apply okw_add_int_of.
    - destruct v; try reflexivity. apply okw_str.
    - destruct v; reflexivity.
    - apply Hrec.
  Qed.

  (* a successful value write appends the encoding and keeps the mode *)
  Lemma ser_value_step ty v len p off w w2 r2 :
    ser_value rs ty v len p off w = (w2, r2) ->
    match enc_value re ty v len p off (wsan w) with
    | Some b => w2 = mkW (wdata w ++ b) (wsan w) /\ exists u, r2 = Ok u
    | None => exists e, r2 = Err e
    end.
  Proof.
    intros E. pose proof (ser_value_refines ty v len p off w) as H. rewrite E in H.
    destruct (enc_value re ty v len p off (wsan w)) as [b|]; cbn [put] in H.
    - destruct r2 as [u|e]; cbn [okw] in H; [|discriminate]. split; [congruence | now exists u].
    - destruct r2 as [u|e]; cbn [okw] in H; [discriminate | now exists e].
  Qed.

  (* ---------------- array loops ---------------- *)
  Lemma ser_elems_refines ty d t : forall n i elems w, 0 <= i ->
    okw (ser_elems rs ty d t n i elems w) =
    if (n <=? List.length elems)%nat
    then put w (option_map (join_from d t (i >? 0))
                  (sequence (map (fun e => enc_value re ty e None false 0 (wsan w)) (firstn n elems))))
    else None.
  Proof.
    induction n as [|n IH]; intros i elems w Hi.
    - cbn [ser_elems Nat.leb firstn map sequence option_map join_from put okw]. now rewrite w_nil.
    - cbn [ser_elems].
      set (c := d && negb t && (i >? 0)).
      assert (Hpre : (if c then w_add_byte w 255 else (w, Ok tt)) = (mkW (wdata w ++ (if c then [255] else [])) (wsan w), Ok tt)).
      { destruct c; [apply w_add_byte_255 | now rewrite w_nil]. }
      rewrite Hpre. clear Hpre.
      destruct elems as [|x rest].
      + reflexivity.
      + destruct (ser_value rs ty x None false 0 (mkW (wdata w ++ (if c then [255] else [])) (wsan w))) as [w2 r2] eqn:E2.
        apply ser_value_step in E2. cbn [wsan wdata] in E2.
        cbn [firstn map sequence List.length].
        change (S n <=? S (List.length rest))%nat with (n <=? List.length rest)%nat.
        destruct (enc_value re ty x None false 0 (wsan w)) as [b|].
        * destruct E2 as [-> [u ->]].
          set (c2 := d && t).
          assert (Hpost : forall w0, (if c2 then w_add_byte w0 255 else (w0, Ok tt)) =
                                     (mkW (wdata w0 ++ (if c2 then [255] else [])) (wsan w0), Ok tt)).
          { intros w0. destruct c2; [apply w_add_byte_255 | now rewrite w_nil]. }
          rewrite Hpost. clear Hpost. cbn [wdata wsan].
          rewrite IH by lia. cbn [wdata wsan].
          destruct (n <=? List.length rest)%nat; [|reflexivity].
          destruct (sequence (map (fun e => enc_value re ty e None false 0 (wsan w)) (firstn n rest))) as [bodies|];
            [|reflexivity].
          cbn [option_map put join_from]. fold c. fold c2.
          assert (Hi1 : (i + 1 >? 0) = true) by lia. rewrite Hi1. cbn [wdata wsan].
          repeat rewrite <- app_assoc. reflexivity.
        * destruct E2 as [e ->]. cbn [okw option_map]. destruct (n <=? List.length rest)%nat; reflexivity.
  Qed.

  (* ---------------- fields ---------------- *)
  Lemma ser_field_refines flds f rmo w :
    okw3 (ser_field rs flds f rmo w) = put3 w (wsan w) (enc_field re flds f rmo (wsan w)).
  Proof.
    unfold ser_field, enc_field.
    destruct (f_name f) as [name|].
    - destruct (assoc flds name) as [v|]; [|reflexivity].
      destruct (opt_guard (f_optional f) (f_opt_first f) rmo v) as [rmo' go].
      destruct (negb go).
      { cbn [okw3 put3]. now rewrite w_nil. }
      destruct (negb (f_optional f) && match f_hard f with None => true | Some _ => false end && is_none v); [reflexivity|].
      unfold len_ok. destruct (len_check f v) as [u|e]; [|reflexivity].
      rewrite okw3_lift. rewrite ser_value_refines. unfold field_len.
      destruct (enc_value re (f_ty f) v match f_len f with LNone => None | LLit n => Some n | LRef _ => py_len v end
                  (f_padded f) 0 (wsan w)); reflexivity.
    - destruct (f_hard f) as [lit|]; [|reflexivity].
      destruct (lit_value (f_ty f) lit) as [v|e]; [|reflexivity].
      rewrite okw3_lift. rewrite ser_value_refines.
      destruct (enc_value re (f_ty f) v match f_len f with LLit n => Some n | _ => None end (f_padded f) 0 (wsan w));
        reflexivity.
  Qed.

  Lemma firstn_zlen {A} (l : list A) : firstn (Z.to_nat (zlen l)) l = l.
  Proof. unfold zlen. rewrite Nat2Z.id. apply firstn_all. Qed.

  Lemma ser_array_refines flds f d t rmo w :
    okw3 (ser_array rs flds f d t rmo w) = put3 w (wsan w) (enc_array re flds f d t rmo (wsan w)).
  Proof.
    unfold ser_array, enc_array.
    destruct (f_name f) as [name|] eqn:En; [|reflexivity].
    destruct (assoc flds name) as [v|]; [|reflexivity].
    destruct (opt_guard (f_optional f) (f_opt_first f) rmo v) as [rmo' go].
    destruct (negb go).
    { cbn [okw3 put3]. now rewrite w_nil. }
    destruct v as [|z|b|s|bs|elems|c fl];
      try (destruct (negb (f_optional f) && _); [reflexivity|]; destruct (len_check f _); reflexivity).
    cbn [is_none]. rewrite andb_false_r.
    unfold len_check, array_count_ok, enc_elems. rewrite En. cbn [py_len].
    destruct (f_len f) as [|n|fr].
    - (* no length *)
      rewrite okw3_lift. rewrite ser_elems_refines by lia. rewrite firstn_zlen.
      assert (Hle : (Z.to_nat (zlen elems) <=? List.length elems)%nat = true) by (unfold zlen; apply Nat.leb_le; lia).
      rewrite Hle.
      destruct (sequence (map (fun e => enc_value re (f_ty f) e None false 0 (wsan w)) elems)) as [bodies|];
        [|reflexivity].
      cbn [option_map put]. assert (H0 : (0 >? 0) = false) by reflexivity. rewrite H0. rewrite join_from_closed. reflexivity.
    - (* literal length *)
      destruct (zlen elems =? n) eqn:Eq.
      + assert (Hc : (if f_padded f then zlen elems >? n else negb true) = false).
        { destruct (f_padded f); [lia | reflexivity]. }
        rewrite Hc. rewrite okw3_lift. rewrite ser_elems_refines by lia.
        assert (Hn : n = zlen elems) by lia. rewrite Hn. rewrite firstn_zlen.
        assert (Hle : (Z.to_nat (zlen elems) <=? List.length elems)%nat = true) by (unfold zlen; apply Nat.leb_le; lia).
        rewrite Hle.
        destruct (sequence (map (fun e => enc_value re (f_ty f) e None false 0 (wsan w)) elems)) as [bodies|];
          [|reflexivity].
        cbn [option_map put]. assert (H0 : (0 >? 0) = false) by reflexivity. rewrite H0. rewrite join_from_closed. reflexivity.
      + destruct (f_padded f).
        * destruct (zlen elems >? n) eqn:Gt; [reflexivity|].
          rewrite okw3_lift. rewrite ser_elems_refines by lia.
          assert (Hle : (Z.to_nat n <=? List.length elems)%nat = false) by (unfold zlen in *; apply Nat.leb_gt; lia).
          rewrite Hle. reflexivity.
        * reflexivity.
    - (* length reference *)
      destruct (zlen elems >? f_maxlen f) eqn:Gt; destruct (zlen elems <=? f_maxlen f) eqn:Le; try lia; [reflexivity|].
      rewrite okw3_lift. rewrite ser_elems_refines by lia. rewrite firstn_zlen.
      assert (Hle : (Z.to_nat (zlen elems) <=? List.length elems)%nat = true) by (unfold zlen; apply Nat.leb_le; lia).
      rewrite Hle.
      destruct (sequence (map (fun e => enc_value re (f_ty f) e None false 0 (wsan w)) elems)) as [bodies|];
        [|reflexivity].
      cbn [option_map put]. assert (H0 : (0 >? 0) = false) by reflexivity. rewrite H0. rewrite join_from_closed. reflexivity.
  Qed.

  (* ---------------- instructions ---------------- *)
  Lemma acc_empty_test {A} (base acc : list A) :
    (zlen (base ++ acc) =? zlen base) = match acc with [] => true | _ => false end.
  Proof.
    rewrite zlen_app. destruct acc as [|x acc].
    - unfold zlen. cbn [List.length]. lia.
    - rewrite zlen_cons. pose proof (zlen_nonneg acc). lia.
  Qed.

  Lemma ser_instr_refines flds base acc i rmo w : wdata w = base ++ acc ->
    okw3 (ser_instr rs flds (zlen base) i rmo w) =
    put3 w (instr_mode i (wsan w)) (enc_instr re flds i rmo (wsan w) acc).
  Proof.
    intros Hw. destruct i as [f|f d t cnt|name t off optional opt_first ref_by|ty lit guarded|field cases|b|];
      cbn [ser_instr enc_instr instr_mode].
    - apply ser_field_refines.
    - apply ser_array_refines.
    - destruct ref_by as [fr|]; [|reflexivity].
      destruct (assoc flds fr) as [fv|]; [|reflexivity].
      destruct (length_slot fv) as [sv|]; [|reflexivity].
      destruct (opt_guard optional opt_first rmo sv) as [rmo' go].
      destruct (negb go).
      { cbn [okw3 put3]. now rewrite w_nil. }
      destruct sv as [|l|b|s|bs|ls|c fl]; try reflexivity.
      rewrite okw3_lift. rewrite okw_add_int_of. destruct (enc_int t (l - off)); reflexivity.
    - rewrite Hw. rewrite acc_empty_test.
      destruct (guarded && negb match acc with [] => true | _ :: _ => false end).
      { cbn [okw3 put3]. now rewrite w_nil. }
      destruct (lit_value ty lit) as [v|e]; [|reflexivity].
      rewrite okw3_lift. rewrite ser_value_refines. destruct (enc_value re ty v None false 0 (wsan w)); reflexivity.
    - destruct (assoc flds field) as [fv|]; [|reflexivity].
      destruct (assoc flds (field ++ "_data")%string) as [dv|]; [|reflexivity].
      destruct (find_case cases match fv with VInt z => Some z | VBool b => Some (if b then 1 else 0) | _ => None end) as [c|].
      + destruct (c_cls c) as [cls|].
        * destruct (obj_class dv) as [c'|]; [|reflexivity].
          destruct (String.eqb c' cls); [|reflexivity].
          rewrite okw3_lift. rewrite Hrec. destruct (re cls dv (wsan w)); reflexivity.
        * destruct (is_none dv); [|reflexivity]. cbn [okw3 put3]. now rewrite w_nil.
      + destruct (is_none dv); [|reflexivity]. cbn [okw3 put3]. now rewrite w_nil.
    - cbn [okw3 put3]. unfold w_set_san. now rewrite app_nil_r.
    - rewrite okw3_lift. rewrite w_add_byte_255. reflexivity.
  Qed.

  Lemma ser_instrs_refines flds base : forall is rmo w acc, wdata w = base ++ acc ->
    okw (ser_instrs rs flds (zlen base) is rmo w) =
    match enc_instrs re flds is rmo (wsan w) acc with
    | Some out => Some (mkW (wdata w ++ out) (mode_after is (wsan w)))
    | None => None
    end.
  Proof.
    induction is as [|i rest IH]; intros rmo w acc Hw.
    - cbn [ser_instrs enc_instrs okw mode_after fold_left]. now rewrite w_nil.
    - cbn [ser_instrs enc_instrs].
      pose proof (ser_instr_refines flds base acc i rmo w Hw) as H1.
      destruct (ser_instr rs flds (zlen base) i rmo w) as [[w1 r1] rmo1].
      destruct (enc_instr re flds i rmo (wsan w) acc) as [[out rmo']|]; cbn [put3] in H1.
      + destruct r1 as [u|e]; cbn [okw3] in H1; [|discriminate].
        injection H1 as -> ->.
        rewrite (IH rmo' _ (acc ++ out)) by (cbn [wdata]; rewrite Hw; now rewrite app_assoc).
        cbn [wdata wsan].
        destruct (enc_instrs re flds rest rmo' (instr_mode i (wsan w)) (acc ++ out)) as [out'|]; [|reflexivity].
        unfold mode_after. cbn [fold_left]. now rewrite app_assoc.
      + destruct r1 as [u|e]; cbn [okw3] in H1; [discriminate | reflexivity].
  Qed.

  Lemma ser_body_refines d v w : okw (ser_body rs d v w) = put w (enc_body re d v (wsan w)).
  Proof.
    unfold ser_body, enc_body.
    destruct v as [|z|b|s|bs|l|c flds];
      try (destruct (sd_body d); [cbn [okw put]; now rewrite w_nil | reflexivity]).
    pose proof (ser_instrs_refines flds (wdata w) (sd_body d) false w [] (eq_sym (app_nil_r _))) as H.
    destruct (ser_instrs rs flds (zlen (wdata w)) (sd_body d) false w) as [w' r].
    destruct (enc_instrs re flds (sd_body d) false (wsan w) []) as [out|]; cbn [put].
    - destruct r as [u|e]; cbn [okw] in H; [|discriminate]. injection H as ->. reflexivity.
    - destruct r as [u|e]; cbn [okw] in H; [discriminate | reflexivity].
  Qed.
End Refine.

(* ---------------- the knot ---------------- *)
Theorem ser_struct_refines E : forall fuel, refines (ser_struct fuel E) (enc_struct fuel E).
Proof.
  induction fuel as [|fuel IH]; intros cls v w.
  - reflexivity.
  - cbn [ser_struct enc_struct]. destruct (env_find E cls) as [d|]; [|reflexivity].
    apply ser_body_refines. exact IH.
Qed.

(* both directions, as stated in the task *)
Theorem ser_enc fuel E cls v w w' :
  ser_struct fuel E cls v w = (w', Ok tt) ->
  exists out, enc_struct fuel E cls v (wsan w) = Some out /\ wdata w' = wdata w ++ out /\ wsan w' = wsan w.
Proof.
  intros H. apply okw_ok in H. rewrite ser_struct_refines in H.
  destruct (enc_struct fuel E cls v (wsan w)) as [out|]; cbn [put] in H; [|discriminate].
  injection H as <-. exists out. repeat split.
Qed.

Theorem enc_ser fuel E cls v w out :
  enc_struct fuel E cls v (wsan w) = Some out ->
  ser_struct fuel E cls v w = (mkW (wdata w ++ out) (wsan w), Ok tt).
Proof.
  intros H. apply okw_ok. rewrite ser_struct_refines, H. reflexivity.
Qed.

Theorem ser_is_enc fuel E cls v w w' :
  ser_struct fuel E cls v w = (w', Ok tt) <->
  exists out, enc_struct fuel E cls v (wsan w) = Some out /\ w' = mkW (wdata w ++ out) (wsan w).
Proof.
  rewrite okw_ok, ser_struct_refines. split.
  - destruct (enc_struct fuel E cls v (wsan w)) as [out|]; cbn [put]; intros H; [|discriminate].
    exists out. split; [reflexivity | congruence].
  - intros [out [-> ->]]. reflexivity.
Qed.

(* the generated serializer fails exactly when the declaration assigns the value no encoding *)
Theorem ser_fails_iff fuel E cls v w :
  (exists w' e, ser_struct fuel E cls v w = (w', Err e)) <-> enc_struct fuel E cls v (wsan w) = None.
Proof.
  pose proof (ser_struct_refines E fuel cls v w) as H.
  destruct (ser_struct fuel E cls v w) as [w1 [u|e]]; cbn [okw] in H; split.
  - intros [w' [e Hx]]. discriminate.
  - intros Hn. rewrite Hn in H. discriminate.
  - intros _. destruct (enc_struct fuel E cls v (wsan w)); [discriminate | reflexivity].
  - intros _. now exists w1, e.
Qed.

(* top level *)
Corollary serialize_is_encode E cls v san w' :
  serialize E cls v san = (w', Ok tt) <-> exists out, encode E cls v san = Some out /\ w' = mkW out san.
Proof. unfold serialize, encode. rewrite ser_is_enc. reflexivity. Qed.

(* ======================================================================================================
   Structure of the declarative format (the facts Properties/C02.v states)
   ====================================================================================================== *)
Lemma sequence_spec {A} (l : list (option A)) r : sequence l = Some r <-> l = map Some r.
Proof.
  revert r; induction l as [|[x|] l IH]; intros r; cbn [sequence].
  - split; intros H; [injection H as <-; reflexivity | destruct r; [reflexivity | discriminate]].
  - destruct (sequence l) as [r'|] eqn:E.
    + split; intros H.
      * injection H as <-. cbn [map]. f_equal. now apply IH.
      * destruct r as [|y r]; [discriminate|]. cbn [map] in H. injection H as -> Hl. apply IH in Hl. congruence.
    + split; intros H; [discriminate|]. destruct r as [|y r]; [discriminate|]. cbn [map] in H. injection H as -> Hl.
      apply IH in Hl. discriminate.
  - split; intros H; [discriminate|]. destruct r; discriminate.
Qed.

Lemma sequence_none {A} (l : list (option A)) : sequence l = None <-> In None l.
Proof.
  induction l as [|[x|] l IH]; cbn [sequence In].
  - split; [discriminate | intros []].
  - destruct (sequence l) as [r|]; split; intros H; try discriminate.
    + destruct H as [H|H]; [discriminate | apply IH in H; discriminate].
    + right. now apply IH.
    + reflexivity.
  - split; [now left | reflexivity].
Qed.

Section Structure.
  Variable rec : string -> value -> bool -> option (list Z).

  (* --- document order --- *)
  Fixpoint enc_run (flds : list (string * value)) (is : list einstr) (rmo san : bool) (acc : list Z) : option (list Z * bool) :=
    match is with
    | [] => Some ([], rmo)
    | i :: t =>
      match enc_instr rec flds i rmo san acc with
      | None => None
      | Some (out, rmo') =>
        match enc_run flds t rmo' (instr_mode i san) (acc ++ out) with
        | Some (out', r) => Some (out ++ out', r)
        | None => None
        end
      end
    end.

  Lemma enc_instrs_run flds : forall is rmo san acc, enc_instrs rec flds is rmo san acc = option_map fst (enc_run flds is rmo san acc).
  Proof.
    induction is as [|i t IH]; intros rmo san acc; [reflexivity|]. cbn [enc_instrs enc_run].
    destruct (enc_instr rec flds i rmo san acc) as [[out rmo']|]; [|reflexivity].
    rewrite IH. destruct (enc_run flds t rmo' (instr_mode i san) (acc ++ out)) as [[out' r]|]; reflexivity.
  Qed.

  Lemma enc_instrs_cons flds i is rmo san acc :
    enc_instrs rec flds (i :: is) rmo san acc =
    match enc_instr rec flds i rmo san acc with
    | None => None
    | Some (out, rmo') => option_map (app out) (enc_instrs rec flds is rmo' (instr_mode i san) (acc ++ out))
    end.
  Proof.
    cbn [enc_instrs]. destruct (enc_instr rec flds i rmo san acc) as [[out rmo']|]; [|reflexivity].
    destruct (enc_instrs rec flds is rmo' (instr_mode i san) (acc ++ out)); reflexivity.
  Qed.

  Lemma mode_after_app a b san : mode_after (a ++ b) san = mode_after b (mode_after a san).
  Proof. unfold mode_after. apply fold_left_app. Qed.

  Lemma enc_run_app flds : forall a b rmo san acc,
    enc_run flds (a ++ b) rmo san acc =
    match enc_run flds a rmo san acc with
    | None => None
    | Some (o1, rmo1) =>
      match enc_run flds b rmo1 (mode_after a san) (acc ++ o1) with
      | None => None
      | Some (o2, rmo2) => Some (o1 ++ o2, rmo2)
      end
    end.
  Proof.
    induction a as [|i a IH]; intros b rmo san acc.
    - cbn [app enc_run mode_after fold_left]. rewrite app_nil_r.
      destruct (enc_run flds b rmo san acc) as [[o2 rmo2]|]; reflexivity.
    - cbn [app enc_run]. destruct (enc_instr rec flds i rmo san acc) as [[out rmo']|]; [|reflexivity].
      rewrite IH. destruct (enc_run flds a rmo' (instr_mode i san) (acc ++ out)) as [[o1 rmo1]|]; [|reflexivity].
      unfold mode_after. cbn [fold_left]. fold (mode_after a (instr_mode i san)). rewrite <- app_assoc.
      destruct (enc_run flds b rmo1 (mode_after a (instr_mode i san)) (acc ++ out ++ o1)) as [[o2 rmo2]|]; [|reflexivity].
      now rewrite app_assoc.
  Qed.

  Lemma enc_instrs_app flds a b rmo san acc out :
    enc_instrs rec flds (a ++ b) rmo san acc = Some out <->
    exists o1 rmo1 o2, enc_run flds a rmo san acc = Some (o1, rmo1) /\
                       enc_instrs rec flds b rmo1 (mode_after a san) (acc ++ o1) = Some o2 /\ out = o1 ++ o2.
  Proof.
    rewrite enc_instrs_run, enc_run_app. split.
    - destruct (enc_run flds a rmo san acc) as [[o1 rmo1]|]; [|discriminate].
      destruct (enc_run flds b rmo1 (mode_after a san) (acc ++ o1)) as [[o2 rmo2]|] eqn:E2; [|discriminate].
      cbn [option_map fst]. intros H. injection H as <-. exists o1, rmo1, o2. rewrite enc_instrs_run, E2. repeat split.
    - intros [o1 [rmo1 [o2 [-> [H2 ->]]]]]. rewrite enc_instrs_run in H2.
      destruct (enc_run flds b rmo1 (mode_after a san) (acc ++ o1)) as [[o2' rmo2]|]; [|discriminate].
      cbn [option_map fst] in *. congruence.
  Qed.

  (* the per-instruction outputs, in order, each computed in the state threaded from its predecessors *)
  Inductive enc_trace (flds : list (string * value)) : list einstr -> bool -> bool -> list Z -> list (list Z) -> Prop :=
  | tr_nil rmo san acc : enc_trace flds [] rmo san acc []
  | tr_cons i is rmo san acc o rmo' os :
      enc_instr rec flds i rmo san acc = Some (o, rmo') ->
      enc_trace flds is rmo' (instr_mode i san) (acc ++ o) os ->
      enc_trace flds (i :: is) rmo san acc (o :: os).

  Lemma enc_instrs_trace flds : forall is rmo san acc out,
    enc_instrs rec flds is rmo san acc = Some out <-> exists outs, enc_trace flds is rmo san acc outs /\ out = List.concat outs.
  Proof.
    induction is as [|i is IH]; intros rmo san acc out.
    - cbn [enc_instrs]. split.
      + intros H. injection H as <-. exists []. split; [constructor | reflexivity].
      + intros [outs [Ht ->]]. inversion Ht. reflexivity.
    - rewrite enc_instrs_cons. split.
      + destruct (enc_instr rec flds i rmo san acc) as [[o rmo']|] eqn:Ei; [|discriminate].
        destruct (enc_instrs rec flds is rmo' (instr_mode i san) (acc ++ o)) as [out'|] eqn:Er; [|discriminate].
        cbn [option_map]. intros H. injection H as <-.
        apply IH in Er as [outs [Ht ->]]. exists (o :: outs). split; [econstructor; eassumption | reflexivity].
      + intros [outs [Ht ->]]. inversion Ht as [|i0 is0 rmo0 san0 acc0 o rmo' os Hi Hrest]; subst.
        rewrite Hi. assert (Hr : enc_instrs rec flds is rmo' (instr_mode i san) (acc ++ o) = Some (List.concat os)).
        { apply IH. exists os. split; [exact Hrest | reflexivity]. }
        rewrite Hr. reflexivity.
  Qed.

  Lemma enc_trace_length flds is rmo san acc outs : enc_trace flds is rmo san acc outs -> List.length outs = List.length is.
  Proof. intros H. induction H as [|i is rmo san acc o rmo' os Hi Hr IH]; cbn [List.length]; [reflexivity | now rewrite IH]. Qed.

  (* --- arrays --- *)
  Lemma enc_array_closed flds f d t cnt rmo san acc name elems :
    f_name f = Some name -> assoc flds name = Some (VList elems) ->
    enc_instr rec flds (EArray f d t cnt) rmo san acc =
    let '(rmo', go) := opt_guard (f_optional f) (f_opt_first f) rmo (VList elems) in
    if go
    then if array_count_ok f elems
         then option_map (fun bodies => (join_elems d t bodies, rmo'))
                (sequence (map (fun e => enc_value rec (f_ty f) e None false 0 san) elems))
         else None
    else Some ([], rmo').
  Proof.
    intros Hn Ha. cbn [enc_instr]. unfold enc_array, enc_elems. rewrite Hn, Ha.
    destruct (opt_guard (f_optional f) (f_opt_first f) rmo (VList elems)) as [rmo' go].
    destruct go; cbn [negb]; [|reflexivity].
    destruct (array_count_ok f elems); [|reflexivity].
    destruct (sequence (map (fun e => enc_value rec (f_ty f) e None false 0 san) elems)); reflexivity.
  Qed.

  Lemma opt_guard_required rmo v : opt_guard false false rmo v = (rmo, true) /\ opt_guard false true rmo v = (rmo, true).
  Proof. split; reflexivity. Qed.

  (* a present value of an optional field is written iff no earlier optional field of the segment was missing *)
  Lemma opt_guard_present opt_first rmo v : is_none v = false ->
    opt_guard true opt_first rmo v = (if opt_first then (false, true) else (rmo, negb rmo)).
  Proof. intros H. unfold opt_guard. rewrite H. destruct opt_first; cbn [orb]; [reflexivity | now rewrite orb_false_r]. Qed.

  Lemma opt_guard_missing opt_first rmo : opt_guard true opt_first rmo VNone = (true, false).
  Proof. unfold opt_guard. cbn [is_none]. now rewrite orb_true_r. Qed.

  (* --- length fields --- *)
  Lemma enc_length_required flds name t off opt_first fr v l rmo san acc :
    assoc flds fr = Some v -> py_len v = Some l ->
    enc_instr rec flds (ELength name t off false opt_first (Some fr)) rmo san acc =
    option_map (fun o => (o, rmo)) (enc_int t (l - off)).
  Proof.
    intros Ha Hl. cbn [enc_instr]. rewrite Ha. unfold length_slot. rewrite Hl. cbn [opt_guard negb].
    destruct (enc_int t (l - off)); reflexivity.
  Qed.

  Lemma enc_length_optional flds name t off opt_first fr v l rmo san acc :
    assoc flds fr = Some v -> py_len v = Some l ->
    enc_instr rec flds (ELength name t off true opt_first (Some fr)) rmo san acc =
    let rmo' := if opt_first then false else rmo in
    if rmo' then Some ([], true) else option_map (fun o => (o, false)) (enc_int t (l - off)).
  Proof.
    intros Ha Hl. cbn [enc_instr]. rewrite Ha. unfold length_slot. rewrite Hl.
    rewrite opt_guard_present by reflexivity.
    destruct opt_first; [|destruct rmo]; cbn [negb]; try reflexivity; destruct (enc_int t (l - off)); reflexivity.
  Qed.

  Lemma enc_length_absent flds name t off optional opt_first fr rmo san acc :
    assoc flds fr = Some VNone ->
    enc_instr rec flds (ELength name t off optional opt_first (Some fr)) rmo san acc =
    if optional then Some ([], true) else None.
  Proof.
    intros Ha. cbn [enc_instr]. rewrite Ha. cbn [length_slot py_len is_none].
    destruct optional; [rewrite opt_guard_missing; reflexivity | reflexivity].
  Qed.

  (* --- hardcoded, dummy --- *)
  Lemma enc_hardcoded_unnamed flds f lit rmo san acc :
    f_name f = None -> f_hard f = Some lit ->
    enc_instr rec flds (EField f) rmo san acc =
    match lit_value (f_ty f) lit with
    | Ok v => option_map (fun o => (o, rmo))
                (enc_value rec (f_ty f) v (match f_len f with LLit n => Some n | _ => None end) (f_padded f) 0 san)
    | Err _ => None
    end.
  Proof.
    intros Hn Hh. cbn [enc_instr]. unfold enc_field. rewrite Hn, Hh.
    destruct (lit_value (f_ty f) lit) as [v|e]; [|reflexivity].
    destruct (enc_value rec (f_ty f) v match f_len f with LLit n => Some n | _ => None end (f_padded f) 0 san); reflexivity.
  Qed.

  Lemma enc_dummy flds ty lit guarded rmo san acc :
    enc_instr rec flds (EDummy ty lit guarded) rmo san acc =
    if guarded && negb (match acc with [] => true | _ => false end) then Some ([], rmo)
    else match lit_value ty lit with
         | Ok v => option_map (fun o => (o, rmo)) (enc_value rec ty v None false 0 san)
         | Err _ => None
         end.
  Proof.
    cbn [enc_instr]. destruct (guarded && negb match acc with [] => true | _ :: _ => false end); [reflexivity|].
    destruct (lit_value ty lit) as [v|e]; [|reflexivity]. destruct (enc_value rec ty v None false 0 san); reflexivity.
  Qed.

  (* --- strings --- *)
  Lemma enc_string_field flds f name enc s rmo san acc :
    f_name f = Some name -> f_ty f = EStr enc -> assoc flds name = Some (VStr s) ->
    enc_instr rec flds (EField f) rmo san acc =
    let '(rmo', go) := opt_guard (f_optional f) (f_opt_first f) rmo (VStr s) in
    if go
    then if len_ok f (VStr s)
         then option_map (fun o => (o, rmo')) (enc_str san enc s (field_len f (VStr s)) (f_padded f))
         else None
    else Some ([], rmo').
  Proof.
    intros Hn Ht Ha. cbn [enc_instr]. unfold enc_field. rewrite Hn, Ha, Ht.
    destruct (opt_guard (f_optional f) (f_opt_first f) rmo (VStr s)) as [rmo' go].
    destruct go; cbn [negb]; [|reflexivity]. cbn [is_none]. rewrite andb_false_r.
    destruct (len_ok f (VStr s)); [|reflexivity]. cbn [enc_value].
    destruct (enc_str san enc s (field_len f (VStr s)) (f_padded f)); reflexivity.
  Qed.

  Lemma enc_padded_field flds f name enc s n rmo san acc :
    f_name f = Some name -> f_ty f = EStr enc -> f_len f = LLit n -> f_padded f = true ->
    assoc flds name = Some (VStr s) ->
    enc_instr rec flds (EField f) rmo san acc =
    let '(rmo', go) := opt_guard (f_optional f) (f_opt_first f) rmo (VStr s) in
    if go
    then if zlen s <=? n
         then Some (place enc (sanitize san (cp_encode s) ++ zrepeat 255 (n - zlen s)), rmo')
         else None
    else Some ([], rmo').
  Proof.
    intros Hn Ht Hl Hp Ha. rewrite (enc_string_field flds f name enc s rmo san acc Hn Ht Ha).
    destruct (opt_guard (f_optional f) (f_opt_first f) rmo (VStr s)) as [rmo' go].
    destruct go; [|reflexivity].
    unfold len_ok, len_check, field_len, enc_str. rewrite Hn, Hl, Hp. cbn [py_len].
    destruct (zlen s >? n) eqn:A; destruct (zlen s <=? n) eqn:B; try lia; reflexivity.
  Qed.

  (* --- switches --- *)
  Definition switch_key (fv : value) : option Z :=
    match fv with VInt z => Some z | VBool b => Some (if b then 1 else 0) | _ => None end.

  Lemma enc_switch flds field cases fv dv rmo san acc :
    assoc flds field = Some fv -> assoc flds (field ++ "_data")%string = Some dv ->
    enc_instr rec flds (ESwitch field cases) rmo san acc =
    match find_case cases (switch_key fv) with
    | Some (mkCase _ (Some cls)) =>
        match obj_class dv with
        | Some c' => if String.eqb c' cls then option_map (fun o => (o, rmo)) (rec cls dv san) else None
        | None => None
        end
    | _ => if is_none dv then Some ([], rmo) else None      (* empty case, or no case at all *)
    end.
  Proof.
    intros Hf Hd. cbn [enc_instr]. rewrite Hf, Hd. fold (switch_key fv).
    destruct (find_case cases (switch_key fv)) as [[k [cls|]]|]; cbn [c_cls]; try reflexivity.
  Qed.

  Definition key_matches (z : option Z) (c : ecase) : bool :=
    match c_key c with CKDefault => true | CKValue v => match z with Some x => x =? v | None => false end end.

  (* find_case = the first case, in document order, whose key is the field's value or which is the default *)
  Lemma find_case_spec cases z :
    match find_case cases z with
    | Some c => exists pre post, cases = pre ++ c :: post /\ key_matches z c = true /\
                                 forall c', In c' pre -> key_matches z c' = false
    | None => forall c', In c' cases -> key_matches z c' = false
    end.
  Proof.
    induction cases as [|c t IH]; cbn [find_case].
    - intros c' [].
    - assert (Hstep : find_case (c :: t) z = if key_matches z c then Some c else find_case t z).
      { cbn [find_case]. unfold key_matches. destruct (c_key c) as [v|]; [|reflexivity]. destruct z as [x|]; reflexivity. }
      cbn [find_case] in Hstep. rewrite Hstep. destruct (key_matches z c) eqn:K.
      + exists [], t. repeat split; [exact K | intros c' []].
      + destruct (find_case t z) as [c0|].
        * destruct IH as [pre [post [-> [Km Hpre]]]]. exists (c :: pre), post. repeat split; [exact Km|].
          intros c' [<-|Hin]; [exact K | now apply Hpre].
        * intros c' [<-|Hin]; [exact K | now apply IH].
  Qed.
End Structure.

(* a nested struct is encoded in the mode current at the field, and the parent's mode is untouched by it:
   the mode is a function of the instruction list alone *)
Lemma mode_after_static is san :
  mode_after is san = match find (fun i => match i with ESetMode _ => true | _ => false end) (rev is) with
                      | Some (ESetMode b) => b
                      | _ => san
                      end.
Proof.
  induction is as [|i is IH] using rev_ind; [reflexivity|].
  rewrite rev_app_distr. cbn [rev app find]. unfold mode_after. rewrite fold_left_app. cbn [fold_left].
  fold (mode_after is san). destruct i; cbn [instr_mode]; try exact IH. reflexivity.
Qed.

(* what a <chunked> section elaborates to (ESetMode true :: body ++ [ESetMode false]) encodes as its body in mode true,
   whatever the mode outside; after it the mode is false *)
Lemma enc_run_bracket rec flds es rmo san acc :
  enc_run rec flds (ESetMode true :: es ++ [ESetMode false]) rmo san acc = enc_run rec flds es rmo true acc.
Proof.
  cbn [enc_run enc_instr instr_mode]. rewrite app_nil_r. rewrite enc_run_app.
  destruct (enc_run rec flds es rmo true acc) as [[o1 rmo1]|]; [|reflexivity].
  cbn [enc_run enc_instr instr_mode app]. now rewrite !app_nil_r.
Qed.

Lemma mode_after_bracket es san : mode_after (ESetMode true :: es ++ [ESetMode false]) san = false.
Proof. unfold mode_after. cbn [fold_left]. rewrite fold_left_app. reflexivity. Qed.
