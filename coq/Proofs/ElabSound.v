(* Generator acceptance implies well-formedness of the elaborated package (under decidable side conditions,
   each shown necessary by a concrete accepted tree at the end of the file). *)
From EO Require Import Prelude.Py Model.Spec Model.Ser Model.Elab Model.WfEnv Model.Progress Model.NonDegen.
From EO Require Import Proofs.ElabAttr Proofs.Reject Proofs.DeserSafe Proofs.Terminate.
Open Scope string_scope.
Open Scope list_scope.
Open Scope Z_scope.

Set Default Timeout 60.

(* ================= (0) generalities on wf_instrs ================= *)
Definition wtrue : string -> bool -> bool := fun _ _ => true.

Fixpoint lens_out (lens : list string) (es : list einstr) : list string :=
  match es with [] => lens | i :: t => lens_out (lens_after lens i) t end.
Fixpoint modes_out (m : bool) (es : list einstr) : bool :=
  match es with [] => m | i :: t => modes_out (mode_after m i) t end.

Lemma lens_out_app : forall a b lens, lens_out lens (a ++ b) = lens_out (lens_out lens a) b.
Proof. induction a as [|i a IH]; intros b lens; cbn [app lens_out]; [reflexivity | apply IH]. Qed.
Lemma modes_out_app : forall a b m, modes_out m (a ++ b) = modes_out (modes_out m a) b.
Proof. induction a as [|i a IH]; intros b m; cbn [app modes_out]; [reflexivity | apply IH]. Qed.

Lemma wf_instrs_app W : forall a b m lens,
  wf_instrs W m lens (a ++ b) = wf_instrs W m lens a && wf_instrs W (modes_out m a) (lens_out lens a) b.
Proof.
  induction a as [|i a IH]; intros b m lens; [reflexivity|].
  change ((i :: a) ++ b) with (i :: (a ++ b)). rewrite !wf_instrs_cons. cbn [modes_out lens_out].
  rewrite IH. apply andb_assoc.
Qed.

(* references of a body, each with the static mode in force where it occurs *)
Definition irefs_m (m : bool) (i : einstr) : list (string * bool) := map (fun n => (n, m)) (instr_refs i).
Fixpoint mrefs (m : bool) (es : list einstr) : list (string * bool) :=
  match es with [] => [] | i :: t => irefs_m m i ++ mrefs (mode_after m i) t end.

Lemma mrefs_app : forall a b m, mrefs m (a ++ b) = mrefs m a ++ mrefs (modes_out m a) b.
Proof.
  induction a as [|i a IH]; intros b m; [reflexivity|].
  change ((i :: a) ++ b) with (i :: (a ++ b)). cbn [mrefs modes_out]. rewrite IH. apply app_assoc.
Qed.

Lemma mrefs_body_refs : forall es m n m', In (n, m') (mrefs m es) -> In n (body_refs es).
Proof.
  induction es as [|i t IH]; intros m n m' H; [destruct H|].
  cbn [mrefs] in H. unfold body_refs. cbn [flat_map]. apply in_or_app. apply in_app_or in H as [H|H].
  - left. unfold irefs_m in H. apply in_map_iff in H as [x [Hx Hin]]. injection Hx as <- _. exact Hin.
  - right. exact (IH _ _ _ H).
Qed.

Lemma type_ok_wtrue m ty : type_ok wtrue m ty = true.
Proof. destruct ty; reflexivity. Qed.

(* wf = local conditions + the referenced classes are wf in the mode of the reference *)
Lemma wf_instr_split W m lens i :
  wf_instr wtrue m lens i = true -> (forall n, In n (instr_refs i) -> W n m = true) -> wf_instr W m lens i = true.
Proof.
  destruct i as [f|f delimited trailing count|name t off optional o1 o2|ty lit guarded|field cases|b|];
    cbn [wf_instr instr_refs]; intros L R; try exact L.
  - rewrite type_ok_wtrue in L. replace (type_ok W m (f_ty f)) with true; [exact L|]. symmetry.
    destruct (f_ty f); try reflexivity. cbn [type_ok]. apply R. left. reflexivity.
  - rewrite type_ok_wtrue in L. replace (type_ok W m (f_ty f)) with true; [exact L|]. symmetry.
    destruct (f_ty f); try reflexivity. cbn [type_ok]. apply R. left. reflexivity.
  - apply andb_true_iff in L as [L1 _]. rewrite L1. cbn [andb]. apply forallb_forall. intros c Hin.
    destruct (c_cls c) as [cls|] eqn:CC; [|reflexivity]. apply R. exact (case_ref_In cases c cls Hin CC).
Qed.

Lemma wf_instrs_split W : forall es m lens,
  wf_instrs wtrue m lens es = true -> (forall n m', In (n, m') (mrefs m es) -> W n m' = true) ->
  wf_instrs W m lens es = true.
Proof.
  induction es as [|i t IH]; intros m lens L R; [reflexivity|].
  rewrite wf_instrs_cons in L |- *. apply andb_true_iff in L as [L1 L2]. apply andb_true_iff. split.
  - apply wf_instr_split; [exact L1|]. intros n Hn. apply R. cbn [mrefs]. apply in_or_app. left.
    unfold irefs_m. apply in_map_iff. exists n. split; [reflexivity | exact Hn].
  - apply IH; [exact L2|]. intros n m' Hn. apply R. cbn [mrefs]. apply in_or_app. right. exact Hn.
Qed.

Lemma wtrue_mono : forall es lens, wf_instrs wtrue false lens es = true -> wf_instrs wtrue true lens es = true.
Proof. apply wf_instrs_mono. reflexivity. Qed.

Lemma wtrue_le m0 m es lens : implb m0 m = true -> wf_instrs wtrue m0 lens es = true -> wf_instrs wtrue m lens es = true.
Proof. destruct m0, m; cbn [implb]; intros H L; try exact L; [discriminate H | apply wtrue_mono; exact L]. Qed.

Lemma mrefs_le : forall es m0 m, implb m0 m = true -> forall n m', In (n, m') (mrefs m es) ->
  exists m0', implb m0' m' = true /\ In (n, m0') (mrefs m0 es).
Proof.
  induction es as [|i t IH]; intros m0 m Hle n m' H; [destruct H|].
  cbn [mrefs] in H. apply in_app_or in H as [H|H].
  - unfold irefs_m in H. apply in_map_iff in H as [x [Hx Hin]]. injection Hx as <- <-.
    exists m0. split; [exact Hle|]. cbn [mrefs]. apply in_or_app. left. unfold irefs_m. apply in_map_iff. exists x. auto.
  - assert (Hle' : implb (mode_after m0 i) (mode_after m i) = true) by (destruct i; cbn [mode_after]; try exact Hle; destruct b; reflexivity).
    destruct (IH _ _ Hle' _ _ H) as [m0' [A B]]. exists m0'. split; [exact A|]. cbn [mrefs]. apply in_or_app. right. exact B.
Qed.

(* fix_refs only rewrites the last component of ELength: nothing above looks at it *)
Definition fix1 (all : list einstr) (i : einstr) : einstr :=
  match i with ELength n t off o of _ => ELength n t off o of (find_ref n all) | _ => i end.
Lemma fix_refs_map all : forall es, fix_refs all es = map (fix1 all) es.
Proof. induction es as [|i t IH]; [reflexivity|]. destruct i; cbn [fix_refs map fix1]; rewrite IH; reflexivity. Qed.

Lemma wf_instrs_fix W all : forall es m lens, wf_instrs W m lens (map (fix1 all) es) = wf_instrs W m lens es.
Proof.
  induction es as [|i t IH]; intros m lens; [reflexivity|]. cbn [map]. rewrite !wf_instrs_cons.
  replace (wf_instr W m lens (fix1 all i)) with (wf_instr W m lens i) by (destruct i; reflexivity).
  replace (mode_after m (fix1 all i)) with (mode_after m i) by (destruct i; reflexivity).
  replace (lens_after lens (fix1 all i)) with (lens_after lens i) by (destruct i; reflexivity).
  rewrite IH. reflexivity.
Qed.
Lemma mrefs_fix all : forall es m, mrefs m (map (fix1 all) es) = mrefs m es.
Proof.
  induction es as [|i t IH]; intros m; [reflexivity|]. cbn [map mrefs].
  replace (irefs_m m (fix1 all i)) with (irefs_m m i) by (destruct i; reflexivity).
  replace (mode_after m (fix1 all i)) with (mode_after m i) by (destruct i; reflexivity).
  rewrite IH. reflexivity.
Qed.

(* ================= (1) small facts about literals and numerals ================= *)
Lemma digits_nonneg s : forall acc, all_digits s = true -> 0 <= acc -> 0 <= digits_val s acc.
Proof.
  induction s as [|c s IHs]; intros acc H Ha; cbn [digits_val all_digits] in *; [exact Ha|].
  apply andb_true_iff in H as [Hc Hs]. apply IHs; [exact Hs|]. unfold is_digit in Hc.
  apply andb_true_iff in Hc as [H1 H2]. apply Nat.leb_le in H1. lia.
Qed.
Lemma isdigit_all s : isdigit s = true -> all_digits s = true.
Proof. destruct s; [discriminate | exact (fun H => H)]. Qed.
Lemma parse_int_isdigit lit : isdigit lit = true -> parse_int lit = Some (digits_val lit 0).
Proof.
  destruct lit as [|c t]; [discriminate|]. intros D.
  destruct c as [[|] [|] [|] [|] [|] [|] [|] [|]]; cbn [isdigit all_digits] in D;
    try (apply andb_true_iff in D as [D0 _]; discriminate D0); cbn [parse_int isdigit all_digits]; rewrite D; reflexivity.
Qed.

Lemma is_basic_ty t : is_basic t = basic_ty (ti_ty t).
Proof. unfold is_basic, basic_ty. destruct (ti_ty t); reflexivity. Qed.

Lemma literal_lit_ok t lit : check_unnamed_literal t lit = Ok tt -> lit_ok (ti_ty t) lit = true.
Proof.
  intros H. apply check_unnamed_literal_ok_inv in H. unfold lit_ok. destruct (ti_ty t); try contradiction; cbn [lit_value].
  - rewrite (parse_int_isdigit _ H), H. reflexivity.
  - destruct H as [-> | ->]; reflexivity.
  - reflexivity.
Qed.

Lemma get_type_struct_len T fuel tn len t n : get_type T fuel tn (Some len) = Ok t -> ti_ty t = EStruct n -> False.
Proof.
  destruct fuel as [|fuel]; [discriminate|]. cbn [get_type]. destruct (is_string_name tn); [|discriminate].
  intros H. injection H as <-. discriminate.
Qed.

Lemma wf_instrs_one W m lens i : wf_instrs W m lens [i] = wf_instr W m lens i.
Proof. rewrite wf_instrs_cons. cbn [wf_instrs]. apply andb_true_r. Qed.

Lemma forallb_wtrue m (cases : list ecase) :
  forallb (fun c => match c_cls c with Some cls => wtrue cls m | None => true end) cases = true.
Proof. apply forallb_forall. intros c _. destruct (c_cls c); reflexivity. Qed.

Lemma lenmap_mark_dom lm k l b : assoc (lenmap_mark lm k) l = Some b -> exists b', assoc lm l = Some b'.
Proof. rewrite assoc_lenmap_mark. destruct (String.eqb k l); destruct (assoc lm l) as [b0|]; intros H; try discriminate H; eauto. Qed.

(* ================= (2) the instruction-level lemmas ================= *)
Section Local.
  Variable T : tenv.
  Variable tfuel : nat.
  Notation EI := (elab_instrs T tfuel).
  Notation EH := (elab_head T tfuel).

  (* ---------- full inversions of the four leaf instructions ---------- *)
  Lemma field_full c name ty len padded optional text c' es :
    elab_field T tfuel c name ty len padded optional text = Ok (c', es) ->
    exists tn t l maxlen,
      get_type T tfuel tn len = Ok t /\ elab_len c len = Ok (l, maxlen) /\ check_length_attr c len = Ok tt /\
      (name = None -> text <> None) /\
      (forall lit, text = Some lit -> is_basic t = true /\ check_unnamed_literal t lit = Ok tt) /\
      (forall n, name = Some n -> assoc (cx_fields c) n = None) /\
      es = [EField (mkField name (ti_ty t) l (bool_attr padded false) (bool_attr optional false) (negb (cx_ropt c)) text maxlen)] /\
      c' = mkCtx (cx_chunked c) (cx_ropt c || flag_attr optional) (cx_rdummy c)
             (match name with Some n => cx_fields c ++ [(n, mkFD t 0 false)] | None => cx_fields c end)
             (match name, len with Some _, Some ln => lenmap_mark (cx_lenmap c) ln | _, _ => cx_lenmap c end) true.
  Proof.
    intros H. pose proof (elab_field_inv _ _ _ _ _ _ _ _ _ _ _ H) as (tn & t & l & maxlen & Hty & Hgt & Hel & Hes).
    apply elab_field_ok_inv in H. destruct H as (tn' & t' & lm' & Hty' & Hopt & Hunn & Hgt' & Hhard & Hlit & Hdup & Hlen & Helen & Hc').
    assert (tn' = tn) by congruence. subst tn'. assert (t' = t) by congruence. subst t'.
    exists tn, t, l, maxlen. repeat split; try assumption.
    - intros Hn. exact (proj2 (Hunn Hn)).
    - subst text. apply check_hardcoded_ok_inv in Hhard. exact (proj1 Hhard).
    - apply Hlit. assumption.
  Qed.

  Lemma array_full c name ty len optional delimited trailing c' es :
    elab_array T tfuel c name ty len optional delimited trailing = Ok (c', es) ->
    exists n tn t l maxlen,
      get_type T tfuel tn None = Ok t /\ elab_len c len = Ok (l, maxlen) /\ check_length_attr c len = Ok tt /\
      assoc (cx_fields c) n = None /\ (flag_attr delimited = true -> cx_chunked c = true) /\
      es = [EArray (mkField (Some n) (ti_ty t) l false (flag_attr optional) (negb (cx_ropt c)) None maxlen)
                   (flag_attr delimited) (bool_attr trailing true)
                   (match l with
                    | LNone => if flag_attr delimited then ACWhile else match ti_fixed t with Some sz => ACRemaining sz | None => ACWhile end
                    | _ => ACExpr end)] /\
      c' = mkCtx (cx_chunked c) (cx_ropt c || flag_attr optional) (cx_rdummy c) (cx_fields c ++ [(n, mkFD t 0 true)])
             (match len with Some ln => lenmap_mark (cx_lenmap c) ln | None => cx_lenmap c end) true.
  Proof.
    unfold elab_array, gt. intros H.
    bind_inv H u0 E0. bind_inv H u1 E1. bind_inv H n En. bind_inv H tn Etn. bind_inv H t Et.
    bind_inv H u2 E2. bind_inv H u3 E3. bind_inv H u4 E4. bind_inv H lm Elm. destruct lm as [l maxlen].
    apply require_ok in En, Etn. apply guard_ok in E0, E1, E2, E3. destruct u4.
    exists n, tn, t, l, maxlen. injection H as <- <-. repeat split; try assumption.
    - now destruct (assoc (cx_fields c) n).
    - intros Hd. rewrite Hd in E1. cbn [andb] in E1. now destruct (cx_chunked c).
  Qed.

  Lemma length_full c name ty offset optional c' es :
    elab_length T tfuel c name ty offset optional = Ok (c', es) ->
    exists n t i off,
      assoc (cx_fields c) n = None /\
      es = [ELength n i off (flag_attr optional) (negb (cx_ropt c)) None] /\
      c' = mkCtx (cx_chunked c) (cx_ropt c || flag_attr optional) (cx_rdummy c) (cx_fields c ++ [(n, mkFD t off false)])
             (cx_lenmap c ++ [(n, false)]) true.
  Proof.
    unfold elab_length, gt. intros H.
    bind_inv H u0 E0. bind_inv H n En. bind_inv H tn Etn. bind_inv H off Eoff. bind_inv H t Et. bind_inv H i Ei.
    bind_inv H u1 E1. apply guard_ok in E1.
    exists n, t, i, off. injection H as <- <-. repeat split. now destruct (assoc (cx_fields c) n).
  Qed.

  Lemma dummy_full c ty text c' es :
    elab_dummy T tfuel c ty text = Ok (c', es) ->
    exists tn lit t,
      get_type T tfuel tn None = Ok t /\ is_basic t = true /\
      es = [EDummy (ti_ty t) lit (cx_emitted c)] /\
      c' = mkCtx (cx_chunked c) (cx_ropt c) true (cx_fields c) (cx_lenmap c) true.
  Proof.
    intros H. pose proof (elab_dummy_inv _ _ _ _ _ _ _ H) as (tn & lit & t & Hty & Htx & Hgt & Hes).
    apply elab_dummy_ok_inv in H. destruct H as (tn' & lit' & t' & Hty' & Htx' & Hgt' & Hhard & Hlit & Hc').
    assert (tn' = tn) by congruence. subst tn'. assert (t' = t) by congruence. subst t'.
    exists tn, lit, t. repeat split; try assumption. apply check_hardcoded_ok_inv in Hhard. exact (proj1 Hhard).
  Qed.

  (* ---------- (A) structure: modes are balanced, and every reference of the emitted instructions is either a
     struct type resolved by get_type or a case class elaborated (from an empty field context, in the mode of the
     switch) whose definition and auxiliary classes are among the returned ones ---------- *)
  Definition PS (c : ctx) (es : list einstr) (c' : ctx) : Prop :=
    cx_chunked c' = cx_chunked c /\ modes_out (cx_chunked c) es = cx_chunked c.

  Definition RefOK (aux : list sdef) (n : string) (m : bool) : Prop :=
    (exists tn len t, get_type T tfuel tn len = Ok t /\ ti_ty t = EStruct n) \/
    (exists fuel cc body c'' es' aux', cx_chunked cc = m /\ cx_fields cc = [] /\ cx_lenmap cc = [] /\
       EI fuel n cc body = Ok (c'', es', aux') /\ In (mkSDef n es') aux /\ incl aux' aux).
  Definition PA (c : ctx) (es : list einstr) (aux : list sdef) : Prop :=
    forall n m, In (n, m) (mrefs (cx_chunked c) es) -> RefOK aux n m.

  Lemma RefOK_incl aux aux' n m : incl aux aux' -> RefOK aux n m -> RefOK aux' n m.
  Proof.
    intros Hi [H|H]; [left; exact H|]. right.
    destruct H as (fuel & cc & body & c'' & es' & aux0 & A & B & C & D & E & F).
    exists fuel, cc, body, c'', es', aux0. repeat split; try assumption; [apply Hi; exact E | intros x Hx; apply Hi, F, Hx].
  Qed.

  Lemma PA_single c i aux : (forall n, In n (instr_refs i) -> RefOK aux n (cx_chunked c)) -> PA c [i] aux.
  Proof.
    intros H n m Hin. cbn [mrefs] in Hin. rewrite app_nil_r in Hin. unfold irefs_m in Hin.
    apply in_map_iff in Hin as [x [Hx Hin]]. injection Hx as <- <-. apply H. exact Hin.
  Qed.

  Lemma ty_refs_ok aux tn len t m : get_type T tfuel tn len = Ok t -> forall n, In n (ty_refs (ti_ty t)) -> RefOK aux n m.
  Proof.
    intros Hgt n Hin. destruct (ti_ty t) as [| | | | |sn] eqn:Ety; cbn [ty_refs] in Hin; try contradiction.
    destruct Hin as [<-|[]]. left. exists tn, len, t. split; assumption.
  Qed.

  Lemma PS_single c c' i : cx_chunked c' = cx_chunked c -> (forall m, mode_after m i = m) -> PS c [i] c'.
  Proof. intros H1 H2. split; [exact H1|]. cbn [modes_out]. apply H2. Qed.

  Lemma cases_refs f' cls iface fname c : forall cs start ro rd ecs defs ro' rd',
    elab_cases (EI f') cls iface fname c cs start ro rd = Ok (ecs, defs, ro', rd') ->
    forall e ccls, In e ecs -> c_cls e = Some ccls ->
    exists body c'' es' aux', EI f' ccls (case_ctx c) body = Ok (c'', es', aux') /\ In (mkSDef ccls es') defs /\ incl aux' defs.
  Proof.
    induction cs as [|[v d b] more IH]; intros start ro rd ecs defs ro' rd' H e ccls Hin Hc.
    - cbn [elab_cases] in H. injection H as <- _ _ _. destruct Hin.
    - cbn [elab_cases] in H. fold (elab_cases (EI f') cls iface fname c) in H.
      bind_inv H suffix Es. bind_inv H u Eg. bind_inv H key Ek. bind_inv H x Ex. destruct x as [[c1 ocls] defs1].
      bind_inv H tlr Et. destruct tlr as [[[ecs2 defs2] ro2] rd2]. injection H as <- <- _ _.
      destruct Hin as [<-|Hin].
      + cbn [c_cls] in Hc. subst ocls. destruct b as [|i0 b0]; [discriminate Ex|].
        bind_inv Ex y Ey. destruct y as [[cy esy] auxy]. injection Ex as _ <- <-.
        exists (i0 :: b0), cy, esy, auxy. split; [exact Ey|]. split.
        * apply in_or_app. left. left. reflexivity.
        * intros x Hx. apply in_or_app. left. right. exact Hx.
      + destruct (IH _ _ _ _ _ _ _ Et e ccls Hin Hc) as (body & c'' & es' & aux' & A & B & C).
        exists body, c'', es', aux'. split; [exact A|]. split; [apply in_or_app; right; exact B|].
        intros x Hx. apply in_or_app. right. apply C, Hx.
  Qed.

  Lemma SA_head f' :
    (forall cls c is c' es aux, EI f' cls c is = Ok (c', es, aux) -> PS c es c' /\ PA c es aux) ->
    forall cls c i c' es aux, EH (EI f') cls c i = Ok (c', es, aux) -> PS c es c' /\ PA c es aux.
  Proof.
    intros IH cls c i c' es aux H. destruct i as [n ty l p o tx|n ty l o d tr|n ty off o|ty tx|field cases|body|].
    - apply EH_field_inv in H. apply field_full in H.
      destruct H as (tn & t & le & maxlen & Hgt & Hel & Hlen & Hunn & Hlit & Hdup & -> & ->). split.
      + apply PS_single; reflexivity.
      + apply PA_single. cbn [instr_refs f_ty]. apply (ty_refs_ok aux tn l t _ Hgt).
    - apply EH_array_inv in H. apply array_full in H.
      destruct H as (nm & tn & t & le & maxlen & Hgt & Hel & Hlen & Hdup & Hdel & -> & ->). split.
      + apply PS_single; reflexivity.
      + apply PA_single. cbn [instr_refs f_ty]. apply (ty_refs_ok aux tn None t _ Hgt).
    - apply EH_length_inv in H. apply length_full in H. destruct H as (nm & t & i & off' & Hdup & -> & ->). split.
      + apply PS_single; reflexivity.
      + apply PA_single. cbn [instr_refs]. intros x [].
    - apply EH_dummy_inv in H. apply dummy_full in H. destruct H as (tn & lit & t & Hgt & Hb & -> & ->). split.
      + apply PS_single; reflexivity.
      + apply PA_single. cbn [instr_refs]. apply (ty_refs_ok aux tn None t _ Hgt).
    - cbn [elab_head] in H. bind_inv H fname Ef. bind_inv H x Ex. destruct x as [[[ecs defs] ro] rd].
      injection H as <- <- <-. split.
      + apply PS_single; reflexivity.
      + apply PA_single. cbn [instr_refs cx_chunked]. intros x Hx. apply in_flat_map in Hx as [e [He Hx]].
        destruct (c_cls e) as [ccls|] eqn:Hc; [|destruct Hx]. destruct Hx as [<-|[]].
        destruct (cases_refs _ _ _ _ _ _ _ _ _ _ _ _ _ Ex e ccls He Hc) as (body & c'' & es' & aux' & A & B & C).
        right. exists f', (case_ctx c), body, c'', es', aux'. repeat split; assumption.
    - cbn [elab_head] in H. bind_inv H x Ex. destruct x as [[c2 es2] aux2]. injection H as <- <- <-.
      destruct (IH _ _ _ _ _ _ Ex) as [[S1 S2] A]. unfold PA in A. cbn [cx_chunked] in S1, S2, A.
      unfold PS, PA. cbn [cx_chunked].
      destruct (cx_chunked c) eqn:Hc.
      + split; [split; [reflexivity | exact S2]|]. exact A.
      + split; [split; [reflexivity|]|].
        * cbn [modes_out mode_after]. rewrite modes_out_app, S2. reflexivity.
        * intros x m Hin. cbn [mrefs mode_after irefs_m instr_refs map app] in Hin.
          rewrite mrefs_app in Hin. cbn [mrefs irefs_m instr_refs map app] in Hin. rewrite app_nil_r in Hin. exact (A x m Hin).
    - cbn [elab_head] in H. bind_inv H u Eg. apply guard_ok in Eg. injection H as <- <- <-. split.
      + apply PS_single; [cbn [cx_chunked]; symmetry; exact Eg | reflexivity].
      + apply PA_single. cbn [instr_refs]. intros x [].
  Qed.

  Lemma EI_SA : forall f cls c is c' es aux, EI f cls c is = Ok (c', es, aux) -> PS c es c' /\ PA c es aux.
  Proof.
    induction f as [|f IH]; intros cls c is c' es aux H; [discriminate H|].
    destruct is as [|i rest].
    - apply EI_nil_inv in H. injection H as -> -> ->. split; [split; reflexivity | intros n m Hin; destruct Hin].
    - apply EI_cons_inv in H. destruct H as (f' & c1 & es1 & aux1 & c2 & es2 & aux2 & Hf & Hd & Hh & Hr & Hres).
      injection Hf as <-. injection Hres as -> -> ->.
      destruct (SA_head f IH _ _ _ _ _ _ Hh) as [[S1 S2] A1]. destruct (IH _ _ _ _ _ _ Hr) as [[S3 S4] A2].
      unfold PA in A2. rewrite S1 in S3, S4, A2.
      split; [split|].
      + exact S3.
      + rewrite modes_out_app, S2. exact S4.
      + intros n m Hin. rewrite mrefs_app, S2 in Hin. apply in_app_or in Hin as [Hin|Hin].
        * apply RefOK_incl with aux1; [apply incl_appl, incl_refl | exact (A1 n m Hin)].
        * apply RefOK_incl with aux2; [apply incl_appr, incl_refl | exact (A2 n m Hin)].
  Qed.

  (* ---------- (B) local well-formedness.  O = names that must not be referenced as a length (the optional length
     fields of the class), SD = names a required length field must not carry (the `<field>_data` slots of the
     switches of the class) ---------- *)
  Variables O SD : list string.

  Definition lref_ok (f : fieldspec) : bool := match f_len f with LRef l => negb (mem_str l O) | _ => true end.
  Definition i_ok (i : einstr) : bool :=
    match i with
    | EField f => lref_ok f
    | EArray f _ _ cnt => lref_ok f && match cnt with ACRemaining sz => 0 <? sz | _ => true end
    | ELength n _ _ opt _ _ => if opt then mem_str n O else negb (mem_str n SD)
    | ESwitch f _ => mem_str (f ++ "_data")%string SD
    | _ => true
    end.
  Definition es_ok (es : list einstr) : bool := forallb i_ok es.

  Definition inv (c : ctx) (lens : list string) : Prop :=
    (forall l b, assoc (cx_lenmap c) l = Some b -> mem_str l lens = true \/ mem_str l O = true) /\
    (forall l, mem_str l lens = true -> (exists fd, assoc (cx_fields c) l = Some fd) /\ mem_str l SD = false).

  Definition PB (c : ctx) (es : list einstr) (c' : ctx) : Prop :=
    forall lens, es_ok es = true -> inv c lens ->
    wf_instrs wtrue (cx_chunked c) lens es = true /\ inv c' (lens_out lens es).

  Lemma inv_fresh c lens n : inv c lens -> assoc (cx_fields c) n = None -> mem_str n lens = false.
  Proof.
    intros [_ I2] Hn. destruct (mem_str n lens) eqn:M; [|reflexivity].
    destruct (proj1 (I2 n M)) as [fd Hfd]. congruence.
  Qed.

  Lemma inv_weaken c c' lens : inv c lens ->
    (forall l b, assoc (cx_lenmap c') l = Some b -> exists b', assoc (cx_lenmap c) l = Some b') ->
    (forall l fd, assoc (cx_fields c) l = Some fd -> exists fd', assoc (cx_fields c') l = Some fd') ->
    inv c' lens.
  Proof.
    intros [I1 I2] HL HF. split.
    - intros l b Hl. destruct (HL l b Hl) as [b' Hb']. exact (I1 l b' Hb').
    - intros l Hl. destruct (I2 l Hl) as [[fd Hfd] Hsd]. split; [exact (HF l fd Hfd) | exact Hsd].
  Qed.

  Lemma elab_len_ok c len l maxlen lens :
    elab_len c len = Ok (l, maxlen) -> check_length_attr c len = Ok tt -> inv c lens ->
    match l with LRef x => negb (mem_str x O) = true | _ => True end -> len_ok lens l = true.
  Proof.
    unfold elab_len. destruct len as [ln|]; intros H Hc Hi Ho.
    - destruct (isdigit ln) eqn:D.
      + injection H as <- _. cbn [len_ok]. apply Z.leb_le. apply digits_nonneg; [apply isdigit_all; exact D | lia].
      + destruct (assoc (cx_fields c) ln) as [fd|]; [|discriminate H].
        destruct (is_integer (fd_ti fd)); [|discriminate H]. injection H as <- _. cbn [len_ok].
        apply check_length_attr_ok_inv in Hc. destruct Hc as [[Hd|[b Hb]] _]; [congruence|].
        destruct (proj1 Hi ln b Hb) as [Hm|Hm]; [exact Hm|]. rewrite Hm in Ho. discriminate Ho.
    - injection H as <- _. reflexivity.
  Qed.

  Lemma PB_app c es1 c1 es2 c2 : PS c es1 c1 -> PB c es1 c1 -> PB c1 es2 c2 -> PB c (es1 ++ es2) c2.
  Proof.
    intros [S1 S2] B1 B2 lens Hok Hi. unfold es_ok in Hok. rewrite forallb_app in Hok. apply andb_true_iff in Hok as [Ho1 Ho2].
    destruct (B1 lens Ho1 Hi) as [W1 I1]. destruct (B2 _ Ho2 I1) as [W2 I2].
    rewrite wf_instrs_app, lens_out_app, W1, S2, <- S1, W2. split; [reflexivity | exact I2].
  Qed.

  Lemma PB_head f' :
    (forall cls c is c' es aux, EI f' cls c is = Ok (c', es, aux) -> PB c es c') ->
    forall cls c i c' es aux, EH (EI f') cls c i = Ok (c', es, aux) -> PB c es c'.
  Proof.
    intros IH cls c i c' es aux H. destruct i as [n ty l p o tx|n ty l o d tr|n ty off o|ty tx|field cases|body|].
    - apply EH_field_inv in H. apply field_full in H.
      destruct H as (tn & t & le & maxlen & Hgt & Hel & Hlen & Hunn & Hlit & Hdup & -> & ->).
      intros lens Hok Hi. cbn [es_ok forallb i_ok] in Hok. rewrite andb_true_r in Hok. unfold lref_ok in Hok. cbn [f_len] in Hok.
      rewrite wf_instrs_one. cbn [lens_out lens_after cx_chunked]. split.
      + cbn [wf_instr f_ty f_len f_name f_hard]. rewrite type_ok_wtrue.
        rewrite (elab_len_ok _ _ _ _ _ Hel Hlen Hi); [|destruct le; [exact I | exact I | exact Hok]]. cbn [andb].
        destruct n as [nm|].
        * rewrite (inv_fresh _ _ _ Hi (Hdup nm eq_refl)). cbn [negb]. destruct tx as [lit|]; [|reflexivity].
          rewrite andb_true_r. apply literal_lit_ok. exact (proj2 (Hlit lit eq_refl)).
        * destruct tx as [lit|]; [|exfalso; exact (Hunn eq_refl eq_refl)].
          rewrite <- is_basic_ty. exact (proj1 (Hlit lit eq_refl)).
      + apply inv_weaken with c; [exact Hi | |]; cbn [cx_lenmap cx_fields].
        * intros k b Hk. destruct n as [nm|]; [|eauto]. destruct l as [ln|]; [|eauto]. exact (lenmap_mark_dom _ _ _ _ Hk).
        * intros k fd Hk. destruct n as [nm|]; [|eauto]. exists fd. apply assoc_snoc_some. exact Hk.
    - apply EH_array_inv in H. apply array_full in H.
      destruct H as (nm & tn & t & le & maxlen & Hgt & Hel & Hlen & Hdup & Hdel & -> & ->).
      intros lens Hok Hi. cbn [es_ok forallb i_ok] in Hok. rewrite andb_true_r in Hok. apply andb_true_iff in Hok as [Hok1 Hok2].
      unfold lref_ok in Hok1. cbn [f_len] in Hok1.
      rewrite wf_instrs_one. cbn [lens_out lens_after cx_chunked]. split.
      + cbn [wf_instr f_ty f_len f_name f_hard]. rewrite type_ok_wtrue.
        rewrite (elab_len_ok _ _ _ _ _ Hel Hlen Hi); [|destruct le; [exact I | exact I | exact Hok1]].
        rewrite (inv_fresh _ _ _ Hi Hdup). cbn [negb andb].
        assert (Hm : negb (flag_attr d) || cx_chunked c = true).
        { destruct (flag_attr d); [rewrite (Hdel eq_refl)|]; reflexivity. }
        rewrite Hm. cbn [andb]. destruct le; [|reflexivity|reflexivity].
        destruct (flag_attr d); [reflexivity|]. destruct (ti_fixed t); [exact Hok2 | reflexivity].
      + apply inv_weaken with c; [exact Hi | |]; cbn [cx_lenmap cx_fields].
        * intros k b Hk. destruct l as [ln|]; [|eauto]. exact (lenmap_mark_dom _ _ _ _ Hk).
        * intros k fd Hk. exists fd. apply assoc_snoc_some. exact Hk.
    - apply EH_length_inv in H. apply length_full in H. destruct H as (nm & t & i & off' & Hdup & -> & ->).
      intros lens Hok Hi. cbn [es_ok forallb i_ok] in Hok. rewrite andb_true_r in Hok.
      rewrite wf_instrs_one. cbn [lens_out lens_after cx_chunked]. split.
      + cbn [wf_instr]. rewrite (inv_fresh _ _ _ Hi Hdup). reflexivity.
      + destruct Hi as [I1 I2]. split; cbn [cx_lenmap cx_fields].
        * intros k b Hk. rewrite assoc_snoc in Hk. destruct (assoc (cx_lenmap c) k) as [b0|] eqn:Hk0.
          -- destruct (I1 k b0 Hk0) as [Hm|Hm]; [|right; exact Hm]. left.
             destruct (flag_attr o); [exact Hm|]. cbn [mem_str]. rewrite Hm. apply orb_true_r.
          -- destruct (String.eqb nm k) eqn:Q; [|discriminate Hk]. apply String.eqb_eq in Q. subst k.
             destruct (flag_attr o); [right; exact Hok|]. left. cbn [mem_str]. rewrite String.eqb_refl. reflexivity.
        * intros k Hk.
          assert (Hcase : (flag_attr o = false /\ k = nm) \/ mem_str k lens = true).
          { destruct (flag_attr o); [right; exact Hk|]. cbn [mem_str] in Hk. apply orb_true_iff in Hk as [Hk|Hk]; [|right; exact Hk].
            left. apply String.eqb_eq in Hk. auto. }
          destruct Hcase as [[Ho ->]|Hk'].
          -- rewrite Ho in Hok. split; [apply assoc_snoc_same | apply negb_true_iff; exact Hok].
          -- destruct (I2 k Hk') as [[fd Hfd] Hsd]. split; [exists fd; apply assoc_snoc_some; exact Hfd | exact Hsd].
    - apply EH_dummy_inv in H. apply dummy_full in H. destruct H as (tn & lit & t & Hgt & Hb & -> & ->).
      intros lens Hok Hi. rewrite wf_instrs_one. cbn [lens_out lens_after cx_chunked]. split.
      + cbn [wf_instr]. rewrite <- is_basic_ty. exact Hb.
      + apply inv_weaken with c; [exact Hi | |]; cbn [cx_lenmap cx_fields]; eauto.
    - cbn [elab_head] in H. bind_inv H fname Ef. bind_inv H x Ex. destruct x as [[[ecs defs] ro] rd].
      injection H as <- <- <-.
      intros lens Hok Hi. cbn [es_ok forallb i_ok] in Hok. rewrite andb_true_r in Hok.
      rewrite wf_instrs_one. cbn [lens_out lens_after cx_chunked]. split.
      + cbn [wf_instr]. rewrite forallb_wtrue, andb_true_r. apply negb_true_iff.
        destruct (mem_str (fname ++ "_data")%string lens) eqn:M; [|reflexivity].
        pose proof (proj2 (proj2 Hi _ M)) as Hsd. congruence.
      + apply inv_weaken with c; [exact Hi | |]; cbn [cx_lenmap cx_fields]; eauto.
    - cbn [elab_head] in H. bind_inv H x Ex. destruct x as [[c2 es2] aux2]. injection H as <- <- <-.
      pose proof (IH _ _ _ _ _ _ Ex) as B. destruct (proj1 (EI_SA _ _ _ _ _ _ _ Ex)) as [S1 S2]. cbn [cx_chunked] in S1, S2.
      unfold PB in B |- *. cbn [cx_chunked] in B |- *.
      assert (Hin : forall lens, inv c lens -> inv (mkCtx true (cx_ropt c) (cx_rdummy c) (cx_fields c) (cx_lenmap c) (cx_emitted c || negb (cx_chunked c))) lens).
      { intros lens Hi. apply inv_weaken with c; [exact Hi | |]; cbn [cx_lenmap cx_fields]; eauto. }
      assert (Hout : forall lens, inv c2 lens -> inv (mkCtx (cx_chunked c) (cx_ropt c2) (cx_rdummy c2) (cx_fields c2) (cx_lenmap c2) (cx_emitted c2)) lens).
      { intros lens Hi. apply inv_weaken with c2; [exact Hi | |]; cbn [cx_lenmap cx_fields]; eauto. }
      destruct (cx_chunked c) eqn:Hc.
      + intros lens Hok Hi. destruct (B lens Hok (Hin lens Hi)) as [W I']. split; [exact W | apply Hout; exact I'].
      + intros lens Hok Hi. cbn [es_ok forallb i_ok andb] in Hok. unfold es_ok in B. rewrite forallb_app in Hok.
        apply andb_true_iff in Hok as [Hok _].
        destruct (B lens Hok (Hin lens Hi)) as [W I'].
        rewrite wf_instrs_cons. cbn [wf_instr mode_after lens_after andb lens_out].
        rewrite wf_instrs_app, lens_out_app, W, S2. cbn [wf_instrs lens_out lens_after andb]. split; [reflexivity | apply Hout; exact I'].
    - cbn [elab_head] in H. bind_inv H u Eg. apply guard_ok in Eg. injection H as <- <- <-.
      intros lens Hok Hi. rewrite wf_instrs_one. cbn [lens_out lens_after cx_chunked wf_instr]. split; [exact Eg|].
      apply inv_weaken with c; [exact Hi | |]; cbn [cx_lenmap cx_fields]; eauto.
  Qed.

  Lemma EI_PB : forall f cls c is c' es aux, EI f cls c is = Ok (c', es, aux) -> PB c es c'.
  Proof.
    induction f as [|f IH]; intros cls c is c' es aux H; [discriminate H|].
    destruct is as [|i rest].
    - apply EI_nil_inv in H. injection H as -> -> ->. intros lens _ Hi. split; [reflexivity | exact Hi].
    - apply EI_cons_inv in H. destruct H as (f' & c1 & es1 & aux1 & c2 & es2 & aux2 & Hf & Hd & Hh & Hr & Hres).
      injection Hf as <-. injection Hres as -> -> ->.
      apply PB_app with c1; [exact (proj1 (SA_head f (EI_SA f) _ _ _ _ _ _ Hh)) | exact (PB_head f IH _ _ _ _ _ _ Hh) | exact (IH _ _ _ _ _ _ Hr)].
  Qed.
End Local.

(* ================= (3) decidable side conditions on the elaborated package ================= *)
Lemma mem_str_In x : forall l, mem_str x l = true <-> In x l.
Proof.
  induction l as [|y t IH]; cbn [mem_str In]; [split; [discriminate | contradiction]|].
  rewrite orb_true_iff, IH, String.eqb_eq. split; intros [H|H]; auto.
Qed.

Lemma lens_required_weaker p : lens_required p = true -> opt_lens_unreferenced p = true.
Proof.
  unfold lens_required, opt_lens_unreferenced. intros H. rewrite forallb_forall in H |- *. intros d Hd. specialize (H d Hd).
  assert (Hn : opt_len_names (sd_body d) = []).
  { revert H. generalize (sd_body d). induction l as [|i t IH]; intros H; [reflexivity|].
    cbn [forallb] in H. apply andb_true_iff in H as [H1 H2]. unfold opt_len_names. cbn [flat_map].
    fold (opt_len_names t). rewrite (IH H2), app_nil_r. destruct i; try reflexivity. destruct optional; [discriminate H1 | reflexivity]. }
  unfold def_opt_lens_unreferenced. rewrite Hn. apply forallb_forall. intros i _.
  destruct i as [f|f ? ? ?| | | | |]; try reflexivity; destruct (f_len f); reflexivity.
Qed.

Lemma def_es_ok d : def_opt_lens_unreferenced d = true -> def_switch_data_fresh d = true -> def_arrays_sized d = true ->
  es_ok (opt_len_names (sd_body d)) (switch_data_names (sd_body d)) (sd_body d) = true.
Proof.
  unfold def_opt_lens_unreferenced, def_switch_data_fresh, def_arrays_sized, es_ok. intros H1 H2 H3.
  rewrite forallb_forall in H1, H2, H3 |- *. intros i Hi. specialize (H1 i Hi). specialize (H2 i Hi). specialize (H3 i Hi).
  destruct i as [f|f delimited trailing count|name t off optional o1 o2|ty lit guarded|field cases|b|]; cbn [i_ok]; try reflexivity.
  - exact H1.
  - unfold lref_ok. rewrite H1. cbn [andb]. destruct count; try reflexivity. exact H3.
  - destruct optional; [|exact H2]. apply mem_str_In. unfold opt_len_names. apply in_flat_map.
    exists (ELength name t off true o1 o2). split; [exact Hi | left; reflexivity].
  - apply mem_str_In. unfold switch_data_names. apply in_flat_map.
    exists (ESwitch field cases). split; [exact Hi | left; reflexivity].
Qed.

Lemma es_ok_fix O SD all : forall es, es_ok O SD (map (fix1 all) es) = es_ok O SD es.
Proof.
  unfold es_ok. induction es as [|i t IH]; [reflexivity|]. cbn [map forallb]. rewrite IH.
  replace (i_ok O SD (fix1 all i)) with (i_ok O SD i) by (destruct i; reflexivity). reflexivity.
Qed.

(* ================= (4) from instructions to classes ================= *)
Lemma env_find_dup_free : forall E d, dup_free (map sd_name E) = true -> In d E -> env_find E (sd_name d) = Some d.
Proof.
  induction E as [|d0 t IH]; intros d HD Hin; [destruct Hin|].
  cbn [map dup_free] in HD. apply andb_true_iff in HD as [H1 H2]. cbn [env_find]. destruct Hin as [->|Hin].
  - rewrite String.eqb_refl. reflexivity.
  - destruct (String.eqb (sd_name d0) (sd_name d)) eqn:Q; [|exact (IH d H2 Hin)].
    apply String.eqb_eq in Q. apply negb_true_iff in H1.
    assert (Hm : mem_str (sd_name d0) (map sd_name t) = true) by (apply mem_str_In; rewrite Q; apply in_map; exact Hin).
    congruence.
Qed.

Lemma env_find_some_in : forall E d, In d E -> exists d', env_find E (sd_name d) = Some d'.
Proof.
  induction E as [|d0 t IH]; intros d Hin; [destruct Hin|]. cbn [env_find].
  destruct (String.eqb (sd_name d0) (sd_name d)) eqn:Q; [eauto|]. destruct Hin as [->|Hin]; [|exact (IH d Hin)].
  rewrite String.eqb_refl in Q. discriminate Q.
Qed.

Section Classes.
  Variable T : tenv.
  Variable tfuel : nat.
  Variable E : env.
  Notation EI := (elab_instrs T tfuel).

  Hypothesis HD : dup_free (map sd_name E) = true.
  Hypothesis Hside : forall d, In d E ->
    def_opt_lens_unreferenced d = true /\ def_switch_data_fresh d = true /\ def_arrays_sized d = true.

  (* a class elaborated from an empty field context in a mode m0 <= m, whose definition and case classes are in E *)
  Definition Good (n : string) (m : bool) : Prop :=
    exists fuel c body c' es aux,
      implb (cx_chunked c) m = true /\ cx_fields c = [] /\ cx_lenmap c = [] /\
      EI fuel n c body = Ok (c', es, aux) /\ In (fix_def (mkSDef n es)) E /\ (forall d, In d aux -> In (fix_def d) E).

  (* every struct type that get_type resolves is elaborated at top level, into E *)
  Hypothesis HT : forall tn len t n, get_type T tfuel tn len = Ok t -> ti_ty t = EStruct n -> Good n false.

  Lemma Good_up n m : Good n false -> Good n m.
  Proof.
    intros (fuel & c & body & c' & es & aux & A & B). exists fuel, c, body, c', es, aux. split; [|exact B].
    destruct (cx_chunked c); [discriminate A | reflexivity].
  Qed.

  Lemma Good_closed n m : Good n m ->
    exists d, env_find E n = Some d /\ wf_instrs wtrue m [] (sd_body d) = true /\
              forall n' m', In (n', m') (mrefs m (sd_body d)) -> Good n' m'.
  Proof.
    intros (fuel & c & body & c' & es & aux & Hle & Hf & Hl & He & Hin & Haux).
    exists (fix_def (mkSDef n es)). split; [exact (env_find_dup_free E _ HD Hin)|].
    unfold fix_def. cbn [sd_body sd_name]. rewrite fix_refs_map. split.
    - rewrite wf_instrs_fix. apply wtrue_le with (cx_chunked c); [exact Hle|].
      destruct (Hside _ Hin) as (H1 & H2 & H3). pose proof (def_es_ok _ H1 H2 H3) as Hok.
      unfold fix_def in Hok. cbn [sd_body sd_name] in Hok. rewrite fix_refs_map in Hok. rewrite es_ok_fix in Hok.
      refine (proj1 (EI_PB T tfuel _ _ _ _ _ _ _ _ _ He [] Hok _)). split.
      + intros l b Hb. rewrite Hl in Hb. discriminate Hb.
      + intros l Hm. discriminate Hm.
    - rewrite mrefs_fix. intros n' m' Hr. destruct (mrefs_le es _ _ Hle _ _ Hr) as [m0' [Hle' Hr']].
      destruct (proj2 (EI_SA T tfuel _ _ _ _ _ _ _ He) n' m0' Hr') as [(tn & len & t & Hgt & Hty) | Hcase].
      + apply Good_up. exact (HT _ _ _ _ Hgt Hty).
      + destruct Hcase as (fuel' & cc & body' & c'' & es' & aux' & Hm & Hf' & Hl' & He' & Hin' & Hincl).
        exists fuel', cc, body', c'', es', aux'. rewrite Hm. repeat split; try assumption.
        * apply Haux. exact Hin'.
        * intros d Hd. apply Haux, Hincl, Hd.
  Qed.

  Lemma Good_wf : forall k n m, Good n m -> depth_le k E n = true -> wf_class k E n m = true.
  Proof.
    induction k as [|k IH]; intros n m HG HDp; [discriminate HDp|].
    destruct (Good_closed n m HG) as (d & Hfind & Hloc & Hrefs).
    cbn [depth_le] in HDp. cbn [wf_class]. rewrite Hfind in HDp |- *. rewrite forallb_forall in HDp.
    apply wf_instrs_split; [exact Hloc|]. intros n' m' Hr. apply IH; [exact (Hrefs _ _ Hr)|].
    apply HDp. exact (mrefs_body_refs _ _ _ _ Hr).
  Qed.
End Classes.

(* ================= (5) from classes to the package ================= *)
Lemma elab_object_inv T tfuel cls body defs : elab_object T tfuel cls body = Ok defs ->
  exists c' es aux, elab_instrs T tfuel (body_fuel body) cls ctx0 body = Ok (c', es, aux) /\
                    defs = map fix_def (mkSDef cls es :: aux).
Proof.
  unfold elab_object. intros H. bind_inv H x Ex. destruct x as [[c' es] aux]. exists c', es, aux.
  split; [exact Ex | congruence].
Qed.

(* a top-level class: elaborated by elab_object, all resulting definitions in E *)
Definition top_obj (T : tenv) (tfuel : nat) (E : env) (n : string) : Prop :=
  exists body ds, elab_object T tfuel n body = Ok ds /\ incl ds E.

Lemma top_obj_incl T tfuel E E' n : incl E E' -> top_obj T tfuel E n -> top_obj T tfuel E' n.
Proof. intros Hi (body & ds & A & B). exists body, ds. split; [exact A | intros x Hx; apply Hi, B, Hx]. Qed.

Lemma gen_file_defs T tfuel f defs es ps names : gen_file T tfuel f = Ok (defs, es, ps, names) ->
  (forall s, In s (rf_structs f) -> exists n, rs_name s = Some n /\ top_obj T tfuel defs n) /\
  (forall n, In n names -> In n (map pe_name es) \/ top_obj T tfuel defs n).
Proof.
  unfold gen_file. intros H. bind_inv H es0 E1. bind_inv H ss0 E2. bind_inv H ps0 E3. destruct ps0 as [[pd pp] pn].
  injection H as <- <- <- <-. clear E1.
  assert (HS : (forall s, In s (rf_structs f) -> exists n, rs_name s = Some n /\ top_obj T tfuel (fst ss0) n) /\
               (forall n, In n (snd ss0) -> top_obj T tfuel (fst ss0) n)).
  { clear E3. revert ss0 E2.
    match goal with |- forall ss0, ?P (rf_structs f) = _ -> _ =>
      assert (HP : forall l ss0, P l = Ok ss0 ->
                (forall s, In s l -> exists n, rs_name s = Some n /\ top_obj T tfuel (fst ss0) n) /\
                (forall n, In n (snd ss0) -> top_obj T tfuel (fst ss0) n)) end.
    { induction l as [|s0 l IHl]; intros ss0 H.
      - injection H as <-. split; [intros s [] | intros n []].
      - bind_inv H n En. bind_inv H ti Eti. bind_inv H u Eu. bind_inv H ds Ed. bind_inv H tlr Etl.
        injection H as <-. cbn [fst snd]. apply require_ok in En. destruct (IHl _ Etl) as [I1 I2].
        assert (Hn : top_obj T tfuel (ds ++ fst tlr) n).
        { exists (rs_body s0), ds. split; [exact Ed | apply incl_appl, incl_refl]. }
        split.
        + intros s [<-|Hin]; [exists n; split; [exact En | exact Hn]|].
          destruct (I1 s Hin) as [n' [A B]]. exists n'. split; [exact A|].
          apply top_obj_incl with (fst tlr); [apply incl_appr, incl_refl | exact B].
        + intros n' [<-|Hin]; [exact Hn|]. apply top_obj_incl with (fst tlr); [apply incl_appr, incl_refl | exact (I2 n' Hin)]. }
    intros ss0 E2. exact (HP _ _ E2). }
  assert (HPk : forall n, In n pn -> top_obj T tfuel pd n).
  { clear E2 HS. revert pd pp pn E3.
    match goal with |- forall pd pp pn, ?P (rf_packets f) = _ -> _ =>
      assert (HP : forall l pd pp pn, P l = Ok (pd, pp, pn) -> forall n, In n pn -> top_obj T tfuel pd n) end.
    { induction l as [|p0 l IHl]; intros pd pp pn H n Hin.
      - injection H as <- <- <-. destruct Hin.
      - bind_inv H suffix Es. bind_inv H fa Ef. bind_inv H ac Ea. bind_inv H fam Efam. bind_inv H u1 Ec1.
        bind_inv H act Eact. bind_inv H u2 Ec2. bind_inv H fv Efv. bind_inv H av Eav. bind_inv H dfs Ed.
        bind_inv H tlr Etl. destruct tlr as [[ds ps'] ns]. injection H as <- <- <-.
        destruct Hin as [<-|Hin].
        + exists (rp_body p0), dfs. split; [exact Ed | apply incl_appl, incl_refl].
        + apply top_obj_incl with ds; [apply incl_appr, incl_refl | exact (IHl _ _ _ Etl n Hin)]. }
    intros pd pp pn E3. exact (HP _ _ _ _ E3). }
  destruct HS as [HS1 HS2]. split.
  - intros s Hs. destruct (HS1 s Hs) as [n [A B]]. exists n. split; [exact A|].
    apply top_obj_incl with (fst ss0); [apply incl_appl, incl_refl | exact B].
  - intros n Hin. apply in_app_or in Hin as [Hin|Hin]; [left; exact Hin|]. right. apply in_app_or in Hin as [Hin|Hin].
    + apply top_obj_incl with (fst ss0); [apply incl_appl, incl_refl | exact (HS2 n Hin)].
    + apply top_obj_incl with pd; [apply incl_appr, incl_refl | exact (HPk n Hin)].
Qed.

Lemma elab_env fs p : elab fs = Ok p ->
  exists T, index_files [] fs = Ok T /\
    (forall f s, In f fs -> In s (rf_structs f) -> exists n, rs_name s = Some n /\ top_obj T (S (S (List.length T))) (pk_env p) n) /\
    (forall n, In n (top_classes p) -> In n (map pe_name (pk_enums p)) \/ top_obj T (S (S (List.length T))) (pk_env p) n).
Proof.
  unfold elab. intros H. bind_inv H T ET. exists T. split; [exact ET|].
  revert p H.
  match goal with |- forall p, ?G fs = _ -> _ =>
    assert (HG : forall l p, G l = Ok p ->
      (forall f s, In f l -> In s (rf_structs f) -> exists n, rs_name s = Some n /\ top_obj T (S (S (List.length T))) (pk_env p) n) /\
      (forall n, In n (top_classes p) -> In n (map pe_name (pk_enums p)) \/ top_obj T (S (S (List.length T))) (pk_env p) n)) end.
  { induction l as [|f0 l IHl]; intros p H.
    - injection H as <-. split; [intros f s [] | intros n []].
    - bind_inv H x Ex. destruct x as [[[defs es] ps] names]. bind_inv H p' Ep. injection H as <-.
      destruct (IHl _ Ep) as [I1 I2]. destruct (gen_file_defs _ _ _ _ _ _ _ Ex) as [G1 G2].
      unfold top_classes. cbn [pk_env pk_enums pk_files flat_map snd]. split.
      + intros f s [<-|Hf] Hs.
        * destruct (G1 s Hs) as [n [A B]]. exists n. split; [exact A|]. apply top_obj_incl with defs; [apply incl_appl, incl_refl | exact B].
        * destruct (I1 f s Hf Hs) as [n [A B]]. exists n. split; [exact A|]. apply top_obj_incl with (pk_env p'); [apply incl_appr, incl_refl | exact B].
      + intros n Hin. rewrite map_app. apply in_app_or in Hin as [Hin|Hin].
        * destruct (G2 n Hin) as [A|B]; [left; apply in_or_app; left; exact A|].
          right. apply top_obj_incl with defs; [apply incl_appl, incl_refl | exact B].
        * destruct (I2 n Hin) as [A|B]; [left; apply in_or_app; right; exact A|].
          right. apply top_obj_incl with (pk_env p'); [apply incl_appr, incl_refl | exact B]. }
  intros p H. exact (HG _ _ H).
Qed.

Lemma top_obj_Good T tfuel E n : top_obj T tfuel E n -> Good T tfuel E n false.
Proof.
  intros (body & ds & Ho & Hincl). apply elab_object_inv in Ho. destruct Ho as (c' & es & aux & He & ->).
  exists (body_fuel body), ctx0, body, c', es, aux. repeat split; try reflexivity; try exact He.
  - apply Hincl. left. reflexivity.
  - intros d Hd. apply Hincl. right. apply in_map. exact Hd.
Qed.

(* ================= (6) the theorems ================= *)
Theorem elab_wf_weak : forall fs p,
  elab fs = Ok p ->
  depth_ok (pk_env p) = true ->
  opt_lens_unreferenced p = true ->
  dup_free (map sd_name (pk_env p)) = true ->
  enum_names_fresh p = true ->
  switch_data_fresh p = true ->
  arrays_sized p = true ->
  wf_pkg p = true.
Proof.
  intros fs p He Hdepth Hopt Hdup Henum Hsw Harr.
  destruct (elab_env fs p He) as (T & HT & Hstructs & Htops).
  set (tfuel := S (S (List.length T))) in *. set (E := pk_env p) in *.
  assert (Hside : forall d, In d E ->
    def_opt_lens_unreferenced d = true /\ def_switch_data_fresh d = true /\ def_arrays_sized d = true).
  { intros d Hd. unfold opt_lens_unreferenced, switch_data_fresh, arrays_sized in *. fold E in Hopt, Hsw, Harr.
    rewrite forallb_forall in Hopt, Hsw, Harr. auto. }
  assert (HTs : forall tn len t n, get_type T tfuel tn len = Ok t -> ti_ty t = EStruct n -> Good T tfuel E n false).
  { intros tn len t n Hgt Hty. destruct len as [len|]; [exfalso; exact (get_type_struct_len _ _ _ _ _ _ Hgt Hty)|].
    destruct (get_type_struct_inv _ _ _ _ _ Hgt Hty) as [_ (s & path & Ha & Hn)].
    pose proof (indexed_key_struct _ _ _ _ _ HT Ha) as Hk. assert (n = tn) by congruence. subst n.
    destruct (index_files_origin _ _ _ _ _ HT Ha) as [H0|[f [Hf Hd]]]; [discriminate H0|].
    destruct Hd as [[e' [_ [_ Hr]]]|[s' [Hs [_ Hr]]]]; [discriminate Hr|]. injection Hr as <- _.
    destruct (Hstructs f s Hf Hs) as [n' [Hn' Ho]]. assert (n' = tn) by congruence. subst n'.
    apply top_obj_Good. exact Ho. }
  unfold wf_pkg. fold E. apply andb_true_iff. split.
  - apply forallb_forall. intros d Hd. destruct (env_find_some_in E d Hd) as [d' ->]. apply orb_true_r.
  - apply forallb_forall. intros n Hn. destruct (env_find E n) as [d|] eqn:Hfind; [|reflexivity].
    destruct (Htops n Hn) as [Henm|Hobj].
    + exfalso. apply in_map_iff in Henm as [e [Hen Hein]]. unfold enum_names_fresh in Henum. rewrite forallb_forall in Henum.
      specialize (Henum e Hein). apply negb_true_iff in Henum. fold E in Henum.
      destruct (env_find_In E n d Hfind) as [I1 I2].
      assert (Hm : mem_str (pe_name e) (map sd_name E) = true) by (apply mem_str_In; rewrite Hen, <- I2; apply in_map; exact I1).
      congruence.
    + apply (Good_wf T tfuel E Hdup Hside HTs).
      * apply top_obj_Good. exact Hobj.
      * apply depth_ok_class. exact Hdepth.
Qed.

Theorem elab_wf : forall fs p,
  elab fs = Ok p -> depth_ok (pk_env p) = true -> lens_required p = true ->
  dup_free (map sd_name (pk_env p)) = true -> enum_names_fresh p = true ->
  switch_data_fresh p = true -> arrays_sized p = true ->
  wf_pkg p = true.
Proof.
  intros fs p He Hd Hl. apply elab_wf_weak with fs; try assumption. apply lens_required_weaker. exact Hl.
Qed.

(* the instruction-level statement, for an arbitrary class oracle W: the emitted instructions are well-formed as soon
   as W accepts every reference in the mode where it occurs; EI_SA says what these references are (resolved struct
   types, and case classes elaborated in the mode of their switch from an empty field context) *)
Theorem elab_instrs_wf T tfuel O SD fuel cls c is c' es aux W lens :
  elab_instrs T tfuel fuel cls c is = Ok (c', es, aux) ->
  es_ok O SD es = true -> inv O SD c lens ->
  (forall n m, In (n, m) (mrefs (cx_chunked c) es) -> W n m = true) ->
  wf_instrs W (cx_chunked c) lens es = true /\ inv O SD c' (lens_out lens es) /\
  cx_chunked c' = cx_chunked c /\ modes_out (cx_chunked c) es = cx_chunked c.
Proof.
  intros He Hok Hi HW. destruct (EI_PB T tfuel O SD _ _ _ _ _ _ _ He lens Hok Hi) as [L I'].
  destruct (proj1 (EI_SA T tfuel _ _ _ _ _ _ _ He)) as [S1 S2].
  split; [apply wf_instrs_split; assumption|]. auto.
Qed.

(* ================= (7) every hypothesis is necessary: accepted trees violating exactly one of them ================= *)
Module Witness.
  Definition fld n t := RField (Some n) (Some t) None None None None.
  Definition st n b := mkRStruct (Some n) b.
  Definition one ss := [mkRFile "" [] ss []].
  (* depth_ok, opt_lens_unreferenced, dup_free, enum_names_fresh, switch_data_fresh, arrays_sized *)
  Definition hyps (p : pkg) : list bool :=
    [depth_ok (pk_env p); opt_lens_unreferenced p; dup_free (map sd_name (pk_env p)); enum_names_fresh p;
     switch_data_fresh p; arrays_sized p].
  Definition sw_break := [RChunked [fld "x" "char"; RSwitch (Some "x") [RCase (Some "1") None [RBreak]]]].

  (* struct Self { string s; Self me }: get_type stops scanning at the unbounded string *)
  Definition t_depth := one [st "Self" [fld "s" "string"; fld "me" "Self"]].
  (* optional length field referenced by a later field *)
  Definition t_optlen := one [st "A" [RLength (Some "n") (Some "char") None (Some "true");
                                      RField (Some "s") (Some "string") (Some "n") None (Some "true") None]].
  (* a struct literally named like the case class A.XData1 (which contains a break, in a chunked section) *)
  Definition t_dup := one [st "A" sw_break; st "A.XData1" [fld "y" "char"]].
  (* an enum named like that case class *)
  Definition t_enum := [mkRFile "" [mkREnum (Some "A.XData1") (Some "char") []] [st "A" sw_break] []].
  (* a required length field named x_data, then a switch on x *)
  Definition t_switch := one [st "A" [RLength (Some "x_data") (Some "char") None None; fld "x" "char";
                                      RSwitch (Some "x") [RCase (Some "1") None [fld "y" "char"]]]].
  (* an implied-length array of an empty struct: remaining / 0 *)
  Definition t_sized := one [st "Empty" []; st "B" [RArray (Some "xs") (Some "Empty") None None None None]].
End Witness.

Example elab_depth_refuted : exists fs p, elab fs = Ok p /\ depth_ok (pk_env p) = false.
Proof. exists Witness.t_depth. eexists. split; [vm_compute; reflexivity | vm_compute; reflexivity]. Qed.

Example depth_ok_needed : exists fs p, elab fs = Ok p /\ Witness.hyps p = [false; true; true; true; true; true] /\ wf_pkg p = false.
Proof. exists Witness.t_depth. eexists. split; [vm_compute; reflexivity | split; vm_compute; reflexivity]. Qed.

Example opt_lens_unreferenced_needed : exists fs p, elab fs = Ok p /\ Witness.hyps p = [true; false; true; true; true; true] /\ wf_pkg p = false.
Proof. exists Witness.t_optlen. eexists. split; [vm_compute; reflexivity | split; vm_compute; reflexivity]. Qed.

Example dup_free_needed : exists fs p, elab fs = Ok p /\ Witness.hyps p = [true; true; false; true; true; true] /\ wf_pkg p = false.
Proof. exists Witness.t_dup. eexists. split; [vm_compute; reflexivity | split; vm_compute; reflexivity]. Qed.

Example enum_names_fresh_needed : exists fs p, elab fs = Ok p /\ Witness.hyps p = [true; true; true; false; true; true] /\ wf_pkg p = false.
Proof. exists Witness.t_enum. eexists. split; [vm_compute; reflexivity | split; vm_compute; reflexivity]. Qed.

Example switch_data_fresh_needed : exists fs p, elab fs = Ok p /\ Witness.hyps p = [true; true; true; true; false; true] /\ wf_pkg p = false.
Proof. exists Witness.t_switch. eexists. split; [vm_compute; reflexivity | split; vm_compute; reflexivity]. Qed.

Example arrays_sized_needed : exists fs p, elab fs = Ok p /\ Witness.hyps p = [true; true; true; true; true; false] /\ wf_pkg p = false.
Proof. exists Witness.t_sized. eexists. split; [vm_compute; reflexivity | split; vm_compute; reflexivity]. Qed.

(* the statement of the task, with only depth_ok and lens_required, is therefore false *)
Example elab_wf_original_refuted : exists fs p,
  elab fs = Ok p /\ depth_ok (pk_env p) = true /\ lens_required p = true /\ wf_pkg p = false.
Proof. exists Witness.t_sized. eexists. split; [vm_compute; reflexivity | repeat split; vm_compute; reflexivity]. Qed.

(* opt_lens_unreferenced is strictly weaker than lens_required on accepted trees *)
Example weak_strictly_weaker : exists fs p,
  elab fs = Ok p /\ lens_required p = false /\ Witness.hyps p = [true; true; true; true; true; true] /\ wf_pkg p = true.
Proof.
  exists (Witness.one [Witness.st "A" [RLength (Some "n") (Some "char") None (Some "true")]]). eexists.
  split; [vm_compute; reflexivity | repeat split; vm_compute; reflexivity].
Qed.

(* REMAINING: nothing is left unproved.  Possible refinements (not needed for the theorems above):
   - dup_free (map sd_name (pk_env p)) could be weakened to "no CASE class shares its name with another class":
     clashes between two top-level classes (a packet class fa++ac++"ClientPacket" equal to a struct name) are harmless
     for wf_pkg, since every top-level class is well-formed in both modes; only a case class found first by env_find
     can break a reference (dup_free_needed).  The class-level lemma Good_closed is where dup_free is used
     (env_find_dup_free).
   - enum_names_fresh likewise matters only against case-class names. *)

Print Assumptions elab_wf.
Print Assumptions elab_wf_weak.
Print Assumptions elab_instrs_wf.
Print Assumptions elab_depth_refuted.
Print Assumptions elab_wf_original_refuted.
