(* Lemma library for property C16: a generated serializer refuses every object that violates its declaration.
   Plan: (1) writer facts - an accepted integer write is below the type's limit, every write only appends;
   (2) per statement: `ser_instr = Ok` implies `valid_instr = true` with the same reached_missing_optional,
       given that the nested serializer `rec` is sound for the nested validity `vc`;
   (3) induction on the instruction list, then on the fuel (nesting depth);
   (4) the refusal lemmas per violation kind; (5) prefix preservation. *)
From EO Require Import Prelude.Py Model.Limits Model.Number Model.StringEnc Model.Cp1252 Model.Writer Model.Spec
  Model.Ser Model.ValidDecl Proofs.Writer.
Open Scope Z_scope.
Set Default Timeout 60.

(* ---------------- integer writes ---------------- *)
Definition int_op (t : itype) (z : Z) : wop :=
  match t with TByte => WByte z | TChar => WChar z | TShort => WShort z | TThree => WThree z | TInt => WInt z end.

Lemma w_add_int_of_wstep t w z : w_add_int_of t w z = wstep w (int_op t z).
Proof. destruct t; reflexivity. Qed.

Lemma w_add_number_ok w n lim k w' r : w_add_number w n lim k = (w', Ok r) -> n <= lim - 1.
Proof.
  unfold w_add_number, check_number_size. destruct (n >? lim - 1) eqn:E; [discriminate|]. intros _. lia.
Qed.

(* the writer's range check: an accepted integer is below its type's limit (and, for bytes, not negative) *)
Lemma w_add_int_of_ok t w z w' r : w_add_int_of t w z = (w', Ok r) -> int_below t z = true.
Proof.
  destruct t; cbn [w_add_int_of int_below itype_max]; intros H.
  - unfold w_add_byte, check_number_size in H. destruct (z >? 255); [discriminate|].
    destruct ((0 <=? z) && (z <=? 255)) eqn:B; [reflexivity | discriminate].
  - unfold w_add_char in H. apply w_add_number_ok in H. unfold CHAR_MAX in H. lia.
  - unfold w_add_short in H. apply w_add_number_ok in H. unfold SHORT_MAX in H. lia.
  - unfold w_add_three in H. apply w_add_number_ok in H. unfold THREE_MAX in H. lia.
  - unfold w_add_int in H. apply w_add_number_ok in H. unfold INT_MAX in H. lia.
Qed.

Lemma w_add_int_of_over t w z : itype_max t < z -> w_add_int_of t w z = (w, Err EValue).
Proof.
  intros H. rewrite w_add_int_of_wstep. apply wstep_rejects. left. unfold op_over.
  destruct t; cbn [int_op op_limit itype_max] in *; unfold CHAR_MAX, SHORT_MAX, THREE_MAX, INT_MAX in *; lia.
Qed.

(* int_below is exactly "not above the maximum" (plus non-negativity for bytes) *)
Lemma int_below_false_over t z : int_below t z = false -> 0 <= z -> itype_max t < z.
Proof. destruct t; cbn [int_below itype_max]; intros H P; lia. Qed.

(* ---------------- writes only append ---------------- *)
Definition wext (w w' : wstate) : Prop := exists out, wdata w' = wdata w ++ out.

Lemma wext_refl w : wext w w.
Proof. exists []. now rewrite app_nil_r. Qed.

Lemma wext_trans a b c : wext a b -> wext b c -> wext a c.
Proof. intros [o1 H1] [o2 H2]. exists (o1 ++ o2). rewrite H2, H1. symmetry. apply app_assoc. Qed.

Lemma wstep_ext w o w' r : wstep w o = (w', r) -> wext w w'.
Proof.
  rewrite wstep_factor. destruct (wemit (wsan w) o) as [out|e]; intros H; injection H as <- <-.
  - exists out. reflexivity.
  - apply wext_refl.
Qed.

Lemma w_add_int_of_ext t w z w' r : w_add_int_of t w z = (w', r) -> wext w w'.
Proof. rewrite w_add_int_of_wstep. apply wstep_ext. Qed.

Lemma w_add_byte_ext w z w' r : w_add_byte w z = (w', r) -> wext w w'.
Proof. exact (wstep_ext w (WByte z) w' r). Qed.

Lemma w_set_san_ext w b : wext w (w_set_san w b).
Proof. exists []. cbn [w_set_san wdata]. now rewrite app_nil_r. Qed.

(* ---------------- the optional guard ---------------- *)
Lemma opt_guard_go optional first rmo v rmo' :
  opt_guard optional first rmo v = (rmo', true) -> optional = true -> is_none v = false.
Proof.
  unfold opt_guard. intros H ->. cbv beta zeta iota in H. injection H as H1 H2.
  destruct (is_none v); [|reflexivity]. rewrite orb_true_r in H2. discriminate.
Qed.

Lemma opt_guard_required first rmo v : opt_guard false first rmo v = (rmo, true).
Proof. reflexivity. Qed.

(* ---------------- the length check ---------------- *)
Lemma len_check_ok f v name : f_name f = Some name -> len_check f v = Ok tt -> valid_len f v = true.
Proof.
  unfold len_check, valid_len. intros ->. destruct (f_len f) as [|n|fr]; [reflexivity| |].
  - destruct (py_len v) as [l|]; [|discriminate]. destruct (f_padded f).
    + destruct (l >? n) eqn:E; [discriminate|]. intros _. lia.
    + destruct (l =? n) eqn:E; [reflexivity | discriminate].
  - destruct (py_len v) as [l|]; [|discriminate].
    destruct (l >? f_maxlen f) eqn:E; [discriminate|]. intros _. lia.
Qed.

Lemma len_check_bad f v name l : f_name f = Some name -> py_len v = Some l -> valid_len f v = false ->
  len_check f v = Err ESerialization.
Proof.
  unfold len_check, valid_len. intros -> ->. destruct (f_len f) as [|n|fr]; [discriminate| |].
  - destruct (f_padded f).
    + intros H. destruct (l >? n) eqn:E; [reflexivity | lia].
    + intros ->. reflexivity.
  - intros H. destruct (l >? f_maxlen f) eqn:E; [reflexivity | lia].
Qed.

(* the loop bound of an array: with the declared length respected, `range(n)` covers exactly the list *)
Lemma array_count_all f elems :
  valid_len f (VList elems) = true ->
  (Z.to_nat (match f_len f with LLit n => n | _ => zlen elems end) <= List.length elems)%nat ->
  Z.to_nat (match f_len f with LLit n => n | _ => zlen elems end) = List.length elems.
Proof.
  unfold valid_len. cbn [py_len]. unfold zlen.
  destruct (f_len f) as [|n|fr]; intros V L; try (apply Nat2Z.id).
  destruct (f_padded f); lia.
Qed.

(* ================= soundness of one struct body, relative to the nested serializer ================= *)
Section Body.
  Variable rec : string -> value -> wstate -> wres.
  Variable vc : string -> value -> bool.
  Hypothesis rec_ok : forall n x w w', rec n x w = (w', Ok tt) -> vc n x = true.

  Lemma ser_value_ok ty v len padded w w' :
    ser_value rec ty v len padded 0 w = (w', Ok tt) -> valid_value vc ty v = true.
  Proof.
    destruct ty as [t|t|nm t|enc| |n]; cbn [ser_value valid_value]; intros H.
    - destruct v as [|z|b|s|b|l|c fl]; try discriminate H.
      + rewrite Z.sub_0_r in H. exact (w_add_int_of_ok _ _ _ _ _ H).
      + reflexivity.
    - destruct v; reflexivity.
    - destruct v as [|z|b|s|b|l|c fl]; try discriminate H.
      + exact (w_add_int_of_ok _ _ _ _ _ H).
      + reflexivity.
    - destruct v as [|z|b|s|b|l|c fl]; try discriminate H. reflexivity.
    - destruct v as [|z|b|s|b|l|c fl]; try discriminate H. reflexivity.
    - exact (rec_ok _ _ _ _ H).
  Qed.

  Lemma ser_elems_ok ty d tr n : forall i elems w w',
    ser_elems rec ty d tr n i elems w = (w', Ok tt) ->
    (n <= List.length elems)%nat /\ forallb (valid_value vc ty) (firstn n elems) = true.
  Proof.
    induction n as [|n IH]; intros i elems w w' H.
    - split; [lia | reflexivity].
    - cbn [ser_elems] in H.
      destruct (if d && negb tr && (i >? 0) then w_add_byte w 255 else (w, Ok tt)) as [w1 r1] eqn:E1.
      destruct r1 as [u1|e1]; [|discriminate].
      destruct elems as [|x rest]; [discriminate|].
      destruct (ser_value rec ty x None false 0 w1) as [w2 r2] eqn:E2.
      destruct r2 as [u2|e2]; [|discriminate]. destruct u2.
      destruct (if d && tr then w_add_byte w2 255 else (w2, Ok tt)) as [w3 r3] eqn:E3.
      destruct r3 as [u3|e3]; [|discriminate].
      apply IH in H as [L F]. apply ser_value_ok in E2. cbn [List.length firstn forallb]. rewrite E2, F.
      split; [lia | reflexivity].
  Qed.

  Lemma ser_field_ok flds f rmo w w' rmo' :
    ser_field rec flds f rmo w = (w', Ok tt, rmo') -> valid_instr vc flds (EField f) rmo = (true, rmo').
  Proof.
    unfold ser_field. cbn [valid_instr]. destruct (f_name f) as [name|] eqn:N.
    - destruct (assoc flds name) as [v|]; [|discriminate].
      destruct (opt_guard (f_optional f) (f_opt_first f) rmo v) as [rmo1 go] eqn:G.
      destruct go; cbn [negb].
      + destruct (negb (f_optional f) && match f_hard f with Some _ => false | None => true end && is_none v) eqn:C;
          [discriminate|].
        destruct (len_check f v) as [[]|e] eqn:L; [|discriminate].
        destruct (ser_value rec (f_ty f) v) as [w2 r2] eqn:S. intros H. injection H as Hw Hr Hrmo. subst w2 r2 rmo1.
        assert (is_none v && match f_hard f with Some _ => false | None => true end = false) as ->.
        { destruct (f_optional f) eqn:O.
          - rewrite (opt_guard_go _ _ _ _ _ G eq_refl). reflexivity.
          - cbn [negb andb] in C. rewrite andb_comm. exact C. }
        rewrite (len_check_ok _ _ _ N L), (ser_value_ok _ _ _ _ _ _ S). reflexivity.
      + intros H. injection H as _ <-. reflexivity.
    - destruct (f_hard f) as [lit|]; [|discriminate].
      destruct (lit_value (f_ty f) lit) as [v|e]; [|discriminate].
      destruct (ser_value rec (f_ty f) v) as [w2 r2]. intros H. injection H as _ _ <-. reflexivity.
  Qed.

  Lemma ser_array_ok flds f d tr rmo w w' rmo' cnt :
    ser_array rec flds f d tr rmo w = (w', Ok tt, rmo') -> valid_instr vc flds (EArray f d tr cnt) rmo = (true, rmo').
  Proof.
    unfold ser_array. cbn [valid_instr]. destruct (f_name f) as [name|] eqn:N; [|discriminate].
    destruct (assoc flds name) as [v|]; [|discriminate].
    destruct (opt_guard (f_optional f) (f_opt_first f) rmo v) as [rmo1 go] eqn:G.
    destruct go; cbn [negb].
    - destruct (negb (f_optional f) && is_none v); [discriminate|].
      destruct (len_check f v) as [[]|e] eqn:L; [|discriminate].
      destruct v as [|z|b|s|b|elems|c fl]; try discriminate.
      destruct (ser_elems rec (f_ty f) d tr) as [w2 r2] eqn:S. intros H. injection H as Hw Hr Hrmo. subst w2 r2 rmo1.
      apply ser_elems_ok in S as [B F]. pose proof (len_check_ok _ _ _ N L) as V.
      rewrite (array_count_all _ _ V B), firstn_all in F. rewrite V, F. reflexivity.
    - intros H. injection H as _ <-. reflexivity.
  Qed.

  Lemma ser_instr_ok flds old i rmo w w' rmo' :
    ser_instr rec flds old i rmo w = (w', Ok tt, rmo') -> valid_instr vc flds i rmo = (true, rmo').
  Proof.
    destruct i as [f|f d tr cnt|name t off optional first ref_by|ty lit guarded|field cases|b|]; cbn [ser_instr].
    - apply ser_field_ok.
    - apply ser_array_ok.
    - cbn [valid_instr]. destruct ref_by as [fr|]; [|discriminate].
      destruct (assoc flds fr) as [fv|]; [|discriminate]. destruct (length_slot fv) as [sv|]; [|discriminate].
      destruct (opt_guard optional first rmo sv) as [rmo1 go]. destruct go; cbn [negb orb].
      + destruct sv as [|l|b0|s0|b0|l0|c0 fl0]; try discriminate.
        destruct (w_add_int_of t w (l - off)) as [w2 r2] eqn:A. intros H. injection H as Hw Hr Hrmo. subst w2 r2 rmo1.
        rewrite (w_add_int_of_ok _ _ _ _ _ A). reflexivity.
      + intros H. injection H as _ <-. reflexivity.
    - cbn [valid_instr]. destruct (guarded && negb (zlen (wdata w) =? old)).
      + intros H. injection H as _ <-. reflexivity.
      + destruct (lit_value ty lit) as [v|e]; [|discriminate].
        destruct (ser_value rec ty v None false 0 w) as [w2 r2]. intros H. injection H as _ _ <-. reflexivity.
    - cbn [valid_instr]. destruct (assoc flds field) as [fv|]; [|discriminate].
      destruct (assoc flds (field ++ "_data")%string) as [dv|]; [|discriminate].
      destruct (find_case cases _) as [c|].
      + destruct (c_cls c) as [cls|].
        * destruct (obj_class dv) as [c'|]; [|discriminate]. destruct (String.eqb c' cls); [|discriminate].
          destruct (rec cls dv w) as [w2 r2] eqn:R. intros H. injection H as Hw Hr Hrmo. subst w2 r2 rmo'.
          rewrite (rec_ok _ _ _ _ R). reflexivity.
        * destruct (is_none dv); [|discriminate]. intros H. injection H as _ <-. reflexivity.
      + destruct (is_none dv); [|discriminate]. intros H. injection H as _ <-. reflexivity.
    - cbn [valid_instr]. intros H. injection H as _ <-. reflexivity.
    - cbn [valid_instr]. destruct (w_add_byte w 255) as [w2 r2]. intros H. injection H as _ _ <-. reflexivity.
  Qed.

  Lemma ser_instrs_ok flds old is : forall rmo w w',
    ser_instrs rec flds old is rmo w = (w', Ok tt) -> valid_instrs vc flds is rmo = true.
  Proof.
    induction is as [|i t IH]; intros rmo w w' H; cbn [ser_instrs valid_instrs] in *; [reflexivity|].
    destruct (ser_instr rec flds old i rmo w) as [[w1 r1] rmo1] eqn:S.
    destruct r1 as [[]|e]; [|discriminate].
    rewrite (ser_instr_ok _ _ _ _ _ _ _ S). cbn [andb]. exact (IH _ _ _ H).
  Qed.

  Lemma ser_body_ok d v w w' : ser_body rec d v w = (w', Ok tt) -> valid_body vc d v = true.
  Proof.
    unfold ser_body, valid_body. destruct v as [|z|b|s|b|l|c flds];
      try (destruct (sd_body d); [reflexivity | discriminate]).
    destruct (ser_instrs rec flds (zlen (wdata w)) (sd_body d) false w) as [w1 r1] eqn:S.
    intros H. injection H as _ ->. exact (ser_instrs_ok _ _ _ _ _ _ S).
  Qed.
End Body.

(* ================= the knot: every nesting depth ================= *)
Theorem ser_struct_ok fuel E : forall cls v w w', ser_struct fuel E cls v w = (w', Ok tt) -> valid_decl fuel E cls v = true.
Proof.
  induction fuel as [|fuel IH]; intros cls v w w' H; cbn [ser_struct valid_decl] in *; [discriminate|].
  destruct (env_find E cls) as [d|]; [|discriminate].
  exact (ser_body_ok (ser_struct fuel E) (valid_decl fuel E) IH d v w w' H).
Qed.

Theorem ser_struct_refuses fuel E cls v w : valid_decl fuel E cls v = false -> exists e, snd (ser_struct fuel E cls v w) = Err e.
Proof.
  intros V. destruct (ser_struct fuel E cls v w) as [w' [[]|e]] eqn:S.
  - apply ser_struct_ok in S. congruence.
  - exists e. reflexivity.
Qed.

(* ================= refusal, per violation kind ================= *)
Section Refusals.
  Variable rec : string -> value -> wstate -> wres.

  Lemma field_required_none flds old f name rmo w :
    f_name f = Some name -> f_optional f = false -> f_hard f = None -> assoc flds name = Some VNone ->
    ser_instr rec flds old (EField f) rmo w = (w, Err ESerialization, rmo).
  Proof. intros N O Hd A. cbn [ser_instr]. unfold ser_field. rewrite N, A, O, Hd. reflexivity. Qed.

  Lemma array_required_none flds old f d tr cnt name rmo w :
    f_name f = Some name -> f_optional f = false -> assoc flds name = Some VNone ->
    ser_instr rec flds old (EArray f d tr cnt) rmo w = (w, Err ESerialization, rmo).
  Proof. intros N O A. cbn [ser_instr]. unfold ser_array. rewrite N, A, O. reflexivity. Qed.

  Lemma field_length_violation flds old f name v l rmo w :
    f_name f = Some name -> f_optional f = false -> assoc flds name = Some v -> is_none v = false ->
    valid_len f v = false -> py_len v = Some l ->
    ser_instr rec flds old (EField f) rmo w = (w, Err ESerialization, rmo).
  Proof.
    intros N O A NN V L. cbn [ser_instr]. unfold ser_field. rewrite N, A, O, NN. cbn [opt_guard negb andb].
    rewrite andb_false_r. rewrite (len_check_bad _ _ _ _ N L V). reflexivity.
  Qed.

  (* optional or not: whenever the guard lets the field's statements run *)
  Lemma field_length_violation_guarded flds old f name v l rmo rmo' w :
    f_name f = Some name -> assoc flds name = Some v -> is_none v = false ->
    opt_guard (f_optional f) (f_opt_first f) rmo v = (rmo', true) ->
    valid_len f v = false -> py_len v = Some l ->
    ser_instr rec flds old (EField f) rmo w = (w, Err ESerialization, rmo').
  Proof.
    intros N A NN G V L. cbn [ser_instr]. unfold ser_field. rewrite N, A, G, NN. cbn [negb].
    rewrite andb_false_r. rewrite (len_check_bad _ _ _ _ N L V). reflexivity.
  Qed.

  Lemma array_length_violation_guarded flds old f d tr cnt name elems rmo rmo' w :
    f_name f = Some name -> assoc flds name = Some (VList elems) ->
    opt_guard (f_optional f) (f_opt_first f) rmo (VList elems) = (rmo', true) ->
    valid_len f (VList elems) = false ->
    ser_instr rec flds old (EArray f d tr cnt) rmo w = (w, Err ESerialization, rmo').
  Proof.
    intros N A G V. cbn [ser_instr]. unfold ser_array. rewrite N, A, G. cbn [negb is_none].
    rewrite andb_false_r. rewrite (len_check_bad f (VList elems) name (zlen elems) N eq_refl V). reflexivity.
  Qed.

  (* the same for required arrays *)
  Lemma array_length_violation flds old f d tr cnt name elems rmo w :
    f_name f = Some name -> f_optional f = false -> assoc flds name = Some (VList elems) ->
    valid_len f (VList elems) = false ->
    ser_instr rec flds old (EArray f d tr cnt) rmo w = (w, Err ESerialization, rmo).
  Proof.
    intros N O A V. cbn [ser_instr]. unfold ser_array. rewrite N, A, O. cbn [opt_guard negb andb is_none].
    rewrite (len_check_bad f (VList elems) name (zlen elems) N eq_refl V). reflexivity.
  Qed.

  Lemma value_int_at_limit t z len padded w : itype_max t < z -> ser_value rec (EInt t) (VInt z) len padded 0 w = (w, Err EValue).
  Proof. intros H. cbn [ser_value]. rewrite Z.sub_0_r. now apply w_add_int_of_over. Qed.

  Lemma value_enum_at_limit nm t z len padded off w : itype_max t < z -> ser_value rec (EEnum nm t) (VInt z) len padded off w = (w, Err EValue).
  Proof. intros H. cbn [ser_value]. now apply w_add_int_of_over. Qed.

  (* at the level of a field statement *)
  Lemma field_int_at_limit flds old f name t z rmo w :
    f_name f = Some name -> f_optional f = false -> f_len f = LNone -> f_ty f = EInt t ->
    assoc flds name = Some (VInt z) -> itype_max t < z ->
    ser_instr rec flds old (EField f) rmo w = (w, Err EValue, rmo).
  Proof.
    intros N O L T A H. cbn [ser_instr]. unfold ser_field, len_check. rewrite N, A, O, L, T.
    cbn [opt_guard negb andb is_none]. rewrite andb_false_r. rewrite (value_int_at_limit _ _ _ _ _ H). reflexivity.
  Qed.

  Lemma switch_wrong_case_data flds old field cases z dv c rmo w :
    assoc flds field = Some (VInt z) -> assoc flds (field ++ "_data")%string = Some dv ->
    find_case cases (Some z) = Some c ->
    (match c_cls c with None => is_none dv = false | Some cls => obj_class dv <> Some cls end) ->
    ser_instr rec flds old (ESwitch field cases) rmo w = (w, Err ESerialization, rmo).
  Proof.
    intros A D F K. cbn [ser_instr]. rewrite A, D, F. destruct (c_cls c) as [cls|].
    - destruct (obj_class dv) as [c'|]; [|reflexivity]. destruct (String.eqb c' cls) eqn:Q; [|reflexivity].
      apply String.eqb_eq in Q. subst c'. exfalso. apply K. reflexivity.
    - rewrite K. reflexivity.
  Qed.

  Lemma switch_unmatched_case_data flds old field cases z dv rmo w :
    assoc flds field = Some (VInt z) -> assoc flds (field ++ "_data")%string = Some dv ->
    find_case cases (Some z) = None -> is_none dv = false ->
    ser_instr rec flds old (ESwitch field cases) rmo w = (w, Err ESerialization, rmo).
  Proof. intros A D F K. cbn [ser_instr]. rewrite A, D, F, K. reflexivity. Qed.
End Refusals.

(* ================= earlier output is kept; the mode is restored ================= *)
Section Prefix.
  Variable rec : string -> value -> wstate -> wres.
  Hypothesis rec_ext : forall n x w w' r, rec n x w = (w', r) -> wext w w'.

  Lemma ser_value_ext ty v len padded off w w' r : ser_value rec ty v len padded off w = (w', r) -> wext w w'.
  Proof.
    destruct ty as [t|t|nm t|enc| |n]; cbn [ser_value].
    - destruct v; try (intros H; injection H as <- _; apply wext_refl); apply w_add_int_of_ext.
    - apply w_add_int_of_ext.
    - destruct v; try (intros H; injection H as <- _; apply wext_refl); apply w_add_int_of_ext.
    - destruct v as [|z|b|s|b|l|c fl]; try (intros H; injection H as <- _; apply wext_refl).
      destruct len as [k|]; destruct enc.
      + exact (wstep_ext w (WFixedEnc s k padded) w' r).
      + exact (wstep_ext w (WFixed s k padded) w' r).
      + exact (wstep_ext w (WEnc s) w' r).
      + exact (wstep_ext w (WString s) w' r).
    - destruct v as [|z|b|s|b|l|c fl]; try (intros H; injection H as <- _; apply wext_refl).
      exact (wstep_ext w (WBytes b) w' r).
    - apply rec_ext.
  Qed.

  Lemma ser_elems_ext ty d tr n : forall i elems w w' r, ser_elems rec ty d tr n i elems w = (w', r) -> wext w w'.
  Proof.
    induction n as [|n IH]; intros i elems w w' r H; cbn [ser_elems] in H.
    - injection H as <- _. apply wext_refl.
    - destruct (if d && negb tr && (i >? 0) then w_add_byte w 255 else (w, Ok tt)) as [w1 r1] eqn:E1.
      assert (wext w w1) as X1.
      { destruct (d && negb tr && (i >? 0)); [exact (w_add_byte_ext _ _ _ _ E1) | injection E1 as <- _; apply wext_refl]. }
      destruct r1 as [u1|e1]; [|injection H as <- _; exact X1].
      destruct elems as [|x rest]; [injection H as <- _; exact X1|].
      destruct (ser_value rec ty x None false 0 w1) as [w2 r2] eqn:E2.
      pose proof (wext_trans _ _ _ X1 (ser_value_ext _ _ _ _ _ _ _ _ E2)) as X2.
      destruct r2 as [u2|e2]; [|injection H as <- _; exact X2].
      destruct (if d && tr then w_add_byte w2 255 else (w2, Ok tt)) as [w3 r3] eqn:E3.
      assert (wext w w3) as X3.
      { apply (wext_trans _ _ _ X2).
        destruct (d && tr); [exact (w_add_byte_ext _ _ _ _ E3) | injection E3 as <- _; apply wext_refl]. }
      destruct r3 as [u3|e3]; [|injection H as <- _; exact X3].
      exact (wext_trans _ _ _ X3 (IH _ _ _ _ _ H)).
  Qed.

  Lemma ser_instr_ext flds old i rmo w w' r rmo' : ser_instr rec flds old i rmo w = (w', r, rmo') -> wext w w'.
  Proof.
    destruct i as [f|f d tr cnt|name t off optional first ref_by|ty lit guarded|field cases|b|]; cbn [ser_instr].
    - unfold ser_field. destruct (f_name f) as [name|].
      + destruct (assoc flds name) as [v|]; [|intros H; injection H as <- _ _; apply wext_refl].
        destruct (opt_guard (f_optional f) (f_opt_first f) rmo v) as [rmo1 go].
        destruct (negb go); [intros H; injection H as <- _ _; apply wext_refl|].
        destruct (negb (f_optional f) && _ && is_none v); [intros H; injection H as <- _ _; apply wext_refl|].
        destruct (len_check f v); [|intros H; injection H as <- _ _; apply wext_refl].
        destruct (ser_value rec (f_ty f) v) as [w2 r2] eqn:S. intros H. injection H as <- _ _.
        exact (ser_value_ext _ _ _ _ _ _ _ _ S).
      + destruct (f_hard f) as [lit|]; [|intros H; injection H as <- _ _; apply wext_refl].
        destruct (lit_value (f_ty f) lit) as [v|e]; [|intros H; injection H as <- _ _; apply wext_refl].
        destruct (ser_value rec (f_ty f) v) as [w2 r2] eqn:S. intros H. injection H as <- _ _.
        exact (ser_value_ext _ _ _ _ _ _ _ _ S).
    - unfold ser_array. destruct (f_name f) as [name|]; [|intros H; injection H as <- _ _; apply wext_refl].
      destruct (assoc flds name) as [v|]; [|intros H; injection H as <- _ _; apply wext_refl].
      destruct (opt_guard (f_optional f) (f_opt_first f) rmo v) as [rmo1 go].
      destruct (negb go); [intros H; injection H as <- _ _; apply wext_refl|].
      destruct (negb (f_optional f) && is_none v); [intros H; injection H as <- _ _; apply wext_refl|].
      destruct (len_check f v); [|intros H; injection H as <- _ _; apply wext_refl].
      destruct v as [|z|b|s|b|elems|c fl]; try (intros H; injection H as <- _ _; apply wext_refl).
      destruct (ser_elems rec (f_ty f) d tr) as [w2 r2] eqn:S. intros H. injection H as <- _ _.
      exact (ser_elems_ext _ _ _ _ _ _ _ _ _ S).
    - destruct ref_by as [fr|]; [|intros H; injection H as <- _ _; apply wext_refl].
      destruct (assoc flds fr) as [fv|]; [|intros H; injection H as <- _ _; apply wext_refl].
      destruct (length_slot fv) as [sv|]; [|intros H; injection H as <- _ _; apply wext_refl].
      destruct (opt_guard optional first rmo sv) as [rmo1 go].
      destruct (negb go); [intros H; injection H as <- _ _; apply wext_refl|].
      destruct sv as [|l|b0|s0|b0|l0|c0 fl0]; try (intros H; injection H as <- _ _; apply wext_refl).
      destruct (w_add_int_of t w (l - off)) as [w2 r2] eqn:A. intros H. injection H as <- _ _.
      exact (w_add_int_of_ext _ _ _ _ _ A).
    - destruct (guarded && negb (zlen (wdata w) =? old)); [intros H; injection H as <- _ _; apply wext_refl|].
      destruct (lit_value ty lit) as [v|e]; [|intros H; injection H as <- _ _; apply wext_refl].
      destruct (ser_value rec ty v None false 0 w) as [w2 r2] eqn:S. intros H. injection H as <- _ _.
      exact (ser_value_ext _ _ _ _ _ _ _ _ S).
    - destruct (assoc flds field) as [fv|]; [|intros H; injection H as <- _ _; apply wext_refl].
      destruct (assoc flds (field ++ "_data")%string) as [dv|]; [|intros H; injection H as <- _ _; apply wext_refl].
      destruct (find_case cases _) as [c|].
      + destruct (c_cls c) as [cls|].
        * destruct (obj_class dv) as [c'|]; [|intros H; injection H as <- _ _; apply wext_refl].
          destruct (String.eqb c' cls); [|intros H; injection H as <- _ _; apply wext_refl].
          destruct (rec cls dv w) as [w2 r2] eqn:R. intros H. injection H as <- _ _. exact (rec_ext _ _ _ _ _ R).
        * destruct (is_none dv); intros H; injection H as <- _ _; apply wext_refl.
      + destruct (is_none dv); intros H; injection H as <- _ _; apply wext_refl.
    - intros H. injection H as <- _ _. apply w_set_san_ext.
    - destruct (w_add_byte w 255) as [w2 r2] eqn:A. intros H. injection H as <- _ _. exact (w_add_byte_ext _ _ _ _ A).
  Qed.

  Lemma ser_instrs_ext flds old is : forall rmo w w' r, ser_instrs rec flds old is rmo w = (w', r) -> wext w w'.
  Proof.
    induction is as [|i t IH]; intros rmo w w' r H; cbn [ser_instrs] in H.
    - injection H as <- _. apply wext_refl.
    - destruct (ser_instr rec flds old i rmo w) as [[w1 r1] rmo1] eqn:S. apply ser_instr_ext in S.
      destruct r1 as [u|e].
      + exact (wext_trans _ _ _ S (IH _ _ _ _ H)).
      + injection H as <- _. exact S.
  Qed.

  Lemma ser_body_ext d v w w' r : ser_body rec d v w = (w', r) -> wext w w' /\ wsan w' = wsan w.
  Proof.
    unfold ser_body. destruct v as [|z|b|s|b|l|c flds];
      try (destruct (sd_body d); intros H; injection H as <- _; (split; [apply wext_refl | reflexivity])).
    destruct (ser_instrs rec flds (zlen (wdata w)) (sd_body d) false w) as [w1 r1] eqn:S.
    intros H. injection H as <- _. split; [|reflexivity].
    exact (wext_trans _ _ _ (ser_instrs_ext _ _ _ _ _ _ _ S) (w_set_san_ext _ _)).
  Qed.
End Prefix.

Theorem ser_struct_ext fuel E : forall cls v w w' r, ser_struct fuel E cls v w = (w', r) -> wext w w' /\ wsan w' = wsan w.
Proof.
  induction fuel as [|fuel IH]; intros cls v w w' r H; cbn [ser_struct] in H.
  - injection H as <- _. split; [apply wext_refl | reflexivity].
  - destruct (env_find E cls) as [d|].
    + apply (ser_body_ext (ser_struct fuel E)) in H; [exact H|].
      intros n x w0 w0' r0 H0. exact (proj1 (IH _ _ _ _ _ H0)).
    + injection H as <- _. split; [apply wext_refl | reflexivity].
Qed.
