From EO Require Import Prelude.Py Model.Encrypt.
From Coq Require Import Permutation ZifyNat.
Open Scope Z_scope.
Set Default Timeout 120.

(* ---------------- flip ---------------- *)
Fixpoint zrange (lo : Z) (n : nat) : list Z :=
  match n with O => [] | S n' => lo :: zrange (lo + 1) n' end.
Lemma zrange_in lo n x : lo <= x < lo + Z.of_nat n -> In x (zrange lo n).
Proof.
  revert lo; induction n as [|n IH]; intros lo H; [lia|]. cbn [zrange].
  destruct (Z.eq_dec lo x); [left; assumption | right; apply IH; lia].
Qed.

Definition flip_arith (b : Z) : Z := if b mod 128 =? 0 then b else if b <? 128 then b + 128 else b - 128.

Lemma flip_sweep : forallb (fun b => (flip b =? flip_arith b) && (flip (flip b) =? b) && (0 <=? flip b) && (flip b <=? 255)) (zrange 0 256) = true.
Proof. vm_compute. reflexivity. Qed.

Lemma flip_byte b : 0 <= b <= 255 -> flip b = flip_arith b /\ flip (flip b) = b /\ 0 <= flip b <= 255.
Proof.
  intros H. pose proof flip_sweep as S. rewrite forallb_forall in S.
  assert (I : In b (zrange 0 256)) by (apply zrange_in; lia). specialize (S b I).
  remember (flip b) as fb. remember (flip fb) as ffb. remember (flip_arith b) as fa.
  clear Heqfb Heqffb Heqfa.
  repeat (apply andb_true_iff in S; destruct S as [S ?]). lia.
Qed.

Lemma flip_msb_invol l : bytes_ok l -> flip_msb (flip_msb l) = l.
Proof.
  unfold bytes_ok, flip_msb. induction 1 as [|b l Hb Hl IH]; cbn [map]; [reflexivity|].
  rewrite IH. f_equal. apply (flip_byte b Hb).
Qed.
Lemma flip_msb_ok l : bytes_ok l -> bytes_ok (flip_msb l).
Proof.
  unfold bytes_ok, flip_msb. induction 1 as [|b l Hb Hl IH]; cbn [map]; constructor; [apply (flip_byte b Hb) | exact IH].
Qed.

(* ---------------- interleave / deinterleave ---------------- *)
Lemma isrc_lt n i : (i < n)%nat -> (isrc n i < n)%nat.
Proof. intros H. unfold isrc. destruct (Nat.even i); lia. Qed.
Lemma dsrc_lt n j : (j < n)%nat -> (dsrc n j < n)%nat.
Proof. intros H. unfold dsrc. cbv zeta. destruct (j <? (n + 1) / 2)%nat eqn:E; lia. Qed.

Lemma even_double k : Nat.even (2 * k) = true.
Proof. rewrite Nat.even_mul. reflexivity. Qed.

Lemma isrc_dsrc n j : (j < n)%nat -> isrc n (dsrc n j) = j.
Proof.
  intros H. unfold dsrc. cbv zeta. destruct (j <? (n + 1) / 2)%nat eqn:E.
  - unfold isrc. rewrite even_double. lia.
  - unfold isrc.
    assert (Hodd : Nat.even (2 * (n / 2) - 1 - 2 * (j - (n + 1) / 2)) = false).
    { replace (2 * (n / 2) - 1 - 2 * (j - (n + 1) / 2))%nat with (1 + 2 * (n / 2 - 1 - (j - (n + 1) / 2)))%nat by lia.
      rewrite Nat.even_add, even_double. reflexivity. }
    rewrite Hodd. lia.
Qed.

Lemma dsrc_isrc n i : (i < n)%nat -> dsrc n (isrc n i) = i.
Proof.
  intros H. unfold isrc. destruct (Nat.even i) eqn:Ev.
  - apply Nat.even_spec in Ev. destruct Ev as [k ->]. unfold dsrc. cbv zeta.
    replace (2 * k / 2)%nat with k by lia.
    destruct (k <? (n + 1) / 2)%nat eqn:E; lia.
  - assert (Od : Nat.odd i = true) by (rewrite <- Nat.negb_even, Ev; reflexivity).
    apply Nat.odd_spec in Od. destruct Od as [k ->]. unfold dsrc. cbv zeta.
    replace ((2 * k + 1) / 2)%nat with k by lia.
    destruct (n - 1 - k <? (n + 1) / 2)%nat eqn:E; lia.
Qed.

Lemma interleave_length l : length (interleave l) = length l.
Proof. unfold interleave. now rewrite map_length, seq_length. Qed.
Lemma deinterleave_length l : length (deinterleave l) = length l.
Proof. unfold deinterleave. now rewrite map_length, seq_length. Qed.

Lemma nth_map_seq (f : nat -> Z) n i d : (i < n)%nat -> nth i (map f (seq 0 n)) d = f i.
Proof.
  intros H. rewrite (nth_indep _ d (f 0%nat)) by (now rewrite map_length, seq_length).
  rewrite map_nth. now rewrite seq_nth.
Qed.

Lemma nth_interleave l i : (i < length l)%nat -> nth i (interleave l) 0 = nth (isrc (length l) i) l 0.
Proof. intros H. unfold interleave. now rewrite nth_map_seq. Qed.
Lemma nth_deinterleave l j : (j < length l)%nat -> nth j (deinterleave l) 0 = nth (dsrc (length l) j) l 0.
Proof. intros H. unfold deinterleave. now rewrite nth_map_seq. Qed.

Lemma deinterleave_interleave l : deinterleave (interleave l) = l.
Proof.
  apply (nth_ext _ _ 0 0); [now rewrite deinterleave_length, interleave_length|].
  intros j Hj. rewrite deinterleave_length, interleave_length in Hj.
  rewrite nth_deinterleave by (now rewrite interleave_length). rewrite interleave_length.
  rewrite nth_interleave by (now apply dsrc_lt). now rewrite isrc_dsrc.
Qed.
Lemma interleave_deinterleave l : interleave (deinterleave l) = l.
Proof.
  apply (nth_ext _ _ 0 0); [now rewrite interleave_length, deinterleave_length|].
  intros i Hi. rewrite interleave_length, deinterleave_length in Hi.
  rewrite nth_interleave by (now rewrite deinterleave_length). rewrite deinterleave_length.
  rewrite nth_deinterleave by (now apply isrc_lt). now rewrite dsrc_isrc.
Qed.

Lemma NoDup_map_inj_in {A B} (f : A -> B) l :
  (forall x y, In x l -> In y l -> f x = f y -> x = y) -> NoDup l -> NoDup (map f l).
Proof.
  intros Hinj Hnd. induction Hnd as [|a l Hnin Hnd IH]; cbn [map]; constructor.
  - intros Hin. apply in_map_iff in Hin as [y [E Hy]]. apply Hnin.
    rewrite (Hinj a y); [exact Hy | left; reflexivity | right; exact Hy | symmetry; exact E].
  - apply IH. intros x y Hx Hy. apply Hinj; right; assumption.
Qed.

Lemma interleave_perm l : Permutation (interleave l) l.
Proof.
  (* a list with an inverse permutation of positions: use NoDup-free argument via the inverse map *)
  assert (H : forall a b : list Z, deinterleave a = b -> a = interleave b) by (intros a b <-; now rewrite interleave_deinterleave).
  (* permutation by induction is awkward for index maps; we prove it through Permutation of position lists *)
  unfold interleave.
  assert (P : Permutation (map (isrc (length l)) (seq 0 (length l))) (seq 0 (length l))).
  { apply NoDup_Permutation_bis.
    - apply NoDup_map_inj_in.
      + intros x y Hx Hy E. apply in_seq in Hx. apply in_seq in Hy.
        rewrite <- (dsrc_isrc (length l) x) by lia. rewrite <- (dsrc_isrc (length l) y) by lia. now rewrite E.
      + apply seq_NoDup.
    - now rewrite map_length.
    - intros x Hx. apply in_map_iff in Hx as [y [<- Hy]]. apply in_seq in Hy. apply in_seq. pose proof (isrc_lt (length l) y). lia. }
  rewrite <- (map_map (isrc (length l)) (fun k => nth k l 0)).
  rewrite P. clear.
  (* map (nth _ l 0) (seq 0 (length l)) = l *)
  assert (E : map (fun k => nth k l 0) (seq 0 (length l)) = l).
  { apply (nth_ext _ _ 0 0); [now rewrite map_length, seq_length|].
    intros n Hn. rewrite map_length, seq_length in Hn. now rewrite nth_map_seq. }
  now rewrite E.
Qed.

(* ---------------- swap_multiples ---------------- *)
Definition mult (m x : Z) : Prop := x mod m = 0.

Lemma swap_aux_run m : forall r run l, Forall (mult m) r ->
  swap_aux m run (r ++ l) = swap_aux m (rev r ++ run) l.
Proof.
  induction r as [|x r IH]; intros run l H; cbn [app rev]; [reflexivity|].
  inversion H as [|? ? Hx Hr]; subst. cbn [swap_aux]. unfold mult in Hx. rewrite Hx. cbn.
  rewrite IH by exact Hr. rewrite <- app_assoc. reflexivity.
Qed.

Lemma swap_aux_invol m : forall l run, Forall (mult m) run ->
  swap_aux m [] (swap_aux m run l) = rev run ++ l.
Proof.
  induction l as [|x t IH]; intros run H.
  - cbn [swap_aux]. rewrite <- (app_nil_r run) at 1. rewrite swap_aux_run by exact H.
    cbn [swap_aux]. now rewrite !app_nil_r.
  - cbn [swap_aux]. destruct (x mod m =? 0) eqn:E.
    + rewrite IH by (constructor; [unfold mult; lia | exact H]). cbn [rev]. now rewrite <- app_assoc.
    + rewrite swap_aux_run by exact H. rewrite app_nil_r. cbn [swap_aux]. rewrite E.
      rewrite (IH [] ltac:(constructor)). reflexivity.
Qed.

Lemma swap_aux_perm m : forall l run, Permutation (swap_aux m run l) (run ++ l).
Proof.
  induction l as [|x t IH]; intros run; cbn [swap_aux].
  - now rewrite app_nil_r.
  - destruct (x mod m =? 0).
    + rewrite IH. cbn [app]. apply Permutation_middle.
    + apply Permutation_app_head. constructor. apply (IH []).
Qed.

Lemma swap_aux_length m l run : length (swap_aux m run l) = (length run + length l)%nat.
Proof. rewrite (Permutation_length (swap_aux_perm m l run)). apply app_length. Qed.

Lemma swap_aux_fixes m : forall l run i d, (i < length l)%nat -> nth i l d mod m <> 0 ->
  nth (length run + i) (swap_aux m run l) d = nth i l d.
Proof.
  induction l as [|x t IH]; intros run i d Hi Hn; cbn [length] in Hi; [lia|]. cbn [swap_aux].
  destruct (x mod m =? 0) eqn:E.
  - destruct i as [|i]; [cbn [nth] in Hn; lia|].
    replace (length run + S i)%nat with (length (x :: run) + i)%nat by (cbn [length]; lia).
    rewrite IH; [reflexivity | lia | exact Hn].
  - rewrite app_nth2 by lia. replace (length run + i - length run)%nat with i by lia.
    destruct i as [|i]; [reflexivity|]. cbn [nth].
    apply (IH [] i d); [lia | exact Hn].
Qed.

(* positions holding multiples stay positions holding multiples *)
Lemma swap_aux_mult_positions m : forall l run i d, Forall (mult m) run -> (i < length l)%nat ->
  nth i l d mod m = 0 -> nth (length run + i) (swap_aux m run l) d mod m = 0.
Proof.
  intros l run i d Hrun Hi Hm.
  destruct (Z.eq_dec (nth (length run + i) (swap_aux m run l) d mod m) 0) as [E|E]; [exact E|exfalso].
  (* apply the involution: position fixed in the swapped list would also be fixed back *)
  pose proof (swap_aux_invol m l run Hrun) as Inv.
  assert (Hlen : (length run + i < length (swap_aux m run l))%nat) by (rewrite swap_aux_length; lia).
  pose proof (swap_aux_fixes m (swap_aux m run l) [] (length run + i) d Hlen E) as F.
  cbn [length Nat.add] in F. rewrite Inv in F.
  rewrite app_nth2 in F by (rewrite rev_length; lia). rewrite rev_length in F.
  replace (length run + i - length run)%nat with i in F by lia. rewrite F in Hm. contradiction.
Qed.

(* ---------------- permutations, byte ranges, pipelines ---------------- *)
Lemma deinterleave_perm l : Permutation (deinterleave l) l.
Proof.
  pose proof (interleave_perm (deinterleave l)) as P. rewrite interleave_deinterleave in P.
  apply Permutation_sym. exact P.
Qed.

Lemma bytes_ok_perm l l' : Permutation l l' -> bytes_ok l -> bytes_ok l'.
Proof. unfold bytes_ok. intros P H. eapply Permutation_Forall; eassumption. Qed.

Lemma swap_invol m l : 0 < m -> swap_aux m [] (swap_aux m [] l) = l.
Proof. intros _. rewrite swap_aux_invol by constructor. reflexivity. Qed.

Lemma swap_multiples_total l m : exists r, swap_multiples l m = (if m <? 0 then Err EValue else Ok r).
Proof. unfold swap_multiples. destruct (m <? 0); [exists l; reflexivity|]. destruct (m =? 0); eexists; reflexivity. Qed.

Lemma apply_op_ok o l : bytes_ok l -> bytes_ok (apply_op o l).
Proof.
  intros H. destruct o as [| | |m]; cbn [apply_op].
  - eapply bytes_ok_perm; [apply Permutation_sym, interleave_perm | exact H].
  - eapply bytes_ok_perm; [apply Permutation_sym, deinterleave_perm | exact H].
  - now apply flip_msb_ok.
  - unfold swap_multiples. destruct (m <? 0); [exact H|]. destruct (m =? 0); [exact H|].
    eapply bytes_ok_perm; [apply Permutation_sym, (swap_aux_perm m l []) | exact H].
Qed.

Lemma apply_op_inverse o l : bytes_ok l -> apply_op (inverse o) (apply_op o l) = l.
Proof.
  intros H. destruct o as [| | |m]; cbn [apply_op inverse].
  - apply deinterleave_interleave.
  - apply interleave_deinterleave.
  - now apply flip_msb_invol.
  - unfold swap_multiples. destruct (m <? 0) eqn:N; [reflexivity|].
    destruct (m =? 0) eqn:Z0; [reflexivity|]. cbv beta iota. apply swap_invol. lia.
Qed.

Lemma apply_op_length o l : length (apply_op o l) = length l.
Proof.
  destruct o as [| | |m]; cbn [apply_op].
  - apply interleave_length. - apply deinterleave_length. - apply map_length.
  - unfold swap_multiples. destruct (m <? 0); [reflexivity|]. destruct (m =? 0); [reflexivity|].
    now rewrite swap_aux_length.
Qed.

Lemma run_ops_ok p : forall l, bytes_ok l -> bytes_ok (run_ops p l).
Proof. unfold run_ops. induction p as [|o p IH]; intros l H; cbn [fold_left]; [exact H|]. apply IH. now apply apply_op_ok. Qed.

Lemma run_ops_app p q l : run_ops (p ++ q) l = run_ops q (run_ops p l).
Proof. unfold run_ops. apply fold_left_app. Qed.

Lemma pipeline_inverse p : forall l, bytes_ok l -> run_ops (map inverse (rev p)) (run_ops p l) = l.
Proof.
  induction p as [|o p IH]; intros l H; [reflexivity|].
  cbn [rev]. rewrite map_app, run_ops_app. cbn [map].
  change (run_ops (o :: p) l) with (run_ops p (apply_op o l)).
  rewrite IH by (now apply apply_op_ok). unfold run_ops. cbn [fold_left]. now apply apply_op_inverse.
Qed.

(* isrc n is a bijection of [0,n) with inverse dsrc n *)
Lemma isrc_inj n i j : (i < n)%nat -> (j < n)%nat -> isrc n i = isrc n j -> i = j.
Proof. intros Hi Hj E. rewrite <- (dsrc_isrc n i Hi), <- (dsrc_isrc n j Hj). now rewrite E. Qed.
