(* Elaboration-level lemmas for C02: boolean attributes spelled with their default value, and the
   family/action pair of generated packet classes.
   Plan: (1) bool_attr facts; (2) `norm_instr` erases default-valued boolean attributes through the whole
   (mutually nested) instruction tree; (3) elab_instrs is restated as a one-step unfolding over two named helpers
   (`elab_head`, `elab_cases`, convertible with the local definitions in Model/Elab.v, so the unfolding lemma is
   `reflexivity`), and invariance under norm_instr follows by induction on elab_instrs's own fuel;
   (4) whole files: the type environment built from normalised files is the normalised environment, get_type does not
   see the difference (induction on its fuel), hence `elab (map norm_file fs) = elab fs`;
   (5) inversion of gen_file's packet loop. *)
From EO Require Import Prelude.Py Model.Spec Model.Elab.
Open Scope string_scope.
Open Scope list_scope.
Open Scope Z_scope.
Set Default Timeout 60.

(* ---------------- (1) boolean attributes ---------------- *)
Lemma bool_attr_default_false s : String.eqb (lower s) "true" = false -> bool_attr (Some s) false = bool_attr None false.
Proof. intros H. unfold bool_attr. exact H. Qed.

Lemma bool_attr_default_true s : String.eqb (lower s) "true" = true -> bool_attr (Some s) true = bool_attr None true.
Proof. intros H. unfold bool_attr. exact H. Qed.

(* the default is irrelevant once the attribute is present *)
Lemma bool_attr_present s d1 d2 : bool_attr (Some s) d1 = bool_attr (Some s) d2.
Proof. reflexivity. Qed.

(* erase an attribute that spells `false` (anything but a case variant of "true"); keep the others *)
Definition erase_false (a : option string) : option string :=
  match a with Some s => if String.eqb (lower s) "true" then a else None | None => None end.
(* erase an attribute that spells `true` *)
Definition erase_true (a : option string) : option string :=
  match a with Some s => if String.eqb (lower s) "true" then None else a | None => None end.

Lemma erase_false_ok a : bool_attr (erase_false a) false = bool_attr a false.
Proof.
  destruct a as [s|]; [|reflexivity]. unfold erase_false.
  destruct (String.eqb (lower s) "true") eqn:E; [reflexivity|]. unfold bool_attr. now rewrite E.
Qed.

Lemma erase_true_ok a : bool_attr (erase_true a) true = bool_attr a true.
Proof.
  destruct a as [s|]; [|reflexivity]. unfold erase_true.
  destruct (String.eqb (lower s) "true") eqn:E; [|reflexivity]. unfold bool_attr. now rewrite E.
Qed.

Lemma flag_erase_false a : flag_attr (erase_false a) = flag_attr a.
Proof. apply erase_false_ok. Qed.

(* the erasures really erase: an explicit default disappears, an explicit non-default stays *)
Lemma erase_false_spec s : erase_false (Some s) = if String.eqb (lower s) "true" then Some s else None.
Proof. reflexivity. Qed.
Lemma erase_true_spec s : erase_true (Some s) = if String.eqb (lower s) "true" then None else Some s.
Proof. reflexivity. Qed.

(* ---------------- (2) normalisation of instruction trees ---------------- *)
Fixpoint norm_instr (i : rinstr) : rinstr :=
  match i with
  | RField n ty l p o tx => RField n ty l (erase_false p) (erase_false o) tx
  | RArray n ty l o d tr => RArray n ty l (erase_false o) (erase_false d) (erase_true tr)
  | RLength n ty off o => RLength n ty off (erase_false o)
  | RDummy ty tx => RDummy ty tx
  | RSwitch f cases =>
      RSwitch f (map (fun c => match c with RCase v d b => RCase v (erase_false d) (map norm_instr b) end) cases)
  | RChunked b => RChunked (map norm_instr b)
  | RBreak => RBreak
  end.
Definition norm_case (c : rcase) : rcase :=
  match c with RCase v d b => RCase v (erase_false d) (map norm_instr b) end.
Definition map_norm (is : list rinstr) : list rinstr := map norm_instr is.

Definition norm_struct (s : rstruct) : rstruct := mkRStruct (rs_name s) (map_norm (rs_body s)).
Definition norm_packet (p : rpacket) : rpacket := mkRPacket (rp_family p) (rp_action p) (map_norm (rp_body p)).
Definition norm_file (f : rfile) : rfile :=
  mkRFile (rf_path f) (rf_enums f) (map norm_struct (rf_structs f)) (map norm_packet (rf_packets f)).

(* ---------------- (3) elab_instrs, one step at a time ---------------- *)
Section Step.
  Variable T : tenv.
  Variable tfuel : nat.
  (* the recursive call elab_instrs fuel' *)
  Variable recf : string -> ctx -> list rinstr -> res (ctx * list einstr * list sdef).

  Definition elab_cases (cls iface fname : string) (c : ctx) :=
    fix go (cs : list rcase) (start : bool) (ropt rdummy : bool) : res (list ecase * list sdef * bool * bool) :=
      match cs with
      | [] => Ok ([], [], ropt, rdummy)
      | RCase value default body :: more =>
        let dflt := bool_attr default false in
        do suffix <- (if dflt then Ok "Default" else require value);
        let ccls := (cls ++ "." ++ iface ++ suffix)%string in
        do _ <- guard (negb (dflt && start));
        do key <- (if dflt then (do _ <- require (assoc (cx_fields c) fname); Ok CKDefault)
                   else (do z <- case_value c fname value; Ok (CKValue z)));
        let cc := mkCtx (cx_chunked c) (cx_ropt c) (cx_rdummy c) [] [] false in
        do x <- match body with
                | [] => Ok (cc, None, [])
                | _ => do y <- recf ccls cc body;
                       let '(c', es, aux) := y in Ok (c', Some ccls, mkSDef ccls es :: aux)
                end;
        let '(c', ocls, defs) := x in
        do tl <- go more false (ropt || cx_ropt c') (rdummy || cx_rdummy c');
        let '(ecs, defs', ro, rd) := tl in
        Ok (mkCase key ocls :: ecs, defs ++ defs', ro, rd)
      end.

  Definition elab_head (cls : string) (c : ctx) (i : rinstr) : res (ctx * list einstr * list sdef) :=
    match i with
    | RField n ty l p o tx => do x <- elab_field T tfuel c n ty l p o tx; Ok (fst x, snd x, [])
    | RArray n ty l o d tr => do x <- elab_array T tfuel c n ty l o d tr; Ok (fst x, snd x, [])
    | RLength n ty off o => do x <- elab_length T tfuel c n ty off o; Ok (fst x, snd x, [])
    | RDummy ty tx => do x <- elab_dummy T tfuel c ty tx; Ok (fst x, snd x, [])
    | RBreak =>
      do _ <- guard (cx_chunked c);
      Ok (mkCtx true false false (cx_fields c) (cx_lenmap c) true, [EBreak], [])
    | RChunked body =>
      let was := cx_chunked c in
      let c1 := mkCtx true (cx_ropt c) (cx_rdummy c) (cx_fields c) (cx_lenmap c) (cx_emitted c || negb was) in
      do x <- recf cls c1 body;
      let '(c2, es, aux) := x in
      let c3 := mkCtx was (cx_ropt c2) (cx_rdummy c2) (cx_fields c2) (cx_lenmap c2) (cx_emitted c2) in
      Ok (c3, (if was then es else ESetMode true :: es ++ [ESetMode false]), aux)
    | RSwitch field cases =>
      do fname <- require field;
      let iface := (snake_to_pascal fname true ++ "Data")%string in
      do x <- elab_cases cls iface fname c cases true (cx_ropt c) (cx_rdummy c);
      let '(ecs, defs, ro, rd) := x in
      Ok (mkCtx (cx_chunked c) ro rd (cx_fields c) (cx_lenmap c) true, [ESwitch fname ecs], defs)
    end.

  Hypothesis recf_norm : forall cls c is, recf cls c (map_norm is) = recf cls c is.

  Lemma elab_field_norm c n ty l p o tx :
    elab_field T tfuel c n ty l (erase_false p) (erase_false o) tx = elab_field T tfuel c n ty l p o tx.
  Proof. unfold elab_field. rewrite flag_erase_false, erase_false_ok. reflexivity. Qed.

  Lemma elab_array_norm c n ty l o d tr :
    elab_array T tfuel c n ty l (erase_false o) (erase_false d) (erase_true tr) = elab_array T tfuel c n ty l o d tr.
  Proof. unfold elab_array. rewrite !flag_erase_false, erase_true_ok. reflexivity. Qed.

  Lemma elab_length_norm c n ty off o :
    elab_length T tfuel c n ty off (erase_false o) = elab_length T tfuel c n ty off o.
  Proof. unfold elab_length. rewrite flag_erase_false. reflexivity. Qed.

  Lemma elab_cases_norm cls iface fname c : forall cs start ropt rdummy,
    elab_cases cls iface fname c (map norm_case cs) start ropt rdummy = elab_cases cls iface fname c cs start ropt rdummy.
  Proof.
    induction cs as [|[value default body] more IH]; intros start ropt rdummy; [reflexivity|].
    cbn [map norm_case elab_cases]. fold (elab_cases cls iface fname c).
    rewrite erase_false_ok.
    destruct (if bool_attr default false then Ok "Default" else require value) as [suffix|e]; [|reflexivity].
    cbn [rbind].
    destruct (guard (negb (bool_attr default false && start))) as [u|e]; [|reflexivity]. cbn [rbind].
    destruct (if bool_attr default false
              then do _ <- require (assoc (cx_fields c) fname); Ok CKDefault
              else do z <- case_value c fname value; Ok (CKValue z)) as [key|e]; [|reflexivity].
    cbn [rbind].
    assert (Hbody :
      match map norm_instr body with
      | [] => Ok (mkCtx (cx_chunked c) (cx_ropt c) (cx_rdummy c) [] [] false, None, [])
      | _ :: _ => do y <- recf (cls ++ "." ++ iface ++ suffix)%string (mkCtx (cx_chunked c) (cx_ropt c) (cx_rdummy c) [] [] false) (map norm_instr body);
                  let '(c', es, aux) := y in Ok (c', Some (cls ++ "." ++ iface ++ suffix)%string, mkSDef (cls ++ "." ++ iface ++ suffix)%string es :: aux)
      end =
      match body with
      | [] => Ok (mkCtx (cx_chunked c) (cx_ropt c) (cx_rdummy c) [] [] false, None, [])
      | _ :: _ => do y <- recf (cls ++ "." ++ iface ++ suffix)%string (mkCtx (cx_chunked c) (cx_ropt c) (cx_rdummy c) [] [] false) body;
                  let '(c', es, aux) := y in Ok (c', Some (cls ++ "." ++ iface ++ suffix)%string, mkSDef (cls ++ "." ++ iface ++ suffix)%string es :: aux)
      end).
    { pose proof (recf_norm (cls ++ "." ++ iface ++ suffix)%string (mkCtx (cx_chunked c) (cx_ropt c) (cx_rdummy c) [] [] false) body) as Hr.
      unfold map_norm in Hr. destruct body as [|i0 body0]; [reflexivity|]. cbn [map] in *. now rewrite Hr. }
    rewrite Hbody. clear Hbody.
    destruct (match body with
              | [] => Ok (mkCtx (cx_chunked c) (cx_ropt c) (cx_rdummy c) [] [] false, None, [])
              | _ :: _ => _ end) as [[[c' ocls] defs]|e]; [|reflexivity].
    cbn [rbind]. rewrite IH. reflexivity.
  Qed.

  Lemma elab_head_norm cls c i : elab_head cls c (norm_instr i) = elab_head cls c i.
  Proof.
    destruct i as [n ty l p o tx|n ty l o d tr|n ty off o|ty tx|field cases|body|]; cbn [norm_instr elab_head].
    - now rewrite elab_field_norm.
    - now rewrite elab_array_norm.
    - now rewrite elab_length_norm.
    - reflexivity.
    - destruct (require field) as [fname|e]; [|reflexivity]. cbn [rbind].
      change (map (fun c0 : rcase => match c0 with RCase v d b => RCase v (erase_false d) (map norm_instr b) end) cases)
        with (map norm_case cases).
      now rewrite elab_cases_norm.
    - pose proof (recf_norm cls (mkCtx true (cx_ropt c) (cx_rdummy c) (cx_fields c) (cx_lenmap c) (cx_emitted c || negb (cx_chunked c))) body) as Hr.
      unfold map_norm in Hr. now rewrite Hr.
    - reflexivity.
  Qed.
End Step.

Lemma elab_instrs_S T tfuel fuel' cls c is :
  elab_instrs T tfuel (S fuel') cls c is =
  match is with
  | [] => Ok (c, [], [])
  | i :: rest =>
    do _ <- guard (negb (cx_rdummy c));
    do r1 <- elab_head T tfuel (elab_instrs T tfuel fuel') cls c i;
    let '(c', es, aux) := r1 in
    do r2 <- elab_instrs T tfuel fuel' cls c' rest;
    let '(c'', es', aux') := r2 in
    Ok (c'', es ++ es', aux ++ aux')
  end.
Proof. destruct is as [|i rest]; [reflexivity|]. destruct i; reflexivity. Qed.

Theorem elab_instrs_norm T tfuel : forall fuel cls c is,
  elab_instrs T tfuel fuel cls c (map_norm is) = elab_instrs T tfuel fuel cls c is.
Proof.
  induction fuel as [|fuel IH]; intros cls c is; [reflexivity|].
  rewrite !elab_instrs_S. destruct is as [|i rest]; [reflexivity|].
  unfold map_norm. cbn [map].
  destruct (guard (negb (cx_rdummy c))) as [u|e]; [|reflexivity]. cbn [rbind].
  rewrite (elab_head_norm T tfuel (elab_instrs T tfuel fuel) IH).
  destruct (elab_head T tfuel (elab_instrs T tfuel fuel) cls c i) as [[[c' es] aux]|e]; [|reflexivity].
  cbn [rbind]. fold (map_norm rest). now rewrite IH.
Qed.

(* per constructor (the attribute-level content of the tree theorem) *)
Theorem elab_instr_attr T tfuel fuel cls c i rest :
  elab_instrs T tfuel fuel cls c (norm_instr i :: rest) = elab_instrs T tfuel fuel cls c (i :: rest).
Proof.
  destruct fuel as [|fuel]; [reflexivity|].
  rewrite !elab_instrs_S.
  now rewrite (elab_head_norm T tfuel (elab_instrs T tfuel fuel) (elab_instrs_norm T tfuel fuel)).
Qed.

Lemma elab_object_norm T tfuel cls body : elab_object T tfuel cls (map_norm body) = elab_object T tfuel cls body.
Proof.
  unfold elab_object.
  assert (Hf : body_fuel (map_norm body) = body_fuel body).
  { unfold body_fuel. do 2 f_equal. unfold map_norm.
    assert (Hs : forall i, instr_size (norm_instr i) = instr_size i).
    { fix IHi 1. intros i. destruct i as [n ty l p o tx|n ty l o d tr|n ty off o|ty tx|field cases|b|];
        try reflexivity.
      - cbn [norm_instr instr_size]. f_equal.
        induction cases as [|[v d b] cases IHc]; [reflexivity|]. cbn [map fold_right]. rewrite IHc. f_equal. f_equal.
        induction b as [|x b IHb]; [reflexivity|]. cbn [map fold_right]. now rewrite IHb, IHi.
      - cbn [norm_instr instr_size]. f_equal.
        induction b as [|x b IHb]; [reflexivity|]. cbn [map fold_right]. now rewrite IHb, IHi. }
    induction body as [|x body IHb]; [reflexivity|]. cbn [map fold_right]. now rewrite IHb, Hs. }
  rewrite Hf. now rewrite elab_instrs_norm.
Qed.

(* ---------------- (4) whole files ---------------- *)
(* (4a) type environments built from normalised files; get_type does not see the difference *)
Definition norm_rtype (rt : rtype) : rtype :=
  match rt with RTEnum e p => RTEnum e p | RTStruct s p => RTStruct (norm_struct s) p end.
Definition normT (T : tenv) : tenv := map (fun kv => (fst kv, norm_rtype (snd kv))) T.

Lemma assoc_normT T k : assoc (normT T) k = option_map norm_rtype (assoc T k).
Proof.
  induction T as [|[k' v] T IH]; [reflexivity|]. cbn [normT map assoc fst snd].
  destruct (String.eqb k' k); [reflexivity | exact IH].
Qed.

Lemma flat_map_norm (f : rinstr -> list rinstr) (l : list rinstr) :
  (forall x, In x l -> f (norm_instr x) = map norm_instr (f x)) ->
  flat_map f (map norm_instr l) = map norm_instr (flat_map f l).
Proof.
  induction l as [|x l IH]; intros H; [reflexivity|]. cbn [map flat_map]. rewrite map_app.
  rewrite H by (left; reflexivity). rewrite IH; [reflexivity|]. intros y Hy. apply H. now right.
Qed.

Lemma flatten_instr_norm : forall i, flatten_instr (norm_instr i) = map norm_instr (flatten_instr i).
Proof.
  fix IHi 1. intros i. destruct i as [n ty l p o tx|n ty l o d tr|n ty off o|ty tx|field cases|b|]; try reflexivity.
  - cbn [norm_instr flatten_instr map]. f_equal.
    induction cases as [|[v d b] cases IHc]; [reflexivity|]. cbn [map flat_map]. rewrite map_app, IHc. f_equal.
    induction b as [|x b IHb]; [reflexivity|]. cbn [map flat_map]. now rewrite map_app, IHb, IHi.
  - cbn [norm_instr flatten_instr map]. f_equal.
    induction b as [|x b IHb]; [reflexivity|]. cbn [map flat_map]. now rewrite map_app, IHb, IHi.
Qed.

Lemma flatten_norm b : flatten (map_norm b) = map norm_instr (flatten b).
Proof.
  unfold flatten, map_norm. induction b as [|x b IH]; [reflexivity|]. cbn [map flat_map].
  now rewrite map_app, IH, flatten_instr_norm.
Qed.

Local Arguments flag_attr : simpl never.
Local Arguments erase_false : simpl never.
Local Arguments erase_true : simpl never.
Local Arguments try_parse_int : simpl never.
Local Arguments Z.add : simpl never.
Local Arguments Z.mul : simpl never.

Ltac solve_fixed T fuel IH :=
  let l := fresh "l" in let IHl := fresh "IHl" in let acc := fresh "acc" in let i := fresh "i" in
  induction l as [|i l IHl]; intros acc; [reflexivity|]; cbn [map];
  destruct i as [?n ty l0 ?pd o ?tx|?n ty l0 o d ?tr|?n ty ?off o|ty ?tx|?field ?cases|?b|]; cbn [norm_instr];
  [ destruct ty as [tn|]; [|reflexivity]; cbn [require rbind]; rewrite IH;
    destruct (get_type T fuel tn l0) as [t|?e]; [|reflexivity]; cbn [rbind];
    destruct (ti_fixed t) as [sz|]; [|reflexivity]; rewrite flag_erase_false;
    destruct (flag_attr o); [reflexivity | apply IHl]
  | destruct (try_parse_int l0) as [nn|]; [|reflexivity];
    destruct ty as [tn|]; [|reflexivity]; cbn [require rbind]; rewrite IH;
    destruct (get_type T fuel tn None) as [t|?e]; [|reflexivity]; cbn [rbind];
    destruct (ti_fixed t) as [sz|]; [|reflexivity]; rewrite !flag_erase_false;
    destruct (flag_attr o || flag_attr d); [reflexivity | apply IHl]
  | apply IHl
  | destruct ty as [tn|]; [|reflexivity]; cbn [require rbind]; rewrite IH;
    destruct (get_type T fuel tn None) as [t|?e]; [|reflexivity]; cbn [rbind];
    destruct (ti_fixed t) as [sz|]; [|reflexivity]; apply IHl
  | reflexivity
  | reflexivity
  | apply IHl ].

Ltac solve_bounded T fuel IH :=
  let l := fresh "l" in let IHl := fresh "IHl" in let r := fresh "r" in let i := fresh "i" in
  induction l as [|i l IHl]; intros r; [reflexivity|]; cbn [map];
  destruct r; cbn [negb];
  [ destruct i as [?n ty l0 ?pd o ?tx|?n ty l0 o d ?tr|?n ty ?off o|ty ?tx|?field ?cases|?b|]; cbn [norm_instr];
    [ destruct ty as [tn|]; [|reflexivity]; cbn [require rbind]; rewrite IH;
      destruct (get_type T fuel tn l0) as [t|?e]; [|reflexivity]; cbn [rbind]; apply IHl
    | destruct ty as [tn|]; [|reflexivity]; cbn [require rbind]; rewrite IH;
      destruct (get_type T fuel tn None) as [t|?e]; [|reflexivity]; cbn [rbind]; apply IHl
    | apply IHl
    | destruct ty as [tn|]; [|reflexivity]; cbn [require rbind]; rewrite IH;
      destruct (get_type T fuel tn None) as [t|?e]; [|reflexivity]; cbn [rbind]; apply IHl
    | apply IHl | apply IHl | apply IHl ]
  | destruct i; cbn [norm_instr]; apply IHl ].

Lemma get_type_norm T : forall fuel name len, get_type (normT T) fuel name len = get_type T fuel name len.
Proof.
  induction fuel as [|fuel IH]; intros name len; [reflexivity|].
  cbn [get_type]. destruct len as [l|]; [reflexivity|].
  destruct (split_colon name) as [base under_name].
  rewrite assoc_normT.
  destruct (assoc T base) as [[e p|s p]|]; cbn [option_map norm_rtype].
  - destruct (re_type e) as [tn|]; cbn [require rbind].
    + rewrite (IH tn None). destruct under_name as [un|]; [rewrite (IH un None)|]; reflexivity.
    + destruct under_name as [un|]; [rewrite (IH un None)|]; reflexivity.
  - match goal with
    |- context [rbind (?F1 (flatten (rs_body (norm_struct s))) 0)] =>
      match goal with
      |- context [rbind (?B1 (flatten (rs_body (norm_struct s))) true)] =>
        match goal with
        |- _ = ?R =>
          match R with context [rbind (?F2 (flatten (rs_body s)) 0)] =>
            match R with context [rbind (?B2 (flatten (rs_body s)) true)] =>
              assert (HF : forall l acc, F1 (map norm_instr l) acc = F2 l acc);
              [ solve_fixed T fuel IH
              | assert (HB : forall l r, B1 (map norm_instr l) r = B2 l r); [ solve_bounded T fuel IH | ] ]
            end
          end
        end
      end
    end.
    cbn [norm_struct rs_name rs_body]. rewrite flatten_norm. rewrite HF. rewrite HB.
    destruct under_name as [un|]; [rewrite (IH un None)|]; reflexivity.
  - destruct under_name as [un|]; [rewrite (IH un None)|]; reflexivity.
Qed.

(* ---------------- (4b) the elaborator does not see the normalisation of the type environment ---------------- *)
Lemma elab_field_T T tfuel c n ty l p o tx :
  elab_field (normT T) tfuel c n ty l p o tx = elab_field T tfuel c n ty l p o tx.
Proof.
  unfold elab_field, gt. destruct ty as [tn|]; cbn [require rbind]; rewrite ?get_type_norm; reflexivity.
Qed.

Lemma elab_array_T T tfuel c n ty l o d tr :
  elab_array (normT T) tfuel c n ty l o d tr = elab_array T tfuel c n ty l o d tr.
Proof.
  unfold elab_array, gt. destruct n as [nm|]; destruct ty as [tn|]; cbn [require rbind]; rewrite ?get_type_norm; reflexivity.
Qed.

Lemma elab_length_T T tfuel c n ty off o :
  elab_length (normT T) tfuel c n ty off o = elab_length T tfuel c n ty off o.
Proof.
  unfold elab_length, gt. destruct n as [nm|]; destruct ty as [tn|]; cbn [require rbind]; rewrite ?get_type_norm; reflexivity.
Qed.

Lemma elab_dummy_T T tfuel c ty tx :
  elab_dummy (normT T) tfuel c ty tx = elab_dummy T tfuel c ty tx.
Proof.
  unfold elab_dummy, gt. destruct ty as [tn|]; destruct tx as [lit|]; cbn [require rbind]; rewrite ?get_type_norm; reflexivity.
Qed.

Lemma elab_cases_ext recf1 recf2 cls iface fname c :
  (forall cls c is, recf1 cls c is = recf2 cls c is) ->
  forall cs start ropt rdummy,
  elab_cases recf1 cls iface fname c cs start ropt rdummy = elab_cases recf2 cls iface fname c cs start ropt rdummy.
Proof.
  intros Hr. induction cs as [|[value default body] more IH]; intros start ropt rdummy; [reflexivity|].
  cbn [elab_cases]. fold (elab_cases recf1 cls iface fname c). fold (elab_cases recf2 cls iface fname c).
  destruct (if bool_attr default false then Ok "Default" else require value) as [suffix|e]; [|reflexivity].
  cbn [rbind].
  destruct (guard (negb (bool_attr default false && start))) as [u|e]; [|reflexivity]. cbn [rbind].
  destruct (if bool_attr default false
            then do _ <- require (assoc (cx_fields c) fname); Ok CKDefault
            else do z <- case_value c fname value; Ok (CKValue z)) as [key|e]; [|reflexivity].
  cbn [rbind].
  destruct body as [|i0 body0].
  - cbn [rbind]. now rewrite IH.
  - rewrite Hr.
    destruct (recf2 (cls ++ "." ++ iface ++ suffix)%string (mkCtx (cx_chunked c) (cx_ropt c) (cx_rdummy c) [] [] false) (i0 :: body0))
      as [[[c' es] aux]|e]; [|reflexivity].
    cbn [rbind]. now rewrite IH.
Qed.

Lemma elab_head_T T tfuel recf1 recf2 cls c i :
  (forall cls c is, recf1 cls c is = recf2 cls c is) ->
  elab_head (normT T) tfuel recf1 cls c i = elab_head T tfuel recf2 cls c i.
Proof.
  intros Hr. destruct i as [n ty l p o tx|n ty l o d tr|n ty off o|ty tx|field cases|body|]; cbn [elab_head].
  - now rewrite elab_field_T.
  - now rewrite elab_array_T.
  - now rewrite elab_length_T.
  - now rewrite elab_dummy_T.
  - destruct (require field) as [fname|e]; [|reflexivity]. cbn [rbind].
    now rewrite (elab_cases_ext recf1 recf2 cls _ fname c Hr).
  - now rewrite Hr.
  - reflexivity.
Qed.

Lemma elab_instrs_T T tfuel : forall fuel cls c is,
  elab_instrs (normT T) tfuel fuel cls c is = elab_instrs T tfuel fuel cls c is.
Proof.
  induction fuel as [|fuel IH]; intros cls c is; [reflexivity|].
  rewrite !elab_instrs_S. destruct is as [|i rest]; [reflexivity|].
  destruct (guard (negb (cx_rdummy c))) as [u|e]; [|reflexivity]. cbn [rbind].
  rewrite (elab_head_T T tfuel _ _ cls c i IH).
  destruct (elab_head T tfuel (elab_instrs T tfuel fuel) cls c i) as [[[c' es] aux]|e]; [|reflexivity].
  cbn [rbind]. now rewrite IH.
Qed.

Lemma elab_object_T T tfuel cls body :
  elab_object (normT T) tfuel cls (map_norm body) = elab_object T tfuel cls body.
Proof.
  rewrite elab_object_norm. unfold elab_object. now rewrite elab_instrs_T.
Qed.

(* ---------------- (4c) files ---------------- *)
Definition rmap {A B} (g : A -> B) (r : res A) : res B := match r with Ok a => Ok (g a) | Err e => Err e end.

Lemma normT_snoc T k v : normT (T ++ [(k, v)]) = normT T ++ [(k, norm_rtype v)].
Proof. unfold normT. now rewrite map_app. Qed.

Lemma normT_length T : List.length (normT T) = List.length T.
Proof. unfold normT. apply map_length. Qed.

Lemma index_file_norm T f : index_file (normT T) (norm_file f) = rmap normT (index_file T f).
Proof.
  unfold index_file. cbn [norm_file rf_enums rf_structs rf_packets rf_path].
  match goal with
  |- ?L = rmap normT ?R =>
    match L with context [rbind (?E1 (normT T) (rf_enums f))] =>
    match L with context [rbind (?S1 _ (map norm_struct (rf_structs f)))] =>
    match L with context [rbind (?P1 [] (map norm_packet (rf_packets f)))] =>
    match R with context [rbind (?S2 _ (rf_structs f))] =>
    match R with context [rbind (?P2 [] (rf_packets f))] =>
      assert (HE : forall l T0, E1 (normT T0) l = rmap normT (E1 T0 l));
      [| assert (HS : forall l T0, S1 (normT T0) (map norm_struct l) = rmap normT (S2 T0 l));
         [| assert (HP : forall l seen, P1 seen (map norm_packet l) = P2 seen l) ] ]
    end end end end end
  end.
  - induction l as [|e l IHl]; intros T0; [reflexivity|]. cbn [rbind].
    destruct (require (re_name e)) as [n|er]; [|reflexivity]. cbn [rbind]. rewrite assoc_normT.
    destruct (assoc T0 n); cbn [option_map negb guard rbind]; [reflexivity|].
    rewrite <- IHl. now rewrite normT_snoc.
  - induction l as [|s l IHl]; intros T0; [reflexivity|]. cbn [map norm_struct rs_name rbind].
    destruct (require (rs_name s)) as [n|er]; [|reflexivity]. cbn [rbind]. rewrite assoc_normT.
    destruct (assoc T0 n); cbn [option_map negb guard rbind]; [reflexivity|].
    rewrite <- IHl. now rewrite normT_snoc.
  - induction l as [|p l IHl]; intros seen; [reflexivity|]. cbn [map norm_packet rp_family rp_action rbind].
    destruct (require (rp_family p)) as [fa|er]; [|reflexivity]. cbn [rbind].
    destruct (require (rp_action p)) as [ac|er]; [|reflexivity]. cbn [rbind].
    destruct (guard (negb (mem_str (fa ++ "_" ++ ac) seen))) as [u|er]; [|reflexivity]. cbn [rbind]. apply IHl.
  - rewrite HE. match goal with |- context [rmap normT ?X] => destruct X as [T1|er]; [|reflexivity] end.
    cbn [rmap rbind]. rewrite HS. match goal with |- context [rmap normT ?X] => destruct X as [T2|er]; [|reflexivity] end.
    cbn [rmap rbind]. rewrite HP. match goal with |- context [rbind ?X _] => destruct X as [u|er]; reflexivity end.
Qed.

Lemma index_files_norm : forall fs T, index_files (normT T) (map norm_file fs) = rmap normT (index_files T fs).
Proof.
  induction fs as [|f fs IH]; intros T; [reflexivity|]. cbn [map index_files]. rewrite index_file_norm.
  destruct (index_file T f) as [T1|e]; [|reflexivity]. cbn [rmap rbind]. apply IH.
Qed.

Lemma rbind_ext {A B} (X : res A) (K1 K2 : A -> res B) : (forall a, K1 a = K2 a) -> rbind X K1 = rbind X K2.
Proof. intros H. destruct X as [a|e]; [apply H | reflexivity]. Qed.

Lemma gen_file_norm T tfuel f : gen_file (normT T) tfuel (norm_file f) = gen_file T tfuel f.
Proof.
  unfold gen_file. cbn [norm_file rf_enums rf_structs rf_packets rf_path].
  match goal with
  |- ?L = ?R =>
    match L with context [rbind (?E1 (rf_enums f))] =>
    match L with context [rbind (?S1 (map norm_struct (rf_structs f)))] =>
    match L with context [rbind (?P1 (map norm_packet (rf_packets f)))] =>
    match R with context [rbind (?E2 (rf_enums f))] =>
    match R with context [rbind (?S2 (rf_structs f))] =>
    match R with context [rbind (?P2 (rf_packets f))] =>
      assert (HE : forall l, E1 l = E2 l);
      [| assert (HS : forall l, S1 (map norm_struct l) = S2 l);
         [| assert (HP : forall l, P1 (map norm_packet l) = P2 l);
            [| rewrite HE, HS, HP; reflexivity ] ] ]
    end end end end end end
  end.
  - induction l as [|e l IHl]; [reflexivity|].
    apply rbind_ext; intros n. rewrite get_type_norm.
    do 2 (apply rbind_ext; intro). now rewrite IHl.
  - induction l as [|s l IHl]; [reflexivity|]. cbn [map norm_struct rs_name rs_body].
    apply rbind_ext; intros n. rewrite get_type_norm.
    do 2 (apply rbind_ext; intro). rewrite elab_object_T. apply rbind_ext; intro. now rewrite IHl.
  - rewrite !get_type_norm.
    induction l as [|p l IHl]; [reflexivity|]. cbn [map norm_packet rp_family rp_action rp_body].
    do 9 (apply rbind_ext; intro). rewrite elab_object_T. apply rbind_ext; intro. now rewrite IHl.
Qed.

Theorem elab_norm_files fs : elab (map norm_file fs) = elab fs.
Proof.
  unfold elab. pose proof (index_files_norm fs []) as HI. change (normT []) with (@nil (string * rtype)) in HI. rewrite HI. clear HI.
  destruct (index_files [] fs) as [T|e]; [|reflexivity]. cbn [rmap rbind]. rewrite normT_length.
  match goal with |- ?G1 (map norm_file fs) = ?G2 fs => assert (HG : forall l, G1 (map norm_file l) = G2 l) end.
  - induction l as [|f l IHl]; [reflexivity|]. cbn [map norm_file rf_path]. fold (norm_file f).
    rewrite gen_file_norm.
    destruct (gen_file T (S (S (List.length T))) f) as [[[[defs es] ps] names]|e]; [|reflexivity]. cbn [rbind].
    now rewrite IHl.
  - apply HG.
Qed.

(* ---------------- (5) packets: family and action ---------------- *)
Lemma rbind_ok_inv {A B} (X : res A) (K : A -> res B) b : rbind X K = Ok b -> exists a, X = Ok a /\ K a = Ok b.
Proof. destruct X as [a|e]; cbn [rbind]; intros H; [now exists a | discriminate]. Qed.

Lemma require_ok {A} (o : option A) a : require o = Ok a -> o = Some a.
Proof. destruct o; cbn [require]; unfold reject; intros H; congruence. Qed.

Ltac bind_inv H a E := apply rbind_ok_inv in H; destruct H as [a [E H]]; cbv beta in H.

(* what gen_file's packet loop records for a generated packet class *)
Definition packet_decl (T : tenv) (tfuel : nat) (path : string) (rp : rpacket) (pk : ppacket) : Prop :=
  exists fa ac suffix fam act,
    rp_family rp = Some fa /\ rp_action rp = Some ac /\
    packet_suffix path = Ok suffix /\ pp_cls pk = (fa ++ ac ++ suffix)%string /\
    get_type T tfuel "PacketFamily" None = Ok fam /\ (exists en u, ti_ty fam = EEnum en u) /\
    get_type T tfuel "PacketAction" None = Ok act /\ (exists en u, ti_ty act = EEnum en u) /\
    assoc (ti_values fam) fa = Some (pp_family pk) /\ assoc (ti_values act) ac = Some (pp_action pk).

Lemma gen_file_packets T tfuel f defs es ps names :
  gen_file T tfuel f = Ok (defs, es, ps, names) ->
  forall pk, In pk ps -> exists rp, In rp (rf_packets f) /\ packet_decl T tfuel (rf_path f) rp pk.
Proof.
  unfold gen_file. intros H.
  bind_inv H es0 E1. bind_inv H ss0 E2. bind_inv H ps0 E3. destruct ps0 as [[pd pp] pn].
  assert (Hps : pp = ps) by congruence. subst pp. clear H E1 E2.
  revert pd pn E3. generalize ps. clear ps.
  match goal with |- forall ps pd pn, ?P (rf_packets f) = _ -> _ =>
    assert (HP : forall l ps pd pn, P l = Ok (pd, ps, pn) ->
                 forall pk, In pk ps -> exists rp, In rp l /\ packet_decl T tfuel (rf_path f) rp pk) end.
  - induction l as [|p l IHl]; intros ps pd pn H pk Hin.
    + assert (ps = []) by congruence. subst ps. destruct Hin.
    + bind_inv H suffix Es. bind_inv H fa Ef. bind_inv H ac Ea. bind_inv H fam Efam. bind_inv H u1 Ec1.
      bind_inv H act Eact. bind_inv H u2 Ec2. bind_inv H fv Efv. bind_inv H av Eav. bind_inv H dfs Ed.
      bind_inv H tlr Etl. destruct tlr as [[ds ps'] ns].
      assert (Hps : ps = mkPPacket (fa ++ ac ++ suffix) fv av :: ps') by congruence. subst ps.
      destruct Hin as [<- | Hin].
      * exists p. split; [now left|]. exists fa, ac, suffix, fam, act. cbn [pp_cls pp_family pp_action].
        apply require_ok in Ef, Ea, Efv, Eav.
        repeat split; try assumption.
        -- destruct (ti_ty fam) as [| |en u| | |]; try discriminate Ec1. now exists en, u.
        -- destruct (ti_ty act) as [| |en u| | |]; try discriminate Ec2. now exists en, u.
      * destruct (IHl ps' ds ns Etl pk Hin) as [rp [Hrp Hd]]. exists rp. split; [now right | exact Hd].
  - intros ps pd pn E3 pk Hin. exact (HP _ _ _ _ E3 pk Hin).
Qed.

Lemma elab_packets fs p pk : elab fs = Ok p -> In pk (pk_packets p) ->
  exists T f rp, index_files [] fs = Ok T /\ In f fs /\ In rp (rf_packets f) /\
                 packet_decl T (S (S (List.length T))) (rf_path f) rp pk.
Proof.
  unfold elab. intros H Hin. bind_inv H T ET. exists T.
  revert p H pk Hin.
  match goal with |- forall p, ?G fs = _ -> _ =>
    assert (HG : forall l p, G l = Ok p -> forall pk, In pk (pk_packets p) ->
                 exists f rp, In f l /\ In rp (rf_packets f) /\ packet_decl T (S (S (List.length T))) (rf_path f) rp pk) end.
  - induction l as [|f l IHl]; intros p H pk Hin.
    + assert (Hp : p = mkPkg [] [] [] []) by congruence. subst p. destruct Hin.
    + bind_inv H x Ex. destruct x as [[[defs es] ps] names]. bind_inv H p' Ep.
      assert (Hp : pk_packets p = ps ++ pk_packets p') by (injection H as <-; reflexivity).
      rewrite Hp in Hin. apply in_app_or in Hin as [Hin | Hin].
      * destruct (gen_file_packets _ _ _ _ _ _ _ Ex pk Hin) as [rp [Hrp Hd]]. exists f, rp. repeat split; [now left | exact Hrp | exact Hd].
      * destruct (IHl p' Ep pk Hin) as [f' [rp [Hf [Hrp Hd]]]]. exists f', rp. repeat split; [now right | exact Hrp | exact Hd].
  - intros p H pk Hin. destruct (HG fs p H pk Hin) as [f [rp [Hf [Hrp Hd]]]]. exists f, rp. auto.
Qed.

Lemma get_type_enum_inv T fuel name ti en u :
  get_type T fuel name None = Ok ti -> ti_ty ti = EEnum en u ->
  exists e path, assoc T (fst (split_colon name)) = Some (RTEnum e path) /\ re_name e = Some en /\
                 enum_values e = Ok (ti_values ti).
Proof.
  destruct fuel as [|fuel]; [discriminate|]. cbn [get_type]. destruct (split_colon name) as [base un]. cbn [fst].
  intros H Hty. bind_inv H under Eu. clear Eu. unfold reject in H.
  revert H. destruct (builtin_int base) as [i|].
  { destruct under; intros H; [discriminate|]. injection H as <-. discriminate Hty. }
  destruct (String.eqb base "bool").
  { intros H. injection H as <-. discriminate Hty. }
  destruct (is_string_name base).
  { destruct under; intros H; [discriminate|]. injection H as <-. discriminate Hty. }
  destruct (String.eqb base "blob").
  { destruct under; intros H; [discriminate|]. injection H as <-. discriminate Hty. }
  destruct (assoc T base) as [[e p|s p]|]; intros H.
  - bind_inv H ename Een. bind_inv H u0 Eu0. bind_inv H vals Ev. injection H as <-. cbn [ti_ty] in Hty.
    injection Hty as <- <-. exists e, p. repeat split; [now apply require_ok | exact Ev].
  - bind_inv H sname Es. bind_inv H fx Ef. bind_inv H bd Eb. destruct under; [discriminate|]. injection H as <-.
    discriminate Hty.
  - discriminate.
Qed.

Lemma enum_values_inv e vals k z : enum_values e = Ok vals -> assoc vals k = Some z ->
  exists txt, In (Some k, Some txt) (re_values e) /\ parse_int txt = Some z.
Proof.
  unfold enum_values. intros H. bind_inv H vals0 Ev. bind_inv H u1 E1. bind_inv H u2 E2.
  assert (Hv : vals0 = vals) by congruence. subst vals0. clear H E1 E2.
  revert vals Ev. generalize (re_values e) as vs.
  induction vs as [|[n t] vs IH]; intros vals H Ha.
  - assert (vals = []) by congruence. subst vals. discriminate Ha.
  - bind_inv H name En. bind_inv H ord Eo. bind_inv H tlv Et.
    assert (Hv : vals = (name, ord) :: tlv) by congruence. subst vals.
    apply require_ok in En, Eo. subst n. cbn [assoc] in Ha.
    destruct (String.eqb name k) eqn:Q.
    + apply String.eqb_eq in Q. subst k. injection Ha as <-.
      destruct t as [txt|]; [|discriminate Eo]. cbn [try_parse_int] in Eo. exists txt. split; [now left | exact Eo].
    + destruct (IH tlv Et Ha) as [txt [Hi Hp]]. exists txt. split; [now right | exact Hp].
Qed.

Lemma packet_suffix_inv path suffix : packet_suffix path = Ok suffix ->
  (path = "net/client" /\ suffix = "ClientPacket") \/ (path = "net/server" /\ suffix = "ServerPacket").
Proof.
  unfold packet_suffix, reject. destruct (String.eqb path "net/client") eqn:A.
  - intros H. left. split; [now apply String.eqb_eq | congruence].
  - destruct (String.eqb path "net/server") eqn:B; intros H; [|discriminate].
    right. split; [now apply String.eqb_eq | congruence].
Qed.

Theorem family_action fs p pk : elab fs = Ok p -> In pk (pk_packets p) ->
  exists T f rp fa ac suffix efam pfam tf eact pact ta,
    index_files [] fs = Ok T /\ In f fs /\ In rp (rf_packets f) /\
    rp_family rp = Some fa /\ rp_action rp = Some ac /\
    ((rf_path f = "net/client" /\ suffix = "ClientPacket") \/ (rf_path f = "net/server" /\ suffix = "ServerPacket")) /\
    pp_cls pk = (fa ++ ac ++ suffix)%string /\
    assoc T "PacketFamily" = Some (RTEnum efam pfam) /\ In (Some fa, Some tf) (re_values efam) /\
    parse_int tf = Some (pp_family pk) /\
    assoc T "PacketAction" = Some (RTEnum eact pact) /\ In (Some ac, Some ta) (re_values eact) /\
    parse_int ta = Some (pp_action pk).
Proof.
  intros H Hin. destruct (elab_packets fs p pk H Hin) as [T [f [rp [HT [Hf [Hrp Hd]]]]]].
  destruct Hd as (fa & ac & suffix & fam & act & Hfa & Hac & Hs & Hc & Gf & (en1 & u1 & Tf) & Ga & (en2 & u2 & Ta) & Af & Aa).
  destruct (get_type_enum_inv _ _ _ _ _ _ Gf Tf) as [efam [pfam [Lf [_ Vf]]]].
  destruct (get_type_enum_inv _ _ _ _ _ _ Ga Ta) as [eact [pact [La [_ Va]]]].
  destruct (enum_values_inv _ _ _ _ Vf Af) as [tf [If Pf]].
  destruct (enum_values_inv _ _ _ _ Va Aa) as [ta [Ia Pa]].
  exists T, f, rp, fa, ac, suffix, efam, pfam, tf, eact, pact, ta.
  repeat split; try assumption. now apply packet_suffix_inv.
Qed.

(* ---------------- (6) <chunked>: the only source of mode changes ---------------- *)
Lemma elab_chunked_outer T tfuel fuel cls c body rest : cx_chunked c = false ->
  elab_instrs T tfuel (S fuel) cls c (RChunked body :: rest) =
  (do _ <- guard (negb (cx_rdummy c));
   do x <- elab_instrs T tfuel fuel cls (mkCtx true (cx_ropt c) (cx_rdummy c) (cx_fields c) (cx_lenmap c) true) body;
   let '(c2, es, aux) := x in
   do r2 <- elab_instrs T tfuel fuel cls (mkCtx false (cx_ropt c2) (cx_rdummy c2) (cx_fields c2) (cx_lenmap c2) (cx_emitted c2)) rest;
   let '(c'', es', aux') := r2 in
   Ok (c'', (ESetMode true :: es ++ [ESetMode false]) ++ es', aux ++ aux')).
Proof.
  intros H. rewrite elab_instrs_S. cbn [elab_head]. rewrite H. cbn [negb]. rewrite orb_true_r.
  destruct (guard (negb (cx_rdummy c))) as [u|e]; [|reflexivity]. cbn [rbind].
  destruct (elab_instrs T tfuel fuel cls (mkCtx true (cx_ropt c) (cx_rdummy c) (cx_fields c) (cx_lenmap c) true) body)
    as [[[c2 es] aux]|e]; reflexivity.
Qed.

Lemma elab_chunked_nested T tfuel fuel cls c body rest : cx_chunked c = true ->
  elab_instrs T tfuel (S fuel) cls c (RChunked body :: rest) =
  (do _ <- guard (negb (cx_rdummy c));
   do x <- elab_instrs T tfuel fuel cls (mkCtx true (cx_ropt c) (cx_rdummy c) (cx_fields c) (cx_lenmap c) (cx_emitted c)) body;
   let '(c2, es, aux) := x in
   do r2 <- elab_instrs T tfuel fuel cls (mkCtx true (cx_ropt c2) (cx_rdummy c2) (cx_fields c2) (cx_lenmap c2) (cx_emitted c2)) rest;
   let '(c'', es', aux') := r2 in
   Ok (c'', es ++ es', aux ++ aux')).
Proof.
  intros H. rewrite elab_instrs_S. cbn [elab_head]. rewrite H. cbn [negb]. rewrite orb_false_r.
  destruct (guard (negb (cx_rdummy c))) as [u|e]; [|reflexivity]. cbn [rbind].
  destruct (elab_instrs T tfuel fuel cls (mkCtx true (cx_ropt c) (cx_rdummy c) (cx_fields c) (cx_lenmap c) (cx_emitted c)) body)
    as [[[c2 es] aux]|e]; reflexivity.
Qed.

(* ---------------- (7) where the entries of the type environment come from ---------------- *)
Lemma assoc_snoc {A} (l : list (string * A)) k v n :
  assoc (l ++ [(k, v)]) n = match assoc l n with Some r => Some r | None => if String.eqb k n then Some v else None end.
Proof.
  induction l as [|[k' v'] l IH]; cbn [app assoc]; [reflexivity|]. destruct (String.eqb k' n); [reflexivity | exact IH].
Qed.

Definition declares (f : rfile) (n : string) (rt : rtype) : Prop :=
  (exists e, In e (rf_enums f) /\ re_name e = Some n /\ rt = RTEnum e (rf_path f)) \/
  (exists s, In s (rf_structs f) /\ rs_name s = Some n /\ rt = RTStruct s (rf_path f)).

Lemma index_file_origin T f T' n rt : index_file T f = Ok T' -> assoc T' n = Some rt ->
  assoc T n = Some rt \/ declares f n rt.
Proof.
  unfold index_file. intros H. bind_inv H T1 E1. bind_inv H T2 E2. bind_inv H u E3.
  assert (HT : T2 = T') by congruence. subst T2. clear H E3.
  revert T T1 E1 E2.
  match goal with |- forall T T1, ?EN T (rf_enums f) = _ -> ?ST T1 (rf_structs f) = _ -> _ =>
    assert (HE : forall l T0 T1, EN T0 l = Ok T1 -> assoc T1 n = Some rt ->
                 assoc T0 n = Some rt \/ exists e, In e l /\ re_name e = Some n /\ rt = RTEnum e (rf_path f));
    [| assert (HS : forall l T0 T1, ST T0 l = Ok T1 -> assoc T1 n = Some rt ->
                 assoc T0 n = Some rt \/ exists s, In s l /\ rs_name s = Some n /\ rt = RTStruct s (rf_path f)) ]
  end.
  - induction l as [|e l IHl]; intros T0 T1 H Ha.
    + left. assert (T0 = T1) by congruence. now subst.
    + bind_inv H nm En. bind_inv H ug Eg. apply require_ok in En.
      destruct (IHl _ _ H Ha) as [Hl | [e' [Hin [Hn Hr]]]].
      * rewrite assoc_snoc in Hl. destruct (assoc T0 n) as [r|] eqn:A0; [now left|].
        destruct (String.eqb nm n) eqn:Q; [|discriminate]. apply String.eqb_eq in Q. subst nm.
        right. exists e. split; [now left|]. split; [exact En | congruence].
      * right. exists e'. split; [now right | auto].
  - induction l as [|s l IHl]; intros T0 T1 H Ha.
    + left. assert (T0 = T1) by congruence. now subst.
    + bind_inv H nm En. bind_inv H ug Eg. apply require_ok in En.
      destruct (IHl _ _ H Ha) as [Hl | [s' [Hin [Hn Hr]]]].
      * rewrite assoc_snoc in Hl. destruct (assoc T0 n) as [r|] eqn:A0; [now left|].
        destruct (String.eqb nm n) eqn:Q; [|discriminate]. apply String.eqb_eq in Q. subst nm.
        right. exists s. split; [now left|]. split; [exact En | congruence].
      * right. exists s'. split; [now right | auto].
  - intros T T1 E1 E2 Ha.
    destruct (HS _ _ _ E2 Ha) as [H1 | Hs]; [|right; right; exact Hs].
    destruct (HE _ _ _ E1 H1) as [H0 | He]; [now left | right; left; exact He].
Qed.

Lemma index_files_origin : forall fs T T' n rt, index_files T fs = Ok T' -> assoc T' n = Some rt ->
  assoc T n = Some rt \/ exists f, In f fs /\ declares f n rt.
Proof.
  induction fs as [|f fs IH]; intros T T' n rt H Ha.
  - left. cbn [index_files] in H. assert (T = T') by congruence. now subst.
  - cbn [index_files] in H. bind_inv H T1 E1.
    destruct (IH _ _ _ _ H Ha) as [H1 | [f' [Hin Hd]]].
    + destruct (index_file_origin _ _ _ _ _ E1 H1) as [H0 | Hd]; [now left|]. right. exists f. split; [now left | exact Hd].
    + right. exists f'. split; [now right | exact Hd].
Qed.

Lemma index_files_enum_origin fs T n e path : index_files [] fs = Ok T -> assoc T n = Some (RTEnum e path) ->
  exists f, In f fs /\ In e (rf_enums f) /\ re_name e = Some n /\ rf_path f = path.
Proof.
  intros H Ha. destruct (index_files_origin _ _ _ _ _ H Ha) as [H0 | [f [Hin Hd]]]; [discriminate H0|].
  destruct Hd as [[e' [He [Hn Hr]]] | [s [Hs [Hn Hr]]]]; [|discriminate Hr].
  injection Hr as -> ->. exists f. auto.
Qed.

(* the family/action theorem, with the enums traced back to the files that declare them *)
Theorem family_action_declared fs p pk : elab fs = Ok p -> In pk (pk_packets p) ->
  exists f rp fa ac suffix ffam efam tf fact eact ta,
    In f fs /\ In rp (rf_packets f) /\ rp_family rp = Some fa /\ rp_action rp = Some ac /\
    ((rf_path f = "net/client" /\ suffix = "ClientPacket") \/ (rf_path f = "net/server" /\ suffix = "ServerPacket")) /\
    pp_cls pk = (fa ++ ac ++ suffix)%string /\
    In ffam fs /\ In efam (rf_enums ffam) /\ re_name efam = Some "PacketFamily" /\
    In (Some fa, Some tf) (re_values efam) /\ parse_int tf = Some (pp_family pk) /\
    In fact fs /\ In eact (rf_enums fact) /\ re_name eact = Some "PacketAction" /\
    In (Some ac, Some ta) (re_values eact) /\ parse_int ta = Some (pp_action pk).
Proof.
  intros H Hin.
  destruct (family_action fs p pk H Hin)
    as (T & f & rp & fa & ac & suffix & efam & pfam & tf & eact & pact & ta & HT & Hf & Hrp & Hfa & Hac & Hs & Hc & Af & If & Pf & Aa & Ia & Pa).
  destruct (index_files_enum_origin _ _ _ _ _ HT Af) as (ffam & F1 & F2 & F3 & _).
  destruct (index_files_enum_origin _ _ _ _ _ HT Aa) as (fact & A1 & A2 & A3 & _).
  exists f, rp, fa, ac, suffix, ffam, efam, tf, fact, eact, ta. repeat split; assumption.
Qed.

(* conversely, every declared packet yields a generated class *)
Lemma gen_file_packets_complete T tfuel f defs es ps names :
  gen_file T tfuel f = Ok (defs, es, ps, names) ->
  forall rp, In rp (rf_packets f) -> exists pk, In pk ps /\ packet_decl T tfuel (rf_path f) rp pk.
Proof.
  unfold gen_file. intros H.
  bind_inv H es0 E1. bind_inv H ss0 E2. bind_inv H ps0 E3. destruct ps0 as [[pd pp] pn].
  assert (Hps : pp = ps) by congruence. subst pp. clear H E1 E2.
  revert pd pn E3. generalize ps. clear ps.
  match goal with |- forall ps pd pn, ?P (rf_packets f) = _ -> _ =>
    assert (HP : forall l ps pd pn, P l = Ok (pd, ps, pn) ->
                 forall rp, In rp l -> exists pk, In pk ps /\ packet_decl T tfuel (rf_path f) rp pk) end.
  - induction l as [|p l IHl]; intros ps pd pn H rp Hin; [destruct Hin|].
    bind_inv H suffix Es. bind_inv H fa Ef. bind_inv H ac Ea. bind_inv H fam Efam. bind_inv H u1 Ec1.
    bind_inv H act Eact. bind_inv H u2 Ec2. bind_inv H fv Efv. bind_inv H av Eav. bind_inv H dfs Ed.
    bind_inv H tlr Etl. destruct tlr as [[ds ps'] ns].
    assert (Hps : ps = mkPPacket (fa ++ ac ++ suffix) fv av :: ps') by congruence. subst ps.
    destruct Hin as [<- | Hin].
    + exists (mkPPacket (fa ++ ac ++ suffix) fv av). split; [now left|].
      exists fa, ac, suffix, fam, act. cbn [pp_cls pp_family pp_action].
      apply require_ok in Ef, Ea, Efv, Eav.
      repeat split; try assumption.
      * destruct (ti_ty fam) as [| |en u| | |]; try discriminate Ec1. now exists en, u.
      * destruct (ti_ty act) as [| |en u| | |]; try discriminate Ec2. now exists en, u.
    + destruct (IHl ps' ds ns Etl rp Hin) as [pk [Hpk Hd]]. exists pk. split; [now right | exact Hd].
  - intros ps pd pn E3 rp Hin. exact (HP _ _ _ _ E3 rp Hin).
Qed.

Theorem every_packet_generated fs p f rp : elab fs = Ok p -> In f fs -> In rp (rf_packets f) ->
  exists pk fa ac suffix, In pk (pk_packets p) /\ rp_family rp = Some fa /\ rp_action rp = Some ac /\
    ((rf_path f = "net/client" /\ suffix = "ClientPacket") \/ (rf_path f = "net/server" /\ suffix = "ServerPacket")) /\
    pp_cls pk = (fa ++ ac ++ suffix)%string.
Proof.
  unfold elab. intros H Hf Hrp. bind_inv H T ET.
  revert p H.
  match goal with |- forall p, ?G fs = _ -> _ =>
    assert (HG : forall l p, G l = Ok p -> In f l ->
                 exists pk, In pk (pk_packets p) /\ packet_decl T (S (S (List.length T))) (rf_path f) rp pk) end.
  - induction l as [|f0 l IHl]; intros p H Hin; [destruct Hin|].
    bind_inv H x Ex. destruct x as [[[defs es] ps] names]. bind_inv H p' Ep.
    assert (Hp : pk_packets p = ps ++ pk_packets p') by (injection H as <-; reflexivity).
    rewrite Hp. destruct Hin as [-> | Hin].
    + destruct (gen_file_packets_complete _ _ _ _ _ _ _ Ex rp Hrp) as [pk [Hpk Hd]].
      exists pk. split; [apply in_or_app; now left | exact Hd].
    + destruct (IHl p' Ep Hin) as [pk [Hpk Hd]]. exists pk. split; [apply in_or_app; now right | exact Hd].
  - intros p H. destruct (HG fs p H Hf) as [pk [Hpk Hd]].
    destruct Hd as (fa & ac & suffix & fam & act & Hfa & Hac & Hs & Hc & _).
    exists pk, fa, ac, suffix. repeat split; try assumption. now apply packet_suffix_inv.
Qed.

(* ---------------- (8) raw attributes -> elaborated instruction ("declared encodings") ---------------- *)
Lemma elab_field_inv T tfuel c name ty len padded optional text c' es :
  elab_field T tfuel c name ty len padded optional text = Ok (c', es) ->
  exists tn t l maxlen, ty = Some tn /\ get_type T tfuel tn len = Ok t /\ elab_len c len = Ok (l, maxlen) /\
    es = [EField (mkField name (ti_ty t) l (bool_attr padded false) (bool_attr optional false) (negb (cx_ropt c)) text maxlen)].
Proof.
  unfold elab_field, gt. intros H. bind_inv H u0 E0. bind_inv H tn Etn. bind_inv H u1 E1. bind_inv H u2 E2.
  bind_inv H t0 Et0. bind_inv H u3 E3. bind_inv H u4 E4. bind_inv H u5 E5. bind_inv H t Et. bind_inv H u6 E6.
  bind_inv H lm Elm. destruct lm as [l maxlen]. apply require_ok in Etn.
  exists tn, t, l, maxlen. repeat split; try assumption. injection H as _ <-. reflexivity.
Qed.

Lemma elab_array_inv T tfuel c name ty len optional delimited trailing c' es :
  elab_array T tfuel c name ty len optional delimited trailing = Ok (c', es) ->
  exists n tn t l maxlen cnt, name = Some n /\ ty = Some tn /\ get_type T tfuel tn None = Ok t /\
    elab_len c len = Ok (l, maxlen) /\
    es = [EArray (mkField (Some n) (ti_ty t) l false (bool_attr optional false) (negb (cx_ropt c)) None maxlen)
                 (bool_attr delimited false) (bool_attr trailing true) cnt] /\
    (bool_attr delimited false = true -> cx_chunked c = true).
Proof.
  unfold elab_array, gt. intros H. bind_inv H u0 E0. bind_inv H u1 E1. bind_inv H n En. bind_inv H tn Etn.
  bind_inv H t Et. bind_inv H u2 E2. bind_inv H u3 E3. bind_inv H u4 E4. bind_inv H lm Elm. destruct lm as [l maxlen].
  apply require_ok in En, Etn. eexists n, tn, t, l, maxlen, _. repeat split; try assumption.
  - injection H as _ <-. reflexivity.
  - intros Hd. unfold flag_attr in E1. rewrite Hd in E1. destruct (cx_chunked c); [reflexivity | discriminate E1].
Qed.

Lemma elab_length_inv T tfuel c name ty offset optional c' es :
  elab_length T tfuel c name ty offset optional = Ok (c', es) ->
  exists n tn t i off, name = Some n /\ ty = Some tn /\ get_type T tfuel tn None = Ok t /\ ti_ty t = EInt i /\
    match offset with None => off = 0 | Some o => parse_int o = Some off end /\
    es = [ELength n i off (bool_attr optional false) (negb (cx_ropt c)) None].
Proof.
  unfold elab_length, gt. intros H. bind_inv H u0 E0. bind_inv H n En. bind_inv H tn Etn. bind_inv H off Eoff.
  bind_inv H t Et. bind_inv H i Ei. bind_inv H u1 E1. apply require_ok in En, Etn, Ei.
  exists n, tn, t, i, off. repeat split; try assumption.
  - unfold is_integer in Ei. destruct (ti_ty t); try discriminate Ei. congruence.
  - destruct offset as [o|]; [now apply require_ok in Eoff | congruence].
  - injection H as _ <-. reflexivity.
Qed.

Lemma elab_dummy_inv T tfuel c ty text c' es :
  elab_dummy T tfuel c ty text = Ok (c', es) ->
  exists tn lit t, ty = Some tn /\ text = Some lit /\ get_type T tfuel tn None = Ok t /\
    es = [EDummy (ti_ty t) lit (cx_emitted c)].
Proof.
  unfold elab_dummy, gt. intros H. bind_inv H tn Etn. bind_inv H lit El. bind_inv H t Et. bind_inv H u0 E0. bind_inv H u1 E1.
  apply require_ok in Etn, El. exists tn, lit, t. repeat split; try assumption. injection H as _ <-. reflexivity.
Qed.
