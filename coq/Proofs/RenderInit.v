(* The generated constructors are the constructor models.
   `render_init` (Model/RenderInit.v) is the generator's `__init__` template as a Coq function; Model/RenderCheckI.v decides, per
   generated class, that the text tools/py2stmt.py parsed equals it.  This file proves what running the rendered statements
   (interpreters `exec_init`, `exec_init_h` of Model/RenderInit.v) computes:

   (a) `rendered_init_slots_are_ctor_slots`: the private slots of the new instance are `ctor_slots E c flds` (end of
       Proofs/RenderSer.v: the `slots` the serialize theorems of Proofs/Shaped.v run on), flds = the public fields of that instance,
       lookup by lookup;
   (b) `rendered_init_is_init_model`: the object is what `init_model` (Model/RenderDeser.v, the `ctor` of the deserialize theorems)
       says, wherever that model does not abstain (Err EUnexpected), and `rendered_init_on_deserialize_args`: it does not abstain
       on the arguments `deserialize` passes; hence `C03`'s hypothesis on `ctor` can be replaced by the parsed constructors
       (`py_deserialize_i_correct`);
   (c) `rendered_init_frozen` / `rendered_init_vs_construct`: on the object / heap model of Model/ObjModel.v (property C19) no slot
       of the new instance aliases a caller-owned cell, and the slots of the passed arguments are those of `ObjModel.construct`.
   Also: `public_fields` is what the parsed read-only properties read (`public_fields_are_the_getters`), and C02's program theorem
   holds with the slots the parsed constructors assign in place of `ctor_slots`, on the objects the constructors can have built
   (`py_serialize_i_correct`).
   Where the models and the text differ: the `_differs` / `_abstains` examples near the end. *)
From EO Require Import Prelude.Py Prelude.Corr Model.Reader Model.Writer Model.Spec Model.Elab Model.Ser Model.Deser Model.PyStmt Model.PyStmtR
     Model.RenderSer Model.RenderDeser Model.RenderCheck Model.RenderCheckD Model.ObjModel Model.RenderInit Model.RenderCheckI.
From EO Require Proofs.RenderSer Proofs.RenderDeser Proofs.Shaped Proofs.ObjModel.
Open Scope string_scope.
Open Scope list_scope.
Open Scope Z_scope.
Set Default Timeout 60.

(* ================================================================ lists, association lists *)
Lemma ri_mem_In x l : mem_str x l = true <-> In x l.
Proof.
  induction l as [|y l IH]; cbn [mem_str In]; [split; [discriminate | tauto]|].
  rewrite orb_true_iff, IH, String.eqb_eq. split; intros [H|H]; auto.
Qed.
Lemma ri_mem_nIn x l : mem_str x l = false <-> ~ In x l.
Proof. rewrite <- ri_mem_In. destruct (mem_str x l); split; congruence. Qed.
Lemma ri_dup_free_NoDup l : dup_free l = true -> NoDup l.
Proof.
  induction l as [|x l IH]; cbn [dup_free]; [constructor|]. intro H. apply andb_true_iff in H as [H1 H2].
  constructor; [apply ri_mem_nIn, negb_true_iff, H1 | apply IH, H2].
Qed.
Lemma ri_NoDup_dup_free l : NoDup l -> dup_free l = true.
Proof.
  induction 1 as [|x l Hx Hnd IH]; [reflexivity|]. cbn [dup_free]. rewrite IH, andb_true_r. apply negb_true_iff, ri_mem_nIn, Hx.
Qed.
Lemma ri_NoDup_app_l {A} (a b : list A) : NoDup (a ++ b) -> NoDup a.
Proof.
  induction a as [|x a IH]; cbn [app]; [constructor|]. intro H. inversion H as [|y l Hx Hnd]; subst.
  constructor; [intro Hin; apply Hx, in_or_app; left; exact Hin | apply IH, Hnd].
Qed.
Lemma ri_NoDup_app_r {A} (a b : list A) : NoDup (a ++ b) -> NoDup b.
Proof. induction a as [|x a IH]; cbn [app]; [tauto|]. intro H. inversion H; subst. auto. Qed.
Lemma ri_NoDup_app_disj {A} (a b : list A) x : NoDup (a ++ b) -> In x a -> ~ In x b.
Proof.
  induction a as [|y a IH]; cbn [app]; [intros _ []|]. intro H. inversion H as [|z l Hy Hnd]; subst. intros [<-|Hin] Hb.
  - apply Hy, in_or_app. right. exact Hb.
  - exact (IH Hnd Hin Hb).
Qed.
Lemma ri_assoc_cons {A} k (v : A) l x : assoc ((k, v) :: l) x = if String.eqb k x then Some v else assoc l x.
Proof. reflexivity. Qed.
Lemma ri_assoc_app {A} (a b : list (string * A)) k :
  assoc (a ++ b) k = match assoc a k with Some v => Some v | None => assoc b k end.
Proof. induction a as [|[k0 v0] a IH]; [reflexivity|]. cbn [app assoc]. destruct (String.eqb k0 k); [reflexivity | exact IH]. Qed.
Lemma ri_assoc_in {A} (l : list (string * A)) k v : assoc l k = Some v -> In (k, v) l.
Proof.
  induction l as [|[k0 v0] l IH]; cbn [assoc]; [discriminate|].
  destruct (String.eqb k0 k) eqn:Ek; [intro H; inversion H; subst; apply String.eqb_eq in Ek; subst; left; reflexivity | intro H; right; apply IH, H].
Qed.
Lemma ri_assoc_none {A} (l : list (string * A)) k : assoc l k = None <-> ~ In k (map fst l).
Proof.
  induction l as [|[k0 v0] l IH]; cbn [assoc map fst In]; [tauto|]. destruct (String.eqb k0 k) eqn:Ek.
  - apply String.eqb_eq in Ek. split; [discriminate | intro H; exfalso; apply H; left; exact Ek].
  - apply String.eqb_neq in Ek. rewrite IH. tauto.
Qed.
Lemma ri_assoc_nodup {A} (l : list (string * A)) k v : NoDup (map fst l) -> In (k, v) l -> assoc l k = Some v.
Proof.
  induction l as [|[k0 v0] l IH]; intros Hnd Hin; [destruct Hin|]. cbn [map fst] in Hnd. inversion Hnd as [|x t Hx Hnd']; subst.
  cbn [assoc]. destruct Hin as [Heq|Hin].
  - inversion Heq; subst. rewrite String.eqb_refl. reflexivity.
  - destruct (String.eqb k0 k) eqn:Ek; [|apply IH; assumption]. apply String.eqb_eq in Ek. subst k0.
    exfalso. apply Hx. apply in_map_iff. exists (k, v). split; [reflexivity | exact Hin].
Qed.
Lemma ri_assoc_map {A B} (g : A -> B) (l : list (string * A)) k :
  assoc (map (fun p => (fst p, g (snd p))) l) k = option_map g (assoc l k).
Proof. induction l as [|[k0 v0] l IH]; [reflexivity|]. cbn [map assoc fst snd]. destruct (String.eqb k0 k); [reflexivity | exact IH]. Qed.
Lemma ri_map_fst_map {A B} (g : A -> B) (l : list (string * A)) : map fst (map (fun p => (fst p, g (snd p))) l) = map fst l.
Proof. induction l as [|[k0 v0] l IH]; [reflexivity|]. cbn [map fst]. f_equal. exact IH. Qed.

(* self._x = v *)
Lemma set_slot_eq {A} (sl : list (string * A)) x v : assoc (set_slot sl x v) x = Some v.
Proof.
  induction sl as [|[k u] sl IH]; cbn [set_slot assoc]; [rewrite String.eqb_refl; reflexivity|].
  destruct (String.eqb k x) eqn:E; cbn [assoc]; rewrite E; [reflexivity | exact IH].
Qed.
Lemma set_slot_ne {A} (sl : list (string * A)) x v k : x <> k -> assoc (set_slot sl x v) k = assoc sl k.
Proof.
  intro Hne. induction sl as [|[k0 u] sl IH]; cbn [set_slot assoc].
  - destruct (String.eqb x k) eqn:E; [apply String.eqb_eq in E; contradiction | reflexivity].
  - destruct (String.eqb k0 x) eqn:E; cbn [assoc].
    + apply String.eqb_eq in E. subst k0. destruct (String.eqb x k) eqn:E2; [apply String.eqb_eq in E2; contradiction | reflexivity].
    + destruct (String.eqb k0 k); [reflexivity | exact IH].
Qed.
Lemma set_slot_map {A B} (g : A -> B) (sl : list (string * A)) x v :
  map (fun p => (fst p, g (snd p))) (set_slot sl x v) = set_slot (map (fun p => (fst p, g (snd p))) sl) x (g v).
Proof.
  induction sl as [|[k u] sl IH]; [reflexivity|]. cbn [set_slot map fst snd]. destruct (String.eqb k x); cbn [map fst snd]; [reflexivity | f_equal; exact IH].
Qed.
Lemma set_slot_forall {A} (P : A -> Prop) (sl : list (string * A)) x v :
  Forall (fun s => P (snd s)) sl -> P v -> Forall (fun s => P (snd s)) (set_slot sl x v).
Proof.
  intros Hs Hv. induction Hs as [|[k u] sl Hu Hs IH]; cbn [set_slot]; [constructor; [exact Hv | constructor]|].
  destruct (String.eqb k x); constructor; try assumption.
Qed.

Lemma exec_istmts_app L a b sl : exec_istmts L (a ++ b) sl = (do s1 <- exec_istmts L a sl; exec_istmts L b s1).
Proof.
  revert sl; induction a as [|[x e] a IH]; intro sl; [reflexivity|]. cbn [app exec_istmts].
  destruct (ieval L sl e) as [v|err]; cbn [rbind]; [apply IH | reflexivity].
Qed.
Lemma exec_istmts_h_app h L a b sl : exec_istmts_h h L (a ++ b) sl = (do s1 <- exec_istmts_h h L a sl; exec_istmts_h h L b s1).
Proof.
  revert sl; induction a as [|[x e] a IH]; intro sl; [reflexivity|]. cbn [app exec_istmts_h].
  destruct (ieval_h h L sl e) as [v|err]; cbn [rbind]; [apply IH | reflexivity].
Qed.

(* ================================================================ soundness of the executable comparison *)
Lemma iexpr_eqb_eq a : forall b, iexpr_eqb a b = true -> a = b.
Proof.
  induction a; intros [] H; cbn [iexpr_eqb] in H; try discriminate H; try reflexivity;
    repeat match goal with
           | H : _ && _ = true |- _ => apply andb_true_iff in H as [? ?]
           | H : String.eqb _ _ = true |- _ => apply String.eqb_eq in H; subst
           | H : (_ =? _) = true |- _ => apply Z.eqb_eq in H; subst
           | H : Bool.eqb _ _ = true |- _ => apply Bool.eqb_prop in H; subst
           end; try reflexivity; f_equal; auto.
Qed.
Lemma istmts_eqb_eq a : forall b, istmts_eqb a b = true -> a = b.
Proof.
  induction a as [|[x e] a IH]; intros [|[y e'] b] H; cbn [istmts_eqb istmt_eqb] in H; try discriminate H; [reflexivity|].
  apply andb_true_iff in H as [H1 H2]. apply andb_true_iff in H1 as [H0 H1]. apply String.eqb_eq in H0. apply iexpr_eqb_eq in H1.
  subst. f_equal. apply IH, H2.
Qed.
Lemma iparams_eqb_eq a : forall b, iparams_eqb a b = true -> a = b.
Proof.
  induction a as [|[x d] a IH]; intros [|[y d'] b] H; cbn [iparams_eqb] in H; try discriminate H; [reflexivity|].
  apply andb_true_iff in H as [H1 H2]. apply andb_true_iff in H1 as [H0 H1]. apply String.eqb_eq in H0. apply Bool.eqb_prop in H1.
  subst. f_equal. apply IH, H2.
Qed.
Lemma init_eqb_eq a b : init_eqb a b = true -> a = b.
Proof.
  destruct a as [p s], b as [p' s']. unfold init_eqb. cbn [fst snd]. intro H. apply andb_true_iff in H as [H1 H2].
  apply iparams_eqb_eq in H1. apply istmts_eqb_eq in H2. subst. reflexivity.
Qed.

(* what a clean verdict of the harness on one class means *)
Lemma i_render_class_inv d pi :
  i_render_class d pi = [] -> render_init (sd_body d) = Some pi /\ init_static_ok (sd_body d) = true.
Proof.
  unfold i_render_class. destruct (render_init (sd_body d)) as [ri|]; [|discriminate].
  destruct (init_eqb pi ri) eqn:E; [|discriminate]. apply init_eqb_eq in E. subst ri.
  destruct (init_static_ok (sd_body d)); [split; reflexivity | discriminate].
Qed.

(* ================================================================ the rendered statements, run *)
(* the value assigned to self._<name> *)
Definition lookup_param {A} (L : list (string * A)) (n : string) : res A :=
  match assoc L n with Some v => Ok v | None => Err EUnexpected end.
Definition hard_value (ty : etype) (lit : string) : value :=
  match ty with
  | EStr _ => VStr (str_cps lit)
  | EBool _ => VBool (String.eqb lit "true")
  | _ => VInt (digits_val lit 0)
  end.
Definition field_value (f : fieldspec) (array : bool) (L : locals) (n : string) : res value :=
  match f_hard f with
  | Some lit => Ok (hard_value (f_ty f) lit)
  | None =>
    do a <- lookup_param L n;
    if array then (if f_optional f && py_is_none a then Ok VNone else py_tuple_of a) else Ok a
  end.
(* the value assigned to the slot of the length field that the field refers to *)
Definition len_value (f : fieldspec) (v : value) : res value :=
  if f_optional f && py_is_none v then Ok VNone else py_len_of v.

Definition run_field (f : fieldspec) (array : bool) (L : locals) (sl : slots) : res slots :=
  match f_name f with
  | None => Ok sl
  | Some n =>
    do v <- field_value f array L n;
    match f_len f with
    | LRef l => do lv <- len_value f v; Ok (set_slot (set_slot sl n v) l lv)
    | _ => Ok (set_slot sl n v)
    end
  end.
Definition run_instr (i : einstr) (L : locals) (sl : slots) : res slots :=
  match i with
  | EField f => run_field f false L sl
  | EArray f _ _ _ => run_field f true L sl
  | ESwitch field _ => let dn := (field ++ "_data")%string in do v <- lookup_param L dn; Ok (set_slot sl dn v)
  | _ => Ok sl
  end.
Fixpoint run_body (is : list einstr) (L : locals) (sl : slots) : res slots :=
  match is with
  | [] => Ok sl
  | i :: t => do s1 <- run_instr i L sl; run_body t L s1
  end.

Lemma hard_expr_value ty lit e L sl : hard_expr ty lit = Some e -> ieval L sl e = Ok (hard_value ty lit).
Proof.
  destruct ty; cbn [hard_expr hard_value]; try discriminate.
  - destruct (isdigit lit); [|discriminate]. intro H; inversion H; reflexivity.
  - destruct (String.eqb lit "true") eqn:Et; [intro H; inversion H; reflexivity|].
    destruct (String.eqb lit "false"); [|discriminate]. intro H; inversion H; reflexivity.
  - intro H; inversion H; reflexivity.
Qed.

Lemma field_expr_value f n array e L sl :
  field_expr f n array = Some e -> ieval L sl e = field_value f array L n.
Proof.
  unfold field_expr, field_value. destruct (f_hard f) as [lit|].
  - destruct array; [discriminate|]. apply hard_expr_value.
  - intro H; inversion H; subst e; clear H. unfold lookup_param. destruct array.
    + destruct (f_optional f); cbn [ieval andb].
      * destruct (assoc L n) as [a|]; cbn [rbind]; [|reflexivity]. cbn [py_truth]. destruct (py_is_none a); reflexivity.
      * destruct (assoc L n) as [a|]; reflexivity.
    + cbn [ieval]. destruct (assoc L n); reflexivity.
Qed.

Lemma len_stmt_run f n v L sl :
  assoc sl n = Some v ->
  exec_istmts L (len_stmt f n) sl =
  match f_len f with LRef l => do lv <- len_value f v; Ok (set_slot sl l lv) | _ => Ok sl end.
Proof.
  intro Hn. unfold len_stmt, len_value. destruct (f_len f) as [| |l]; try reflexivity. cbn [exec_istmts].
  destruct (f_optional f); cbn [ieval andb]; rewrite Hn; cbn [rbind py_truth].
  - destruct (py_is_none v); cbn [negb]; [reflexivity|]. destruct (py_len_of v); reflexivity.
  - destruct (py_len_of v); reflexivity.
Qed.

Lemma init_fieldlike_run f array ps ss L sl :
  init_fieldlike f array = Some (ps, ss) -> exec_istmts L ss sl = run_field f array L sl.
Proof.
  unfold init_fieldlike, run_field. destruct (f_name f) as [n|].
  - destruct (field_expr f n array) as [e|] eqn:Ee; [|discriminate]. intro H; inversion H; subst ps ss; clear H.
    cbn [exec_istmts]. rewrite (field_expr_value f n array e L sl Ee).
    destruct (field_value f array L n) as [v|err]; cbn [rbind]; [|reflexivity].
    rewrite (len_stmt_run f n v L (set_slot sl n v) (set_slot_eq sl n v)). destruct (f_len f); reflexivity.
  - destruct array; [discriminate|]. intro H; inversion H; reflexivity.
Qed.

Lemma init_instr_run i ps ss L sl : init_instr i = Some (ps, ss) -> exec_istmts L ss sl = run_instr i L sl.
Proof.
  destruct i as [f|f d t c| | |field cases| |]; cbn [init_instr run_instr]; try (intro H; inversion H; reflexivity).
  - apply init_fieldlike_run.
  - apply init_fieldlike_run.
Qed.

(* running the rendered statements = run_body *)
Lemma render_init_from_run is : forall ps ss L sl,
  render_init_from is = Some (ps, ss) -> exec_istmts L ss sl = run_body is L sl.
Proof.
  induction is as [|i t IH]; intros ps ss L sl; cbn [render_init_from run_body]; [intro H; inversion H; reflexivity|].
  destruct (init_instr i) as [[p1 s1]|] eqn:Ei; [|discriminate]. destruct (render_init_from t) as [[p2 s2]|] eqn:Et; [|discriminate].
  intro H; inversion H; subst ps ss; clear H. rewrite exec_istmts_app, (init_instr_run i p1 s1 L sl Ei).
  destruct (run_instr i L sl) as [s'|e]; cbn [rbind]; [apply (IH p2 s2), eq_refl | reflexivity].
Qed.

(* the parameter names are the public names of the model, in order *)
Lemma render_init_from_names is : forall ps ss, render_init_from is = Some (ps, ss) -> map fst ps = public_names is.
Proof.
  induction is as [|i t IH]; intros ps ss; cbn [render_init_from]; [intro H; inversion H; reflexivity|].
  destruct (init_instr i) as [[p1 s1]|] eqn:Ei; [|discriminate]. destruct (render_init_from t) as [[p2 s2]|] eqn:Et; [|discriminate].
  intro H; inversion H; subst ps ss; clear H. unfold public_names. cbn [flat_map]. fold (public_names t).
  rewrite map_app, (IH p2 s2 eq_refl). f_equal.
  destruct i as [f|f d tr c| | |field cases| |]; cbn [init_instr instr_public] in *; try (inversion Ei; reflexivity).
  - unfold init_fieldlike in Ei. destruct (f_name f) as [n|]; [|inversion Ei; reflexivity].
    destruct (field_expr f n false); inversion Ei; reflexivity.
  - unfold init_fieldlike in Ei. destruct (f_name f) as [n|]; [|discriminate].
    destruct (field_expr f n true); inversion Ei; reflexivity.
Qed.

Lemma render_init_inv is ps ss :
  render_init is = Some (ps, ss) ->
  render_init_from is = Some (ps, ss) /\ map fst ps = public_names is /\ NoDup (public_names is) /\ ~ In "self" (public_names is).
Proof.
  unfold render_init. destruct (render_init_from is) as [[p s]|] eqn:E; [|discriminate].
  destruct (dup_free ("self" :: map fst p)) eqn:Ed; [|discriminate]. intro H; inversion H; subst p s; clear H.
  pose proof (render_init_from_names is ps ss E) as Hn. apply ri_dup_free_NoDup in Ed. inversion Ed as [|x l Hx Hnd]; subst.
  rewrite Hn in *. auto.
Qed.

(* ================================================================ frames: which slots a run touches *)
Lemma assigned_cons i t : assigned (i :: t) = instr_assigned i ++ assigned t.
Proof. reflexivity. Qed.

Lemma run_field_frame f array L sl sl' :
  run_field f array L sl = Ok sl' -> forall k, ~ In k (instr_assigned (EField f)) -> assoc sl' k = assoc sl k.
Proof.
  unfold run_field. cbn [instr_assigned]. destruct (f_name f) as [n|]; [|intro H; inversion H; reflexivity].
  destruct (field_value f array L n) as [v|e]; cbn [rbind]; [|discriminate].
  destruct (f_len f) as [| |l].
  - intro H; inversion H; subst. intros k Hk. apply set_slot_ne. intro; subst; apply Hk; left; reflexivity.
  - intro H; inversion H; subst. intros k Hk. apply set_slot_ne. intro; subst; apply Hk; left; reflexivity.
  - destruct (len_value f v) as [lv|e]; cbn [rbind]; [|discriminate]. intro H; inversion H; subst. intros k Hk.
    rewrite set_slot_ne by (intro; subst; apply Hk; right; left; reflexivity).
    apply set_slot_ne. intro; subst; apply Hk; left; reflexivity.
Qed.
Lemma run_instr_frame i L sl sl' :
  run_instr i L sl = Ok sl' -> forall k, ~ In k (instr_assigned i) -> assoc sl' k = assoc sl k.
Proof.
  destruct i as [f|f d t c| | |field cases| |]; cbn [run_instr]; try (intro H; inversion H; reflexivity).
  - apply run_field_frame.
  - apply (run_field_frame f true).
  - destruct (lookup_param L (field ++ "_data")%string) as [v|e]; cbn [rbind]; [|discriminate]. intro H; inversion H; subst.
    intros k Hk. apply set_slot_ne. intro; subst; apply Hk; left; reflexivity.
Qed.
Lemma run_body_frame is L : forall sl sl',
  run_body is L sl = Ok sl' -> forall k, ~ In k (assigned is) -> assoc sl' k = assoc sl k.
Proof.
  induction is as [|i t IH]; intros sl sl'; cbn [run_body]; [intro H; inversion H; reflexivity|].
  destruct (run_instr i L sl) as [s1|e] eqn:E1; cbn [rbind]; [|discriminate]. intros Ht k Hk. rewrite assigned_cons in Hk.
  rewrite (IH s1 sl' Ht k) by (intro; apply Hk, in_or_app; right; assumption).
  apply (run_instr_frame i L sl s1 E1). intro; apply Hk, in_or_app; left; assumption.
Qed.

(* ================================================================ (b) the rendered constructor is init_model *)
Lemma is_none_py v : is_none v = py_is_none v.
Proof. destruct v; reflexivity. Qed.
Lemma len_check_value f v :
  match len_slot_check f v with
  | Ok _ => match f_len f with LRef _ => exists lv, len_value f v = Ok lv | _ => True end
  | Err e => e = EType /\ len_value f v = Err EType /\ exists l, f_len f = LRef l
  end.
Proof.
  unfold len_slot_check, len_value. rewrite (is_none_py v). destruct (f_len f) as [| |l]; try exact I.
  destruct (f_optional f && py_is_none v); [eexists; reflexivity|].
  destruct v; cbn [py_len py_len_of]; try (split; [reflexivity | split; [reflexivity | eexists; reflexivity]]); eexists; reflexivity.
Qed.
Lemma hard_expr_lit ty lit e : hard_expr ty lit = Some e -> lit_value ty lit = Ok (hard_value ty lit).
Proof.
  destruct ty; cbn [hard_expr lit_value hard_value]; try discriminate.
  - destruct (isdigit lit) eqn:Ed; [|discriminate]. intros _. rewrite (Proofs.RenderSer.parse_int_isdigit' lit Ed). reflexivity.
  - destruct (String.eqb lit "true"); [reflexivity|]. destruct (String.eqb lit "false"); [reflexivity | discriminate].
  - reflexivity.
Qed.

Lemma init_fields_names is L : forall flds, init_fields is L = Ok flds -> map fst flds = public_names is.
Proof.
  induction is as [|i t IH]; intro flds; cbn [init_fields]; [intro H; inversion H; reflexivity|].
  unfold public_names. cbn [flat_map]. fold (public_names t).
  destruct i as [f|f d tr c| | |field cases| |]; cbn [instr_public app]; try (apply IH).
  - destruct (f_name f) as [n|]; [|apply IH].
    match goal with |- rbind ?m _ = _ -> _ => destruct m as [v|e]; cbn [rbind]; [|discriminate] end.
    destruct (len_slot_check f v); cbn [rbind]; [|discriminate]. destruct (init_fields t L) as [rest|e]; cbn [rbind]; [|discriminate].
    intro H; inversion H; subst. cbn [map fst app]. f_equal. apply IH; reflexivity.
  - destruct (f_name f) as [n|]; [|apply IH].
    match goal with |- rbind ?m _ = _ -> _ => destruct m as [a|e]; cbn [rbind]; [|discriminate] end.
    match goal with |- rbind ?m _ = _ -> _ => destruct m as [v|e]; cbn [rbind]; [|discriminate] end.
    destruct (len_slot_check f v); cbn [rbind]; [|discriminate]. destruct (init_fields t L) as [rest|e]; cbn [rbind]; [|discriminate].
    intro H; inversion H; subst. cbn [map fst app]. f_equal. apply IH; reflexivity.
  - match goal with |- rbind ?m _ = _ -> _ => destruct m as [v|e]; cbn [rbind]; [|discriminate] end.
    destruct (init_fields t L) as [rest|e]; cbn [rbind]; [|discriminate].
    intro H; inversion H; subst. cbn [map fst app]. f_equal. apply IH; reflexivity.
Qed.

(* one field / array: its statements, given the value `field_value` computes *)
Lemma run_field_ok f array n L sl v :
  f_name f = Some n -> NoDup (instr_assigned (EField f)) -> field_value f array L n = Ok v ->
  match len_slot_check f v with
  | Ok _ => exists s1, run_field f array L sl = Ok s1 /\ assoc s1 n = Some v
  | Err e => run_field f array L sl = Err e
  end.
Proof.
  intros Hn Hnd Hv. unfold run_field. cbn [instr_assigned] in Hnd. rewrite Hn in *. rewrite Hv. cbn [rbind].
  pose proof (len_check_value f v) as Hl. destruct (len_slot_check f v) as [[]|e].
  - destruct (f_len f) as [| |l].
    + eexists; split; [reflexivity | apply set_slot_eq].
    + eexists; split; [reflexivity | apply set_slot_eq].
    + destruct Hl as [lv Hlv]. rewrite Hlv. cbn [rbind]. eexists; split; [reflexivity|].
      assert (Hne : l <> n) by (intro; subst; inversion Hnd as [|x t Hx _]; apply Hx; left; reflexivity).
      rewrite set_slot_ne by exact Hne. apply set_slot_eq.
  - destruct Hl as [-> [Hlv [l Hl]]]. rewrite Hl, Hlv. reflexivity.
Qed.
Lemma run_field_err f array n L sl e : f_name f = Some n -> field_value f array L n = Err e -> run_field f array L sl = Err e.
Proof. intros Hn Hv. unfold run_field. rewrite Hn, Hv. reflexivity. Qed.

(* the value Model/RenderDeser.init_fields computes for a field / for an array *)
Definition model_field_value (f : fieldspec) (n : string) (L : locals) : res value :=
  match f_hard f with
  | Some lit => lit_value (f_ty f) lit
  | None => match assoc L n with Some v => Ok v | None => Err EUnexpected end
  end.
Definition model_array_value (f : fieldspec) (n : string) (L : locals) : res value :=
  do a <- match assoc L n with Some v => Ok v | None => Err EUnexpected end;
  if f_optional f && is_none a then Ok VNone else py_tuple a.
Definition value_agrees (mv rv : res value) : Prop :=
  match mv with Ok v => rv = Ok v | Err e => e = EUnexpected \/ rv = Err e end.

Lemma model_field_value_agrees f n L e : field_expr f n false = Some e -> value_agrees (model_field_value f n L) (field_value f false L n).
Proof.
  unfold field_expr, model_field_value, field_value, value_agrees, lookup_param. destruct (f_hard f) as [lit|].
  - intro H. rewrite (hard_expr_lit _ _ _ H). reflexivity.
  - intros _. destruct (assoc L n); [reflexivity | left; reflexivity].
Qed.
Lemma model_array_value_agrees f n L e : field_expr f n true = Some e -> value_agrees (model_array_value f n L) (field_value f true L n).
Proof.
  unfold field_expr, model_array_value, field_value, value_agrees, lookup_param. destruct (f_hard f) as [lit|]; [discriminate|].
  intros _. destruct (assoc L n) as [a|]; cbn [rbind]; [|left; reflexivity]. rewrite (is_none_py a).
  destruct (f_optional f && py_is_none a); [reflexivity|]. destruct a; cbn [py_tuple py_tuple_of]; auto.
Qed.

Definition model_ok (L : locals) (t : list einstr) : Prop :=
  forall sl, match init_fields t L with
             | Ok flds => exists sl', run_body t L sl = Ok sl' /\ forall n v, In (n, v) flds -> assoc sl' n = Some v
             | Err e => e = EUnexpected \/ run_body t L sl = Err e
             end.

Lemma step_assemble mv f array n L t :
  f_name f = Some n -> NoDup (instr_assigned (EField f) ++ assigned t) ->
  value_agrees mv (field_value f array L n) -> model_ok L t ->
  forall sl,
  match (do v <- mv; do _ <- len_slot_check f v; do rest <- init_fields t L; Ok ((n, v) :: rest)) with
  | Ok flds => exists sl', (do s1 <- run_field f array L sl; run_body t L s1) = Ok sl' /\ forall n v, In (n, v) flds -> assoc sl' n = Some v
  | Err e => e = EUnexpected \/ (do s1 <- run_field f array L sl; run_body t L s1) = Err e
  end.
Proof.
  intros Hn Hnd Hmv IH sl. destruct mv as [v|e]; cbn [rbind value_agrees] in *.
  2:{ destruct Hmv as [->|Hmv]; [left; reflexivity|]. right. rewrite (run_field_err f array n L sl e Hn Hmv). reflexivity. }
  assert (Hnd1 : NoDup (instr_assigned (EField f))) by (eapply ri_NoDup_app_l; exact Hnd).
  pose proof (run_field_ok f array n L sl v Hn Hnd1 Hmv) as Hs.
  destruct (len_slot_check f v) as [[]|e]; cbn [rbind].
  2:{ right. rewrite Hs. reflexivity. }
  destruct Hs as [s1 [Hs1 Hn1]]. rewrite Hs1. cbn [rbind]. specialize (IH s1).
  destruct (init_fields t L) as [rest|e]; cbn [rbind]; [|exact IH].
  destruct IH as [sl' [Ht Hrest]]. exists sl'. split; [exact Ht|]. intros n0 v0 [Heq|Hin]; [|apply Hrest, Hin].
  inversion Heq; subst n0 v0. rewrite (run_body_frame t L s1 sl' Ht); [exact Hn1|].
  intro Hin. cbn [instr_assigned] in Hnd. rewrite Hn in Hnd. cbn [app] in Hnd. inversion Hnd as [|x l Hx _]; subst.
  apply Hx, in_or_app. right. exact Hin.
Qed.

Lemma run_body_model L is : forall ps ss, render_init_from is = Some (ps, ss) -> NoDup (assigned is) -> model_ok L is.
Proof.
  induction is as [|i t IH]; intros ps ss Hr Hnd sl.
  - cbn [init_fields run_body]. eexists; split; [reflexivity | intros n v []].
  - cbn [render_init_from] in Hr. destruct (init_instr i) as [[p1 s1]|] eqn:Ei; [|discriminate].
    destruct (render_init_from t) as [[p2 s2]|] eqn:Et; [|discriminate]. rewrite assigned_cons in Hnd.
    assert (IHt : model_ok L t) by (apply (IH p2 s2 eq_refl); eapply ri_NoDup_app_r; exact Hnd).
    cbn [run_body]. destruct i as [f|f d tr c|? ? ? ? ? ?|? ? ?|field cases|?|]; cbn [init_fields run_instr rbind]; try (apply IHt).
    + cbn [init_instr] in Ei. unfold init_fieldlike in Ei. destruct (f_name f) as [n|] eqn:Hn.
      * destruct (field_expr f n false) as [e|] eqn:Ee; [|discriminate].
        apply (step_assemble (model_field_value f n L) f false n L t Hn Hnd (model_field_value_agrees f n L e Ee) IHt).
      * unfold run_field. rewrite Hn. cbn [rbind]. apply IHt.
    + cbn [init_instr] in Ei. unfold init_fieldlike in Ei. destruct (f_name f) as [n|] eqn:Hn; [|discriminate].
      destruct (field_expr f n true) as [e|] eqn:Ee; [|discriminate].
      assert (Hnd' : NoDup (instr_assigned (EField f) ++ assigned t)) by exact Hnd.
      pose proof (step_assemble (model_array_value f n L) f true n L t Hn Hnd' (model_array_value_agrees f n L e Ee) IHt sl) as Hx.
      unfold model_array_value in Hx. destruct (assoc L n) as [a|]; cbn [rbind] in *; exact Hx.
    + unfold lookup_param. destruct (assoc L (field ++ "_data")%string) as [v|] eqn:Ea; cbn [rbind]; [|left; reflexivity].
      specialize (IHt (set_slot sl (field ++ "_data")%string v)). destruct (init_fields t L) as [rest|e]; cbn [rbind]; [|exact IHt].
      destruct IHt as [sl' [Ht Hrest]]. exists sl'. split; [exact Ht|]. intros n0 v0 [Heq|Hin]; [|apply Hrest, Hin].
      inversion Heq; subst n0 v0. rewrite (run_body_frame t L _ sl' Ht); [apply set_slot_eq|].
      intro Hin. cbn [instr_assigned app] in Hnd. inversion Hnd as [|x l Hx _]; subst. apply Hx, Hin.
Qed.

(* ---------------------------------------------------------------- the call: binding keyword arguments *)
Lemma bind_params_sub {A} (none : A) (full : list (string * A)) : forall ps sub,
  map fst ps = map fst sub -> (forall k v, In (k, v) sub -> assoc full k = Some v) -> bind_params none ps full = Ok sub.
Proof.
  induction ps as [|[n d] ps IH]; intros [|[k v] sub] Hm Hs; cbn [map fst] in Hm; try discriminate Hm; [reflexivity|].
  inversion Hm; subst. cbn [bind_params]. rewrite (Hs k v (or_introl eq_refl)). cbn [rbind].
  rewrite (IH sub); [reflexivity | assumption | intros k0 v0 Hin; apply Hs; right; exact Hin].
Qed.
(* called with exactly its parameters as keywords, in declaration order *)
Lemma bind_args_exact {A} (none : A) ps (args : list (string * A)) :
  NoDup (map fst args) -> map fst ps = map fst args -> bind_args none ps args = Ok args.
Proof.
  intros Hnd Hm. unfold bind_args. rewrite (ri_NoDup_dup_free _ Hnd). cbn [negb].
  assert (Hall : forallb (fun a => mem_str (fst a) (map fst ps)) args = true).
  { apply forallb_forall. intros [k v] Hin. cbn [fst]. apply ri_mem_In. rewrite Hm. apply in_map_iff. exists (k, v). auto. }
  rewrite Hall. cbn [negb]. apply bind_params_sub; [exact Hm|]. intros k v Hin. apply ri_assoc_nodup; assumption.
Qed.
(* however it is called: the bound parameters are all the parameters, in declaration order *)
Lemma bind_params_names {A} (none : A) args : forall ps L, bind_params none ps args = Ok L -> map fst L = map fst ps.
Proof.
  induction ps as [|[n d] ps IH]; intros L; cbn [bind_params]; [intro H; inversion H; reflexivity|].
  match goal with |- rbind ?m _ = _ -> _ => destruct m as [v|e]; cbn [rbind]; [|discriminate] end.
  destruct (bind_params none ps args) as [rest|e]; cbn [rbind]; [|discriminate]. intro H; inversion H; subst.
  cbn [map fst]. f_equal. apply IH; reflexivity.
Qed.
Lemma bind_args_names {A} (none : A) ps args L : bind_args none ps args = Ok L -> map fst L = map fst ps.
Proof.
  unfold bind_args. destruct (negb (dup_free (map fst args))); [discriminate|].
  destruct (negb (forallb _ args)); [discriminate|]. apply bind_params_names.
Qed.

Lemma strs_eqb_true a : forall b, strs_eqb a b = true -> a = b.
Proof.
  induction a as [|x a IH]; intros [|y b] H; cbn [strs_eqb] in H; try discriminate H; [reflexivity|].
  apply andb_true_iff in H as [H1 H2]. apply String.eqb_eq in H1. subst. f_equal. apply IH, H2.
Qed.
Lemma strs_eqb_same l : strs_eqb l l = true.
Proof. induction l as [|x l IH]; [reflexivity|]. cbn [strs_eqb]. rewrite String.eqb_refl. exact IH. Qed.

(* the public properties of the new instance *)
Lemma public_fields_collect sl : forall ps flds,
  map fst ps = map fst flds -> (forall n v, In (n, v) flds -> assoc sl n = Some v) -> public_fields ps sl = flds.
Proof.
  induction ps as [|[n d] ps IH]; intros [|[k v] flds] Hm Hs; cbn [map fst] in Hm; try discriminate Hm; [reflexivity|].
  inversion Hm; subst. unfold public_fields. cbn [flat_map fst]. rewrite (Hs k v (or_introl eq_refl)). cbn [app]. f_equal.
  apply IH; [assumption | intros n0 v0 Hin; apply Hs; right; exact Hin].
Qed.

Lemma init_static_parts is :
  init_static_ok is = true -> NoDup (assigned is) /\ ~ In "len" (public_names is) /\ ~ In "tuple" (public_names is).
Proof.
  unfold init_static_ok. intro H. apply andb_true_iff in H as [H12 H3]. apply andb_true_iff in H12 as [H1 H2].
  split; [apply ri_dup_free_NoDup, H1|]. split; apply ri_mem_nIn, negb_true_iff; assumption.
Qed.

(* the statements, run on the bound parameters, against the model's field list *)
Theorem rendered_statements_are_init_fields is ps ss L :
  render_init is = Some (ps, ss) -> init_static_ok is = true ->
  match init_fields is L with
  | Ok flds => exists sl, exec_istmts L ss [] = Ok sl /\ public_fields ps sl = flds
  | Err e => e = EUnexpected \/ exec_istmts L ss [] = Err e
  end.
Proof.
  intros Hr Hst. destruct (render_init_inv is ps ss Hr) as [Hrf [Hnames _]]. destruct (init_static_parts is Hst) as [Hnd _].
  rewrite (render_init_from_run is ps ss L [] Hrf). pose proof (run_body_model L is ps ss Hrf Hnd []) as Hm.
  destruct (init_fields is L) as [flds|e] eqn:Ef; [|exact Hm]. destruct Hm as [sl [Hrun Hall]]. exists sl. split; [exact Hrun|].
  apply public_fields_collect; [|exact Hall]. rewrite Hnames. symmetry. eapply init_fields_names; exact Ef.
Qed.

(* MAIN THEOREM (b): Cls(kw=.., ..) run on the rendered constructor is init_model, wherever init_model does not abstain.
   (init_model answers Err EUnexpected = "not modelled" for keywords that are not exactly the parameters in declaration order,
   and for a str / bytes passed for an array parameter.) *)
Theorem rendered_init_is_init_model cls is ps ss args :
  render_init is = Some (ps, ss) -> init_static_ok is = true ->
  init_model cls is args <> Err EUnexpected ->
  new_obj cls ps ss args = init_model cls is args.
Proof.
  intros Hr Hst Hne. unfold init_model in *. destruct (strs_eqb (map fst args) (public_names is)) eqn:En; [|contradiction Hne; reflexivity].
  apply strs_eqb_true in En. destruct (render_init_inv is ps ss Hr) as [_ [Hnames [Hnd _]]].
  unfold new_obj, exec_init. rewrite bind_args_exact; [|rewrite En; exact Hnd | rewrite Hnames, En; reflexivity]. cbn [rbind].
  pose proof (rendered_statements_are_init_fields is ps ss args Hr Hst) as Hm.
  destruct (init_fields is args) as [flds|e]; cbn [rbind] in *.
  - destruct Hm as [sl [Hx Hp]]. rewrite Hx. cbn [rbind]. rewrite Hp. reflexivity.
  - destruct Hm as [->|Hx]; [contradiction Hne; reflexivity|]. rewrite Hx. reflexivity.
Qed.

(* ... and a call that names the parameters in another order, or leaves optional ones out, is the call with the bound parameters *)
Theorem rendered_init_any_keywords cls is ps ss args :
  render_init is = Some (ps, ss) -> init_static_ok is = true ->
  match bind_args VNone ps args with
  | Ok L => map fst L = public_names is /\ (init_model cls is L <> Err EUnexpected -> new_obj cls ps ss args = init_model cls is L)
  | Err e => new_obj cls ps ss args = Err e
  end.
Proof.
  intros Hr Hst. destruct (bind_args VNone ps args) as [L|e] eqn:Eb; [|unfold new_obj, exec_init; rewrite Eb; reflexivity].
  destruct (render_init_inv is ps ss Hr) as [_ [Hnames [Hnd _]]]. pose proof (bind_args_names _ _ _ _ Eb) as HL. rewrite Hnames in HL.
  split; [exact HL|]. intro Hne. rewrite <- (rendered_init_is_init_model cls is ps ss L Hr Hst Hne).
  unfold new_obj, exec_init. rewrite Eb. rewrite bind_args_exact; [reflexivity | rewrite HL; exact Hnd | rewrite Hnames, HL; reflexivity].
Qed.

(* ---------------------------------------------------------------- init_model does not abstain on what `deserialize` passes *)
(* every array parameter gets a list, or None *)
Definition arrays_listy (is : list einstr) (args : list (string * value)) : Prop :=
  forall f d t c n a, In (EArray f d t c) is -> f_name f = Some n -> assoc args n = Some a -> (exists l, a = VList l) \/ a = VNone.

Lemma init_fields_answers is args : forall ps ss,
  render_init_from is = Some (ps, ss) -> (forall n, In n (public_names is) -> assoc args n <> None) -> arrays_listy is args ->
  init_fields is args <> Err EUnexpected.
Proof.
  induction is as [|i t IH]; intros ps ss Hr Hb Hl; cbn [init_fields]; [discriminate|].
  cbn [render_init_from] in Hr. destruct (init_instr i) as [[p1 s1]|] eqn:Ei; [|discriminate].
  destruct (render_init_from t) as [[p2 s2]|] eqn:Et; [|discriminate].
  assert (IHt : init_fields t args <> Err EUnexpected).
  { apply (IH p2 s2 eq_refl).
    - intros n Hn. apply Hb. unfold public_names. cbn [flat_map]. apply in_or_app. right. exact Hn.
    - intros f d tr c n a Hin Hfn Ha. apply (Hl f d tr c n a); [right; exact Hin | exact Hfn | exact Ha]. }
  assert (Hb1 : forall n, In n (instr_public i) -> assoc args n <> None).
  { intros n Hn. apply Hb. unfold public_names. cbn [flat_map]. apply in_or_app. left. exact Hn. }
  destruct i as [f|f d tr c|? ? ? ? ? ?|? ? ?|field cases|?|]; try exact IHt.
  - cbn [init_instr] in Ei. unfold init_fieldlike in Ei. destruct (f_name f) as [n|] eqn:Hn; [|exact IHt].
    destruct (field_expr f n false) as [e|] eqn:Ee; [|discriminate]. cbn [instr_public] in Hb1. rewrite Hn in Hb1.
    pose proof (model_field_value_agrees f n args e Ee) as Hv. unfold model_field_value in Hv.
    assert (Hmv : exists v, match f_hard f with Some lit => lit_value (f_ty f) lit | None => match assoc args n with Some v => Ok v | None => Err EUnexpected end end = Ok v).
    { unfold field_expr in Ee. destruct (f_hard f) as [lit|]; [rewrite (hard_expr_lit _ _ _ Ee); eauto|].
      destruct (assoc args n) as [v|] eqn:Ea; [eauto | exfalso; apply (Hb1 n (or_introl eq_refl)); exact Ea]. }
    destruct Hmv as [v Hmv]. rewrite Hmv. cbn [rbind]. pose proof (len_check_value f v) as Hlc.
    destruct (len_slot_check f v) as [[]|e0]; cbn [rbind]; [|destruct Hlc as [-> _]; discriminate].
    destruct (init_fields t args) as [rest|e0]; cbn [rbind]; [discriminate | exact IHt].
  - cbn [init_instr] in Ei. unfold init_fieldlike in Ei. destruct (f_name f) as [n|] eqn:Hn; [|discriminate]. cbn [instr_public] in Hb1. rewrite Hn in Hb1.
    destruct (assoc args n) as [a|] eqn:Ea; [|exfalso; apply (Hb1 n (or_introl eq_refl)); exact Ea]. cbn [rbind].
    assert (Hv : (exists v, (if f_optional f && is_none a then Ok VNone else py_tuple a) = Ok v) \/ (if f_optional f && is_none a then Ok VNone else py_tuple a) = Err EType).
    { destruct (Hl f d tr c n a (or_introl eq_refl) Hn Ea) as [[l ->]| ->].
      - rewrite andb_false_r. left. eexists; reflexivity.
      - destruct (f_optional f); cbn [andb is_none py_tuple]; [left; eexists; reflexivity | right; reflexivity]. }
    destruct Hv as [[v Hv]|Hv]; rewrite Hv; cbn [rbind]; [|discriminate]. pose proof (len_check_value f v) as Hlc.
    destruct (len_slot_check f v) as [[]|e0]; cbn [rbind]; [|destruct Hlc as [-> _]; discriminate].
    destruct (init_fields t args) as [rest|e0]; cbn [rbind]; [discriminate | exact IHt].
  - cbn [instr_public] in Hb1. destruct (assoc args (field ++ "_data")%string) as [v|] eqn:Ea; [|exfalso; apply (Hb1 _ (or_introl eq_refl)); exact Ea].
    cbn [rbind]. destruct (init_fields t args) as [rest|e0]; cbn [rbind]; [discriminate | exact IHt].
Qed.

Theorem rendered_init_on_listy_args cls is ps ss args :
  render_init is = Some (ps, ss) -> init_static_ok is = true ->
  map fst args = public_names is -> arrays_listy is args ->
  new_obj cls ps ss args = init_model cls is args.
Proof.
  intros Hr Hst Hn Hl. apply rendered_init_is_init_model; [exact Hr | exact Hst|].
  destruct (render_init_inv is ps ss Hr) as [Hrf _]. unfold init_model. rewrite Hn, strs_eqb_same.
  pose proof (init_fields_answers is args ps ss Hrf) as Hx.
  destruct (init_fields is args) as [flds|e]; cbn [rbind]; [discriminate|]. intro H; inversion H; subst. apply Hx; [|exact Hl|reflexivity].
  intros n Hin Hnone. apply ri_assoc_none in Hnone. apply Hnone. rewrite Hn. exact Hin.
Qed.

(* the arguments the emitted `deserialize` passes (Proofs/RenderDeser.deser_args) are of that form *)
Theorem rendered_init_on_deserialize_args cls is ps ss args :
  render_init is = Some (ps, ss) -> init_static_ok is = true ->
  Proofs.RenderDeser.deser_args is args ->
  new_obj cls ps ss args = init_model cls is args.
Proof.
  intros Hr Hst [Hn Hk]. apply rendered_init_on_listy_args; [exact Hr | exact Hst | exact Hn|].
  intros f d t c n a Hin Hfn Ha. destruct (Hk (EArray f d t c) n (KArr (f_optional f)) Hin) as [v [Hv Hkind]].
  - cbn [instr_binds]. rewrite Hfn. left. reflexivity.
  - cbn [instr_public]. rewrite Hfn. left. reflexivity.
  - rewrite Ha in Hv. inversion Hv; subst v. cbn [Proofs.RenderDeser.kind_ok] in Hkind. destruct a; try contradiction; eauto.
Qed.

(* ================================================================ the whole program: deserialize methods AND constructors parsed from the text *)
Section Program.
  Variable E : env.
  Variable enums : list penum.
  Variable P : dparsed.               (* class name -> statements parsed from its deserialize method *)
  Variable PI : iparsed.              (* class name -> parameters and statements parsed from its __init__ method *)

  (* Cls(kw=.., ..) in the program: run the parsed __init__ *)
  Definition ctor_parsed (cls : string) (args : list (string * value)) : res value :=
    match assoc PI cls with
    | Some pi => new_obj cls (fst pi) (snd pi) args
    | None => Err EUnexpected
    end.

  Fixpoint py_deserialize_i (fuel : nat) (cls : string) (r : rstate) : rres value :=
    match fuel with
    | O => (r, Err EFuel)
    | S f => match assoc P cls with
             | None => (r, Err EAttribute)
             | Some ss => dcall (py_deserialize_i f) ctor_parsed ss r
             end
    end.

  (* what a clean harness run establishes about the constructors (render_detail_i = [], lemma render_detail_i_program below) *)
  Definition program_ok_i : Prop :=
    forall cls, match env_find E cls with
                | Some d => exists pi, assoc PI cls = Some pi /\ i_render_class d pi = []
                | None => assoc PI cls = None
                end.

  Lemma ctor_parsed_agrees d : program_ok_i -> env_find E (sd_name d) = Some d -> Proofs.RenderDeser.ctor_agrees ctor_parsed d.
  Proof.
    intros HP Hf args Ha. specialize (HP (sd_name d)). rewrite Hf in HP. destruct HP as [[ps ss] [Hpi Hrc]].
    destruct (i_render_class_inv d (ps, ss) Hrc) as [Hr Hst]. unfold ctor_parsed. rewrite Hpi. cbn [fst snd].
    apply rendered_init_on_deserialize_args; assumption.
  Qed.

  (* MAIN THEOREM (program level): Cls.deserialize of the parsed program, calling itself for nested structs and case data and the
     PARSED constructors for the results, is deser_struct - on every reader state *)
  Theorem py_deserialize_i_correct :
    Proofs.RenderDeser.program_ok_d E enums P -> program_ok_i ->
    forall fuel cls r, py_deserialize_i fuel cls r = deser_struct fuel E cls r.
  Proof.
    intros HP HI. induction fuel as [|f IH]; intros cls r; [reflexivity|].
    cbn [py_deserialize_i deser_struct]. specialize (HP cls).
    destruct (env_find E cls) as [d|] eqn:Ef; [|rewrite HP; reflexivity].
    destruct HP as [ss [HPc Hrc]]. rewrite HPc.
    destruct (Proofs.RenderDeser.env_find_in _ _ _ Ef) as [_ Hn].
    rewrite (Proofs.RenderDeser.checked_class_correct_d_gen (py_deserialize_i f) ctor_parsed enums d ss r Hrc).
    - apply Proofs.RenderDeser.deser_body_ext. exact IH.
    - apply ctor_parsed_agrees; [exact HI | rewrite Hn; exact Ef].
  Qed.
End Program.

(* a clean run of the harness check on a tree gives program_ok_i for the elaborated package *)
Theorem render_detail_i_program files PI p :
  elab files = Ok p -> render_detail_i files PI = [] -> program_ok_i (pk_env p) PI.
Proof.
  intros He Hd. unfold render_detail_i in Hd. rewrite He in Hd.
  apply app_eq_nil in Hd as [HA Hd]. apply app_eq_nil in Hd as [HB _].
  intro cls. destruct (env_find (pk_env p) cls) as [d|] eqn:Ef.
  - destruct (Proofs.RenderDeser.env_find_in _ _ _ Ef) as [Hin Hn]. pose proof (Proofs.RenderDeser.flat_map_nil _ _ HA d Hin) as Hx. cbv beta in Hx. rewrite Hn in Hx.
    destruct (assoc PI cls) as [pi|]; [|discriminate Hx]. exists pi. split; [reflexivity | exact Hx].
  - destruct (assoc PI cls) as [pi|] eqn:Ea; [|reflexivity]. apply ri_assoc_in in Ea.
    pose proof (Proofs.RenderDeser.flat_map_nil _ _ HB (cls, pi) Ea) as Hx. cbn [fst] in Hx. rewrite Ef in Hx. discriminate Hx.
Qed.

Corollary py_deserialize_i_bytes E enums P PI cls data (chunked : bool) :
  Proofs.RenderDeser.program_ok_d E enums P -> program_ok_i E PI ->
  py_deserialize_i P PI (S (List.length E)) cls (let r := initR data in if chunked then r_set_chunked r true else r)
  = deserialize E cls data chunked.
Proof. intros HP HI. unfold deserialize. apply (py_deserialize_i_correct E enums P PI HP HI). Qed.

(* ================================================================ (a) the private slots are ctor_slots *)
Definition fieldlike_in (is : list einstr) (f : fieldspec) (array : bool) : Prop :=
  if array then exists d t c, In (EArray f d t c) is else In (EField f) is.
Definition has_fieldlike (is : list einstr) (f : fieldspec) : Prop := In (EField f) is \/ exists d t c, In (EArray f d t c) is.
Lemma has_fieldlike_flag is f : has_fieldlike is f <-> exists array, fieldlike_in is f array.
Proof.
  split.
  - intros [H|H]; [exists false | exists true]; exact H.
  - intros [[|] H]; [right | left]; exact H.
Qed.

Lemma public_fields_assoc sl : forall ps k, NoDup (map fst ps) ->
  assoc (public_fields ps sl) k = if mem_str k (map fst ps) then assoc sl k else None.
Proof.
  induction ps as [|[n d] ps IH]; intros k Hnd; [reflexivity|]. cbn [map fst] in Hnd. inversion Hnd as [|x l Hx Hnd']; subst.
  unfold public_fields. cbn [flat_map fst map mem_str]. fold (public_fields ps sl). rewrite ri_assoc_app, (IH k Hnd').
  destruct (String.eqb k n) eqn:Ek.
  - apply String.eqb_eq in Ek. subst k. cbn [orb]. destruct (assoc sl n) as [v|]; cbn [assoc]; [rewrite String.eqb_refl; reflexivity|].
    apply ri_mem_nIn in Hx. rewrite Hx. reflexivity.
  - cbn [orb]. destruct (assoc sl n) as [v|]; cbn [assoc]; [|reflexivity]. rewrite String.eqb_sym, Ek. reflexivity.
Qed.

Lemma run_field_bound f array L sl s1 n :
  run_field f array L sl = Ok s1 -> f_name f = Some n -> NoDup (instr_assigned (EField f)) ->
  exists v, field_value f array L n = Ok v /\ assoc s1 n = Some v /\
            match f_len f with LRef l => exists lv, len_value f v = Ok lv /\ assoc s1 l = Some lv | _ => True end.
Proof.
  unfold run_field. cbn [instr_assigned]. intros Hrun Hn Hnd. rewrite Hn in *.
  destruct (field_value f array L n) as [v|e]; cbn [rbind] in Hrun; [|discriminate]. exists v. split; [reflexivity|].
  destruct (f_len f) as [| |l].
  - inversion Hrun; subst. split; [apply set_slot_eq | exact I].
  - inversion Hrun; subst. split; [apply set_slot_eq | exact I].
  - destruct (len_value f v) as [lv|e]; cbn [rbind] in Hrun; [|discriminate]. inversion Hrun; subst.
    assert (Hne : l <> n) by (intro; subst; inversion Hnd as [|x t Hx _]; apply Hx; left; reflexivity).
    split; [rewrite set_slot_ne by exact Hne; apply set_slot_eq|]. exists lv. split; [reflexivity | apply set_slot_eq].
Qed.

(* every field / array of the body has its slot, and the length field it refers to holds its len() *)
Lemma run_body_fieldlike_v L is : forall sl0 sl,
  NoDup (assigned is) -> run_body is L sl0 = Ok sl ->
  forall f array n, fieldlike_in is f array -> f_name f = Some n ->
  exists v, field_value f array L n = Ok v /\ assoc sl n = Some v /\
            match f_len f with LRef l => exists lv, len_value f v = Ok lv /\ assoc sl l = Some lv | _ => True end.
Proof.
  induction is as [|i t IH]; intros sl0 sl Hnd Hrun f array n Hf Hn; [destruct array; [destruct Hf as [d [tr [c []]]] | destruct Hf]|].
  cbn [run_body] in Hrun. destruct (run_instr i L sl0) as [s1|e] eqn:E1; cbn [rbind] in Hrun; [|discriminate].
  rewrite assigned_cons in Hnd.
  assert (Hhead : run_field f array L sl0 = Ok s1 -> instr_assigned i = instr_assigned (EField f) ->
            exists v, field_value f array L n = Ok v /\ assoc sl n = Some v /\
                      match f_len f with LRef l => exists lv, len_value f v = Ok lv /\ assoc sl l = Some lv | _ => True end).
  { intros Hrf Hia. rewrite Hia in Hnd.
    destruct (run_field_bound f array L sl0 s1 n Hrf Hn (ri_NoDup_app_l _ _ Hnd)) as [v [Hfv [Hv Hl]]]. exists v. split; [exact Hfv|].
    assert (Hin_n : In n (instr_assigned (EField f))) by (cbn [instr_assigned]; rewrite Hn; left; reflexivity).
    split; [rewrite (run_body_frame t L s1 sl Hrun n (ri_NoDup_app_disj _ _ n Hnd Hin_n)); exact Hv|].
    destruct (f_len f) as [| |l] eqn:El; try exact I. destruct Hl as [lv [Hlv Hsl]]. exists lv. split; [exact Hlv|].
    assert (Hin_l : In l (instr_assigned (EField f))) by (cbn [instr_assigned]; rewrite Hn, El; right; left; reflexivity).
    rewrite (run_body_frame t L s1 sl Hrun l (ri_NoDup_app_disj _ _ l Hnd Hin_l)). exact Hsl. }
  assert (Htail : fieldlike_in t f array -> exists v, field_value f array L n = Ok v /\ assoc sl n = Some v /\
                      match f_len f with LRef l => exists lv, len_value f v = Ok lv /\ assoc sl l = Some lv | _ => True end).
  { intro Ht. apply (IH s1 sl (ri_NoDup_app_r _ _ Hnd) Hrun f array n Ht Hn). }
  destruct array.
  - destruct Hf as [d [tr [c [Heq|Hin]]]]; [subst i; apply Hhead; [exact E1 | reflexivity] | apply Htail; exists d, tr, c; exact Hin].
  - destruct Hf as [Heq|Hin]; [subst i; apply Hhead; [exact E1 | reflexivity] | apply Htail; exact Hin].
Qed.
Lemma run_body_fieldlike L is sl0 sl :
  NoDup (assigned is) -> run_body is L sl0 = Ok sl ->
  forall f n, has_fieldlike is f -> f_name f = Some n ->
  exists v, assoc sl n = Some v /\
            match f_len f with LRef l => exists lv, len_value f v = Ok lv /\ assoc sl l = Some lv | _ => True end.
Proof.
  intros Hnd Hrun f n Hf Hn. apply has_fieldlike_flag in Hf as [array Hf].
  destruct (run_body_fieldlike_v L is sl0 sl Hnd Hrun f array n Hf Hn) as [v [_ Hx]]. exists v. exact Hx.
Qed.
Lemma run_body_switch L is : forall sl0 sl,
  NoDup (assigned is) -> run_body is L sl0 = Ok sl ->
  forall field cases, In (ESwitch field cases) is ->
  exists v, lookup_param L (field ++ "_data")%string = Ok v /\ assoc sl (field ++ "_data")%string = Some v.
Proof.
  induction is as [|i t IH]; intros sl0 sl Hnd Hrun field cases Hin; [destruct Hin|].
  cbn [run_body] in Hrun. destruct (run_instr i L sl0) as [s1|e] eqn:E1; cbn [rbind] in Hrun; [|discriminate].
  rewrite assigned_cons in Hnd. destruct Hin as [Heq|Hin]; [|apply (IH s1 sl (ri_NoDup_app_r _ _ Hnd) Hrun field cases Hin)].
  subst i. cbn [run_instr] in E1. destruct (lookup_param L (field ++ "_data")%string) as [v|e]; cbn [rbind] in E1; [|discriminate].
  inversion E1; subst s1. exists v. split; [reflexivity|]. rewrite (run_body_frame t L _ sl Hrun); [apply set_slot_eq|].
  apply (ri_NoDup_app_disj _ _ _ Hnd). left. reflexivity.
Qed.

Lemma public_name_source is n :
  In n (public_names is) ->
  (exists f, has_fieldlike is f /\ f_name f = Some n) \/ exists field cases, In (ESwitch field cases) is /\ n = (field ++ "_data")%string.
Proof.
  unfold public_names. intro H. apply in_flat_map in H as [i [Hi Hn]].
  destruct i as [f|f d t c| | |field cases| |]; cbn [instr_public] in Hn; try (destruct Hn; fail).
  - destruct (f_name f) as [m|] eqn:Hm; [|destruct Hn]. destruct Hn as [<-|[]]. left. exists f. split; [left; exact Hi | exact Hm].
  - destruct (f_name f) as [m|] eqn:Hm; [|destruct Hn]. destruct Hn as [<-|[]]. left. exists f. split; [right; eauto | exact Hm].
  - destruct Hn as [<-|[]]. right. eauto.
Qed.
(* a slot that is assigned: a public field, or the length field a named field / array refers to *)
Lemma assigned_source is k :
  In k (assigned is) -> In k (public_names is) \/ exists f n, has_fieldlike is f /\ f_name f = Some n /\ f_len f = LRef k.
Proof.
  unfold assigned, public_names. intro H. apply in_flat_map in H as [i [Hi Hk]].
  assert (Hfl : forall f, instr_assigned i = instr_assigned (EField f) -> instr_public i = instr_public (EField f) -> has_fieldlike is f ->
                          In k (flat_map instr_public is) \/ exists f n, has_fieldlike is f /\ f_name f = Some n /\ f_len f = LRef k).
  { intros f Ha Hp Hf. rewrite Ha in Hk. cbn [instr_assigned] in Hk. destruct (f_name f) as [n|] eqn:Hn; [|destruct Hk].
    destruct Hk as [<-|Hk].
    - left. apply in_flat_map. exists i. split; [exact Hi|]. rewrite Hp. cbn [instr_public]. rewrite Hn. left. reflexivity.
    - destruct (f_len f) as [| |l] eqn:El; try (destruct Hk; fail). destruct Hk as [<-|[]]. right. exists f, n. auto. }
  destruct i as [f|f d t c| | |field cases| |]; try (destruct Hk; fail).
  - apply (Hfl f); [reflexivity | reflexivity | left; exact Hi].
  - apply (Hfl f); [reflexivity | reflexivity | right; eauto].
  - cbn [instr_assigned] in Hk. destruct Hk as [<-|[]]. left. apply in_flat_map. exists (ESwitch field cases). split; [exact Hi | left; reflexivity].
Qed.
Lemma find_ref_complete k is f n : has_fieldlike is f -> f_name f = Some n -> f_len f = LRef k -> find_ref k is <> None.
Proof.
  induction is as [|i t IH]; intros Hf Hn Hl; [destruct Hf as [[]|[d [tr [c []]]]]|].
  assert (Hhead : forall rest, match f_len f, f_name f with LRef l, Some n0 => if String.eqb l k then Some n0 else rest | _, _ => rest end <> None).
  { intro rest. rewrite Hl, Hn, String.eqb_refl. discriminate. }
  assert (Htail : has_fieldlike t f -> find_ref k t <> None) by (intro Ht; apply IH; assumption).
  destruct Hf as [[Heq|Hin]|[d [tr [c [Heq|Hin]]]]].
  - subst i. cbn [find_ref]. apply Hhead.
  - assert (Ht : find_ref k t <> None) by (apply Htail; left; exact Hin).
    destruct i as [f0|f0 ? ? ?| | | | |]; cbn [find_ref]; try exact Ht;
      (destruct (f_len f0) as [| |l0]; try exact Ht; destruct (f_name f0); try exact Ht; destruct (String.eqb l0 k); [discriminate | exact Ht]).
  - subst i. cbn [find_ref]. apply Hhead.
  - assert (Ht : find_ref k t <> None) by (apply Htail; right; eauto).
    destruct i as [f0|f0 ? ? ?| | | | |]; cbn [find_ref]; try exact Ht;
      (destruct (f_len f0) as [| |l0]; try exact Ht; destruct (f_name f0); try exact Ht; destruct (String.eqb l0 k); [discriminate | exact Ht]).
Qed.
Lemma len_value_slot f v lv : len_value f v = Ok lv -> length_slot v = Some lv.
Proof.
  unfold len_value, length_slot. destruct (f_optional f && py_is_none v) eqn:E.
  - apply andb_true_iff in E as [_ E]. destruct v; try discriminate E. intro H; inversion H; reflexivity.
  - destruct v; cbn [py_len_of py_len]; try discriminate; intro H; inversion H; reflexivity.
Qed.

Section CtorSlots.
  Import Proofs.RenderSer Proofs.Shaped.

  (* MAIN THEOREM (a): for every successful call of the rendered constructor, the private slots of the new instance are
     ctor_slots E c flds, flds = the instance's public fields (hardcoded fields hold their literal, arrays their tuple), lookup by lookup.
     `body_static` (Proofs/Shaped.v; `shape_static E` is the hypothesis of C02_program_is_ser_struct_on_shaped): length fields are
     distinct from each other and from the public names, a length attribute names a length field of the body, and `ref_by` of a length
     field is the field that refers to it (Model/Elab.fix_refs). *)
  Theorem rendered_init_slots_are_ctor_slots E c d ps ss args sl :
    env_find E c = Some d -> render_init (sd_body d) = Some (ps, ss) ->
    init_static_ok (sd_body d) = true -> body_static (sd_body d) = true ->
    exec_init ps ss args = Ok sl ->
    map fst (public_fields ps sl) = public_names (sd_body d) /\
    forall k, assoc sl k = assoc (ctor_slots E c (public_fields ps sl)) k.
  Proof.
    intros Hfind Hr Hst Hbs Hex. set (body := sd_body d) in *. unfold ctor_slots. rewrite Hfind. fold body.
    destruct (render_init_inv body ps ss Hr) as [Hrf [Hnames [Hndp _]]]. destruct (init_static_parts body Hst) as [Hnd _].
    unfold exec_init in Hex. destruct (bind_args VNone ps args) as [L|e]; cbn [rbind] in Hex; [|discriminate].
    rewrite (render_init_from_run body ps ss L [] Hrf) in Hex.
    (* every public name is bound *)
    assert (Hpub : forall n, In n (public_names body) -> exists v, assoc sl n = Some v).
    { intros n Hn. destruct (public_name_source body n Hn) as [[f [Hf Hfn]]|[field [cases [Hin ->]]]].
      - destruct (run_body_fieldlike L body [] sl Hnd Hex f n Hf Hfn) as [v [Hv _]]. eauto.
      - destruct (run_body_switch L body [] sl Hnd Hex field cases Hin) as [v [_ Hv]]. eauto. }
    set (pub := public_fields ps sl).
    assert (Hpa : forall k, assoc pub k = if mem_str k (public_names body) then assoc sl k else None).
    { intro k. unfold pub. rewrite public_fields_assoc by (rewrite Hnames; exact Hndp). rewrite Hnames. reflexivity. }
    split.
    { unfold pub. rewrite <- Hnames. clear - Hpub Hnames. 
      assert (Hall : forall p, In p ps -> exists v, assoc sl (fst p) = Some v).
      { intros p Hp. apply Hpub. rewrite <- Hnames. apply in_map. exact Hp. }
      clear Hpub Hnames. induction ps as [|[n dflt] ps IH]; [reflexivity|]. unfold public_fields. cbn [flat_map fst map].
      destruct (Hall (n, dflt) (or_introl eq_refl)) as [v Hv]. cbn [fst] in Hv. rewrite Hv. cbn [app map fst]. f_equal.
      apply IH. intros p Hp. apply Hall. right. exact Hp. }
    intro k. rewrite ri_assoc_app, Hpa. destruct (mem_str k (public_names body)) eqn:Ek.
    - apply ri_mem_In in Ek. destruct (Hpub k Ek) as [v Hv]. rewrite Hv. reflexivity.
    - apply ri_mem_nIn in Ek.
      (* the static facts *)
      unfold body_static in Hbs. apply andb_true_iff in Hbs as [H12 H3]. apply andb_true_iff in H12 as [H1 H2].
      apply nodupb_NoDup in H1. rewrite forallb_forall in H3.
      assert (Hstat : forall f n lf, has_fieldlike body f -> f_name f = Some n -> f_len f = LRef lf ->
                                     In lf (lnames body) /\ find_ref lf body = Some n).
      { intros f n lf Hf Hn Hl.
        assert (Hfs : exists array, field_static body f array = true).
        { destruct Hf as [Hin|[d0 [t0 [c0 Hin]]]]; [exists false | exists true]; exact (H3 _ Hin). }
        destruct Hfs as [array Hfs]. unfold field_static in Hfs. rewrite Hn, Hl in Hfs. apply andb_true_iff in Hfs as [Hfs _].
        apply andb_true_iff in Hfs as [Ha Hb]. split; [apply mem_str_In, Ha | apply opt_str_eqb_eq, Hb]. }
      destruct (in_dec string_dec k (lnames body)) as [Hl|Hl].
      + destruct (lnames_in body k Hl) as [t [off [o [of [rb Hi]]]]].
        rewrite (len_slots_in body pub k t off o of rb H1 Hi).
        pose proof (H3 _ Hi) as Hsi. cbn [instr_static] in Hsi. apply andb_true_iff in Hsi as [Hrb _]. apply opt_str_eqb_eq in Hrb. subst rb.
        destruct (find_ref k body) as [n|] eqn:Efr; cbn [slot_of].
        * destruct (find_ref_spec k body n Efr) as [f [Hf [Hfn Hfl]]].
          assert (Hf' : has_fieldlike body f) by (destruct Hf as [Hf|[d0 [t0 [c0 Hf]]]]; [left; exact Hf | right; eauto]).
          destruct (run_body_fieldlike L body [] sl Hnd Hex f n Hf' Hfn) as [v [Hv Hlen]]. rewrite Hfl in Hlen. destruct Hlen as [lv [Hlv Hsl]].
          assert (Hnp : In n (public_names body)).
          { unfold public_names. destruct Hf as [Hf|[d0 [t0 [c0 Hf]]]]; apply in_flat_map; eexists; (split; [exact Hf|]); cbn [instr_public]; rewrite Hfn; left; reflexivity. }
          rewrite Hpa. apply ri_mem_In in Hnp. rewrite Hnp, Hv, Hsl. symmetry. eapply len_value_slot; exact Hlv.
        * (* a length field nobody refers to: never assigned *)
          rewrite (run_body_frame body L [] sl Hex); [reflexivity|]. intro Hin. destruct (assigned_source body k Hin) as [Hp|[f [n [Hf [Hn Hfl]]]]]; [exact (Ek Hp)|].
          exact (find_ref_complete k body f n Hf Hn Hfl Efr).
      + rewrite (len_slots_notin body pub k Hl). rewrite (run_body_frame body L [] sl Hex); [reflexivity|].
        intro Hin. destruct (assigned_source body k Hin) as [Hp|[f [n [Hf [Hn Hfl]]]]]; [exact (Ek Hp)|].
        apply Hl. apply (Hstat f n k Hf Hn Hfl).
  Qed.
End CtorSlots.

(* ... in terms of the object: whatever the call, the instance it returns has the slots ctor_slots gives its public fields *)
Corollary new_obj_slots E c d ps ss args flds :
  env_find E c = Some d -> render_init (sd_body d) = Some (ps, ss) ->
  init_static_ok (sd_body d) = true -> Proofs.Shaped.body_static (sd_body d) = true ->
  new_obj c ps ss args = Ok (VObj c flds) ->
  exists sl, exec_init ps ss args = Ok sl /\ forall k, assoc sl k = assoc (Proofs.RenderSer.ctor_slots E c flds) k.
Proof.
  intros Hf Hr Hst Hbs Hn. unfold new_obj in Hn. destruct (exec_init ps ss args) as [sl|e] eqn:Ex; cbn [rbind] in Hn; [|discriminate].
  inversion Hn; subst flds. exists sl. split; [reflexivity|]. apply (rendered_init_slots_are_ctor_slots E c d ps ss args sl Hf Hr Hst Hbs Ex).
Qed.
(* ... for arguments that ARE the public fields of an instance (a call that returns the object made of its own arguments: hardcoded
   fields given their literal, arrays given as lists): the slots are ctor_slots of the arguments *)
Corollary rendered_init_slots_of_public_fields E c d ps ss flds :
  env_find E c = Some d -> render_init (sd_body d) = Some (ps, ss) ->
  init_static_ok (sd_body d) = true -> Proofs.Shaped.body_static (sd_body d) = true ->
  new_obj c ps ss flds = Ok (VObj c flds) ->
  exists sl, exec_init ps ss flds = Ok sl /\ forall k, assoc sl k = assoc (Proofs.RenderSer.ctor_slots E c flds) k.
Proof. apply new_obj_slots. Qed.
(* ... and through init_model: the object `deserialize` returns (before byte_size is set) carries exactly these slots *)
Corollary init_model_slots E c d ps ss args flds :
  env_find E c = Some d -> render_init (sd_body d) = Some (ps, ss) ->
  init_static_ok (sd_body d) = true -> Proofs.Shaped.body_static (sd_body d) = true ->
  init_model c (sd_body d) args = Ok (VObj c flds) ->
  exists sl, exec_init ps ss args = Ok sl /\ forall k, assoc sl k = assoc (Proofs.RenderSer.ctor_slots E c flds) k.
Proof.
  intros Hf Hr Hst Hbs Hm. apply (new_obj_slots E c d ps ss args flds Hf Hr Hst Hbs).
  rewrite (rendered_init_is_init_model c (sd_body d) ps ss args Hr Hst); [exact Hm | rewrite Hm; discriminate].
Qed.

(* ================================================================ (c) on the object / heap model of Model/ObjModel.v *)
(* what the (de)serializers see of heap-level slots / arguments *)
Definition dm (h : heap) (l : list (string * hval)) : list (string * value) := map (fun p => (fst p, deref h (snd p))) l.
Definition rmap {A B} (g : A -> B) (r : res A) : res B := match r with Ok a => Ok (g a) | Err e => Err e end.

Lemma dm_assoc h l k : assoc (dm h l) k = option_map (deref h) (assoc l k).
Proof. apply ri_assoc_map. Qed.
Lemma dm_keys h l : map fst (dm h l) = map fst l.
Proof. apply ri_map_fst_map. Qed.
Lemma view_dm h cls sl : view h (mkInst cls sl) = VObj cls (dm h sl).
Proof. reflexivity. Qed.

(* the heap-level interpreter refines the value-level one: erase the references, get the same run *)
Lemma ieval_h_erases h L sl e : ieval (dm h L) (dm h sl) e = rmap (deref h) (ieval_h h L sl e).
Proof.
  induction e; cbn [ieval ieval_h rmap]; try reflexivity.
  - rewrite dm_assoc. destruct (assoc L x); reflexivity.
  - rewrite dm_assoc. destruct (assoc sl x); [reflexivity|]. destruct (String.eqb x "byte_size"); reflexivity.
  - rewrite IHe. destruct (ieval_h h L sl e) as [x|err]; cbn [rmap rbind]; [|reflexivity]. destruct (py_tuple_of (deref h x)); reflexivity.
  - rewrite IHe. destruct (ieval_h h L sl e) as [x|err]; cbn [rmap rbind]; [|reflexivity]. destruct (py_len_of (deref h x)); reflexivity.
  - rewrite IHe. destruct (ieval_h h L sl e) as [x|err]; reflexivity.
  - rewrite IHe. destruct (ieval_h h L sl e) as [x|err]; reflexivity.
  - rewrite IHe2. destruct (ieval_h h L sl e2) as [x|err]; cbn [rmap rbind]; [|reflexivity].
    destruct (py_truth (deref h x)); assumption.
Qed.
Lemma exec_istmts_h_erases h L ss : forall sl, exec_istmts (dm h L) ss (dm h sl) = rmap (dm h) (exec_istmts_h h L ss sl).
Proof.
  induction ss as [|[x e] ss IH]; intro sl; [reflexivity|]. cbn [exec_istmts exec_istmts_h]. rewrite ieval_h_erases.
  destruct (ieval_h h L sl e) as [v|err]; cbn [rmap rbind]; [|reflexivity]. rewrite <- IH. unfold dm. rewrite set_slot_map. reflexivity.
Qed.
Lemma bind_params_erases h args : forall ps, bind_params VNone ps (dm h args) = rmap (dm h) (bind_params (HImm VNone) ps args).
Proof.
  induction ps as [|[n d] ps IH]; [reflexivity|]. cbn [bind_params]. rewrite dm_assoc, IH.
  destruct (assoc args n) as [x|]; cbn [option_map rbind].
  - destruct (bind_params (HImm VNone) ps args); reflexivity.
  - destruct d; cbn [rbind]; [|reflexivity]. destruct (bind_params (HImm VNone) ps args); reflexivity.
Qed.
Lemma bind_args_erases h ps args : bind_args VNone ps (dm h args) = rmap (dm h) (bind_args (HImm VNone) ps args).
Proof.
  unfold bind_args. rewrite dm_keys. destruct (negb (dup_free (map fst args))); [reflexivity|].
  assert (Hf : forallb (fun a => mem_str (fst a) (map fst ps)) (dm h args) = forallb (fun a => mem_str (fst a) (map fst ps)) args).
  { unfold dm. induction args as [|[k x] args IH]; [reflexivity|]. cbn [map forallb fst snd]. rewrite IH. reflexivity. }
  rewrite Hf. destruct (negb (forallb _ args)); [reflexivity|]. apply bind_params_erases.
Qed.
(* MAIN THEOREM (c0): calling the constructor on references and looking at the result = calling it on what the references hold *)
Theorem exec_init_h_erases h ps ss args : exec_init ps ss (dm h args) = rmap (dm h) (exec_init_h h ps ss args).
Proof.
  unfold exec_init, exec_init_h. rewrite bind_args_erases. destruct (bind_args (HImm VNone) ps args) as [L|e]; cbn [rmap rbind]; [|reflexivity].
  apply (exec_istmts_h_erases h L ss []).
Qed.

(* ---------------------------------------------------------------- no slot aliases a caller-owned cell *)
Definition is_imm (x : hval) : Prop := match x with HImm _ => True | HCell _ => False end.
(* the variables whose REFERENCE can be the value of the expression *)
Fixpoint ref_vars (e : iexpr) : list string :=
  match e with
  | IVar x => [x]
  | IIfElse a _ b => ref_vars a ++ ref_vars b
  | _ => []
  end.
Lemma ieval_h_imm h L sl e y :
  Forall (fun s => is_imm (snd s)) sl -> (forall x v, In x (ref_vars e) -> assoc L x = Some v -> is_imm v) ->
  ieval_h h L sl e = Ok y -> is_imm y.
Proof.
  intros Hsl. revert y. induction e; intros y HL; cbn [ieval_h ref_vars] in *; try (intro H; inversion H; exact I).
  - destruct (assoc L x) as [v|] eqn:Ea; [|discriminate]. intro H; inversion H; subst. apply (HL x y (or_introl eq_refl) Ea).
  - destruct (assoc sl x) as [v|] eqn:Ea.
    + intro H; inversion H; subst. apply ri_assoc_in in Ea. rewrite Forall_forall in Hsl. exact (Hsl _ Ea).
    + destruct (String.eqb x "byte_size"); [intro H; inversion H; exact I | discriminate].
  - destruct (ieval_h h L sl e) as [x|]; cbn [rbind]; [|discriminate]. destruct (py_tuple_of (deref h x)); cbn [rbind]; [|discriminate]. intro H; inversion H; exact I.
  - destruct (ieval_h h L sl e) as [x|]; cbn [rbind]; [|discriminate]. destruct (py_len_of (deref h x)); cbn [rbind]; [|discriminate]. intro H; inversion H; exact I.
  - destruct (ieval_h h L sl e) as [x|]; cbn [rbind]; [|discriminate]. intro H; inversion H; exact I.
  - destruct (ieval_h h L sl e) as [x|]; cbn [rbind]; [|discriminate]. intro H; inversion H; exact I.
  - destruct (ieval_h h L sl e2) as [x|]; cbn [rbind]; [|discriminate]. destruct (py_truth (deref h x)).
    + apply IHe1. intros x0 v Hin. apply HL, in_or_app. left. exact Hin.
    + apply IHe3. intros x0 v Hin. apply HL, in_or_app. right. exact Hin.
Qed.
Definition stmt_ref_vars (s : istmt) : list string := match s with ISetSelf _ e => ref_vars e end.
Lemma exec_istmts_h_imm h L ss : forall sl sl',
  Forall (fun s => is_imm (snd s)) sl ->
  (forall s x v, In s ss -> In x (stmt_ref_vars s) -> assoc L x = Some v -> is_imm v) ->
  exec_istmts_h h L ss sl = Ok sl' -> Forall (fun s => is_imm (snd s)) sl'.
Proof.
  induction ss as [|[x e] ss IH]; intros sl sl' Hsl HL; cbn [exec_istmts_h]; [intro H; inversion H; subst; exact Hsl|].
  destruct (ieval_h h L sl e) as [y|err] eqn:Ee; cbn [rbind]; [|discriminate]. apply IH.
  - apply set_slot_forall; [exact Hsl|]. apply (ieval_h_imm h L sl e y Hsl); [|exact Ee].
    intros x0 v Hin. apply (HL (ISetSelf x e) x0 v (or_introl eq_refl) Hin).
  - intros s x0 v Hs. apply HL. right. exact Hs.
Qed.

(* the references the rendered statements store are those of non-array parameters *)
Definition instr_ref_names (i : einstr) : list string :=
  match i with
  | EField f => match f_name f with Some n => [n] | None => [] end
  | ESwitch field _ => [(field ++ "_data")%string]
  | _ => []
  end.
Lemma render_init_from_refs is : forall ps ss, render_init_from is = Some (ps, ss) ->
  forall s x, In s ss -> In x (stmt_ref_vars s) -> exists i, In i is /\ In x (instr_ref_names i).
Proof.
  induction is as [|i t IH]; intros ps ss; cbn [render_init_from]; [intro H; inversion H; intros s x []|].
  destruct (init_instr i) as [[p1 s1]|] eqn:Ei; [|discriminate]. destruct (render_init_from t) as [[p2 s2]|] eqn:Et; [|discriminate].
  intro H; inversion H; subst ps ss; clear H. intros s x Hs Hx. apply in_app_or in Hs as [Hs|Hs].
  2:{ destruct (IH p2 s2 eq_refl s x Hs Hx) as [i0 [Hi0 Hx0]]. exists i0. split; [right; exact Hi0 | exact Hx0]. }
  exists i. split; [left; reflexivity|].
  assert (Hlen : forall f n, In s (len_stmt f n) -> False).
  { intros f n Hin. unfold len_stmt in Hin. destruct (f_len f); try (destruct Hin; fail). destruct Hin as [<-|[]].
    destruct (f_optional f); cbn [stmt_ref_vars ref_vars app] in Hx; destruct Hx. }
  destruct i as [f|f d tr c| | |field cases| |]; cbn [init_instr] in Ei; try (inversion Ei; subst; destruct Hs; fail).
  - unfold init_fieldlike in Ei. destruct (f_name f) as [n|] eqn:Hn; [|inversion Ei; subst; destruct Hs].
    destruct (field_expr f n false) as [e|] eqn:Ee; [|discriminate]. inversion Ei; subst; clear Ei.
    destruct Hs as [<-|Hs]; [|exfalso; exact (Hlen f n Hs)]. cbn [stmt_ref_vars] in Hx. cbn [instr_ref_names]. rewrite Hn.
    unfold field_expr in Ee. destruct (f_hard f) as [lit|].
    + destruct (f_ty f); cbn [hard_expr] in Ee; try discriminate.
      * destruct (isdigit lit); inversion Ee; subst; destruct Hx.
      * destruct (String.eqb lit "true"); [inversion Ee; subst; destruct Hx|]. destruct (String.eqb lit "false"); inversion Ee; subst; destruct Hx.
      * inversion Ee; subst; destruct Hx.
    + inversion Ee; subst. exact Hx.
  - unfold init_fieldlike in Ei. destruct (f_name f) as [n|] eqn:Hn; [|discriminate].
    destruct (field_expr f n true) as [e|] eqn:Ee; [|discriminate]. inversion Ei; subst; clear Ei.
    destruct Hs as [<-|Hs]; [|exfalso; exact (Hlen f n Hs)]. cbn [stmt_ref_vars] in Hx.
    unfold field_expr in Ee. destruct (f_hard f); [discriminate|]. inversion Ee; subst.
    destruct (f_optional f); cbn [ref_vars app] in Hx; destruct Hx.
  - inversion Ei; subst; clear Ei. destruct Hs as [<-|[]]. cbn [stmt_ref_vars ref_vars] in Hx. exact Hx.
Qed.

Lemma flat_map_nodup_same {A} (g : A -> list string) is i1 i2 y :
  NoDup (flat_map g is) -> In i1 is -> In i2 is -> In y (g i1) -> In y (g i2) -> i1 = i2.
Proof.
  induction is as [|i t IH]; intros Hnd H1 H2 Hy1 Hy2; [destruct H1|]. cbn [flat_map] in Hnd.
  assert (Hdisj : forall j, In j t -> In y (g i) -> In y (g j) -> False).
  { intros j Hj Hyi Hyj. apply (ri_NoDup_app_disj _ _ y Hnd Hyi). apply in_flat_map. exists j. split; assumption. }
  destruct H1 as [<-|H1], H2 as [<-|H2]; [reflexivity | exfalso; eapply Hdisj; eassumption | exfalso; eapply Hdisj; eassumption|].
  apply IH; try assumption. eapply ri_NoDup_app_r; exact Hnd.
Qed.
Lemma ref_name_not_array is x i : NoDup (public_names is) -> In i is -> In x (instr_ref_names i) -> is_array_field is x = false.
Proof.
  intros Hnd Hi Hx. destruct (is_array_field is x) eqn:Ea; [|reflexivity]. exfalso.
  unfold is_array_field in Ea. apply existsb_exists in Ea as [j [Hj Hjx]].
  destruct j as [|f d t c| | | | |]; try discriminate Hjx. destruct (f_name f) as [n|] eqn:Hn; [|discriminate Hjx]. apply String.eqb_eq in Hjx. subst n.
  assert (Heq : i = EArray f d t c).
  { apply (flat_map_nodup_same instr_public is i (EArray f d t c) x Hnd Hi Hj).
    - destruct i as [f0| | | |field cases| |]; cbn [instr_ref_names instr_public] in *; try (destruct Hx; fail); exact Hx.
    - cbn [instr_public]. rewrite Hn. left. reflexivity. }
  subst i. destruct Hx.
Qed.
Lemma bind_params_assoc {A} (none : A) args : forall ps L x v,
  bind_params none ps args = Ok L -> assoc L x = Some v -> assoc args x = Some v \/ v = none.
Proof.
  induction ps as [|[n d] ps IH]; intros L x v; cbn [bind_params]; [intro H; inversion H; discriminate|].
  destruct (assoc args n) as [a|] eqn:Ea; cbn [rbind].
  - destruct (bind_params none ps args) as [rest|e] eqn:Er; cbn [rbind]; [|discriminate]. intro H; inversion H; subst. cbn [assoc].
    destruct (String.eqb n x) eqn:E; [apply String.eqb_eq in E; subst; intro H1; inversion H1; subst; left; exact Ea | apply (IH rest x v eq_refl)].
  - destruct d; cbn [rbind]; [|discriminate]. destruct (bind_params none ps args) as [rest|e] eqn:Er; cbn [rbind]; [|discriminate].
    intro H; inversion H; subst. cbn [assoc]. destruct (String.eqb n x); [intro H1; inversion H1; right; reflexivity | apply (IH rest x v eq_refl)].
Qed.

(* MAIN THEOREM (c1): called with arguments as annotated (references to caller-owned mutable cells only for array parameters:
   ObjModel.args_typed), the rendered constructor returns an instance none of whose slots is such a reference - array parameters end
   up copied - so every theorem of Properties/C19.v about `frozen` instances holds of it *)
Theorem rendered_init_frozen h cls is ps ss args sl :
  render_init is = Some (ps, ss) -> args_typed is args ->
  exec_init_h h ps ss args = Ok sl ->
  frozenb (mkInst cls sl) = true /\ frozen (mkInst cls sl).
Proof.
  intros Hr Hty Hex. destruct (render_init_inv is ps ss Hr) as [Hrf [Hnames [Hndp _]]].
  unfold exec_init_h in Hex. destruct (bind_args (HImm VNone) ps args) as [L|e] eqn:Eb; cbn [rbind] in Hex; [|discriminate].
  assert (Hall : Forall (fun s => is_imm (snd s)) sl).
  { apply (exec_istmts_h_imm h L ss [] sl (Forall_nil _)); [|exact Hex]. intros s x v Hs Hx Hv.
    destruct (render_init_from_refs is ps ss Hrf s x Hs Hx) as [i [Hi Hxi]].
    pose proof (ref_name_not_array is x i Hndp Hi Hxi) as Hna.
    unfold bind_args in Eb. destruct (negb (dup_free (map fst args))); [discriminate|]. destruct (negb (forallb _ args)); [discriminate|].
    destruct (bind_params_assoc _ args ps L x v Eb Hv) as [Ha| ->]; [|exact I].
    destruct v as [v|c]; [exact I|]. rewrite (Hty x c Ha) in Hna. discriminate Hna. }
  assert (Hfb : frozenb (mkInst cls sl) = true).
  { unfold frozenb. cbn [i_slots]. apply forallb_forall. intros s Hs. rewrite Forall_forall in Hall. specialize (Hall s Hs). destruct (snd s); [reflexivity | destruct Hall]. }
  split; [exact Hfb | apply Proofs.ObjModel.frozenb_frozen, Hfb].
Qed.

(* ---------------------------------------------------------------- against ObjModel.construct *)
(* a named field with a hardcoded value: the constructor ignores the argument *)
Definition hardcoded (is : list einstr) (n : string) : bool :=
  existsb (fun i => match i with
                    | EField f => match f_name f, f_hard f with Some m, Some _ => String.eqb m n | _, _ => false end
                    | _ => false
                    end) is.
Lemma bind_params_given {A} (none : A) args : forall ps L n a,
  bind_params none ps args = Ok L -> In n (map fst ps) -> assoc args n = Some a -> assoc L n = Some a.
Proof.
  induction ps as [|[n0 d] ps IH]; intros L n a; cbn [bind_params map fst]; [intros _ []|].
  destruct (match assoc args n0 with Some v => Ok v | None => if d then Ok none else Err EType end) as [v0|e] eqn:E0; cbn [rbind]; [|discriminate].
  destruct (bind_params none ps args) as [rest|e] eqn:Er; cbn [rbind]; [|discriminate]. intro H; inversion H; subst. intros Hin Ha. cbn [assoc].
  destruct (String.eqb n0 n) eqn:E.
  - apply String.eqb_eq in E. subst n0. rewrite Ha in E0. inversion E0; reflexivity.
  - destruct Hin as [Heq|Hin]; [subst; rewrite String.eqb_refl in E; discriminate|]. apply (IH rest n a eq_refl Hin Ha).
Qed.
Lemma imm_deref h y v : is_imm y -> deref h y = v -> y = HImm v.
Proof. destruct y; [intros _ <-; reflexivity | intros []]. Qed.

(* MAIN THEOREM (c2): the slot of every argument that was passed, unless the field is hardcoded, is the slot ObjModel.construct gives
   it - the reference itself for a non-array parameter, an immutable copy of the current content for an array parameter - when the
   call succeeds and every array argument is a list / tuple (or None) *)
Theorem rendered_init_vs_construct h cls is ps ss args sl :
  render_init is = Some (ps, ss) -> init_static_ok is = true -> args_typed is args ->
  exec_init_h h ps ss args = Ok sl ->
  forall n x, assoc args n = Some x -> hardcoded is n = false ->
              (is_array_field is n = true -> (exists l, deref h x = VList l) \/ deref h x = VNone) ->
              assoc sl n = assoc (i_slots (construct is cls h args)) n.
Proof.
  intros Hr Hst Hty Hex n x Ha Hhard Hlisty.
  destruct (rendered_init_frozen h cls is ps ss args sl Hr Hty Hex) as [Hfb _].
  destruct (render_init_inv is ps ss Hr) as [Hrf [Hnames [Hndp _]]]. destruct (init_static_parts is Hst) as [Hnd _].
  pose proof (exec_init_h_erases h ps ss args) as Her. rewrite Hex in Her. cbn [rmap] in Her.
  unfold exec_init in Her. destruct (bind_args VNone ps (dm h args)) as [L|e] eqn:Eb; cbn [rbind] in Her; [|discriminate].
  rewrite (render_init_from_run is ps ss L [] Hrf) in Her.
  (* n is a parameter, bound to what x holds *)
  assert (Hb := Eb). unfold bind_args in Hb. destruct (negb (dup_free (map fst (dm h args)))); [discriminate|].
  destruct (forallb (fun a => mem_str (fst a) (map fst ps)) (dm h args)) eqn:Ekeys; cbn [negb] in Hb; [|discriminate].
  assert (Hnp : In n (map fst ps)).
  { rewrite forallb_forall in Ekeys. apply ri_mem_In. apply (Ekeys (n, deref h x)).
    unfold dm. apply in_map_iff. exists (n, x). split; [reflexivity | apply ri_assoc_in, Ha]. }
  assert (HLn : assoc L n = Some (deref h x)).
  { apply (bind_params_given VNone (dm h args) ps L n (deref h x) Hb Hnp). rewrite dm_assoc, Ha. reflexivity. }
  (* the slot is immutable, so it is determined by what it holds *)
  assert (Hslot : forall v, assoc (dm h sl) n = Some v -> assoc sl n = Some (HImm v)).
  { intros v Hv. rewrite dm_assoc in Hv. destruct (assoc sl n) as [y|] eqn:Ey; [|discriminate]. cbn [option_map] in Hv. inversion Hv.
    f_equal. apply (imm_deref h); [|reflexivity]. unfold frozenb in Hfb. cbn [i_slots] in Hfb. rewrite forallb_forall in Hfb.
    specialize (Hfb (n, y) (ri_assoc_in _ _ _ Ey)). cbn [snd] in Hfb. destruct y; [exact I | discriminate Hfb]. }
  rewrite Proofs.ObjModel.construct_assoc, Ha. cbn [option_map]. unfold Proofs.ObjModel.ctor_slot.
  rewrite Hnames in Hnp. destruct (public_name_source is n Hnp) as [[f [Hf Hfn]]|[field [cases [Hin ->]]]].
  - apply has_fieldlike_flag in Hf as [array Hf].
    destruct (run_body_fieldlike_v L is [] (dm h sl) Hnd Her f array n Hf Hfn) as [v [Hfv [Hv _]]]. rewrite (Hslot v Hv).
    assert (Hnh : f_hard f = None).
    { destruct (f_hard f) as [lit|] eqn:Eh; [|reflexivity]. exfalso. destruct array.
      - destruct Hf as [d [t [c Hin]]]. clear - Hrf Hin Eh Hfn.
        revert ps ss Hrf. induction is as [|i0 t0 IH]; intros ps ss Hrf; [destruct Hin|]. cbn [render_init_from] in Hrf.
        destruct (init_instr i0) as [[p1 s1]|] eqn:Ei; [|discriminate]. destruct (render_init_from t0) as [[p2 s2]|] eqn:Et; [|discriminate].
        destruct Hin as [->|Hin]; [|exact (IH Hin p2 s2 eq_refl)].
        cbn [init_instr] in Ei. unfold init_fieldlike, field_expr in Ei. rewrite Hfn, Eh in Ei. discriminate Ei.
      - assert (Hx : hardcoded is n = true); [|rewrite Hx in Hhard; discriminate].
        unfold hardcoded. apply existsb_exists. exists (EField f). split; [exact Hf|]. rewrite Hfn, Eh. apply String.eqb_refl. }
    unfold field_value in Hfv. rewrite Hnh in Hfv. unfold lookup_param in Hfv. rewrite HLn in Hfv. cbn [rbind] in Hfv.
    destruct array.
    + assert (Harr : is_array_field is n = true).
      { destruct Hf as [d [t [c Hin]]]. unfold is_array_field. apply existsb_exists. exists (EArray f d t c). split; [exact Hin|]. rewrite Hfn. apply String.eqb_refl. }
      rewrite Harr. f_equal. f_equal. destruct (Hlisty Harr) as [[l Hl]|Hl]; rewrite Hl in Hfv |- *.
      * rewrite andb_false_r in Hfv. inversion Hfv; reflexivity.
      * destruct (f_optional f); cbn [andb py_is_none py_tuple_of] in Hfv; [inversion Hfv; reflexivity | discriminate Hfv].
    + inversion Hfv; subst v. assert (Harr : is_array_field is n = false).
      { apply (ref_name_not_array is n (EField f) Hndp Hf). cbn [instr_ref_names]. rewrite Hfn. left. reflexivity. }
      rewrite Harr. destruct x as [v|c]; [reflexivity|]. rewrite (Hty n c Ha) in Harr. discriminate Harr.
  - destruct (run_body_switch L is [] (dm h sl) Hnd Her field cases Hin) as [v [Hlk Hv]]. rewrite (Hslot v Hv).
    unfold lookup_param in Hlk. rewrite HLn in Hlk. inversion Hlk; subst v.
    assert (Harr : is_array_field is (field ++ "_data")%string = false).
    { apply (ref_name_not_array is _ (ESwitch field cases) Hndp Hin). left. reflexivity. }
    rewrite Harr. destruct x as [v|c]; [reflexivity|]. rewrite (Hty _ c Ha) in Harr. discriminate Harr.
Qed.

(* ... hence the snapshot property of C19 for the instance the rendered constructor returns: whatever the caller later does to the
   cells it passed, and under whatever heap, every serialization is the serialization of the object built from what the arguments
   held when the constructor ran *)
Corollary rendered_init_snapshot E h h' cls is ps ss args o ops :
  render_init is = Some (ps, ss) -> args_typed is args ->
  new_inst h cls ps ss args = Ok o ->
  exists sl, exec_init ps ss (dm h args) = Ok sl /\
  forall r bs, In (OBytes r bs) (snd (prun E h' o ops)) ->
    (r, bs) = (snd (serialize E cls (VObj cls sl) false), wdata (fst (serialize E cls (VObj cls sl) false))).
Proof.
  intros Hr Hty Hn. unfold new_inst in Hn. destruct (exec_init_h h ps ss args) as [hs|e] eqn:Ex; cbn [rbind] in Hn; [|discriminate].
  inversion Hn; subst o. exists (dm h hs). split; [rewrite exec_init_h_erases, Ex; reflexivity|].
  intros r bs Hin. destruct (rendered_init_frozen h cls is ps ss args hs Hr Hty Ex) as [_ Hfr].
  rewrite <- view_dm. exact (Proofs.ObjModel.prun_snapshot E (mkInst cls hs) h Hfr ops h' r bs Hin).
Qed.

(* ================================================================ where the models and the emitted constructor differ *)
Definition ifld (n : string) (ty : etype) : fieldspec := mkField (Some n) ty LNone false false true None 0.
Definition iopt (n : string) (ty : etype) : fieldspec := mkField (Some n) ty LNone false true true None 0.
Definition run_new (is : list einstr) (args : list (string * value)) : option (res value) :=
  match render_init is with Some (ps, ss) => Some (new_obj "D" ps ss args) | None => None end.
Definition run_slots (is : list einstr) (args : list (string * value)) : option (res slots) :=
  match render_init is with Some (ps, ss) => Some (exec_init ps ss args) | None => None end.
Definition run_slots_h (h : heap) (is : list einstr) (args : list (string * hval)) : option (res hslots) :=
  match render_init is with Some (ps, ss) => Some (exec_init_h h ps ss args) | None => None end.

(* 1. ctor_slots vs the text: None passed for a REQUIRED field that a length field refers to.  The text evaluates len(None):
      TypeError, no instance exists; `ctor_slots` (through Ser.length_slot, which maps None to None whether or not the field is
      optional) lists slots for such an "instance".  (init_model agrees with the text.)  Theorem (a) is about successful calls. *)
Example ctor_slots_len_of_none_differs :
  let body := [ELength "n" TChar 0 false true (Some "s"); EField (mkField (Some "s") (EStr false) (LRef "n") false false true None 252)] in
  let E := [mkSDef "D" body] in
  init_static_ok body = true /\ Proofs.Shaped.body_static body = true /\
  run_slots body [("s", VNone)] = Some (Err EType) /\
  init_model "D" body [("s", VNone)] = Err EType /\
  Proofs.RenderSer.ctor_slots E "D" [("s", VNone)] = [("s", VNone); ("n", VNone)].
Proof. repeat split; vm_compute; reflexivity. Qed.

(* 2. init_model abstains (Err EUnexpected = not modelled), the text answers: a str / bytes passed for an array parameter is
      iterated - tuple("ab") = ('a', 'b'), tuple(b"\x07\x08") = (7, 8) *)
Example init_model_abstains_on_text_array_argument :
  let body := [EArray (ifld "xs" (EInt TChar)) false false ACWhile] in
  init_static_ok body = true /\
  run_new body [("xs", VStr [97; 98])] = Some (Ok (VObj "D" [("xs", VList [VStr [97]; VStr [98]])])) /\
  init_model "D" body [("xs", VStr [97; 98])] = Err EUnexpected /\
  run_new body [("xs", VBytes [7; 8])] = Some (Ok (VObj "D" [("xs", VList [VInt 7; VInt 8])])) /\
  init_model "D" body [("xs", VBytes [7; 8])] = Err EUnexpected.
Proof. repeat split; vm_compute; reflexivity. Qed.

(* 3. init_model abstains, the text answers: keywords in another order, an optional parameter left out (-> None); and the two
      TypeErrors of a call that init_model does not distinguish from "not modelled": a missing required / an unknown keyword *)
Example init_model_abstains_on_other_calls :
  let body := [EField (ifld "a" (EInt TChar)); EField (iopt "b" (EInt TChar))] in
  init_static_ok body = true /\
  run_new body [("b", VInt 1); ("a", VInt 2)] = Some (Ok (VObj "D" [("a", VInt 2); ("b", VInt 1)])) /\
  init_model "D" body [("b", VInt 1); ("a", VInt 2)] = Err EUnexpected /\
  run_new body [("a", VInt 2)] = Some (Ok (VObj "D" [("a", VInt 2); ("b", VNone)])) /\
  init_model "D" body [("a", VInt 2)] = Err EUnexpected /\
  run_new body [("b", VInt 1)] = Some (Err EType) /\ init_model "D" body [("b", VInt 1)] = Err EUnexpected /\
  run_new body [("a", VInt 2); ("b", VInt 1); ("c", VInt 0)] = Some (Err EType) /\
  init_model "D" body [("a", VInt 2); ("b", VInt 1); ("c", VInt 0)] = Err EUnexpected.
Proof. repeat split; vm_compute; reflexivity. Qed.

(* 4. (static; the generator refuses it: "Cannot redefine" / a length attribute must name a LENGTH field) outside init_static_ok:
      a length attribute naming a public field - the text's `self._n = len(self._s)` overwrites the field's own slot *)
Example length_slot_overwrites_public_field_differs :
  let body := [EField (ifld "n" (EInt TChar)); EField (mkField (Some "s") (EStr false) (LRef "n") false false true None 252)] in
  init_static_ok body = false /\
  run_new body [("n", VInt 7); ("s", VStr [65; 66])] = Some (Ok (VObj "D" [("n", VInt 2); ("s", VStr [65; 66])])) /\
  init_model "D" body [("n", VInt 7); ("s", VStr [65; 66])] = Ok (VObj "D" [("n", VInt 7); ("s", VStr [65; 66])]).
Proof. repeat split; vm_compute; reflexivity. Qed.

(* 5. FINDINGS ABOUT THE REAL GENERATOR (it accepts both trees; reproduced by tools/render_init_collisions.py) - names the text cannot
      carry: a field `k_data` next to a switch on `k` gives two parameters of the same name: the emitted file is not Python
      ("SyntaxError: duplicate argument 'k_data' in function definition", the package cannot be imported) - render_init answers None
      and tools/py2stmt.py refuses the method; and a field called `len` (`tuple`) in a class that has a length-referenced field (an
      array): inside that `__init__` the call `len(self._s)` (`tuple(xs)`) reaches the PARAMETER, so every construction - by
      `deserialize` too - raises TypeError "'int' object is not callable".  tools/py2stmt.py refuses a method that makes such a call
      (ILen / ITuple denote the builtins); init_static_ok keeps every body with such a parameter outside the theorems. *)
Example unrenderable_and_shadowing_names :
  render_init [EField (ifld "k" (EInt TChar)); EField (ifld "k_data" (EInt TChar)); ESwitch "k" []] = None /\
  render_init [EField (ifld "self" (EInt TChar))] = None /\
  init_static_ok [EField (ifld "len" (EInt TChar))] = false /\
  init_static_ok [EArray (ifld "tuple" (EInt TChar)) false false ACWhile] = false.
Proof. repeat split; vm_compute; reflexivity. Qed.

(* 6. ObjModel.construct (property C19) vs the text.  `construct` maps over the arguments it is given; the text
      (a) stores the literal of a hardcoded field, whatever was passed; (b) binds an omitted optional parameter to None;
      (c) raises TypeError for a non-iterable array argument (None for a required array included), a missing required or an unknown
          keyword, where `construct` builds an instance;
      (d) iterates a str / bytes / bytearray passed for an array parameter (a tuple of characters / ints, not the text itself);
      (e) has one more slot per referenced length field (so `view` shows it).
      None of these affects C19's conclusions (they hold for every `frozen` instance, and the text's instance is frozen:
      rendered_init_frozen); rendered_init_vs_construct states where the two agree. *)
Example construct_differs :
  let hard := [EField (mkField (Some "magic") (EStr false) LNone false false true (Some "EO") 0)] in
  let opt := [EField (ifld "a" (EInt TChar)); EField (iopt "b" (EInt TChar))] in
  let arr := [EArray (ifld "xs" (EInt TChar)) false false ACWhile] in
  let lens := [ELength "n" TChar 0 false true (Some "s"); EField (mkField (Some "s") (EStr false) (LRef "n") false false true None 252)] in
  (* a *) run_slots_h [] hard [("magic", HImm (VStr [88]))] = Some (Ok [("magic", HImm (VStr [69; 79]))]) /\
          i_slots (construct hard "D" [] [("magic", HImm (VStr [88]))]) = [("magic", HImm (VStr [88]))] /\
  (* b *) run_slots_h [] opt [("a", HImm (VInt 1))] = Some (Ok [("a", HImm (VInt 1)); ("b", HImm VNone)]) /\
          i_slots (construct opt "D" [] [("a", HImm (VInt 1))]) = [("a", HImm (VInt 1))] /\
  (* c *) run_slots_h [] arr [("xs", HImm (VInt 5))] = Some (Err EType) /\
          i_slots (construct arr "D" [] [("xs", HImm (VInt 5))]) = [("xs", HImm (VInt 5))] /\
          run_slots_h [] arr [("xs", HImm VNone)] = Some (Err EType) /\
          run_slots_h [] arr [] = Some (Err EType) /\ i_slots (construct arr "D" [] []) = [] /\
          run_slots_h [] arr [("xs", HImm (VList [])); ("zz", HImm VNone)] = Some (Err EType) /\
  (* d *) run_slots_h [VBytes [7; 8]] arr [("xs", HCell 0)] = Some (Ok [("xs", HImm (VList [VInt 7; VInt 8]))]) /\
          i_slots (construct arr "D" [VBytes [7; 8]] [("xs", HCell 0)]) = [("xs", HImm (VBytes [7; 8]))] /\
  (* e *) run_slots_h [] lens [("s", HImm (VStr [65; 66]))] = Some (Ok [("s", HImm (VStr [65; 66])); ("n", HImm (VInt 2))]) /\
          i_slots (construct lens "D" [] [("s", HImm (VStr [65; 66]))]) = [("s", HImm (VStr [65; 66]))].
Proof. repeat split; vm_compute; reflexivity. Qed.

(* 7. the annotation of non-array parameters matters, in the text as in ObjModel (C19_alias_necessary): a bytearray passed for the
      NON-array blob parameter is stored as is - the slot aliases the caller's cell, the instance is not frozen *)
Example alias_when_not_annotated :
  let body := [EField (ifld "c" (EInt TChar)); EArray (ifld "xs" (EInt TShort)) false false (ACRemaining 2); EField (ifld "data" EBlob)] in
  let h := [VList [VInt 1; VInt 300]; VBytes [7; 8]] in
  run_slots_h h body [("c", HImm (VInt 5)); ("xs", HCell 0); ("data", HCell 1)]
  = Some (Ok [("c", HImm (VInt 5)); ("xs", HImm (VList [VInt 1; VInt 300])); ("data", HCell 1)]).
Proof. vm_compute; reflexivity. Qed.

(* ================================================================ non-vacuity: the worked program of Proofs/RenderDeser.v *)
Definition i_demo_prog : iparsed :=
  flat_map (fun d => match render_init (sd_body d) with Some pi => [(sd_name d, pi)] | None => [] end) Proofs.RenderDeser.d_demo_env.

Example i_demo_program_ok : program_ok_i Proofs.RenderDeser.d_demo_env i_demo_prog.
Proof.
  intro cls. cbn [Proofs.RenderDeser.d_demo_env env_find sd_name].
  destruct (String.eqb "Inner" cls) eqn:E1; [apply String.eqb_eq in E1; subst cls; eexists; split; [vm_compute; reflexivity | vm_compute; reflexivity]|].
  destruct (String.eqb "Outer" cls) eqn:E2; [apply String.eqb_eq in E2; subst cls; eexists; split; [vm_compute; reflexivity | vm_compute; reflexivity]|].
  assert (Hp : exists a b, i_demo_prog = [("Inner", a); ("Outer", b)]) by (eexists; eexists; vm_compute; reflexivity).
  destruct Hp as [a [b ->]]. cbn [assoc]. rewrite E1, E2. reflexivity.
Qed.

Example i_demo_run :
  let data := [2; 65; 66; 4; 255; 5; 255] in
  py_deserialize_i Proofs.RenderDeser.d_demo_prog i_demo_prog 3 "Outer" (initR data) = deser_struct 3 Proofs.RenderDeser.d_demo_env "Outer" (initR data) /\
  assoc i_demo_prog "Outer" =
    Some ([("s", false); ("items", false); ("tail", true)],
          [ISetSelf "s" (IVar "s"); ISetSelf "n" (ILen (ISelf "s")); ISetSelf "items" (ITuple (IVar "items")); ISetSelf "tail" (IVar "tail")]) /\
  (let inner x := VObj "Inner" [("x", VInt x)] in
   match assoc i_demo_prog "Outer" with
   | Some (ps, ss) => exec_init ps ss [("items", VList [inner 3; inner 4]); ("s", VStr [65; 66])]
   | None => Err EUnexpected
   end = Ok [("s", VStr [65; 66]); ("n", VInt 2); ("items", VList [inner 3; inner 4]); ("tail", VNone)]).
Proof.
  split; [apply (py_deserialize_i_correct Proofs.RenderDeser.d_demo_env [] Proofs.RenderDeser.d_demo_prog i_demo_prog Proofs.RenderDeser.d_demo_program_ok i_demo_program_ok)|].
  split; vm_compute; reflexivity.
Qed.

(* ================================================================ the properties: public_fields is what the parsed getters read *)
Lemma getters_eqb_eq a : forall b, getters_eqb a b = true -> a = b.
Proof.
  induction a as [|[x y] a IH]; intros [|[x' y'] b] H; cbn [getters_eqb] in H; try discriminate H; [reflexivity|].
  apply andb_true_iff in H as [H1 H2]. apply andb_true_iff in H1 as [H0 H1]. apply String.eqb_eq in H0, H1. subst. f_equal. apply IH, H2.
Qed.
Theorem render_detail_g_program files PG p :
  elab files = Ok p -> render_detail_g files PG = [] ->
  forall cls d, env_find (pk_env p) cls = Some d -> assoc PG cls = Some (render_getters (sd_body d)).
Proof.
  intros He Hd cls d Ef. unfold render_detail_g in Hd. rewrite He in Hd. apply app_eq_nil in Hd as [HA _].
  destruct (Proofs.RenderDeser.env_find_in _ _ _ Ef) as [Hin Hn]. pose proof (Proofs.RenderDeser.flat_map_nil _ _ HA d Hin) as Hx. cbv beta in Hx.
  rewrite Hn in Hx. destruct (assoc PG cls) as [gs|]; [|discriminate Hx].
  destruct (getters_eqb gs (render_getters (sd_body d))) eqn:E; [|discriminate Hx]. apply getters_eqb_eq in E. subst. reflexivity.
Qed.
Theorem public_fields_are_the_getters is ps sl :
  map fst ps = public_names is -> public_fields ps sl = read_getters (tl (render_getters is)) sl.
Proof.
  intro Hn. unfold render_getters. cbn [tl]. rewrite <- Hn. unfold public_fields, read_getters. clear Hn.
  induction ps as [|[n d] ps IH]; [reflexivity|]. cbn [map flat_map fst snd]. rewrite IH. reflexivity.
Qed.

(* ================================================================ the serialize side: the slots the PARSED constructors assign *)
(* Properties/C02R.v runs the parsed serialize methods on `ctor_slots E` (C02_program_is_ser_struct_on_shaped).  With theorem (a) the
   same holds when the slots of every object are those its parsed constructor assigns - for objects a constructor can have built. *)
Section SerializeWithParsedCtors.
  Import Proofs.RenderSer Proofs.Shaped.
  Variable E : env.
  Variable enums : list penum.
  Variable P : parsed.                (* class name -> statements parsed from its serialize method *)
  Variable PI : iparsed.              (* class name -> parameters and statements parsed from its __init__ method *)

  (* the private slots of the instance of class c whose public fields are flds: what the parsed constructor assigns when it is called
     with them (if that call raises there is no such instance; the public fields alone then) *)
  Definition parsed_slots (c : string) (flds : list (string * value)) : list (string * value) :=
    match assoc PI c with
    | Some pi => match exec_init (fst pi) (snd pi) flds with Ok sl => sl | Err _ => flds end
    | None => flds
    end.

  (* v is an instance its constructor can have built, and so is every object the serializer passes on (calls1: struct fields, array
     elements, case data): called with the object's own public fields, the parsed constructor returns that object.
     (Hardcoded fields hold their literal, arrays are tuples, length-referenced fields have a len().) *)
  Fixpoint built (fuel : nat) (cls : string) (v : value) : Prop :=
    match fuel with
    | O => True
    | S f =>
      match env_find E cls with
      | None => True
      | Some d =>
        match v with
        | VObj c flds => ctor_parsed PI c flds = Ok (VObj c flds) /\
                         Forall (fun p => built f (fst p) (snd p)) (flat_map (calls1 flds) (sd_body d))
        | _ => True
        end
      end
    end.

  Lemma instr_slots_ok_congr flds d1 d2 i :
    (forall k, assoc d1 k = assoc d2 k) -> instr_slots_ok flds d1 i -> instr_slots_ok flds d2 i.
  Proof.
    intro H. destruct i as [f|f dl t c|name t off o of rb| |field cases| |]; cbn [instr_slots_ok]; try exact (fun x => x).
    - unfold field_slots_ok. destruct (f_name f) as [n|]; [|exact (fun x => x)]. rewrite !H.
      intros [H1 [H2 H3]]. split; [exact H1|]. split; [exact H2|]. intros v Hv. destruct (H3 v Hv) as [H4 H5]. split; [|exact H5].
      destruct (f_len f) as [| |lf]; try exact I. rewrite <- H. exact H4.
    - unfold field_slots_ok. destruct (f_name f) as [n|]; [|exact (fun x => x)]. rewrite !H.
      intros [H1 [H2 H3]]. split; [exact H1|]. split; [exact H2|]. intros v Hv. destruct (H3 v Hv) as [H4 H5]. split; [|exact H5].
      destruct (f_len f) as [| |lf]; try exact I. rewrite <- H. exact H4.
    - rewrite !H. exact (fun x => x).
    - rewrite !H. exact (fun x => x).
  Qed.

  Lemma built_hok1 :
    program_ok_i E PI -> shape_static E = true ->
    forall fuel cls v, built fuel cls v -> hok1 E (ctor_slots E) fuel cls v -> hok1 E parsed_slots fuel cls v.
  Proof.
    intros HI Hst. induction fuel as [|f IH]; intros cls v Hb Hh; [exact I|]. cbn [hok1 built] in *.
    destruct (env_find E cls) as [d|]; [|exact I]. destruct v as [| | | | | |c flds]; try exact Hh.
    destruct Hb as [Hc Hbs], Hh as [Hs Hcalls]. split.
    - (* the slots of this object *)
      assert (Heq : forall k, assoc (ctor_slots E c flds) k = assoc (parsed_slots c flds) k).
      { unfold ctor_parsed in Hc. unfold parsed_slots. destruct (assoc PI c) as [[ps ss]|] eqn:Epi; [|discriminate Hc]. cbn [fst snd] in *.
        pose proof (HI c) as Hic. destruct (env_find E c) as [d'|] eqn:Ef'; [|rewrite Epi in Hic; discriminate Hic].
        destruct Hic as [pi [Hpi Hrc]]. rewrite Epi in Hpi. inversion Hpi; subst pi.
        destruct (i_render_class_inv d' (ps, ss) Hrc) as [Hr Hsi].
        destruct (new_obj_slots E c d' ps ss flds flds Ef' Hr Hsi (shape_static_at E c d' Hst Ef') Hc) as [sl [Hex Hsl]].
        rewrite Hex. intro k. symmetry. apply Hsl. }
      rewrite Forall_forall in *. intros i Hi. apply (instr_slots_ok_congr flds _ _ i Heq), Hs, Hi.
    - rewrite Forall_forall in *. intros p Hp. apply IH; [apply Hbs, Hp | apply Hcalls, Hp].
  Qed.

  (* MAIN THEOREM (serialize side): the program parsed from the generated text - serialize methods AND constructors - computes
     ser_struct on every shape-typed object that the constructors can have built *)
  Theorem py_serialize_i_correct :
    program_ok E enums P -> program_ok_i E PI -> shape_static E = true ->
    forall fuel cls v w, shapedb fuel E cls v = true -> built fuel cls v ->
    py_serialize P parsed_slots fuel cls v w = ser_struct fuel E cls v w.
  Proof.
    intros HP HI Hst fuel cls v w Hs Hb. apply (py_serialize_correct1 E enums P parsed_slots HP).
    apply built_hok1; [exact HI | exact Hst | exact Hb | apply shaped_hok1; assumption].
  Qed.
End SerializeWithParsedCtors.

(* non-vacuity: the worked object of Proofs/RenderSer.v is built by its parsed constructors *)
Definition s_demo_iprog : iparsed :=
  flat_map (fun d => match render_init (sd_body d) with Some pi => [(sd_name d, pi)] | None => [] end) Proofs.RenderSer.demo_env.
Example s_demo_program_ok_i : program_ok_i Proofs.RenderSer.demo_env s_demo_iprog.
Proof.
  intro cls. cbn [Proofs.RenderSer.demo_env env_find sd_name].
  destruct (String.eqb "Inner" cls) eqn:E1; [apply String.eqb_eq in E1; subst cls; eexists; split; [vm_compute; reflexivity | vm_compute; reflexivity]|].
  destruct (String.eqb "Outer" cls) eqn:E2; [apply String.eqb_eq in E2; subst cls; eexists; split; [vm_compute; reflexivity | vm_compute; reflexivity]|].
  assert (Hp : exists a b, s_demo_iprog = [("Inner", a); ("Outer", b)]) by (eexists; eexists; vm_compute; reflexivity).
  destruct Hp as [a [b ->]]. cbn [assoc]. rewrite E1, E2. reflexivity.
Qed.
Example s_demo_built :
  built Proofs.RenderSer.demo_env s_demo_iprog 2 "Outer" Proofs.RenderSer.demo_obj /\
  Proofs.Shaped.shapedb 2 Proofs.RenderSer.demo_env "Outer" Proofs.RenderSer.demo_obj = true /\
  Proofs.Shaped.shape_static Proofs.RenderSer.demo_env = true /\
  parsed_slots s_demo_iprog "Outer" [("s", VStr [65; 66]); ("items", VList []); ("tail", VNone)]
  = [("s", VStr [65; 66]); ("n", VInt 2); ("items", VList []); ("tail", VNone)].
Proof.
  split; [|split; [|split]]; try (vm_compute; reflexivity).
  cbn [built Proofs.RenderSer.demo_env env_find sd_name String.eqb Ascii.eqb Bool.eqb Proofs.RenderSer.demo_obj sd_body]. split; [vm_compute; reflexivity|].
  cbn. repeat constructor; cbn; vm_compute; reflexivity.
Qed.
